#!/usr/bin/env python3
"""ccshrink.py <case.ops> [out.ops] — minimise a `cc` history whose window() falls below two datagrams.

Delta-debugging on the request list (drop requests, then shrink numbers) against the REAL controllers:
every candidate is re-executed by harness bin `ccannot`, which also recomputes the observed (float-derived)
values, so the result is a valid corpus/replay file.  The failure predicate is the property text:
some `cc window` answer < 2 * current mtu.
"""
import os, re, subprocess, sys, tempfile

ROOT = os.path.abspath(os.path.join(os.path.dirname(__file__), '..'))
BIN = os.path.join(ROOT, '.cache', 'target', 'debug', 'ccannot')

def raw(line):
    return ' '.join(t for t in line.split() if '=' not in t)

def run(lines):
    with tempfile.NamedTemporaryFile('w', suffix='.ops', dir=os.path.join(ROOT, '.cache', 'tmp'), delete=False) as f:
        f.write('\n'.join(lines) + '\n')
    out = subprocess.run([BIN, '-v', f.name], stdout=subprocess.PIPE, text=True).stdout.splitlines()
    os.unlink(f.name)
    return [o.split(' => ') for o in out]

def fails(lines):
    mtu = None
    for req, resp in run(lines):
        w = req.split()
        if w[1] == 'new':
            mtu = int(w[3])
        elif w[1] == 'mtu' and resp.startswith('ok'):
            mtu = int(w[2])
        elif w[1] == 'window' and resp.startswith('ok ') and mtu is not None and int(resp[3:]) < 2 * mtu:
            return True
    return False

def ddmin(lines):
    head, body = lines[:1], lines[1:]
    n = 2
    while len(body) >= 2:
        chunk = max(1, len(body) // n)
        for i in range(0, len(body), chunk):
            cand = body[:i] + body[i + chunk:]
            if fails(head + cand + ['cc window']):
                body, n = cand, max(n - 1, 2)
                break
        else:
            if chunk == 1:
                break
            n = min(len(body), n * 2)
    return head + body

def shrink_numbers(lines):
    """two passes; per number try 0, 1, and the value rounded down to one significant digit"""
    for _ in range(2):
        for i in range(len(lines)):
            w = lines[i].split()
            for j in range(2, len(w)):
                if not w[j].isdigit() or int(w[j]) <= 1:
                    continue
                v = int(w[j])
                lead = int(str(v)[0]) * 10 ** (len(str(v)) - 1)
                for cand in (0, 1, lead):
                    if cand >= v:
                        continue
                    w2 = list(w); w2[j] = str(cand)
                    trial = lines[:i] + [' '.join(w2)] + lines[i + 1:]
                    if fails(trial + ['cc window']):
                        lines, w = trial, w2
                        break
    return lines

def main():
    src = [raw(l) for l in open(sys.argv[1]).read().splitlines() if l.startswith('cc ')]
    src = [l for l in src if l != 'cc window']
    if not fails(src + ['cc window']):
        # the failing read may be in the middle: keep the window reads then
        src = [raw(l) for l in open(sys.argv[1]).read().splitlines() if l.startswith('cc ')]
        if not fails(src):
            print('input does not fail'); sys.exit(1)
    small = shrink_numbers(ddmin(src)) + ['cc window']
    res = run(small)
    text = '\n'.join(r[0] for r in res) + '\n'
    if len(sys.argv) > 2:
        open(sys.argv[2], 'w').write(text)
    for r in res:
        print(' => '.join(r))

if __name__ == '__main__':
    main()
