"""Per-property configuration of the checks (what is built, which campaigns run, budgets)."""

TRUSTED = [
    "Lean 4.33.0 kernel; axioms audited per theorem with #print axioms: subset of {propext, Classical.choice, Quot.sound}; no sorry/admit/native_decide/bv_decide/user axioms",
    "tools/gen_from_source.py + rustexpr.py (T1 translator of constants/guards from the Rust source)",
    "correspondence harness (harness/, quinn_proto::verif hook executors, generators): model = code established on executed cases only",
    "statements in lean/QuinnModel/Props/*.lean are faithful renderings of properties.jsonl (human review)",
]

# component -> (quick cases, thorough cases, max ops per case)
MICRO = {
    'varint': (1500, 40000, 40),
    'pn': (1500, 40000, 40),
    'dedup': (2000, 50000, 60),
}

PROPS = {
    'C10': dict(
        micro=['varint', 'pn'],
        sim=[],
        modelled="varint.rs (VarInt::{from_u64,size,encode,decode}), packet.rs PacketNumber::{new,encode,decode,expand}",
        not_modelled="frames, headers, transport parameters, tokens: listed as growth in DESIGN 5.10",
    ),
    'C04': dict(
        micro=['dedup'],
        sim=[],
        modelled="spaces.rs Dedup::insert (u128 window as Nat mod 2^128)",
        not_modelled="AEAD (ideal by hypothesis), receive pipeline glue in Connection::handle_packet",
    ),
}
