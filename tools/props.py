"""Per-property configuration of the checks (what is built, which campaigns run, budgets)."""

TRUSTED = [
    "Lean 4.33.0 kernel; axioms audited per theorem with #print axioms: subset of {propext, Classical.choice, Quot.sound}; no sorry/admit/native_decide/bv_decide/user axioms",
    "tools/gen_from_source.py + rustexpr.py (T1 translator of constants/guards from the Rust source)",
    "correspondence harness (harness/, quinn_proto::verif hook executors, generators): model = code established on executed cases only",
    "statements in lean/QuinnModel/Props/*.lean are faithful renderings of properties.jsonl (human review)",
]


# component -> (quick cases, thorough cases, max ops per case); property -> config.
# Both are assembled from tools/props.d/*.py: each plugin may define MICRO (dict) and PROPS (dict);
# PROPS entries for the same property are merged (lists concatenated, strings joined with '; ').
import glob, importlib.util, os
MICRO, PROPS = {}, {}
for _p in sorted(glob.glob(os.path.join(os.path.dirname(__file__), 'props.d', '*.py'))):
    _s = importlib.util.spec_from_file_location('props_' + os.path.basename(_p)[:-3], _p)
    _m = importlib.util.module_from_spec(_s); _s.loader.exec_module(_m)
    MICRO.update(getattr(_m, 'MICRO', {}))
    for _k, _v in getattr(_m, 'PROPS', {}).items():
        _d = PROPS.setdefault(_k, dict(micro=[], sim=[], modelled='', not_modelled=''))
        for _f, _x in _v.items():
            if isinstance(_x, list):
                _d[_f] = _d.get(_f, []) + [y for y in _x if y not in _d.get(_f, [])]
            elif isinstance(_x, str):
                _d[_f] = (_d.get(_f, '') + '; ' + _x).strip('; ')
            else:
                _d[_f] = _x
