#!/usr/bin/env python3
"""T1: regenerate lean/QuinnModel/Gen/*.lean from the current /repo sources.

Each anchor is (lean name, source file, extractor).  An extractor that cannot find or parse its anchor
produces a definition that does not elaborate (so every Props module depending on it fails to build)
and the anchor is listed in Gen/BREAKS.txt as translation-break:<anchor>.
Files are rewritten only when their content changes (keeps lake incremental).
"""
import os, re, sys, json
sys.path.insert(0, os.path.dirname(__file__))
from rustexpr import TranslateError, fn_body, translate_block, translate_expr

REPO = os.environ.get('VERIF_REPO', '/repo')
OUT = os.path.join(os.path.dirname(__file__), '..', 'lean', 'QuinnModel', 'Gen')

def read(rel):
    with open(os.path.join(REPO, rel)) as f:
        return f.read()

def strip_comments(s):
    return re.sub(r'//[^\n]*', '', s)

SIZEOF = {'u8': 1, 'u16': 2, 'u32': 4, 'u64': 8, 'u128': 16, 'usize': 8}

def const_value(text, name):
    """Evaluate `const NAME: T = <integer expression>;`"""
    m = re.search(r'\bconst\s+' + re.escape(name) + r'\s*:\s*[^=]+=\s*([^;]+);', text)
    if not m:
        raise TranslateError(f'const {name} not found')
    e = strip_comments(m.group(1))
    def sizeof(mm):
        t = mm.group(1)
        if t not in SIZEOF:
            a = re.search(r'\btype\s+' + re.escape(t) + r'\s*=\s*(\w+)\s*;', text)
            if not a:
                raise TranslateError(f'size_of {t}')
            t = a.group(1)
        return str(SIZEOF[t])
    e = re.sub(r'(?:std::mem::|mem::)?size_of::<(\w+)>\(\)', sizeof, e)
    e = re.sub(r'(\w+)::BITS', lambda mm: str(SIZEOF[mm.group(1)] * 8) if mm.group(1) in SIZEOF else mm.group(0), e)
    e = re.sub(r'\bas\s+\w+', '', e)
    e = re.sub(r'(\d)_(?=\d)', r'\1', e)
    e = re.sub(r'(\d)(?:u8|u16|u32|u64|u128|usize)\b', r'\1', e)
    e = re.sub(r'(\d+)\.pow\((\d+)\)', r'(\1**\2)', e)
    e = re.sub(r'VarInt::from_u32\(([^)]*)\)|VarInt\(([^)]*)\)', lambda mm: mm.group(1) or mm.group(2), e)
    # references to other consts in the same file
    for ref in set(re.findall(r'\b[A-Z][A-Z0-9_]{2,}\b', e)):
        if ref != name:
            e = re.sub(r'\b' + ref + r'\b', str(const_value(text, ref)), e)
    if not re.fullmatch(r'[\s0-9xa-fA-F+\-*/()<>|&]*', e):
        raise TranslateError(f'const {name}: unsupported expression {e.strip()!r}')
    return int(eval(e.replace('/', '//')))

class Gen:
    def __init__(self):
        self.lines = []
        self.breaks = []
        self.anchors = []

    def nat(self, lean, anchor, f):
        self.anchors.append(anchor)
        try:
            v = f()
            self.lines.append(f"/-- {anchor} -/\ndef {lean} : Nat := {v}")
        except (TranslateError, Exception) as e:  # noqa
            self.breaks.append(f"translation-break:{anchor} ({e})")
            self.lines.append(f"/-- {anchor}: TRANSLATION BREAK {str(e)[:80]} -/\ndef {lean} : Nat := translation_break_{lean}")

    def term(self, lean, ty, anchor, f):
        self.anchors.append(anchor)
        try:
            v = f()
            self.lines.append(f"/-- {anchor} -/\ndef {lean} : {ty} := {v}")
        except (TranslateError, Exception) as e:  # noqa
            self.breaks.append(f"translation-break:{anchor} ({e})")
            self.lines.append(f"/-- {anchor}: TRANSLATION BREAK -/\ndef {lean} : {ty} := translation_break_{lean}")


def varint_chain(fn, expect_results=None):
    """thresholds of the `x < 2u64.pow(N)` chain in VarInt::<fn>"""
    text = read('quinn-proto/src/varint.rs')
    body = strip_comments(fn_body(text, fn, after='impl Codec for VarInt' if fn == 'encode' else None))
    ns = [int(n) for n in re.findall(r'x\s*<\s*2u64\.pow\((\d+)\)', body)]
    if len(ns) != 4:
        raise TranslateError(f'VarInt::{fn}: expected 4 thresholds, found {ns}')
    if re.search(r'x\s*<=', body):
        raise TranslateError(f'VarInt::{fn}: comparison shape changed')
    if expect_results is not None:
        rs = [int(r) for r in re.findall(r'x\s*<\s*2u64\.pow\(\d+\)\s*\{\s*(\d+)\s*\}', body)]
        if rs != expect_results:
            raise TranslateError(f'VarInt::size results {rs}')
    return ns

def varint_tags():
    text = read('quinn-proto/src/varint.rs')
    body = strip_comments(fn_body(text, 'encode', after='impl Codec for VarInt'))
    tags = re.findall(r'\((0b[01]+)\s*<<\s*(\d+)\)', body)
    vals = [int(t, 0) << int(s) for t, s in tags]
    if len(vals) != 3:
        raise TranslateError(f'VarInt::encode tags {tags}')
    return vals

def pn_new_chain():
    text = read('quinn-proto/src/packet.rs')
    body = strip_comments(fn_body(text, 'new', after='impl PacketNumber'))
    if not re.search(r'let\s+range\s*=\s*\(n\s*-\s*largest_acked\)\s*\*\s*2\s*;', body):
        raise TranslateError('PacketNumber::new: range expression changed')
    ns = [int(n) for n in re.findall(r'range\s*<\s*1\s*<<\s*(\d+)', body)]
    arms = re.findall(r'Self::(U\d+)\(n as (u\d+)\)', body)
    if len(ns) != 4 or arms != [('U8', 'u8'), ('U16', 'u16'), ('U24', 'u32'), ('U32', 'u32')]:
        raise TranslateError(f'PacketNumber::new: chain {ns} arms {arms}')
    return ns

def main():
    g = Gen()
    # ---- varint.rs
    for i, k in enumerate(['1', '2', '4', '8']):
        g.nat(f'varintSizeT{k}', f'quinn-proto/src/varint.rs::VarInt::size threshold {i}',
              lambda i=i: f"2^{varint_chain('size', [1, 2, 4, 8])[i]}")
        g.nat(f'varintT{k}', f'quinn-proto/src/varint.rs::VarInt::encode threshold {i}',
              lambda i=i: f"2^{varint_chain('encode')[i]}")
    g.nat('varintFromU64Bound', 'quinn-proto/src/varint.rs::VarInt::from_u64',
          lambda: "2^" + re.search(r'if\s+x\s*<\s*2u64\.pow\((\d+)\)', fn_body(read('quinn-proto/src/varint.rs'), 'from_u64')).group(1))
    for i, k in enumerate(['2', '4', '8']):
        g.nat(f'varintTag{k}', f'quinn-proto/src/varint.rs::VarInt::encode tag {k}', lambda i=i: varint_tags()[i])
    # ---- packet.rs
    for i in range(4):
        g.nat(f'pnNewBits{i+1}', f'quinn-proto/src/packet.rs::PacketNumber::new threshold {i}',
              lambda i=i: pn_new_chain()[i])
    # ---- spaces.rs
    g.nat('dedupWindowSize', 'quinn-proto/src/connection/spaces.rs::WINDOW_SIZE',
          lambda: const_value(read('quinn-proto/src/connection/spaces.rs'), 'WINDOW_SIZE'))

    extra = os.path.join(os.path.dirname(__file__), 'gen_extra.py')
    if os.path.exists(extra):
        import importlib.util
        spec = importlib.util.spec_from_file_location('gen_extra', extra)
        mod = importlib.util.module_from_spec(spec); spec.loader.exec_module(mod)
        mod.extend(g, read, const_value, fn_body, strip_comments, translate_block, translate_expr, TranslateError)

    body = "-- GENERATED by tools/gen_from_source.py from the Rust sources under /repo on every check run.\n" \
           "-- Do not edit: the theorems in Props/ are re-checked against these definitions.\n" \
           "namespace QM.Gen\n\n" + "\n\n".join(g.lines) + "\n\nend QM.Gen\n"
    os.makedirs(OUT, exist_ok=True)
    path = os.path.join(OUT, 'Consts.lean')
    old = open(path).read() if os.path.exists(path) else None
    if old != body:
        with open(path, 'w') as f:
            f.write(body)
    with open(os.path.join(OUT, 'BREAKS.txt'), 'w') as f:
        f.write("\n".join(g.breaks) + ("\n" if g.breaks else ""))
    print(json.dumps({'anchors': len(g.anchors), 'breaks': g.breaks, 'changed': old != body}))

if __name__ == '__main__':
    main()
