#!/usr/bin/env python3
"""T1: regenerate lean/QuinnModel/Gen/*.lean from the current /repo sources.

Each anchor is (lean name, source file, extractor).  An extractor that cannot find or parse its anchor
produces a definition that does not elaborate (so every Props module depending on it fails to build)
and the anchor is listed in Gen/BREAKS.txt as translation-break:<anchor>.
Files are rewritten only when their content changes (keeps lake incremental).

Options (used by tools/check.py so that a check of property P depends only on the source anchors P's
theorems and correspondence components depend on):
  --only A,B     regenerate from the source only Gen/A.lean, Gen/B.lean; every other Gen file gets the
                 committed baseline tools/gen_baseline/<Name>.lean (what the pinned tree translates to)
  --fallback     a broken anchor takes its baseline definition instead of a non-elaborating one (second
                 pass, after the break was recorded, so that the driver links and the search for a
                 concrete failing input can run the model)
  --write-baseline   refresh tools/gen_baseline from the current tree (maintainer action, committed)
"""
import os, re, sys, json
sys.path.insert(0, os.path.dirname(os.path.abspath(__file__)))
from rustexpr import TranslateError, fn_body, translate_block, translate_expr

REPO = os.environ.get('VERIF_REPO', '/repo')
OUT = os.path.join(os.path.dirname(__file__), '..', 'lean', 'QuinnModel', 'Gen')

def read(rel):
    with open(os.path.join(REPO, rel)) as f:
        return f.read()

def strip_comments(s):
    return re.sub(r'//[^\n]*', '', s)

SIZEOF = {'u8': 1, 'u16': 2, 'u32': 4, 'u64': 8, 'u128': 16, 'usize': 8}

def const_value(text, name):
    """Evaluate `const NAME: T = <integer expression>;`"""
    m = re.search(r'\bconst\s+' + re.escape(name) + r'\s*:\s*[^=]+=\s*([^;]+);', text)
    if not m:
        raise TranslateError(f'const {name} not found')
    e = strip_comments(m.group(1))
    def sizeof(mm):
        t = mm.group(1)
        if t not in SIZEOF:
            a = re.search(r'\btype\s+' + re.escape(t) + r'\s*=\s*(\w+)\s*;', text)
            if not a:
                raise TranslateError(f'size_of {t}')
            t = a.group(1)
        return str(SIZEOF[t])
    e = re.sub(r'(?:std::mem::|mem::)?size_of::<(\w+)>\(\)', sizeof, e)
    e = re.sub(r'(\w+)::BITS', lambda mm: str(SIZEOF[mm.group(1)] * 8) if mm.group(1) in SIZEOF else mm.group(0), e)
    e = re.sub(r'\bas\s+\w+', '', e)
    e = re.sub(r'(\d)_(?=\d)', r'\1', e)
    e = re.sub(r'(\d)(?:u8|u16|u32|u64|u128|usize)\b', r'\1', e)
    e = re.sub(r'(\d+)\.pow\((\d+)\)', r'(\1**\2)', e)
    e = re.sub(r'VarInt::from_u32\(([^)]*)\)|VarInt\(([^)]*)\)', lambda mm: mm.group(1) or mm.group(2), e)
    # references to other consts in the same file
    for ref in set(re.findall(r'\b[A-Z][A-Z0-9_]{2,}\b', e)):
        if ref != name:
            e = re.sub(r'\b' + ref + r'\b', str(const_value(text, ref)), e)
    if not re.fullmatch(r'[\s0-9xa-fA-F+\-*/()<>|&]*', e):
        raise TranslateError(f'const {name}: unsupported expression {e.strip()!r}')
    return int(eval(e.replace('/', '//')))

BASE = os.path.join(os.path.dirname(os.path.abspath(__file__)), 'gen_baseline')

def baseline_blocks(name):
    """lean def name -> baseline block (doc comment + def) of Gen/<name>.lean"""
    path = os.path.join(BASE, name + '.lean')
    out = {}
    if os.path.exists(path):
        for blk in open(path).read().split('\n\n'):
            m = re.search(r'^def\s+([A-Za-z0-9_\']+)', blk, flags=re.M)
            if m:
                out[m.group(1)] = blk.strip('\n')
    return out

class Gen:
    def __init__(self, base=None):
        self.lines = []
        self.breaks = []
        self.anchors = []
        self.base = base      # fallback blocks, or None = strict

    def broken(self, lean, anchor, e, text):
        self.breaks.append(f"translation-break:{anchor} ({e})")
        if self.base is not None and lean in self.base:
            self.lines.append(self.base[lean].replace('/-- ', '/-- [BASELINE FALLBACK, anchor broken] ', 1))
        else:
            self.lines.append(text)

    def nat(self, lean, anchor, f):
        self.anchors.append(anchor)
        try:
            v = f()
            self.lines.append(f"/-- {anchor} -/\ndef {lean} : Nat := {v}")
        except (TranslateError, Exception) as e:  # noqa
            self.broken(lean, anchor, e, f"/-- {anchor}: TRANSLATION BREAK {str(e)[:80]} -/\ndef {lean} : Nat := translation_break_{lean}")

    def fn(self, lean, sig, anchor, f):
        """def <lean> <sig> := <translated term>, e.g. sig = "(a b : Nat) : Bool" """
        self.anchors.append(anchor)
        try:
            v = f()
            self.lines.append(f"/-- {anchor} -/\ndef {lean} {sig} := {v}")
        except (TranslateError, Exception) as e:  # noqa
            self.broken(lean, anchor, e, f"/-- {anchor}: TRANSLATION BREAK {str(e)[:80]} -/\ndef {lean} {sig} := translation_break_{lean}")

    def term(self, lean, ty, anchor, f):
        self.anchors.append(anchor)
        try:
            v = f()
            self.lines.append(f"/-- {anchor} -/\ndef {lean} : {ty} := {v}")
        except (TranslateError, Exception) as e:  # noqa
            self.broken(lean, anchor, e, f"/-- {anchor}: TRANSLATION BREAK -/\ndef {lean} : {ty} := translation_break_{lean}")


def write_if_changed(path, body):
    old = open(path).read() if os.path.exists(path) else None
    if old != body:
        with open(path, 'w') as f:
            f.write(body)
    return old != body

class Api:
    read = staticmethod(read)
    strip_comments = staticmethod(strip_comments)
    const_value = staticmethod(const_value)
    fn_body = staticmethod(fn_body)
    translate_block = staticmethod(translate_block)
    translate_expr = staticmethod(translate_expr)
    TranslateError = TranslateError

def main():
    import importlib.util, glob
    os.makedirs(OUT, exist_ok=True)
    breaks, nanch, changed, ignored = [], 0, False, []
    args = sys.argv[1:]
    only = None
    if '--only' in args:
        only = set(x for x in args[args.index('--only') + 1].split(',') if x)
    fallback = '--fallback' in args
    write_base = '--write-baseline' in args
    if write_base:
        os.makedirs(BASE, exist_ok=True)
    for plug in sorted(glob.glob(os.path.join(os.path.dirname(__file__), 'gen.d', '*.py'))):
        spec = importlib.util.spec_from_file_location('gen_' + os.path.basename(plug)[:-3], plug)
        mod = importlib.util.module_from_spec(spec); spec.loader.exec_module(mod)
        g = Gen(baseline_blocks(mod.NAME) if fallback else None)
        mod.extend(g, Api)
        body = ("-- GENERATED by tools/gen_from_source.py (plugin gen.d/%s) from the Rust sources under /repo on every check run.\n"
                "-- Do not edit: the theorems in Props/ are re-checked against these definitions.\n"
                "namespace QM.Gen\n\n" % os.path.basename(plug)) + "\n\n".join(g.lines) + "\n\nend QM.Gen\n"
        bpath = os.path.join(BASE, mod.NAME + '.lean')
        if write_base:
            if g.breaks:
                print('refusing to write a baseline with breaks:', g.breaks); sys.exit(1)
            write_if_changed(bpath, body)
        if only is not None and mod.NAME not in only and os.path.exists(bpath):
            # not in this property's dependency closure: pinned translation, source changes there are not its business
            changed |= write_if_changed(os.path.join(OUT, mod.NAME + '.lean'), open(bpath).read())
            ignored += [f'{mod.NAME}: {b}' for b in g.breaks]
            continue
        changed |= write_if_changed(os.path.join(OUT, mod.NAME + '.lean'), body)
        breaks += [f'{b} [Gen/{mod.NAME}]' for b in g.breaks]
        nanch += len(g.anchors)
    with open(os.path.join(OUT, 'BREAKS.txt'), 'w') as f:
        f.write("\n".join(breaks) + ("\n" if breaks else ""))
    print(json.dumps({'anchors': nanch, 'breaks': breaks, 'changed': changed, 'outside_closure': ignored}))

if __name__ == '__main__':
    main()
