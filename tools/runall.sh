#!/bin/bash
# run every claimed check of the given tier in sequence; print the summary lines
tier=${1:-quick}
cd "$(dirname "$0")/.."
rc=0
for p in $(python3 -c "import json;print(' '.join(c['property_id'] for c in json.load(open('MANIFEST.json'))['checks']))"); do
  ./check $p $tier 2>&1 | grep -E "^(VIOLATION|C[0-9]+ $tier:|INFRA)" | cut -c1-300
  [ ${PIPESTATUS[0]} -ne 0 ] && rc=1
done
exit $rc
