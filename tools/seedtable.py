#!/usr/bin/env python3
"""Markdown table of /verif/seeded/*/meta.json (which check caught which seeded change, and how)."""
import json, glob, os, re
rows = []
for d in sorted(glob.glob(os.path.join(os.path.dirname(__file__), '..', 'seeded', '*'))):
    mp = os.path.join(d, 'meta.json')
    if not os.path.exists(mp):
        continue
    m = json.load(open(mp))
    v = m.get('verification', {})
    conf = v.get('confirmed', {})
    ok = all(conf.get(k) for k in ('builds', 'suite_passes', 'demo_fails_with_patch', 'demo_passes_without_patch'))
    cells = []
    for p, r in sorted(v.get('checks', {}).items(), key=lambda kv: (kv[0] != m.get('property'), kv[0])):
        how = 'MISSED' if p == m.get('property') else 'not reported (secondary property, run for information)'
        if r['exit'] == 2:
            how = 'infrastructure error at the time (since then a run-away simulator is reported as a violation)'
        if r['exit'] == 1:
            rp = os.path.join(d, f'replay-{p}.json')
            kind = key = ''
            if os.path.exists(rp):
                j = json.load(open(rp))
                kind = j.get('kind', '')
                key = j.get('key', '')
                if not key and j.get('divergences'):
                    key = 'model≠impl on ' + j['divergences'][0].get('component', '?')
                if not key and j.get('no_longer_checks'):
                    key = j['no_longer_checks'][0].split(':')[0]
            nf = any('no-failing-input-found' in l for l in r['lines'])
            how = f"caught ({kind}{': ' + key if key else ''}{'; no failing input' if nf else '; concrete replay'})"
        cells.append(f'{p}: {how} [{r["wall"]:.0f}s]')
    needs = (m.get('needs') or '')[:160].replace('|', '/')
    files = ', '.join(os.path.basename(f) for f in m.get('files_changed', []))
    rows.append(f"| `{os.path.basename(d)}` | {m.get('property','')} | {files} | {needs} | {'yes' if ok else 'NO: ' + json.dumps(conf)[:80]} | {'<br>'.join(cells)} |")
import sys
out = []
_print = print
def print(x):
    out.append(x)
print('| seeded change | property | file | needs to manifest | confirmed (builds, suite passes, demo fails with / passes without) | checks run against it |')
print('|---|---|---|---|---|---|')
print('\n'.join(rows))

if '--write' in sys.argv:
    dp = os.path.join(os.path.dirname(__file__), '..', 'DESIGN.md')
    d = open(dp).read()
    a = d.index('<!-- SEEDTABLE:BEGIN -->') + len('<!-- SEEDTABLE:BEGIN -->')
    b = d.index('<!-- SEEDTABLE:END -->')
    open(dp, 'w').write(d[:a] + '\n' + '\n'.join(out) + '\n' + d[b:])
else:
    _print('\n'.join(out))
