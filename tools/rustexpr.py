"""Tiny translator for a subset of Rust expressions / statement blocks to Lean 4 terms over Nat/Bool.

Supported: integer literals (with _ and type suffixes), identifiers, `self.a.b`, paths `A::B`, unary `!`,
binary + - * / % << >> < <= > >= == != && ||, parentheses, `as T` (ignored: widening only),
`u64::from(e)`, `T::from(e)`, `Some(e)` (-> `some e`; `==`/`!=` on options need DecidableEq of the Lean
type), method calls .min .max .saturating_sub .saturating_add .pow .into(), argument-less methods named in
the rename map as `<lean receiver>.<method>()` (e.g. `side.is_client()`),
`if c { a } else if ... else { b }`, blocks with `let x = e;` and trailing expression, early
`return e;` inside `if c { return e; }` statements.  Subtraction is translated to truncated Nat
subtraction ONLY via `sub` hook: plain `-` becomes `(a - b)` and the caller is responsible for knowing the
Rust code guarantees a >= b (or that a checked build panics) -- anchors that use plain `-` are listed
in DESIGN.md section 2.2.
Anything else raises TranslateError, which the generator reports as translation-break:<anchor>.
"""
import re

class TranslateError(Exception):
    pass

TOK = re.compile(r"""
    (?P<ws>\s+|//[^\n]*|/\*.*?\*/)
  | (?P<num>0x[0-9a-fA-F_]+|0b[01_]+|[0-9][0-9_]*)(?P<suf>(?:u8|u16|u32|u64|u128|usize|i32|i64))?
  | (?P<id>[A-Za-z_][A-Za-z0-9_]*)
  | (?P<op><<|>>|<=|>=|==|!=|&&|\|\||::|->|=>|[-+*/%<>!=(){}\[\];,.:&|])
""", re.X | re.S)

def tokenize(src):
    out = []
    i = 0
    while i < len(src):
        m = TOK.match(src, i)
        if not m:
            raise TranslateError(f"cannot tokenize at {src[i:i+20]!r}")
        i = m.end()
        if m.group('ws'):
            continue
        if m.group('num'):
            t = m.group('num').replace('_', '')
            out.append(('num', int(t, 0)))
        elif m.group('id'):
            out.append(('id', m.group('id')))
        else:
            out.append(('op', m.group('op')))
    return out

PREC = {'||': 1, '&&': 2, '==': 3, '!=': 3, '<': 3, '<=': 3, '>': 3, '>=': 3,
        '|': 4, '&': 5, '<<': 6, '>>': 6, '+': 7, '-': 7, '*': 8, '/': 8, '%': 8}
LEANOP = {'||': '||', '&&': '&&', '==': '==', '!=': '!=', '<': '<', '<=': '<=', '>': '>', '>=': '>=',
          '+': '+', '-': '-', '*': '*', '/': '/', '%': '%', '<<': '<<<', '>>': '>>>', '|': '|||', '&': '&&&'}
BOOLOPS = {'||', '&&', '==', '!=', '<', '<=', '>', '>='}

class P:
    def __init__(self, toks, rename):
        self.t = toks
        self.i = 0
        self.rename = rename  # dict: rust path string -> lean term

    def peek(self, k=0):
        return self.t[self.i + k] if self.i + k < len(self.t) else ('eof', None)

    def eat(self, kind=None, val=None):
        tk = self.peek()
        if (kind and tk[0] != kind) or (val is not None and tk[1] != val):
            raise TranslateError(f"expected {kind} {val}, got {tk}")
        self.i += 1
        return tk

    def at(self, val):
        return self.peek()[1] == val and self.peek()[0] in ('op', 'id')

    # ---- expressions
    def expr(self, minp=0):
        lhs = self.unary()
        while True:
            tk = self.peek()
            if tk[0] == 'id' and tk[1] == 'as':
                self.eat(); self.type_()
                continue
            if tk[0] != 'op' or tk[1] not in PREC or PREC[tk[1]] < minp:
                break
            op = tk[1]
            # generic closers that look like ops
            self.eat()
            rhs = self.expr(PREC[op] + 1)
            if op in ('<', '<=', '>', '>=', '==', '!='):
                lhs = f"(decide ({lhs} {LEANOP[op] if op not in ('==','!=') else ('=' if op=='==' else '≠')} {rhs}))"
            else:
                lhs = f"({lhs} {LEANOP[op]} {rhs})"
        return lhs

    def type_(self):
        self.eat('id')
        while self.at('::'):
            self.eat(); self.eat('id')

    def unary(self):
        tk = self.peek()
        if tk == ('op', '!'):
            self.eat()
            return f"(!{self.unary()})"
        if tk == ('op', '&'):
            self.eat()
            return self.unary()
        return self.postfix(self.primary())

    def primary(self):
        tk = self.peek()
        if tk[0] == 'num':
            self.eat()
            return str(tk[1])
        if tk == ('op', '('):
            self.eat()
            e = self.expr()
            self.eat('op', ')')
            return f"({e})"
        if tk == ('id', 'if'):
            return self.if_()
        if tk == ('op', '{'):
            return self.block()
        if tk[0] == 'id':
            path = [self.eat()[1]]
            while self.at('::'):
                self.eat()
                if self.at('<'):
                    raise TranslateError('turbofish')
                path.append(self.eat('id')[1])
            # field access folded into the path for renaming: self.a.b
            while self.at('.') and self.peek(1)[0] == 'id' and self.peek(2) != ('op', '('):
                self.eat(); path.append(self.eat('id')[1])
            name = '.'.join(path) if path[0] == 'self' or len(path) == 1 or '.' in path else '::'.join(path)
            # try both joiners for rename lookup
            for cand in ('.'.join(path), '::'.join(path)):
                if cand in self.rename:
                    name = self.rename[cand]; break
            else:
                if self.at('('):
                    # function call: T::from(e), u64::from(e), Duration::from_millis(e) etc.
                    fn = path[-1]
                    self.eat()
                    args = self.args()
                    if fn in ('from', 'into', 'from_u32', 'from_u64') and len(args) == 1:
                        return args[0]
                    if path == ['Some'] and len(args) == 1:
                        return f"(some {args[0]})"
                    raise TranslateError(f"call {'::'.join(path)}")
                if len(path) == 2 and path[1] == 'MAX' and path[0] in ('u64', 'u32', 'u16', 'u8', 'usize'):
                    bits = {'u64': 64, 'usize': 64, 'u32': 32, 'u16': 16, 'u8': 8}[path[0]]
                    return str(2 ** bits - 1)
                if len(path) == 1 and path[0] in ('true', 'false'):
                    return path[0]
                raise TranslateError(f"unknown identifier {'.'.join(path)}")
            return name
        raise TranslateError(f"unexpected token {tk}")

    def args(self):
        a = []
        while not self.at(')'):
            a.append(self.expr())
            if self.at(','):
                self.eat()
        self.eat('op', ')')
        return a

    def postfix(self, e):
        while self.at('.'):
            self.eat()
            m = self.eat('id')[1]
            if self.at('('):
                self.eat()
                a = self.args()
                if m == 'min' and len(a) == 1: e = f"(Nat.min {e} {a[0]})"
                elif m == 'max' and len(a) == 1: e = f"(Nat.max {e} {a[0]})"
                elif m == 'saturating_sub' and len(a) == 1: e = f"({e} - {a[0]})"
                elif m == 'saturating_add' and len(a) == 1: e = f"(Nat.min ({e} + {a[0]}) 18446744073709551615)"
                elif m == 'pow' and len(a) == 1: e = f"({e} ^ {a[0]})"
                elif m in ('into', 'into_inner', 'clone') and len(a) == 0: pass
                elif m == 'is_some' and len(a) == 0: e = f"(Option.isSome {e})"
                elif m == 'is_none' and len(a) == 0: e = f"(Option.isNone {e})"
                elif len(a) == 0 and f"{e}.{m}()" in self.rename: e = self.rename[f"{e}.{m}()"]
                else:
                    raise TranslateError(f"method .{m}/{len(a)}")
            else:
                key = f"{e}.{m}"
                e = self.rename.get(key, key)
        return e

    def if_(self):
        self.eat('id', 'if')
        c = self.expr()
        a = self.block()
        if self.at('else'):
            self.eat()
            b = self.if_() if self.peek() == ('id', 'if') else self.block()
            return f"(if {c} then {a} else {b})"
        raise TranslateError('if without else in expression position')

    def block(self):
        """{ stmts; expr }  ->  Lean term"""
        self.eat('op', '{')
        r = self.stmts()
        self.eat('op', '}')
        return r

    def stmts(self):
        tk = self.peek()
        if tk == ('id', 'let'):
            self.eat()
            if self.at('mut'):
                raise TranslateError('let mut')
            name = self.eat('id')[1]
            if self.at(':'):
                self.eat(); self.type_()
            self.eat('op', '=')
            e = self.expr()
            self.eat('op', ';')
            rest = self.stmts()
            return f"(let {name} := {e}; {rest})"
        if tk == ('id', 'return'):
            self.eat()
            e = self.expr()
            if self.at(';'):
                self.eat()
            return e
        if tk == ('id', 'if'):
            # statement-if with early return, or trailing if-expression
            save = self.i
            self.eat()
            c = self.expr()
            a = self.block()
            if self.at('else'):
                self.i = save
                e = self.if_()
                if self.at('}'):
                    return e
                raise TranslateError('if/else followed by more statements')
            if self.at(';'):
                self.eat()
            rest = self.stmts()
            return f"(if {c} then {a} else {rest})"
        e = self.expr()
        if self.at('}'):
            return e
        raise TranslateError(f"statement not supported near {self.peek()}")


def translate_block(src, rename):
    """src: text of a `{ ... }` block (function body)."""
    p = P(tokenize(src), rename)
    r = p.block()
    if p.peek()[0] != 'eof':
        raise TranslateError('trailing tokens')
    return r

def translate_expr(src, rename):
    p = P(tokenize(src), rename)
    r = p.expr()
    if p.peek()[0] != 'eof':
        raise TranslateError(f'trailing tokens {p.peek()}')
    return r

def fn_body(text, fn_name, after=None):
    """Return the text of the body block `{...}` of `fn fn_name` (first occurrence after the marker `after`)."""
    start = 0
    if after is not None:
        start = text.find(after)
        if start < 0:
            raise TranslateError(f"marker {after!r} not found")
    m = re.compile(r'\bfn\s+' + re.escape(fn_name) + r'\s*(<[^>]*>)?\s*\(').search(text, start)
    if not m:
        raise TranslateError(f"fn {fn_name} not found")
    # find the opening brace of the body: first '{' after the matching ')' of the parameter list
    i = m.end() - 1
    depth = 0
    while True:
        ch = text[i]
        if ch == '(':
            depth += 1
        elif ch == ')':
            depth -= 1
            if depth == 0:
                break
        i += 1
    j = text.index('{', i)
    # but a `where` clause or return type may contain no braces; fine
    depth = 0
    k = j
    in_str = False
    while True:
        ch = text[k]
        if in_str:
            if ch == '\\':
                k += 1
            elif ch == '"':
                in_str = False
        else:
            if ch == '"':
                in_str = True
            elif ch == '/' and text[k+1] == '/':
                k = text.index('\n', k)
                continue
            elif ch == '{':
                depth += 1
            elif ch == '}':
                depth -= 1
                if depth == 0:
                    return text[j:k+1]
        k += 1
