"""T1 anchors for C12 (loss accounting, controllers' window floors, the poll_transmit send gate) -> Gen/C12.lean"""
import re
NAME = 'C12'

def extend(g, api):
    read, strip_comments, const_value, fn_body = api.read, api.strip_comments, api.const_value, api.fn_body
    translate_expr, translate_block, TranslateError = api.translate_expr, api.translate_block, api.TranslateError

    SPACES = 'quinn-proto/src/connection/spaces.rs'
    MOD = 'quinn-proto/src/connection/mod.rs'
    CONG = 'quinn-proto/src/congestion.rs'
    RENO = 'quinn-proto/src/congestion/new_reno.rs'
    CUBIC = 'quinn-proto/src/congestion/cubic.rs'
    BBR = 'quinn-proto/src/congestion/bbr/mod.rs'

    # ---- spaces.rs: forgotten non-ack-eliciting tail
    g.nat('maxUnackedNonAckElicitingTail', SPACES + '::PacketSpace::sent::MAX_UNACKED_NON_ACK_ELICTING_TAIL',
          lambda: const_value(read(SPACES), 'MAX_UNACKED_NON_ACK_ELICTING_TAIL'))

    def tail_guard():
        body = strip_comments(fn_body(read(SPACES), 'sent', after='impl PacketSpace'))
        if not re.search(r'else\s+if\s+self\.unacked_non_ack_eliciting_tail\s*>\s*MAX_UNACKED_NON_ACK_ELICTING_TAIL\s*\{', body):
            raise TranslateError('PacketSpace::sent: tail guard changed')
        return 1
    g.nat('tailGuardIsStrictGreater', SPACES + '::PacketSpace::sent tail guard shape', tail_guard)

    # ---- mod.rs: the resolution paths (every caller of remove_in_flight is modelled as ack / lost / discard)
    def remove_in_flight_sites():
        text = strip_comments(read(MOD))
        return len(re.findall(r'self\.remove_in_flight\(&', text))
    g.nat('removeInFlightCallSites', MOD + ' call sites of Connection::remove_in_flight', remove_in_flight_sites)

    # ---- controllers: minimum window = FACTOR * current_mtu
    def min_window_factor(path, marker):
        body = strip_comments(fn_body(read(path), 'minimum_window', after=marker))
        m = re.fullmatch(r'\{\s*(\d+)\s*\*\s*self\.current_mtu\s*\}', body.strip())
        if not m:
            raise TranslateError(f'minimum_window body {body.strip()!r}')
        return int(m.group(1))
    g.nat('newRenoMinWindowFactor', RENO + '::NewReno::minimum_window', lambda: min_window_factor(RENO, 'impl NewReno'))
    g.nat('cubicMinWindowFactor', CUBIC + '::Cubic::minimum_window', lambda: min_window_factor(CUBIC, 'impl Cubic'))

    def bbr_min_window_factor():
        body = strip_comments(fn_body(read(BBR), 'calculate_min_window'))
        m = re.fullmatch(r'\{\s*(\d+)\s*\*\s*current_mtu\s*\}', body.strip())
        if not m:
            raise TranslateError(f'calculate_min_window body {body.strip()!r}')
        return int(m.group(1))
    g.nat('bbrMinWindowFactor', BBR + '::calculate_min_window', bbr_min_window_factor)

    g.nat('baseDatagramSize', CONG + '::BASE_DATAGRAM_SIZE', lambda: const_value(read(CONG), 'BASE_DATAGRAM_SIZE'))

    def default_initial_window(path, marker):
        """`initial_window: 14720.clamp(2 * BASE_DATAGRAM_SIZE, 10 * BASE_DATAGRAM_SIZE)`"""
        text = strip_comments(read(path))
        i = text.find(marker)
        if i < 0:
            raise TranslateError(f'{marker} not found')
        m = re.search(r'initial_window\s*:\s*(\d+)\s*\.clamp\(\s*(\d+)\s*\*\s*BASE_DATAGRAM_SIZE\s*,\s*(\d+)\s*\*\s*BASE_DATAGRAM_SIZE\s*\)', text[i:i + 400])
        if not m:
            raise TranslateError(f'{marker}: initial_window expression changed')
        base = const_value(read(CONG), 'BASE_DATAGRAM_SIZE')
        v, lo, hi = int(m.group(1)), int(m.group(2)) * base, int(m.group(3)) * base
        if lo > hi:
            raise TranslateError('clamp with min > max')
        return min(max(v, lo), hi)
    g.nat('newRenoDefaultInitialWindow', RENO + '::NewRenoConfig::default initial_window',
          lambda: default_initial_window(RENO, 'impl Default for NewRenoConfig'))
    g.nat('cubicDefaultInitialWindow', CUBIC + '::CubicConfig::default initial_window',
          lambda: default_initial_window(CUBIC, 'impl Default for CubicConfig'))

    def bbr_default_initial_window():
        text = strip_comments(read(BBR))
        i = text.find('impl Default for BbrConfig')
        if i < 0 or not re.search(r'initial_window\s*:\s*K_MAX_INITIAL_CONGESTION_WINDOW\s*\*\s*BASE_DATAGRAM_SIZE', text[i:i + 300]):
            raise TranslateError('BbrConfig::default initial_window expression changed')
        return const_value(read(BBR), 'K_MAX_INITIAL_CONGESTION_WINDOW') * const_value(read(CONG), 'BASE_DATAGRAM_SIZE')
    g.nat('bbrDefaultInitialWindow', BBR + '::BbrConfig::default initial_window', bbr_default_initial_window)

    def reno_loss_factor_is_half():
        text = strip_comments(read(RENO))
        i = text.find('impl Default for NewRenoConfig')
        m = re.search(r'loss_reduction_factor\s*:\s*([0-9.]+)', text[i:i + 400]) if i >= 0 else None
        if not m or float(m.group(1)) != 0.5:
            raise TranslateError('NewRenoConfig::default loss_reduction_factor is not 0.5')
        body = strip_comments(fn_body(read(RENO), 'on_congestion_event'))
        if not re.search(r'self\.window\s*=\s*\(self\.window\s+as\s+f32\s*\*\s*self\.config\.loss_reduction_factor\)\s*as\s+u64\s*;', body):
            raise TranslateError('NewReno::on_congestion_event reduction expression changed')
        return 2
    g.nat('newRenoLossDivisor', RENO + '::NewRenoConfig::default loss_reduction_factor (1/x)', reno_loss_factor_is_half)

    g.nat('bbrRoundTripsWithoutGrowth', BBR + '::K_ROUND_TRIPS_WITHOUT_GROWTH_BEFORE_EXITING_STARTUP',
          lambda: const_value(read(BBR), 'K_ROUND_TRIPS_WITHOUT_GROWTH_BEFORE_EXITING_STARTUP'))

    # on_mtu_update of the three controllers (translated bodies: new window as a function of the old one)
    def mtu_update(path, marker, window_field, rename):
        body = strip_comments(fn_body(read(path), 'on_mtu_update', after=marker))
        stmts = [s.strip() for s in body.strip()[1:-1].split(';') if s.strip()]
        if not stmts or not re.fullmatch(r'self\.current_mtu\s*=\s*new_mtu\s+as\s+u64', stmts[0]):
            raise TranslateError(f'on_mtu_update first statement {stmts[:1]}')
        return stmts[1:]

    def reno_cubic_mtu(path, marker, wf):
        stmts = mtu_update(path, marker, wf, {})
        if len(stmts) != 1:
            raise TranslateError(f'on_mtu_update statements {stmts}')
        m = re.fullmatch(re.escape(wf) + r'\s*=\s*(.+)', stmts[0], flags=re.S)
        if not m:
            raise TranslateError(f'on_mtu_update assignment {stmts[0]!r}')
        e = re.sub(r'self\.minimum_window\(\)', 'minimum_window', m.group(1))
        return 'fun (window minimumWindow : Nat) => ' + translate_expr(
            e, {wf: 'window', 'minimum_window': 'minimumWindow'})
    g.term('newRenoMtuWindow', 'Nat → Nat → Nat', RENO + '::NewReno::on_mtu_update',
           lambda: reno_cubic_mtu(RENO, 'impl Controller for NewReno', 'self.window'))
    g.term('cubicMtuWindow', 'Nat → Nat → Nat', CUBIC + '::Cubic::on_mtu_update',
           lambda: reno_cubic_mtu(CUBIC, 'impl Controller for Cubic', 'self.state.window'))

    def bbr_mtu():
        stmts = mtu_update(BBR, 'impl Controller for Bbr', 'self.cwnd', {})
        want = [r'self\.min_cwnd\s*=\s*calculate_min_window\(self\.current_mtu\)',
                r'self\.init_cwnd\s*=\s*(self\.config\.initial_window\.max\(self\.min_cwnd\))',
                r'self\.cwnd\s*=\s*(self\.cwnd\.max\(self\.min_cwnd\))']
        if len(stmts) != 3:
            raise TranslateError(f'Bbr::on_mtu_update statements {stmts}')
        ms = [re.fullmatch(w, s) for w, s in zip(want, stmts)]
        if not all(ms):
            raise TranslateError(f'Bbr::on_mtu_update shape changed: {stmts}')
        ren = {'self.config.initial_window': 'initialWindow', 'self.min_cwnd': 'minCwnd', 'self.cwnd': 'cwnd'}
        return ms[1].group(1), ms[2].group(1), ren
    g.term('bbrMtuInitCwnd', 'Nat → Nat → Nat', BBR + '::Bbr::on_mtu_update init_cwnd',
           lambda: 'fun (initialWindow minCwnd : Nat) => ' + translate_expr(bbr_mtu()[0], bbr_mtu()[2]))
    g.term('bbrMtuCwnd', 'Nat → Nat → Nat', BBR + '::Bbr::on_mtu_update cwnd (recovery_window is not touched)',
           lambda: 'fun (cwnd minCwnd : Nat) => ' + translate_expr(bbr_mtu()[1], bbr_mtu()[2]))

    # ---- poll_transmit: the congestion test
    def gate():
        text = strip_comments(read(MOD))
        body = fn_body(text, 'poll_transmit')
        ms = re.findall(r'if\s+(self\.path\.in_flight\.bytes[^{]*?self\.path\.congestion\.window\(\))\s*\{', body)
        if len(ms) != 1:
            raise TranslateError(f'poll_transmit congestion test: {len(ms)} candidates')
        src = re.sub(r'self\.path\.congestion\.window\(\)', 'congestion_window', ms[0])
        e = translate_expr(src, {'self.path.in_flight.bytes': 'inFlight', 'bytes_to_send': 'bytesToSend',
                                 'congestion_window': 'window'})
        return 'fun (inFlight bytesToSend window : Nat) => ' + e
    g.term('congestionBlocked', 'Nat → Nat → Nat → Bool', MOD + '::Connection::poll_transmit congestion test', gate)
