"""T1 anchors for C12 (loss accounting, controllers' window floors, the poll_transmit send gate) -> Gen/C12.lean"""
import re
NAME = 'C12'

def extend(g, api):
    read, strip_comments, const_value, fn_body = api.read, api.strip_comments, api.const_value, api.fn_body
    translate_expr, translate_block, TranslateError = api.translate_expr, api.translate_block, api.TranslateError

    SPACES = 'quinn-proto/src/connection/spaces.rs'
    MOD = 'quinn-proto/src/connection/mod.rs'
    CONG = 'quinn-proto/src/congestion.rs'
    RENO = 'quinn-proto/src/congestion/new_reno.rs'
    CUBIC = 'quinn-proto/src/congestion/cubic.rs'
    BBR = 'quinn-proto/src/congestion/bbr/mod.rs'

    # ---- spaces.rs: forgotten non-ack-eliciting tail
    g.nat('maxUnackedNonAckElicitingTail', SPACES + '::PacketSpace::sent::MAX_UNACKED_NON_ACK_ELICTING_TAIL',
          lambda: const_value(read(SPACES), 'MAX_UNACKED_NON_ACK_ELICTING_TAIL'))

    def tail_guard():
        body = strip_comments(fn_body(read(SPACES), 'sent', after='impl PacketSpace'))
        if not re.search(r'else\s+if\s+self\.unacked_non_ack_eliciting_tail\s*>\s*MAX_UNACKED_NON_ACK_ELICTING_TAIL\s*\{', body):
            raise TranslateError('PacketSpace::sent: tail guard changed')
        return 1
    g.nat('tailGuardIsStrictGreater', SPACES + '::PacketSpace::sent tail guard shape', tail_guard)

    # ---- mod.rs: the resolution paths (every caller of remove_in_flight is modelled as ack / lost / discard)
    def remove_in_flight_sites():
        text = strip_comments(read(MOD))
        return len(re.findall(r'self\.remove_in_flight\(&', text))
    g.nat('removeInFlightCallSites', MOD + ' call sites of Connection::remove_in_flight', remove_in_flight_sites)

    # ---- controllers: minimum window = FACTOR * current_mtu
    def min_window_factor(path, marker):
        body = strip_comments(fn_body(read(path), 'minimum_window', after=marker))
        m = re.fullmatch(r'\{\s*(\d+)\s*\*\s*self\.current_mtu\s*\}', body.strip())
        if not m:
            raise TranslateError(f'minimum_window body {body.strip()!r}')
        return int(m.group(1))
    g.nat('newRenoMinWindowFactor', RENO + '::NewReno::minimum_window', lambda: min_window_factor(RENO, 'impl NewReno'))
    g.nat('cubicMinWindowFactor', CUBIC + '::Cubic::minimum_window', lambda: min_window_factor(CUBIC, 'impl Cubic'))

    def bbr_min_window_factor():
        body = strip_comments(fn_body(read(BBR), 'calculate_min_window'))
        m = re.fullmatch(r'\{\s*(\d+)\s*\*\s*current_mtu\s*\}', body.strip())
        if not m:
            raise TranslateError(f'calculate_min_window body {body.strip()!r}')
        return int(m.group(1))
    g.nat('bbrMinWindowFactor', BBR + '::calculate_min_window', bbr_min_window_factor)

    g.nat('baseDatagramSize', CONG + '::BASE_DATAGRAM_SIZE', lambda: const_value(read(CONG), 'BASE_DATAGRAM_SIZE'))

    def default_initial_window(path, marker):
        """`initial_window: 14720.clamp(2 * BASE_DATAGRAM_SIZE, 10 * BASE_DATAGRAM_SIZE)`"""
        text = strip_comments(read(path))
        i = text.find(marker)
        if i < 0:
            raise TranslateError(f'{marker} not found')
        m = re.search(r'initial_window\s*:\s*(\d+)\s*\.clamp\(\s*(\d+)\s*\*\s*BASE_DATAGRAM_SIZE\s*,\s*(\d+)\s*\*\s*BASE_DATAGRAM_SIZE\s*\)', text[i:i + 400])
        if not m:
            raise TranslateError(f'{marker}: initial_window expression changed')
        base = const_value(read(CONG), 'BASE_DATAGRAM_SIZE')
        v, lo, hi = int(m.group(1)), int(m.group(2)) * base, int(m.group(3)) * base
        if lo > hi:
            raise TranslateError('clamp with min > max')
        return min(max(v, lo), hi)
    g.nat('newRenoDefaultInitialWindow', RENO + '::NewRenoConfig::default initial_window',
          lambda: default_initial_window(RENO, 'impl Default for NewRenoConfig'))
    g.nat('cubicDefaultInitialWindow', CUBIC + '::CubicConfig::default initial_window',
          lambda: default_initial_window(CUBIC, 'impl Default for CubicConfig'))

    def bbr_default_initial_window():
        text = strip_comments(read(BBR))
        i = text.find('impl Default for BbrConfig')
        if i < 0 or not re.search(r'initial_window\s*:\s*K_MAX_INITIAL_CONGESTION_WINDOW\s*\*\s*BASE_DATAGRAM_SIZE', text[i:i + 300]):
            raise TranslateError('BbrConfig::default initial_window expression changed')
        return const_value(read(BBR), 'K_MAX_INITIAL_CONGESTION_WINDOW') * const_value(read(CONG), 'BASE_DATAGRAM_SIZE')
    g.nat('bbrDefaultInitialWindow', BBR + '::BbrConfig::default initial_window', bbr_default_initial_window)

    def reno_loss_factor_is_half():
        text = strip_comments(read(RENO))
        i = text.find('impl Default for NewRenoConfig')
        m = re.search(r'loss_reduction_factor\s*:\s*([0-9.]+)', text[i:i + 400]) if i >= 0 else None
        if not m or float(m.group(1)) != 0.5:
            raise TranslateError('NewRenoConfig::default loss_reduction_factor is not 0.5')
        body = strip_comments(fn_body(read(RENO), 'on_congestion_event'))
        if not re.search(r'self\.window\s*=\s*\(self\.window\s+as\s+f32\s*\*\s*self\.config\.loss_reduction_factor\)\s*as\s+u64\s*;', body):
            raise TranslateError('NewReno::on_congestion_event reduction expression changed')
        return 2
    g.nat('newRenoLossDivisor', RENO + '::NewRenoConfig::default loss_reduction_factor (1/x)', reno_loss_factor_is_half)

    g.nat('bbrRoundTripsWithoutGrowth', BBR + '::K_ROUND_TRIPS_WITHOUT_GROWTH_BEFORE_EXITING_STARTUP',
          lambda: const_value(read(BBR), 'K_ROUND_TRIPS_WITHOUT_GROWTH_BEFORE_EXITING_STARTUP'))

    # constructors: the initial window as a function of the configured window and the initial MTU
    def ctor_window(path, marker, field, pre=None, ctor='new'):
        body = strip_comments(fn_body(read(path), ctor, after=marker))
        m = re.findall(r'\b' + field + r'\s*:\s*([^,\n]+),', body)
        if len(m) != 1:
            raise TranslateError(f'{marker}::new: field {field} found {len(m)} times')
        e = m[0]
        if pre:
            e = re.sub(pre[0], pre[1], e)
        return 'fun (initialWindow mtu : Nat) => ' + translate_expr(
            e, {'config.initial_window': 'initialWindow', 'initial_window': 'initialWindow', 'current_mtu': 'mtu',
                'min_window_of_mtu': '(%d * mtu)' % bbr_min_window_factor()})
    g.term('newRenoInitialWindow', 'Nat → Nat → Nat', RENO + '::NewReno::new window',
           lambda: ctor_window(RENO, 'impl NewReno', 'window'))
    g.term('cubicInitialWindow', 'Nat → Nat → Nat', CUBIC + '::Cubic::new state.window',
           lambda: ctor_window(CUBIC, 'impl Cubic', 'window'))
    BBRPRE = (r'calculate_min_window\(current_mtu as u64\)', 'min_window_of_mtu')
    g.term('bbrInitialCwnd', 'Nat → Nat → Nat', BBR + '::Bbr::new cwnd',
           lambda: ctor_window(BBR, 'impl Bbr', 'cwnd', BBRPRE, ctor='with_rng'))  # Bbr::new delegates to with_rng (struct literal)
    g.term('bbrInitialInitCwnd', 'Nat → Nat → Nat', BBR + '::Bbr::new init_cwnd',
           lambda: ctor_window(BBR, 'impl Bbr', 'init_cwnd', BBRPRE, ctor='with_rng'))  # Bbr::new delegates to with_rng (struct literal)
    g.term('bbrInitialMinCwnd', 'Nat → Nat → Nat', BBR + '::Bbr::new min_cwnd',
           lambda: ctor_window(BBR, 'impl Bbr', 'min_cwnd', BBRPRE, ctor='with_rng'))  # Bbr::new delegates to with_rng (struct literal)

    # on_mtu_update of the three controllers (translated bodies: new window as a function of the old one)
    def mtu_update(path, marker, window_field, rename):
        body = strip_comments(fn_body(read(path), 'on_mtu_update', after=marker))
        stmts = [s.strip() for s in body.strip()[1:-1].split(';') if s.strip()]
        if not stmts or not re.fullmatch(r'self\.current_mtu\s*=\s*new_mtu\s+as\s+u64', stmts[0]):
            raise TranslateError(f'on_mtu_update first statement {stmts[:1]}')
        return stmts[1:]

    def reno_cubic_mtu(path, marker, wf):
        stmts = mtu_update(path, marker, wf, {})
        if len(stmts) != 1:
            raise TranslateError(f'on_mtu_update statements {stmts}')
        m = re.fullmatch(re.escape(wf) + r'\s*=\s*(.+)', stmts[0], flags=re.S)
        if not m:
            raise TranslateError(f'on_mtu_update assignment {stmts[0]!r}')
        e = re.sub(r'self\.minimum_window\(\)', 'minimum_window', m.group(1))
        return 'fun (window minimumWindow : Nat) => ' + translate_expr(
            e, {wf: 'window', 'minimum_window': 'minimumWindow'})
    g.term('newRenoMtuWindow', 'Nat → Nat → Nat', RENO + '::NewReno::on_mtu_update',
           lambda: reno_cubic_mtu(RENO, 'impl Controller for NewReno', 'self.window'))
    g.term('cubicMtuWindow', 'Nat → Nat → Nat', CUBIC + '::Cubic::on_mtu_update',
           lambda: reno_cubic_mtu(CUBIC, 'impl Controller for Cubic', 'self.state.window'))

    def bbr_mtu():
        stmts = mtu_update(BBR, 'impl Controller for Bbr', 'self.cwnd', {})
        want = [r'self\.min_cwnd\s*=\s*calculate_min_window\(self\.current_mtu\)',
                r'self\.init_cwnd\s*=\s*(self\.config\.initial_window\.max\(self\.min_cwnd\))',
                r'self\.cwnd\s*=\s*(self\.cwnd\.max\(self\.min_cwnd\))',
                r'self\.recovery_window\s*=\s*(self\.recovery_window\.max\(self\.min_cwnd\))']
        if len(stmts) != 4:
            raise TranslateError(f'Bbr::on_mtu_update statements {stmts}')
        ms = [re.fullmatch(w, s) for w, s in zip(want, stmts)]
        if not all(ms):
            raise TranslateError(f'Bbr::on_mtu_update shape changed: {stmts}')
        ren = {'self.config.initial_window': 'initialWindow', 'self.min_cwnd': 'minCwnd', 'self.cwnd': 'cwnd',
               'self.recovery_window': 'recoveryWindow'}
        return ms[1].group(1), ms[2].group(1), ren, ms[3].group(1)
    g.term('bbrMtuInitCwnd', 'Nat → Nat → Nat', BBR + '::Bbr::on_mtu_update init_cwnd',
           lambda: 'fun (initialWindow minCwnd : Nat) => ' + translate_expr(bbr_mtu()[0], bbr_mtu()[2]))
    g.term('bbrMtuCwnd', 'Nat → Nat → Nat', BBR + '::Bbr::on_mtu_update cwnd',
           lambda: 'fun (cwnd minCwnd : Nat) => ' + translate_expr(bbr_mtu()[1], bbr_mtu()[2]))
    g.term('bbrMtuRecoveryWindow', 'Nat → Nat → Nat', BBR + '::Bbr::on_mtu_update recovery_window',
           lambda: 'fun (recoveryWindow minCwnd : Nat) => ' + translate_expr(bbr_mtu()[3], bbr_mtu()[2]))

    # ---- poll_transmit: the congestion test
    def gate():
        text = strip_comments(read(MOD))
        body = fn_body(text, 'poll_transmit')
        ms = re.findall(r'if\s+(self\.path\.in_flight\.bytes[^{]*?self\.path\.congestion\.window\(\))\s*\{', body)
        # the test appears where a datagram is started and (since `fix: congestion check for application data coalesced
        # behind an unchecked datagram`) in the coalescing branch: every occurrence must be the same expression
        if not 1 <= len(ms) <= 2 or len(set(re.sub(r'\s+', ' ', m) for m in ms)) != 1:
            raise TranslateError(f'poll_transmit congestion test: {len(ms)} candidates')
        src = re.sub(r'self\.path\.congestion\.window\(\)', 'congestion_window', ms[0])
        e = translate_expr(src, {'self.path.in_flight.bytes': 'inFlight', 'bytes_to_send': 'bytesToSend',
                                 'congestion_window': 'window'})
        return 'fun (inFlight bytesToSend window : Nat) => ' + e
    g.term('congestionBlocked', 'Nat → Nat → Nat → Bool', MOD + '::Connection::poll_transmit congestion test', gate)

    # ---- detect_lost_packets: the packet- and time-threshold decision
    LIB = 'quinn-proto/src/lib.rs'
    TCFG = 'quinn-proto/src/config/transport.rs'

    def dlp():
        return strip_comments(fn_body(read(MOD), 'detect_lost_packets'))

    def granularity_ns():
        m = re.search(r'const\s+TIMER_GRANULARITY\s*:\s*Duration\s*=\s*Duration::from_millis\((\d+)\)\s*;', read(LIB))
        if not m:
            raise TranslateError('TIMER_GRANULARITY is not Duration::from_millis(n)')
        return int(m.group(1)) * 1_000_000
    g.nat('c12TimerGranularityNs', LIB + '::TIMER_GRANULARITY (ns)', granularity_ns)

    def loss_delay_shape():
        if not re.search(r'let\s+loss_delay\s*=\s*cmp::max\(\s*rtt\.mul_f32\(self\.config\.time_threshold\)\s*,\s*TIMER_GRANULARITY\s*\)\s*;', dlp()):
            raise TranslateError('detect_lost_packets: loss_delay expression changed')
        return 'fun (scaledRtt granularity : Nat) => Nat.max scaledRtt granularity'
    g.term('lossDelayOf', 'Nat → Nat → Nat', MOD + '::detect_lost_packets loss_delay = max(rtt*time_threshold [opaque], TIMER_GRANULARITY)', loss_delay_shape)

    def too_old():
        m = re.search(r'let\s+packet_too_old\s*=\s*now\.saturating_duration_since\(info\.time_sent\)\s*(>=|>)\s*loss_delay\s*;', dlp())
        if not m:
            raise TranslateError('detect_lost_packets: packet_too_old expression changed')
        return 'fun (now timeSent lossDelay : Nat) => decide ((now - timeSent) %s lossDelay)' % {'>=': '≥', '>': '>'}[m.group(1)]
    g.term('packetTooOld', 'Nat → Nat → Nat → Bool', MOD + '::detect_lost_packets packet_too_old (saturating subtraction)', too_old)

    def decision():
        ms = re.findall(r'if\s+(packet_too_old\s*\|\|[^{]*?)\{', dlp())
        if len(ms) != 1:
            raise TranslateError(f'detect_lost_packets: decision found {len(ms)} times')
        e = translate_expr(ms[0], {'packet_too_old': 'tooOld', 'largest_acked_packet': 'largestAcked',
                                   'packet': 'pn', 'packet_threshold': 'packetThreshold'})
        return 'fun (tooOld : Bool) (largestAcked pn packetThreshold : Nat) => ' + e
    g.term('lossDecision', 'Bool → Nat → Nat → Nat → Bool', MOD + '::detect_lost_packets loss decision', decision)

    def candidates():
        if not re.search(r'space\.sent_packets\.range\(\s*0\s*\.\.\s*largest_acked_packet\s*\)', dlp()):
            raise TranslateError('detect_lost_packets: candidate range changed')
        return 'fun (pn largestAcked : Nat) => decide (pn < largestAcked)'
    g.term('lossCandidate', 'Nat → Nat → Bool', MOD + '::detect_lost_packets candidates = sent_packets.range(0..largest_acked_packet)', candidates)

    def default_packet_threshold():
        m = re.search(r'\bpacket_threshold\s*:\s*(\d+)\s*,', strip_comments(read(TCFG)))
        if not m:
            raise TranslateError('TransportConfig::default packet_threshold')
        return int(m.group(1))
    g.nat('defaultPacketThreshold', TCFG + '::TransportConfig::default packet_threshold', default_packet_threshold)

