"""T1 anchors for the frame admissibility / error-class table (C03, Conn/FrameRules.lean) -> Gen/FrameRules.lean

Transport error codes and, for every check of `Connection::process_early_payload` / `process_payload` and the handlers
they call that the table mirrors, the error code used AT THAT SITE, extracted by a shape anchor (regular expression
over the comment-stripped, whitespace-normalised function body that pins the guard and the `TransportError::X` it
returns).  Moving, deleting or re-coding a check breaks the anchor (translation-break) or changes the generated code
(the theorems of Props/C03_frames are re-checked against it and the `frules` trace comparison sees it).
"""
import re
NAME = 'FrameRules'

def extend(g, api):
    read, strip_comments, fn_body, TranslateError = api.read, api.strip_comments, api.fn_body, api.TranslateError
    conn = 'quinn-proto/src/connection/mod.rs'
    te = 'quinn-proto/src/transport_error.rs'

    def norm(s):
        return re.sub(r'\s+', ' ', strip_comments(s)).strip()

    def body(rel, fn):
        return norm(fn_body(read(rel), fn))

    CODES = ['NO_ERROR', 'INTERNAL_ERROR', 'CONNECTION_REFUSED', 'FLOW_CONTROL_ERROR', 'STREAM_LIMIT_ERROR', 'STREAM_STATE_ERROR',
             'FINAL_SIZE_ERROR', 'FRAME_ENCODING_ERROR', 'TRANSPORT_PARAMETER_ERROR', 'CONNECTION_ID_LIMIT_ERROR', 'PROTOCOL_VIOLATION',
             'INVALID_TOKEN', 'APPLICATION_ERROR', 'CRYPTO_BUFFER_EXCEEDED', 'KEY_UPDATE_ERROR', 'AEAD_LIMIT_REACHED', 'NO_VIABLE_PATH']

    def code(name):
        m = re.search(r'\b' + name + r'\((0x[0-9a-fA-F]+)\)', read(te))
        if not m:
            raise TranslateError(f'error code {name} not found')
        return int(m.group(1), 16)

    def lean_name(n):
        return 'fr' + ''.join(w.capitalize() for w in n.split('_'))

    for n in CODES:
        g.nat(lean_name(n), f'{te}::{n}', lambda n=n: code(n))

    def crypto_base():
        m = re.search(r'pub fn crypto\(code: u8\) -> Self \{\s*Self\((0x[0-9a-fA-F]+) \| u64::from\(code\)\)', read(te))
        if not m:
            raise TranslateError('Code::crypto shape changed')
        return int(m.group(1), 16)
    g.nat('frCryptoErrorBase', f'{te}::Code::crypto base (codes base..base+0xff are TLS alerts)', crypto_base)

    def site(lean, rel, fn, pattern, what):
        """the transport error used at one check: `pattern` has one group = the TransportError constructor name"""
        def f():
            m = re.search(pattern, body(rel, fn))
            if not m:
                raise TranslateError(f'{fn}: {what}: shape changed')
            if m.group(1) not in CODES:
                raise TranslateError(f'{fn}: {what}: unknown error {m.group(1)}')
            return lean_name(m.group(1))
        g.nat(lean, f'{rel}::{fn} {what}', f)

    # ---- process_early_payload: the set of frame kinds accepted in Initial / Handshake packets, and the rejection code
    def early_arms():
        b = body(conn, 'process_early_payload')
        i = b.find('match frame { Frame::Padding | Frame::Ping => {}')
        if i < 0:
            raise TranslateError('process_early_payload: match frame shape changed')
        arms = re.findall(r'(Frame::\w+(?:\([^)]*\))?(?: \| Frame::\w+)*|_) => \{', b[i:])
        want = ['Frame::Padding | Frame::Ping', 'Frame::Crypto(frame)', 'Frame::Ack(ack)', 'Frame::Close(reason)', '_']
        if arms[:5] != want:
            raise TranslateError(f'process_early_payload: arms are {arms[:6]}, expected {want}')
        need = [r'Frame::Crypto\(frame\) => \{ self\.read_crypto\(packet\.header\.space\(\), &frame, payload_len\)\?; \}',
                r'Frame::Ack\(ack\) => \{ self\.on_ack_received\(now, packet\.header\.space\(\), ack\)\?; \}',
                r'Frame::Close\(reason\) => \{ self\.error = Some\(reason\.into\(\)\); self\.state = State::Draining; return Ok\(\(\)\); \}',
                r'for result in frame::Iter::new\(packet\.payload\.freeze\(\)\)\? \{ let frame = result\?;']
        for n in need:
            if not re.search(n, b):
                raise TranslateError('process_early_payload: ' + n[:50])
        return 1
    g.nat('frEarlyArmsChecked', f'{conn}::process_early_payload accepts exactly PADDING, PING, CRYPTO, ACK, CLOSE; first error ends the loop', early_arms)
    site('frEarlyIllegalCode', conn, 'process_early_payload',
         r'_ => \{ let mut err = TransportError::(\w+)\("illegal frame type in handshake"\); err\.frame = Some\(frame\.ty\(\)\); return Err\(err\); \}',
         'illegal frame type in handshake')

    # ---- ACK
    site('frAckUnsentCode', conn, 'on_ack_received',
         r'^.{0,200}if ack\.largest >= self\.spaces\[space\]\.next_packet_number \{ return Err\(TransportError::(\w+)\("unsent packet acked"\)\); \}',
         'largest >= next_packet_number (first check)')
    site('frAckSkippedCode', 'quinn-proto/src/connection/spaces.rs', 'check_ack',
         r'if space_id == SpaceId::Data && self \.prev_skipped_packet_number \.is_some_and\(\|x\| range\.contains\(&x\)\) \{ return Err\(TransportError::(\w+)\(',
         'range contains the skipped packet number (Data space only)')

    # ---- CRYPTO
    site('frCryptoLevelCode', conn, 'read_crypto',
         r'let end = crypto\.offset \+ crypto\.data\.len\(\) as u64; if space < expected && end > self\.spaces\[space\]\.crypto_stream\.bytes_read\(\) \{ .{0,120}?return Err\(TransportError::(\w+)\(',
         'new data at an old encryption level')
    site('frCryptoBufferCode', conn, 'read_crypto',
         r'let max = end\.saturating_sub\(space\.crypto_stream\.bytes_read\(\)\); if max > self\.config\.crypto_buffer_size as u64 \{ return Err\(TransportError::(\w+)\(',
         'beyond crypto_buffer_size')
    site('frCryptoGapsCode', conn, 'read_crypto', r'\.map_err\(\|_\| TransportError::(\w+)\("too many gaps in crypto stream buffer"\)\)\?;', 'Assembler TooManyChunks')

    def expected_level():
        b = body(conn, 'read_crypto')
        if not re.search(r'let expected = if !self\.state\.is_handshake\(\) \{ SpaceId::Data \} else if self\.highest_space == SpaceId::Initial \{ SpaceId::Initial \} else \{ SpaceId::Handshake \};', b):
            raise TranslateError('read_crypto: expected level shape changed')
        return 1
    g.nat('frCryptoExpectedChecked', f'{conn}::read_crypto expected encryption level as projected by the probe', expected_level)

    # ---- process_payload arms
    pp = 'process_payload'
    site('frSdbSendOnlyCode', conn, pp,
         r'Frame::StreamDataBlocked \{ id, offset \} => \{ if id\.initiator\(\) == self\.side\.side\(\) && id\.dir\(\) == Dir::Uni \{ .{0,80}?return Err\(TransportError::(\w+)\(',
         'STREAM_DATA_BLOCKED on a send-only stream')
    site('frStreamsBlockedCode', conn, pp,
         r'Frame::StreamsBlocked \{ dir, limit \} => \{ if limit > MAX_STREAM_COUNT \{ return Err\(TransportError::(\w+)\(',
         'STREAMS_BLOCKED limit > MAX_STREAM_COUNT')
    site('frStopRecvOnlyCode', conn, pp,
         r'Frame::StopSending\(frame::StopSending \{ id, error_code \}\) => \{ if id\.initiator\(\) != self\.side\.side\(\) \{ if id\.dir\(\) == Dir::Uni \{ .{0,80}?return Err\(TransportError::(\w+)\(',
         'STOP_SENDING on a receive-only stream')
    site('frStopUnopenedCode', conn, pp,
         r'\} else if self\.streams\.is_local_unopened\(id\) \{ return Err\(TransportError::(\w+)\( "STOP_SENDING on unopened stream", \)\); \} self\.streams\.received_stop_sending\(id, error_code\);',
         'STOP_SENDING on an unopened local stream')
    site('frNewTokenServerCode', conn, pp, r'else \{ return Err\(TransportError::(\w+)\("client sent NEW_TOKEN"\)\); \};', 'NEW_TOKEN received by a server')
    site('frNewTokenEmptyCode', conn, pp, r'if token\.is_empty\(\) \{ return Err\(TransportError::(\w+)\("empty token"\)\); \}', 'empty NEW_TOKEN')
    site('frHandshakeDoneServerCode', conn, pp,
         r'Frame::HandshakeDone => \{ if self\.side\.is_server\(\) \{ return Err\(TransportError::(\w+)\( "client sent HANDSHAKE_DONE", \)\); \}',
         'HANDSHAKE_DONE received by a server')

    def payload_shape():
        b = body(conn, pp)
        need = [r'for result in frame::Iter::new\(payload\)\? \{ let frame = result\?;',
                r'Frame::Stream\(frame\) => \{ if self\.streams\.received\(frame, payload_len\)\?\.should_transmit\(\)',
                r'Frame::Ack\(ack\) => \{ self\.on_ack_received\(now, SpaceId::Data, ack\)\?; \}',
                r'Frame::Crypto\(frame\) => \{ self\.read_crypto\(SpaceId::Data, &frame, payload_len\)\?; \}',
                r'Frame::MaxData\(bytes\) => \{ self\.streams\.received_max_data\(bytes\); \}',
                r'Frame::MaxStreamData \{ id, offset \} => \{ self\.streams\.received_max_stream_data\(id, offset\)\?; \}',
                r'Frame::MaxStreams \{ dir, count \} => \{ self\.streams\.received_max_streams\(dir, count\)\?; \}',
                r'Frame::ResetStream\(frame\) => \{ if self\.streams\.received_reset\(frame\)\?\.should_transmit\(\)',
                r'Frame::DataBlocked \{ offset \} => \{ debug!',
                r'Frame::RetireConnectionId \{ sequence \} => \{ let allow_more_cids = self \.local_cid_state \.on_cid_retirement\(sequence, self\.peer_params\.issue_cids_limit\(\)\)\?;',
                r'Frame::Datagram\(datagram\) => \{ if self \.datagrams \.received\(datagram, &self\.config\.datagram_receive_buffer_size\)\?',
                r'\.ack_frequency_received\(&ack_frequency, &mut space\.pending_acks\)\? \{',
                r'Frame::ImmediateAck => \{ self\.spaces\[SpaceId::Data\] \.pending_acks \.set_immediate_ack_required\(\); \}',
                r'Frame::PathResponse\(token\) => \{ if self\.path\.challenge == Some\(token\) && remote == self\.path\.remote \{',
                r'Frame::Padding \| Frame::Ping => \{\}',
                r'Frame::Close\(reason\) => \{ close = Some\(reason\); (?:break; )?\}']
        for n in need:
            if not re.search(n, b):
                raise TranslateError('process_payload: arm shape changed: ' + n[:60])
        return 1
    g.nat('frPayloadArmsChecked', f'{conn}::process_payload arms delegate to the handlers the table mirrors; first error ends the loop', payload_shape)

    # ---- MAX_STREAM_DATA (streams/state.rs): order of the three checks
    st = 'quinn-proto/src/connection/streams/state.rs'
    site('frMaxsdRecvOnlyCode', st, 'received_max_stream_data',
         r'^.{0,160}if id\.initiator\(\) != self\.side && id\.dir\(\) == Dir::Uni \{ .{0,80}?return Err\(TransportError::(\w+)\(', 'receive-only stream (first check)')
    site('frMaxsdLimitCode', st, 'received_max_stream_data',
         r'"MAX_STREAM_DATA on recv-only stream", \)\); \} if id\.initiator\(\) != self\.side && id\.index\(\) >= self\.max_remote\[id\.dir\(\) as usize\] \{ .{0,80}?return Err\(TransportError::(\w+)\(',
         'peer-initiated stream beyond max_remote (second check)')
    site('frMaxsdUnopenedCode', st, 'received_max_stream_data',
         r'\} else if id\.initiator\(\) == self\.side && self\.is_local_unopened\(id\) \{ .{0,80}?return Err\(TransportError::(\w+)\(', 'unopened local stream without a send half')

    # ---- DATAGRAM
    dg = 'quinn-proto/src/connection/datagrams.rs'
    site('frDgramUnexpectedCode', dg, 'received', r'let window = match window \{ None => \{ return Err\(TransportError::(\w+)\( "unexpected DATAGRAM frame"', 'datagrams disabled')
    site('frDgramOversizedCode', dg, 'received', r'if datagram\.data\.len\(\) > window \{ return Err\(TransportError::(\w+)\("oversized datagram"\)\); \}', 'larger than the receive buffer')

    # ---- malformed / unknown frame
    def invalid_frame():
        t = norm(read('quinn-proto/src/frame.rs'))
        m = re.search(r'impl From<InvalidFrame> for TransportError \{ fn from\(err: InvalidFrame\) -> Self \{ let mut te = Self::(\w+)\(err\.reason\);', t)
        if not m or m.group(1) not in CODES:
            raise TranslateError('From<InvalidFrame> shape changed')
        return lean_name(m.group(1))
    g.nat('frInvalidFrameCode', 'quinn-proto/src/frame.rs::From<InvalidFrame> (malformed frame, unknown frame type)', invalid_frame)
