"""T1 anchor for the NEW_CONNECTION_ID transmit rule (C09 "across connection-ID issuance, rotation and
retirement") -> Gen/NewCid.lean

`newCidRetirePriorTo retire_prior_to sequence`: the expression `Connection::populate_packet` puts into the
Retire Prior To field of a NEW_CONNECTION_ID frame for the CID with sequence number `sequence`, when the
connection's `CidState::retire_prior_to()` is `retire_prior_to`.  Translated by rustexpr.py on every check;
Props/C09_newcid proves from it that no emitted frame has Retire Prior To above its Sequence Number
(RFC 9000 19.15), over all histories of issuance, lifetime expiry, transmission and loss.  If the `.min(..)` is
dropped again the generated definition becomes `retire_prior_to` and the theorem no longer checks.
Shape anchor: the frame is built from `space.pending.new_cids.pop()` and the CID goes to the packet's
retransmits (so a lost frame is sent again later, with the threshold of that later time).
"""
import re
NAME = 'NewCid'

CONN = 'quinn-proto/src/connection/mod.rs'


def extend(g, api):
    read, strip_comments, fn_body, TranslateError = api.read, api.strip_comments, api.fn_body, api.TranslateError

    def block():
        b = re.sub(r'\s+', ' ', strip_comments(fn_body(read(CONN), 'populate_packet')))
        m = re.search(r'while buf\.len\(\) \+ NewConnectionId::SIZE_BOUND < max_size \{ '
                      r'let Some\(issued\) = space\.pending\.new_cids\.pop\(\) else \{ break; \}; '
                      r'trace!\(.*?\); '
                      r'NewConnectionId \{ sequence: issued\.sequence, retire_prior_to: (.*?), id: issued\.id, '
                      r'reset_token: issued\.reset_token, \} \.encode\(buf\); '
                      r'sent\.retransmits\.get_or_create\(\)\.new_cids\.push\(issued\); ', b)
        if not m:
            raise TranslateError('populate_packet: NEW_CONNECTION_ID block changed shape')
        return m.group(1).strip()

    def expr():
        e = re.sub(r'\s*\.\s*', '.', block())
        if e.count('self.local_cid_state.retire_prior_to()') != 1:
            raise TranslateError('populate_packet: Retire Prior To is no longer derived from CidState::retire_prior_to()')
        e = e.replace('self.local_cid_state.retire_prior_to()', 'retire_prior_to').replace('issued.sequence', 'sequence')
        return api.translate_expr(e, {'retire_prior_to': 'retire_prior_to', 'sequence': 'sequence'})

    g.fn('newCidRetirePriorTo', '(retire_prior_to sequence : Nat) : Nat',
         f'{CONN}::Connection::populate_packet NEW_CONNECTION_ID: value of the Retire Prior To field for the CID `sequence`',
         expr)
