"""T1 anchors for C14, CID-echo authentication (connection/mod.rs, endpoint.rs, token.rs,
transport_parameters.rs, connection/packet_builder.rs) -> Gen/CidEcho.lean

* `cidEchoReject`: the guard of `Connection::handle_peer_params`, translated by rustexpr.py into a Lean
  Bool function of the side and the six CID values.  Dropping a comparison, comparing another field or
  changing the side test changes the generated definition; the theorems of Props/C14_echo are re-checked
  against it.  The rest of the function body is shape-checked (reject = early `return Err(..)` with the code
  named in `cidEchoErrName`, otherwise `set_peer_params` + `Ok(())`).
* `retryDiscarded`: the test under which a client discards a Retry (`process_decrypted_packet`), translated;
  the `is_valid_retry(self.rem_cids.active(), header, payload)` call is replaced by the Bool input `tag_valid`
  after checking it is that call (tag computed over the DCID in use).
* shape anchors (value 1, or a translation break): the assignment sites of the client bookkeeping
  (`Connection::new`, `Endpoint::connect`, the Retry / Initial / Handshake arms, and the absence of any other
  assignment of the four fields), and the places where a server decides the three parameters it sends
  (`Endpoint::accept`, `IncomingToken::from_header`, `Endpoint::retry`, `TransportParameters::new`, the SCID of
  long headers in `PacketBuilder::new`).
"""
import re
NAME = 'CidEcho'

CONN = 'quinn-proto/src/connection/mod.rs'
EP = 'quinn-proto/src/endpoint.rs'
TOKEN = 'quinn-proto/src/token.rs'
TP = 'quinn-proto/src/transport_parameters.rs'
PB = 'quinn-proto/src/connection/packet_builder.rs'

CID = 'List Nat'


def extend(g, api):
    read, strip_comments, fn_body, TranslateError = api.read, api.strip_comments, api.fn_body, api.TranslateError

    def norm(s):
        return re.sub(r'\s+', ' ', strip_comments(s)).strip()

    def body(file, fn, after=None):
        return norm(fn_body(read(file), fn, after=after))

    def need(text, pats, what):
        for p in pats:
            n = len(re.findall(p, text))
            if n != 1:
                raise TranslateError(f'{what}: expected shape found {n} times: {p[:70]}')
        return 1

    def cond_of_first_if(b, what):
        """b = '{ if <cond> { ...': text of <cond> (up to the first '{' outside parentheses)"""
        if not b.startswith('{ if '):
            raise TranslateError(f'{what}: body does not start with the guard')
        i, depth = 5, 0
        while i < len(b):
            ch = b[i]
            if ch == '(':
                depth += 1
            elif ch == ')':
                depth -= 1
            elif ch == '{' and depth == 0:
                return b[5:i].strip(), b[i:]
            i += 1
        raise TranslateError(f'{what}: guard not terminated')

    # ---------------------------------------------------------------- handle_peer_params
    def hpp():
        b = body(CONN, 'handle_peer_params')
        cond, rest = cond_of_first_if(b, 'handle_peer_params')
        m = re.fullmatch(r'\{ return Err\(TransportError::(\w+)\( "CID authentication failure", \)\); \} '
                         r'self\.set_peer_params\(params\); Ok\(\(\)\) \}', rest)
        if not m:
            raise TranslateError('handle_peer_params: statements after the guard changed')
        return cond, m.group(1)

    REN = {'self.orig_rem_cid': 'orig_rem_cid', 'self.initial_dst_cid': 'initial_dst_cid',
           'self.retry_src_cid': 'retry_src_cid', 'self.side': 'side', 'side.is_client()': 'is_client',
           'side.is_server()': '(!is_client)',
           'params.initial_src_cid': 'tp_initial_src_cid', 'params.original_dst_cid': 'tp_original_dst_cid',
           'params.retry_src_cid': 'tp_retry_src_cid'}
    g.fn('cidEchoReject',
         f'(is_client : Bool) (orig_rem_cid initial_dst_cid : {CID}) (retry_src_cid tp_initial_src_cid tp_original_dst_cid tp_retry_src_cid : Option ({CID})) : Bool',
         f'{CONN}::Connection::handle_peer_params guard (true = "CID authentication failure")',
         lambda: api.translate_expr(hpp()[0], REN))
    g.term('cidEchoErrName', 'String', f'{CONN}::Connection::handle_peer_params error code of the guard; then set_peer_params + Ok',
           lambda: '"' + hpp()[1] + '"')

    # ---------------------------------------------------------------- process_decrypted_packet arms
    def pdp():
        return body(CONN, 'process_decrypted_packet')

    def arm(start_pat, end_pat):
        b = pdp()
        m = re.search(start_pat, b)
        if not m:
            raise TranslateError(f'process_decrypted_packet: arm {start_pat[:40]} not found')
        e = re.search(end_pat, b[m.end():])
        if not e:
            raise TranslateError(f'process_decrypted_packet: end of arm {start_pat[:40]} not found')
        return b[m.end(): m.end() + e.start()]

    RETRY_START = r'Header::Retry \{ src_cid: rem_cid, \.\. \} => \{ '
    HS_START = r'Header::Long \{ ty: LongType::Handshake, src_cid: rem_cid, \.\. \} => \{ '
    INIT_START = r'Header::Initial\(InitialHeader \{ src_cid: rem_cid, \.\. \}\) => \{ '

    def retry_arm():
        return arm(RETRY_START, HS_START)

    def retry_guard():
        a = retry_arm()
        m = re.match(r'if self\.side\.is_server\(\) \{ trace!\([^)]*\); return Ok\(\(\)\); \} if (.*?) \{ trace!\("discarding invalid Retry"\); return Ok\(\(\)\); \} ', a)
        if not m:
            raise TranslateError('Retry arm: server short-circuit / discard guard changed')
        cond = m.group(1)
        call = r'self\.crypto\.is_valid_retry\( self\.rem_cids\.active\(\), &packet\.header_data, &packet\.payload, \)'
        if len(re.findall(call, cond)) != 1:
            raise TranslateError('Retry arm: is_valid_retry(rem_cids.active(), header_data, payload) call changed')
        return re.sub(call, 'tag_valid', cond)

    g.fn('retryDiscarded', '(total_authed_packets payload_len : Nat) (tag_valid : Bool) : Bool',
         f'{CONN}::Connection::process_decrypted_packet Retry arm, client: discard test (payload = token + 16-byte tag)',
         lambda: api.translate_expr(retry_guard(), {'self.total_authed_packets': 'total_authed_packets', 'packet.payload': 'payload',
                                                    'payload.len()': 'payload_len', 'tag_valid': 'tag_valid'}))

    def retry_effects():
        a = retry_arm()
        need(a, [r'let client_hello = state\.client_hello\.take\(\)\.unwrap\(\); self\.on_packet_authenticated\(now, SpaceId::Initial, None, None, false, false\); '
                 r'self\.retry_src_cid = Some\(rem_cid\); self\.rem_cids\.update_initial_cid\(rem_cid\); self\.rem_handshake_cid = rem_cid; ',
                 r'crypto: Some\(self\.crypto\.initial_keys\(rem_cid, self\.side\.side\(\)\)\),',
                 r'self\.state = State::Handshake\(state::Handshake \{ expected_token: Bytes::new\(\), rem_cid_set: false, client_hello: None, \}\); Ok\(\(\)\) \}'],
             'Retry arm effects')
        if 'orig_rem_cid' in a or 'initial_dst_cid' in a:
            raise TranslateError('Retry arm touches orig_rem_cid / initial_dst_cid')
        return 1
    g.nat('retryArmShape', f'{CONN}::process_decrypted_packet Retry arm: retry_src_cid := Some(scid); active remote CID and rem_handshake_cid := scid; rem_cid_set := false; one authenticated packet; orig_rem_cid untouched',
          retry_effects)

    def handshake_arm():
        a = arm(HS_START, INIT_START)
        need(a, [r'^if rem_cid != self\.rem_handshake_cid \{ debug!\([^;]*\); return Ok\(\(\)\); \} self\.on_path_validated\(\); self\.process_early_payload\(now, packet\)\?;'],
             'Handshake arm SCID test')
        if re.search(r'self\.(orig_rem_cid|rem_handshake_cid|retry_src_cid|initial_dst_cid) =[^=]', a):
            raise TranslateError('Handshake arm assigns a bookkeeping CID')
        return 1
    g.nat('handshakeArmShape', f'{CONN}::process_decrypted_packet Handshake arm: packet with SCID != rem_handshake_cid is discarded before any processing',
          handshake_arm)

    def initial_arm():
        b = pdp()
        m = re.search(INIT_START, b)
        if not m:
            raise TranslateError('Initial arm not found')
        a = b[m.end():]
        need(a[:900], [r'^if !state\.rem_cid_set \{ trace!\([^;]*\); let mut state = state\.clone\(\); self\.rem_cids\.update_initial_cid\(rem_cid\); '
                       r'self\.rem_handshake_cid = rem_cid; self\.orig_rem_cid = rem_cid; state\.rem_cid_set = true; self\.state = State::Handshake\(state\); \} '
                       r'else if rem_cid != self\.rem_handshake_cid \{ debug!\([^;]*\); return Ok\(\(\)\); \} let starting_space = self\.highest_space; self\.process_early_payload\(now, packet\)\?;'],
             'Initial arm SCID bookkeeping')
        return 1
    g.nat('initialArmShape', f'{CONN}::process_decrypted_packet Initial arm: first Initial sets rem_handshake_cid, orig_rem_cid, active remote CID := scid and rem_cid_set; later Initial with another SCID is discarded',
          initial_arm)

    def assignment_sites():
        t = norm(read(CONN))
        want = {'orig_rem_cid': 1, 'retry_src_cid': 1, 'initial_dst_cid': 0, 'rem_handshake_cid': 2}
        for f, n in want.items():
            # hook code (feature-guarded verif module) lives in other files; this file is the library
            k = len(re.findall(r'self\.' + f + r' = ', t))
            if k != n:
                raise TranslateError(f'connection/mod.rs: {k} assignments of self.{f} (modelled: {n})')
        if len(re.findall(r'rem_cid_set = true|rem_cid_set: false|rem_cid_set: side\.is_server\(\)', t)) != 3 or len(re.findall(r'rem_cid_set', t)) != 5:
            raise TranslateError('connection/mod.rs: rem_cid_set sites changed')
        return 1
    g.nat('cidAssignmentSites', f'{CONN}: no assignment of orig_rem_cid / retry_src_cid / initial_dst_cid / rem_handshake_cid / rem_cid_set other than the modelled ones',
          assignment_sites)

    def authed_order():
        hp = body(CONN, 'handle_packet')
        i = hp.find('if !self.state.is_closed() && !unprotected {')
        j = hp.find('self.on_packet_authenticated(')
        k = hp.find('self.process_decrypted_packet(now, remote, number, packet)')
        if not (0 < i < j < k):
            raise TranslateError('handle_packet: protected packets are no longer counted before process_decrypted_packet')
        oa = body(CONN, 'on_packet_authenticated')
        if not oa.startswith('{ self.total_authed_packets += 1;') or len(re.findall(r'total_authed_packets \+= 1', norm(read(CONN)))) != 1:
            raise TranslateError('on_packet_authenticated: total_authed_packets increment changed')
        return 1
    g.nat('authedCountShape', f'{CONN}::handle_packet / on_packet_authenticated: every authenticated protected packet is counted before its SCID is looked at',
          authed_order)

    def conn_new():
        b = body(CONN, 'new', after='impl Connection {')
        need(b, [r'rem_cid_set: side\.is_server\(\),', r'handshake_cid: loc_cid, rem_handshake_cid: rem_cid,',
                 r'orig_rem_cid: rem_cid, initial_dst_cid: init_cid, retry_src_cid: None,', r'rem_cids: CidQueue::new\(rem_cid\),',
                 r'total_authed_packets: 0,'], 'Connection::new')
        sig = norm(read(CONN))
        need(sig, [r'pub\(crate\) fn new\( endpoint_config: Arc<EndpointConfig>, config: Arc<TransportConfig>, init_cid: ConnectionId, loc_cid: ConnectionId, rem_cid: ConnectionId,'],
             'Connection::new signature')
        ac = body(EP, 'add_connection')
        need(ac, [r'let conn = Connection::new\( self\.config\.clone\(\), transport_config, init_cid, loc_cid, rem_cid,'], 'Endpoint::add_connection')
        need(norm(read(EP)), [r'fn add_connection\( &mut self, ch: ConnectionHandle, version: u32, init_cid: ConnectionId, loc_cid: ConnectionId, rem_cid: ConnectionId,'],
             'Endpoint::add_connection signature')
        return 1
    g.nat('connNewCidShape', f'{CONN}::Connection::new (+ {EP}::add_connection): orig_rem_cid = rem_handshake_cid = active remote CID = rem_cid, initial_dst_cid = init_cid, retry_src_cid = None, rem_cid_set = is_server',
          conn_new)

    def connect_shape():
        b = body(EP, 'connect')
        need(b, [r'let remote_id = \(config\.initial_dst_cid_provider\)\(\);', r'let loc_cid = self\.new_cid\(ch\);',
                 r'let params = TransportParameters::new\( &config\.transport, &self\.config, self\.local_cid_generator\.as_ref\(\), loc_cid, None, &mut self\.rng, \);',
                 r'let conn = self\.add_connection\( ch, config\.version, remote_id, loc_cid, remote_id,'], 'Endpoint::connect')
        return 1
    g.nat('clientConnectCidShape', f'{EP}::Endpoint::connect: init_cid = rem_cid = the first DCID; the client sends initial_src_cid = its own SCID (loc_cid)',
          connect_shape)

    def server_params():
        b = body(EP, 'accept')
        need(b, [r'let loc_cid = self\.new_cid\(ch\); let mut params = TransportParameters::new\( &server_config\.transport, &self\.config, self\.local_cid_generator\.as_ref\(\), loc_cid, Some\(&server_config\), &mut self\.rng, \);',
                 r'params\.original_dst_cid = Some\(incoming\.token\.orig_dst_cid\); params\.retry_src_cid = incoming\.token\.retry_src_cid;',
                 r'let mut conn = self\.add_connection\( ch, version, dst_cid, loc_cid, src_cid,'], 'Endpoint::accept')
        if len(re.findall(r'params\.(original_dst_cid|retry_src_cid|initial_src_cid) =', b)) != 2:
            raise TranslateError('Endpoint::accept: CID parameters assigned elsewhere')
        t = body(TP, 'new', after='impl TransportParameters {')
        need(t, [r'^\{ Self \{ initial_src_cid: Some\(initial_src_cid\),'], 'TransportParameters::new')
        need(norm(read(TP)), [r'pub\(crate\) fn new\( config: &TransportConfig, endpoint_config: &EndpointConfig, cid_gen: &dyn ConnectionIdGenerator, initial_src_cid: ConnectionId,'],
             'TransportParameters::new signature')
        if len(re.findall(r'src_cid: conn\.handshake_cid,', norm(read(PB)))) != 3:
            raise TranslateError('PacketBuilder: SCID of long headers is no longer handshake_cid')
        return 1
    g.nat('serverEchoShape', f'{EP}::Endpoint::accept (+ TransportParameters::new, PacketBuilder): initial_src_cid = loc_cid = SCID of the server\'s long-header packets, original_dst_cid = token.orig_dst_cid, retry_src_cid = token.retry_src_cid',
          server_params)

    def token_cids():
        b = body(TOKEN, 'from_header')
        need(b, [r'^\{ let unvalidated = Self \{ retry_src_cid: None, orig_dst_cid: header\.dst_cid, validated: false, \};',
                 r'Ok\(Self \{ retry_src_cid: Some\(header\.dst_cid\), orig_dst_cid, validated: true, \}\)',
                 r'Ok\(Self \{ retry_src_cid: None, orig_dst_cid: header\.dst_cid, validated: true, \}\)',
                 r'TokenPayload::Retry \{ address, orig_dst_cid, issued, \} => \{'], 'IncomingToken::from_header')
        r = body(EP, 'retry')
        need(r, [r'let loc_cid = self\.local_cid_generator\.generate_cid\(\);',
                 r'let payload = TokenPayload::Retry \{ address: incoming\.addresses\.remote, orig_dst_cid: incoming\.packet\.header\.dst_cid, issued: server_config\.time_source\.now\(\), \};',
                 r'let header = Header::Retry \{ src_cid: loc_cid, dst_cid: incoming\.packet\.header\.src_cid, version: incoming\.packet\.header\.version, \};',
                 r'server_config\.crypto\.retry_tag\( incoming\.packet\.header\.version, incoming\.packet\.header\.dst_cid, buf, \)'], 'Endpoint::retry')
        return 1
    g.nat('retryTokenCidShape', f'{TOKEN}::IncomingToken::from_header / {EP}::Endpoint::retry: a Retry token carries the DCID of the Initial it answers; a validated Retry token yields retry_src_cid = DCID of the carrying Initial, orig_dst_cid = the token\'s; otherwise (none, DCID of this Initial)',
          token_cids)

    def tp_server_rejects():
        t = norm(read(TP))
        need(t, [r'\|\| \(side\.is_server\(\) && \(params\.original_dst_cid\.is_some\(\) \|\| params\.preferred_address\.is_some\(\) \|\| params\.retry_src_cid\.is_some\(\) \|\| params\.stateless_reset_token\.is_some\(\)\)\)'],
             'TransportParameters::read server-only parameters')
        return 1
    g.nat('tpServerOnlyShape', f'{TP}::TransportParameters::read: a server rejects original_dst_cid / retry_src_cid sent by a client while decoding (before handle_peer_params)',
          tp_server_rejects)
