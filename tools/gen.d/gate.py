"""T1 shape anchors for the send-gate skeleton of Connection::poll_transmit / on_loss_detection_timeout
(C12, Conn/SendGate.lean) -> Gen/SendGate.lean

Each anchor is a regular expression over the comment-stripped, whitespace-normalised function body that pins one
guard or one effect the model mirrors (which branch tests the congestion window, which guard exempts a packet, where
a loss-probe credit is consumed, how many credits a probe timeout grants).  Changing the text breaks the anchor.
"""
import re
NAME = 'SendGate'

def extend(g, api):
    read, strip_comments, fn_body, TranslateError = api.read, api.strip_comments, api.fn_body, api.TranslateError
    MOD = 'quinn-proto/src/connection/mod.rs'

    def body(fn):
        return re.sub(r'\s+', ' ', strip_comments(fn_body(read(MOD), fn))).strip()

    def shape(lean, fn, pattern, what, value=1):
        def f():
            m = re.search(pattern, body(fn))
            if not m:
                raise TranslateError(f'{fn}: {what}: shape changed')
            return value if not callable(value) else value(m)
        g.nat(lean, f'{MOD}::Connection::{fn} {what}', f)

    # the branch that starts a datagram, and the guard of the congestion test in it
    shape('sgNewDatagramBranchShape', 'poll_transmit',
          r'if !coalesce \|\| buf_capacity - buf_end < MIN_PACKET_SPACE \+ tag_len \{',
          'a datagram is started iff `!coalesce || room < MIN_PACKET_SPACE + tag_len`')
    shape('sgNewDatagramGuardShape', 'poll_transmit',
          r'if ack_eliciting && self\.spaces\[space_id\]\.loss_probes == 0 \{ let untracked_bytes = .*? let bytes_to_send = segment_size as u64 \+ untracked_bytes; '
          r'if self\.path\.in_flight\.bytes \+ bytes_to_send >= self\.path\.congestion\.window\(\) \{ space_idx \+= 1; congestion_blocked = true; (trace!\([^)]*\); )?continue; \}',
          'congestion test of a new datagram: guard `ack_eliciting && loss_probes == 0`, blocked => next space')
    # the coalescing branch: application data behind an unchecked datagram is tested; probe credit consumed
    shape('sgCoalesceGuardShape', 'poll_transmit',
          r'\} else \{ if ack_eliciting && space_id == SpaceId::Data && !datagram_congestion_checked && self\.spaces\[space_id\]\.loss_probes == 0 \{ '
          r'let bytes_to_send = \(buf_capacity - datagram_start\) as u64; if self\.path\.in_flight\.bytes \+ bytes_to_send >= self\.path\.congestion\.window\(\) \{ '
          r'space_idx \+= 1; congestion_blocked = true; (trace!\([^)]*\); )?continue; \} \} '
          r'datagram_congestion_checked \|= ack_eliciting && space_id == SpaceId::Data; '
          r'if self\.spaces\[space_id\]\.loss_probes != 0 && !datagram_is_loss_probe \{ self\.spaces\[space_id\]\.loss_probes -= 1; datagram_is_loss_probe = true; \}',
          'coalescing branch: Data-space packets behind an unchecked datagram are tested; a probe riding in a foreign datagram consumes its credit')
    shape('sgDatagramStartShape', 'poll_transmit',
          r'datagram_is_loss_probe = self\.spaces\[space_id\]\.loss_probes != 0; let probe_may_follow = spaces\[space_idx \+ 1\.\.\] \.iter\(\) \.any\(\|&id\| self\.spaces\[id\]\.loss_probes != 0\); let next_datagram_size_limit = match self\.spaces\[space_id\]\.loss_probes \{ 0 if !probe_may_follow => segment_size, 0 => cmp::min\(segment_size, usize::from\(INITIAL_MTU\)\), _ => \{ self\.spaces\[space_id\]\.loss_probes -= 1;'
          r'.*?datagram_start = buf\.len\(\); datagram_congestion_checked = ack_eliciting;',
          'datagram start: credit consumed, `datagram_is_loss_probe`, look-ahead clamp `probe_may_follow` over the later spaces, `datagram_congestion_checked = ack_eliciting`')
    shape('sgSpaceOrderShape', 'poll_transmit',
          r'let mut space_idx = 0; let spaces = \[SpaceId::Initial, SpaceId::Handshake, SpaceId::Data\]; while space_idx < spaces\.len\(\) \{ let space_id = spaces\[space_idx\];',
          'the loop visits the spaces in the order Initial, Handshake, Data (`space_idx` is only ever incremented: `sgSpaceIdxOnlyIncrements`)')
    def only_increments():
        b = body('poll_transmit')
        writes = re.findall(r'space_idx\s*([-+*/]?=)\s*([^;]*);', b)
        if not writes or any(w != ('+=', '1') for w in writes[1:]) or writes[0] != ('=', '0'):
            raise TranslateError(f'poll_transmit: space_idx is written other than `= 0` once and `+= 1`: {writes}')
        return len(writes) - 1
    g.nat('sgSpaceIdxOnlyIncrements', f'{MOD}::Connection::poll_transmit number of `space_idx += 1` sites (no other write after `let mut space_idx = 0`)', only_increments)
    shape('sgCloseNotAckElicitingShape', 'poll_transmit',
          r'if close \{ ack_eliciting = false; \}',
          'a closing packet is never held back (`ack_eliciting = false`)')
    # credits of a probe timeout
    shape('sgPtoProbeCount', 'on_loss_detection_timeout',
          r'let count = match self\.path\.in_flight\.ack_eliciting \{ 0 => \{ (debug_assert!\([^;]*\); )?1 \} _ => (\d+), \};',
          'probes of a conventional probe timeout', value=lambda m: int(m.group(2)))
    shape('sgPtoGrantShape', 'on_loss_detection_timeout',
          r'for id in SpaceId::iter\(\) \{ self\.spaces\[id\]\.loss_probes = 0; \} let mut count = count; '
          r'for earlier in \[SpaceId::Initial, SpaceId::Handshake\] \{ if earlier < space && self\.spaces\[earlier\]\.crypto\.is_some\(\) && !self\.spaces\[earlier\]\.pending\.is_empty\(&self\.streams\) \{ '
          r'self\.spaces\[earlier\]\.loss_probes = 1; count = cmp::max\(count - 1, 1\); break; \} \} self\.spaces\[space\]\.loss_probes = count;',
          'a probe timeout supersedes older credits and grants `count` probes, one of them to the first earlier space with keys and pending data')

    # ---- C13: padding and capacity arithmetic (Conn/Sizing.lean)
    PB = 'quinn-proto/src/connection/packet_builder.rs'
    def pb_body(fn):
        return re.sub(r'\s+', ' ', strip_comments(fn_body(read(PB), fn))).strip()
    def pb_shape(lean, fn, pattern, what):
        def f():
            if not re.search(pattern, pb_body(fn)):
                raise TranslateError(f'{fn}: {what}: shape changed')
            return 1
        g.nat(lean, f'{PB}::PacketBuilder::{fn} {what}', f)
    g.nat('sgMinInitialSize', 'quinn-proto/src/lib.rs::MIN_INITIAL_SIZE', lambda: api.const_value(read('quinn-proto/src/lib.rs'), 'MIN_INITIAL_SIZE'))
    pb_shape('sgPadToShape', 'pad_to', r'self\.min_size = Ord::max\( self\.min_size, self\.datagram_start \+ \(min_size as usize\) - self\.tag_len, \);',
             '`min_size = max(min_size, datagram_start + wanted - tag_len)` (no reference to `max_size`)')
    pb_shape('sgFinishPadShape', 'finish', r'let pad = buffer\.len\(\) < self\.min_size; if pad \{ (trace!\([^;]*\); )?buffer\.resize\(self\.min_size, 0\); \}',
             'the payload is extended to `min_size`')
    pb_shape('sgMaxSizeShape', 'new', r'let max_size = buffer_capacity - tag_len;', '`max_size = buffer_capacity - tag_len`')
    shape('sgPadInitialShape', 'poll_transmit', r'pad_datagram \|= space_id == SpaceId::Initial && \(self\.side\.is_client\(\) \|\| ack_eliciting\);',
          'datagrams with a client Initial (or an ack-eliciting server Initial) are padded')
    shape('sgPadPathFramesShape', 'poll_transmit', r'pad_datagram \|= sent\.requires_padding;', 'datagrams whose packet carries PATH_CHALLENGE / PATH_RESPONSE are padded')
    shape('sgPadLastShape', 'poll_transmit', r'if let Some\(mut builder\) = builder_storage \{ if pad_datagram \{ builder\.pad_to\(MIN_INITIAL_SIZE\); \}',
          'the last packet of the call pads its datagram to MIN_INITIAL_SIZE')
