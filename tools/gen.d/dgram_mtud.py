"""T1 anchors for application datagrams (C16) and MTU discovery (C13) -> Gen/DgramMtud.lean

Constants and every comparison / small arithmetic expression of datagrams.rs and mtud.rs that the hand model
branches on are translated from the current source text; the model *calls* these definitions, so a
one-token edit (`<` -> `<=`, `- 1` dropped, a threshold) changes the generated file and the kernel
re-checks the theorems of Props/C16.lean and Props/C13.lean against it.  Statement shapes that the expression
translator does not cover (`checked_add`, `clamp`, `unsigned_abs`, `checked` subtraction) are matched by
exact-shape regular expressions: if the shape changes the anchor breaks (translation-break).
"""
import re
NAME = 'DgramMtud'

DG = 'quinn-proto/src/connection/datagrams.rs'
MT = 'quinn-proto/src/connection/mtud.rs'
CM = 'quinn-proto/src/connection/mod.rs'
FR = 'quinn-proto/src/frame.rs'
LIB = 'quinn-proto/src/lib.rs'
CT = 'quinn-proto/src/config/transport.rs'


def extend(g, api):
    read, strip_comments, const_value, fn_body = api.read, api.strip_comments, api.const_value, api.fn_body
    translate_expr, TranslateError = api.translate_expr, api.TranslateError

    def squash(s):
        return re.sub(r'\s+', ' ', strip_comments(s)).strip()

    def body(path, fn, after=None):
        return squash(fn_body(read(path), fn, after=after))

    def find(rx, text, what):
        m = re.search(rx, text)
        if not m:
            raise TranslateError(f'{what}: shape not found')
        return m

    def count(rx, text, n, what):
        k = len(re.findall(rx, text))
        if k != n:
            raise TranslateError(f'{what}: expected {n} occurrence(s), found {k}')

    def fun(lean, params, ty, anchor, f):
        sig = ' '.join(f'({p} : Nat)' for p in params)
        g.term(f'{lean} {sig}'.rstrip(), ty, anchor, f)

    # ------------------------------------------------------------------ datagrams.rs
    def size_bound():
        t = strip_comments(read(FR))
        m = find(r'impl\s+FrameStruct\s+for\s+Datagram\s*\{\s*const\s+SIZE_BOUND\s*:\s*usize\s*=\s*([^;]+);', t, 'Datagram::SIZE_BOUND')
        return translate_expr(m.group(1), {})
    g.nat('dgSizeBound', FR + '::Datagram::SIZE_BOUND', size_bound)

    def frame_type():
        t = squash(read(FR))
        lo = find(r'const DATAGRAM_TYS: RangeInclusive<u64> = RangeInclusive::new\((0x[0-9a-f]+), (0x[0-9a-f]+)\);', t, 'DATAGRAM_TYS')
        enc = body(FR, 'encode', after='impl Datagram {')
        find(r'out\.write\(FrameType\(\*DATAGRAM_TYS\.start\(\) \| u64::from\(length\)\)\);', enc, 'Datagram::encode type byte')
        find(r'if length \{ out\.write\(VarInt::from_u64\(self\.data\.len\(\) as u64\)\.unwrap\(\)\); \} out\.extend_from_slice\(&self\.data\);', enc, 'Datagram::encode layout')
        return f'({int(lo.group(1), 16)} ||| 1)'
    g.nat('dgFrameTypeWithLen', FR + '::Datagram::encode type byte (length = true)', frame_type)

    def dg_size():
        b = body(FR, 'size', after='impl Datagram {')
        m = find(r'^\{ (1 \+ if length \{ VarInt::from_u64\(self\.data\.len\(\) as u64\)\.unwrap\(\)\.size\(\) \} else \{ 0 \} \+ self\.data\.len\(\)) \}$', b, 'Datagram::size')
        e = m.group(1).replace('VarInt::from_u64(self.data.len() as u64).unwrap().size()', 'varint_size').replace('self.data.len()', 'len').replace('if length', 'if true')
        return translate_expr(e, {'varint_size': 'varintSize', 'len': 'len'})
    fun('dgFrameSize', ['varintSize', 'len'], 'Nat', FR + '::Datagram::size (length = true)', dg_size)

    def send_too_large():
        b = body(DG, 'send')
        m = find(r'if (data\.len\(\) [<>=!]+ Ord::(?:min|max)\(max, send_buffer_size\)) \{ return Err\(SendDatagramError::TooLarge\); \}', b, 'send TooLarge guard')
        e = re.sub(r'Ord::(min|max)\(max, send_buffer_size\)', r'max.\1(send_buffer_size)', m.group(1).replace('data.len()', 'len'))
        return translate_expr(e, {'len': 'len', 'max': 'max', 'send_buffer_size': 'sendBufferSize'})
    fun('dgTooLarge', ['len', 'max', 'sendBufferSize'], 'Bool', DG + '::Datagrams::send TooLarge guard', send_too_large)

    def send_order():
        b = body(DG, 'send')
        # order of the checks and of the effects of Datagrams::send
        find(r'^\{ if self\.conn\.config\.datagram_receive_buffer_size\.is_none\(\) \{ return Err\(SendDatagramError::Disabled\); \} '
             r'let max = self \.max_size\(\) \.ok_or\(SendDatagramError::UnsupportedByPeer\)\?; '
             r'let send_buffer_size = self\.conn\.config\.datagram_send_buffer_size; '
             r'if data\.len\(\) > Ord::min\(max, send_buffer_size\) \{ return Err\(SendDatagramError::TooLarge\); \} '
             r'if drop \{ self\.conn \.datagrams \.make_space_for\(data\.len\(\), send_buffer_size\); \} '
             r'else if !self \.conn \.datagrams \.has_send_buffer_space\(data\.len\(\), send_buffer_size\) '
             r'\{ self\.conn\.datagrams\.send_blocked = true; return Err\(SendDatagramError::Blocked\(data\)\); \} '
             r'self\.conn\.datagrams\.outgoing_total \+= data\.len\(\); '
             r'self\.conn\.datagrams\.outgoing\.push_back\(Datagram \{ data \}\); Ok\(\(\)\) \}$', b, 'Datagrams::send statement order')
        return 1
    g.nat('dgSendShape', DG + '::Datagrams::send statement order (shape check)', send_order)

    def has_space():
        b = body(DG, 'has_send_buffer_space')
        m = find(r'^\{ let Some\(total\) = self\.outgoing_total\.checked_add\(datagram_len\) else \{ return false; \}; (total [<>=!]+ send_buffer_size) \}$', b, 'has_send_buffer_space')
        cmp_ = translate_expr(m.group(1), {'total': 'total', 'send_buffer_size': 'sendBufferSize'})
        return f'(let total := outgoingTotal + datagramLen; (decide (total < 2^64)) && {cmp_})'
    fun('dgHasSpace', ['outgoingTotal', 'datagramLen', 'sendBufferSize'], 'Bool', DG + '::DatagramState::has_send_buffer_space', has_space)

    def make_space_shape():
        b = body(DG, 'make_space_for')
        find(r'^\{ while !self\.has_send_buffer_space\(datagram_len, send_buffer_size\) \{ let Some\(prev\) = self\.outgoing\.pop_front\(\) else \{ break; \}; '
             r'trace!\([^;]*\); self\.outgoing_total -= prev\.data\.len\(\); \} \}$', b, 'make_space_for loop')
        return 1
    g.nat('dgMakeSpaceShape', DG + '::DatagramState::make_space_for loop (shape check)', make_space_shape)

    def space():
        b = body(DG, 'send_buffer_space')
        m = find(r'^\{ (self\.conn \.config \.datagram_send_buffer_size \.saturating_sub\(self\.conn\.datagrams\.outgoing_total\)) \}$', b, 'send_buffer_space')
        e = m.group(1).replace(' .', '.')
        return translate_expr(e, {'self.conn.config.datagram_send_buffer_size': 'sendBufferSize', 'self.conn.datagrams.outgoing_total': 'outgoingTotal'})
    fun('dgSendBufferSpace', ['sendBufferSize', 'outgoingTotal'], 'Nat', DG + '::Datagrams::send_buffer_space', space)

    def rcv(which):
        b = body(DG, 'received')
        if which == 'over':
            m = find(r'if (datagram\.data\.len\(\) [<>=!]+ window) \{ return Err\(TransportError::PROTOCOL_VIOLATION\("oversized datagram"\)\); \}', b, 'received oversize guard')
        elif which == 'loop':
            # the loop leaves when `recv()` finds the queue empty (`break`), so it cannot spin
            find(r'let cost = Self::recv_cost\(&datagram\.data\); if cost ', b, 'received cost')
            m = find(r'while (cost \+ self\.recv_buffered [<>=!]+ window) \{ debug!\("dropping stale datagram"\); if self\.recv\(\)\.is_none\(\) \{ break; \} \}', b, 'received eviction loop')
        else:
            m = find(r'let was_empty = (self\.recv_buffered [<>=!]+ 0);', b, 'received was_empty')
            find(r'self\.recv_buffered \+= cost; self\.incoming\.push_back\(datagram\); Ok\(was_empty\) \}$', b, 'received tail')
        e = m.group(1).replace('datagram.data.len()', 'len')
        return translate_expr(e, {'len': 'len', 'cost': 'cost', 'window': 'window', 'self.recv_buffered': 'recvBuffered'})
    fun('dgOversized', ['len', 'window'], 'Bool', DG + '::DatagramState::received oversize guard', lambda: rcv('over'))
    fun('dgMustEvict', ['cost', 'recvBuffered', 'window'], 'Bool', DG + '::DatagramState::received eviction loop guard', lambda: rcv('loop'))
    fun('dgWasEmpty', ['recvBuffered'], 'Bool', DG + '::DatagramState::received was_empty', lambda: rcv('empty'))

    def advertised():
        t = squash(read('quinn-proto/src/transport_parameters.rs'))
        m = find(r'max_datagram_frame_size: config \.datagram_receive_buffer_size \.map\(\|x\| \((x\.min\(u16::MAX\.into\(\)\)) as u16\)\.into\(\)\),', t, 'advertised max_datagram_frame_size')
        return translate_expr(m.group(1).replace('u16::MAX.into()', '65535'), {'x': 'window'})
    fun('dgAdvertisedFrameSize', ['window'], 'Nat', 'quinn-proto/src/transport_parameters.rs::TransportParameters::new max_datagram_frame_size (what the peer is told)', advertised)

    def cost_too_big():
        b = body(DG, 'received')
        # a datagram charged more than the whole buffer (an empty one, window 0) is dropped, not buffered, no error
        m = find(r'let cost = Self::recv_cost\(&datagram\.data\); if (cost [<>=!]+ window) \{ debug!\("[^"]*"\); return Ok\(false\); \} let was_empty = ', b, 'received cost-exceeds-buffer guard')
        return translate_expr(m.group(1), {'cost': 'cost', 'window': 'window'})
    fun('dgCostTooBig', ['cost', 'window'], 'Bool', DG + '::DatagramState::received cost-exceeds-buffer guard', cost_too_big)

    def recv_cost():
        b = body(DG, 'recv_cost')
        m = find(r'^\{ (data\.len\(\)\.max\(\d+\)) \}$', b, 'recv_cost')
        # the same charge is taken back when the datagram leaves the queue
        find(r'^\{ let x = self\.incoming\.pop_front\(\)\?\.data; self\.recv_buffered -= Self::recv_cost\(&x\); Some\(x\) \}$',
             body(DG, 'recv', after='impl DatagramState'), 'DatagramState::recv')
        return translate_expr(m.group(1).replace('data.len()', 'len'), {'len': 'len'})
    fun('dgRecvCost', ['len'], 'Nat', DG + '::DatagramState::recv_cost (charge per buffered datagram; recv takes the same back)', recv_cost)

    def keep():
        b = body(DG, 'drop_oversized')
        m = find(r'let result = (datagram\.data\.len\(\) [<>=!]+ max_payload);', b, 'drop_oversized retain predicate')
        find(r'if !result \{ trace!\([^;]*\); self\.outgoing_total -= datagram\.data\.len\(\); dropped_any = true; \} result \}\); dropped_any \}$', b, 'drop_oversized effects')
        return translate_expr(m.group(1).replace('datagram.data.len()', 'len'), {'len': 'len', 'max_payload': 'maxPayload'})
    fun('dgKeep', ['len', 'maxPayload'], 'Bool', DG + '::DatagramState::drop_oversized retain predicate', keep)

    def no_room():
        b = body(DG, 'write')
        m = find(r'if (buf\.len\(\) \+ datagram\.size\(true\) [<>=!]+ max_size) \{ self\.outgoing\.push_front\(datagram\); return false; \}', b, 'write budget guard')
        find(r'self\.outgoing_total -= datagram\.data\.len\(\); datagram\.encode\(true, buf\); true \}$', b, 'write effects')
        e = m.group(1).replace('buf.len()', 'buf_len').replace('datagram.size(true)', 'frame_size')
        return translate_expr(e, {'buf_len': 'bufLen', 'frame_size': 'frameSize', 'max_size': 'maxSize'})
    fun('dgNoRoom', ['bufLen', 'frameSize', 'maxSize'], 'Bool', DG + '::DatagramState::write budget guard', no_room)

    def max_size(part):
        b = body(DG, 'max_size')
        m = find(r'^\{ let max_size = (self\.conn\.path\.current_mtu\(\) as usize - self\.conn\.predict_1rtt_overhead\(None\) - Datagram::SIZE_BOUND); '
                 r'let limit = self \.conn \.peer_params \.max_datagram_frame_size\? \.into_inner\(\) (\.saturating_sub\(Datagram::SIZE_BOUND as u64\)); '
                 r'Some\((limit\.min\(max_size as u64\)) as usize\) \}$', b, 'Datagrams::max_size')
        ren = {'mtu': 'currentMtu', 'overhead': 'overhead', 'Datagram::SIZE_BOUND': 'dgSizeBound', 'peer': 'peerLimit', 'limit': 'limit', 'max_size': 'budget'}
        if part == 0:
            # the two subtractions are checked (usize): the model tests `dgMaxSizeFits` first
            return translate_expr(m.group(1).replace('self.conn.path.current_mtu()', 'mtu').replace('self.conn.predict_1rtt_overhead(None)', 'overhead'), ren)
        if part == 1:
            return translate_expr('peer' + m.group(2), ren)
        return translate_expr(m.group(3), ren)
    fun('dgMaxSizeBudget', ['currentMtu', 'overhead'], 'Nat', DG + '::Datagrams::max_size packet budget (checked subtraction)', lambda: max_size(0))
    fun('dgMaxSizeLimit', ['peerLimit'], 'Nat', DG + '::Datagrams::max_size peer limit', lambda: max_size(1))
    fun('dgMaxSizeResult', ['limit', 'budget'], 'Nat', DG + '::Datagrams::max_size result', lambda: max_size(2))

    def overhead(part):
        b = body(CM, 'predict_1rtt_overhead')
        m = find(r'None => (\d+), \}; let long_header_extra = match self\.spaces\[SpaceId::Data\]\.crypto \{ Some\(_\) => 0, None => (4 \+ 1 \+ 1 \+ self\.handshake_cid\.len\(\) \+ 2), \}; '
                 r'(1 \+ self\.rem_cids\.active\(\)\.len\(\) \+ pn_len \+ self\.tag_len_1rtt\(\) \+ long_header_extra) \}$', b, 'predict_1rtt_overhead')
        if part == 0:
            return int(m.group(1))
        if part == 2:
            return translate_expr(m.group(2).replace('self.handshake_cid.len()', 'scid_len'), {'scid_len': 'scidLen'})
        e = m.group(3).replace('self.rem_cids.active().len()', 'cid_len').replace('self.tag_len_1rtt()', 'tag_len')
        return translate_expr(e, {'cid_len': 'cidLen', 'pn_len': 'pnLen', 'tag_len': 'tagLen', 'long_header_extra': 'longHeaderExtra'})
    g.nat('dgPnLenBound', CM + '::Connection::predict_1rtt_overhead pn = None', lambda: overhead(0))
    fun('dgOverhead', ['cidLen', 'pnLen', 'tagLen', 'longHeaderExtra'], 'Nat', CM + '::Connection::predict_1rtt_overhead', lambda: overhead(1))
    fun('dgLongHeaderExtra', ['scidLen'], 'Nat', CM + '::Connection::predict_1rtt_overhead long header (no 1-RTT keys: 0-RTT packets)', lambda: overhead(2))
    g.nat('dgTagLenGuess', CM + '::Connection::tag_len_1rtt without keys',
          lambda: int(find(r'key\.map_or\((\d+), \|x\| x\.tag_len\(\)\)', body(CM, 'tag_len_1rtt'), 'tag_len_1rtt').group(1)))

    def glue(which):
        t = squash(read(CM))
        if which == 'guard':
            m = find(r'let mut sent_datagrams = false; while (buf\.len\(\) \+ Datagram::SIZE_BOUND [<>=!]+ max_size) && space_id == SpaceId::Data \{ '
                     r'match self\.datagrams\.write\(buf, max_size\) \{ true => \{ sent_datagrams = true; sent\.non_retransmits = true; self\.stats\.frame_tx\.datagram \+= 1; \} false => break, \} \} '
                     r'if (self\.datagrams\.send_blocked && sent_datagrams) \{ self\.events\.push_back\(Event::DatagramsUnblocked\); self\.datagrams\.send_blocked = false; \}', t, 'populate_packet DATAGRAM loop')
            return translate_expr(m.group(1).replace('buf.len()', 'buf_len'), {'buf_len': 'bufLen', 'Datagram::SIZE_BOUND': 'dgSizeBound', 'max_size': 'maxSize'})
        find(r'if let Some\(max_datagram_size\) = self\.datagrams\(\)\.max_size\(\) \{ if self\.datagrams\.drop_oversized\(max_datagram_size\) && self\.datagrams\.send_blocked \{ '
             r'self\.datagrams\.send_blocked = false; self\.events\.push_back\(Event::DatagramsUnblocked\); \} \}', t, 'black hole datagram glue')
        return 1
    def front():
        b = body(DG, 'drop_oversized_front')
        m = find(r'^\{ let mut dropped_any = false; while let Some\(datagram\) = self\.outgoing\.front\(\) \{ if (datagram\.data\.len\(\) [<>=!]+ max_payload) \{ break; \} '
                 r'trace!\([^;]*\); self\.outgoing_total -= datagram\.data\.len\(\); self\.outgoing\.pop_front\(\); dropped_any = true; \} dropped_any \}$', b, 'drop_oversized_front')
        t = squash(read(CM))
        # the glue, and where it runs: at the top of every poll_transmit of a connection that is not closing
        find(r'fn drop_unsendable_datagrams\(&mut self\) \{ let Some\(max_datagram_size\) = self\.datagrams\(\)\.max_size\(\) else \{ return; \}; '
             r'if self\.datagrams\.drop_oversized_front\(max_datagram_size\) && self\.datagrams\.send_blocked \{ self\.datagrams\.send_blocked = false; self\.events\.push_back\(Event::DatagramsUnblocked\); \} \}', t, 'drop_unsendable_datagrams')
        find(r'_ => false, \}; if !close \{ self\.drop_unsendable_datagrams\(\); \}', t, 'poll_transmit purge call site')
        return translate_expr(m.group(1).replace('datagram.data.len()', 'len'), {'len': 'len', 'max_payload': 'maxPayload'})
    fun('dgFrontFits', ['len', 'maxPayload'], 'Bool', DG + '::DatagramState::drop_oversized_front stop predicate (+ glue in Connection::poll_transmit)', front)

    fun('dgLoopGuard', ['bufLen', 'maxSize'], 'Bool', CM + '::Connection::populate_packet DATAGRAM loop guard', lambda: glue('guard'))
    g.nat('dgBlackHoleGlueShape', CM + '::Connection::detect_lost_packets datagram glue (shape check)', lambda: glue('bh'))

    # ------------------------------------------------------------------ mtud.rs
    g.nat('mtudMaxProbeRetransmits', MT + '::MAX_PROBE_RETRANSMITS', lambda: const_value(read(MT), 'MAX_PROBE_RETRANSMITS'))
    g.nat('mtudBlackHoleThreshold', MT + '::BLACK_HOLE_THRESHOLD', lambda: const_value(read(MT), 'BLACK_HOLE_THRESHOLD'))
    g.nat('maxUdpPayload', LIB + '::MAX_UDP_PAYLOAD', lambda: const_value(read(LIB), 'MAX_UDP_PAYLOAD'))
    g.nat('initialMtu', LIB + '::INITIAL_MTU', lambda: const_value(read(LIB), 'INITIAL_MTU'))

    def default_cfg(field):
        t = squash(read(CT))
        m = find(r'impl Default for MtuDiscoveryConfig \{ fn default\(\) -> Self \{ Self \{ interval: Duration::from_secs\((\d+)\), upper_bound: ([\d_]+), '
                 r'black_hole_cooldown: Duration::from_secs\((\d+)\), minimum_change: ([\d_]+), \} \} \}', t, 'MtuDiscoveryConfig::default')
        v = int(m.group(field).replace('_', ''))
        return f'{v} * 1000000000' if field in (1, 3) else v
    g.nat('mtudDefaultInterval', CT + '::MtuDiscoveryConfig::default interval (ns)', lambda: default_cfg(1))
    g.nat('mtudDefaultUpperBound', CT + '::MtuDiscoveryConfig::default upper_bound', lambda: default_cfg(2))
    g.nat('mtudDefaultCooldown', CT + '::MtuDiscoveryConfig::default black_hole_cooldown (ns)', lambda: default_cfg(3))
    g.nat('mtudDefaultMinimumChange', CT + '::MtuDiscoveryConfig::default minimum_change', lambda: default_cfg(4))

    def cfg_upper_clamp():
        b = body(CT, 'upper_bound', after='impl MtuDiscoveryConfig')
        m = find(r'^\{ self\.upper_bound = (value\.min\(MAX_UDP_PAYLOAD\)); self \}$', b, 'MtuDiscoveryConfig::upper_bound setter')
        return translate_expr(m.group(1), {'value': 'value', 'MAX_UDP_PAYLOAD': 'maxUdpPayload'})
    fun('mtudCfgUpperBound', ['value'], 'Nat', CT + '::MtuDiscoveryConfig::upper_bound setter', cfg_upper_clamp)

    def new_assert():
        b = body(MT, 'new', after='impl MtuDiscovery')
        m = find(r'^\{ debug_assert!\( (initial_plpmtu [<>=!]+ min_mtu), "[^"]*" \);', b, 'MtuDiscovery::new debug_assert')
        find(r'let mut mtud = Self::with_state\( initial_plpmtu, min_mtu, Some\(EnabledMtuDiscovery::new\(config\)\), \); '
             r'if let Some\(peer_max_udp_payload_size\) = peer_max_udp_payload_size \{ mtud\.on_peer_max_udp_payload_size_received\(peer_max_udp_payload_size\); \} mtud \}$', b, 'MtuDiscovery::new body')
        return translate_expr(m.group(1), {'initial_plpmtu': 'initialPlpmtu', 'min_mtu': 'minMtu'})
    fun('mtudNewOk', ['initialPlpmtu', 'minMtu'], 'Bool', MT + '::MtuDiscovery::new debug_assert', new_assert)

    def peer_clamp():
        b = body(MT, 'on_peer_max_udp_payload_size_received')
        m = find(r'^\{ self\.current_mtu = (self\.current_mtu\.min\(peer_max_udp_payload_size\)); self\.peer_max_udp_payload_size = peer_max_udp_payload_size; if let Some\(state\) = self\.state\.as_mut\(\) \{ '
                 r'debug_assert!\( !matches!\(state\.phase, Phase::Searching\(_\)\), "[^"]*" \); state\.peer_max_udp_payload_size = peer_max_udp_payload_size; \} \}$', b, 'on_peer_max_udp_payload_size_received')
        return translate_expr(m.group(1), {'self.current_mtu': 'currentMtu', 'peer_max_udp_payload_size': 'peerMax'})
    fun('mtudPeerClamp', ['currentMtu', 'peerMax'], 'Nat', MT + '::MtuDiscovery::on_peer_max_udp_payload_size_received', peer_clamp)

    def enabled_new():
        b = body(MT, 'new', after='impl EnabledMtuDiscovery')
        find(r'^\{ Self \{ phase: Phase::Initial, peer_max_udp_payload_size: MAX_UDP_PAYLOAD, config, \} \}$', b, 'EnabledMtuDiscovery::new')
        return 1
    g.nat('mtudEnabledNewShape', MT + '::EnabledMtuDiscovery::new (shape check)', enabled_new)

    def poll(which):
        b = body(MT, 'poll_transmit', after='impl EnabledMtuDiscovery')
        if which == 'notyet':
            m = find(r'else if let Phase::Complete\(next_mtud_activation\) = &self\.phase \{ if (now [<>=!]+ \*next_mtud_activation) \{ return None; \}', b, 'poll_transmit activation guard')
            return translate_expr(m.group(1).replace('*', ''), {'now': 'now', 'next_mtud_activation': 'nextActivation'})
        if which == 'retx':
            m = find(r'if state\.in_flight_probe\.is_some\(\) \{ return None; \} '
                     r'if (0 [<>=!]+ state\.lost_probe_count && state\.lost_probe_count [<>=!]+ MAX_PROBE_RETRANSMITS) \{ state\.in_flight_probe = Some\(next_pn\); return Some\(state\.last_probed_mtu\); \}', b, 'poll_transmit retransmit guard')
            return translate_expr(m.group(1), {'state.lost_probe_count': 'lostProbeCount', 'MAX_PROBE_RETRANSMITS': 'mtudMaxProbeRetransmits'})
        if which == 'succ':
            m = find(r'let last_probe_succeeded = (state\.lost_probe_count [<>=!]+ 0); if !last_probe_succeeded \{ state\.lost_probe_count = 0; state\.in_flight_probe = None; \}', b, 'poll_transmit last_probe_succeeded')
            find(r'if let Some\(probe_udp_payload_size\) = state\.next_mtu_to_probe\(last_probe_succeeded\) \{ state\.in_flight_probe = Some\(next_pn\); '
                 r'state\.last_probed_mtu = probe_udp_payload_size; return Some\(probe_udp_payload_size\); \} else \{ '
                 r'let next_mtud_activation = now \+ self\.config\.interval; self\.phase = Phase::Complete\(next_mtud_activation\); return None; \}', b, 'poll_transmit tail')
            return translate_expr(m.group(1), {'state.lost_probe_count': 'lostProbeCount'})
    fun('mtudNotYet', ['now', 'nextActivation'], 'Bool', MT + '::EnabledMtuDiscovery::poll_transmit activation guard', lambda: poll('notyet'))
    fun('mtudRetransmit', ['lostProbeCount'], 'Bool', MT + '::EnabledMtuDiscovery::poll_transmit retransmit guard', lambda: poll('retx'))
    fun('mtudLastProbeSucceeded', ['lostProbeCount'], 'Bool', MT + '::EnabledMtuDiscovery::poll_transmit last_probe_succeeded', lambda: poll('succ'))

    def acked_match():
        b = body(MT, 'on_probe_acked')
        find(r'Phase::Searching\(state\) if state\.in_flight_probe == Some\(pn\) => \{ state\.in_flight_probe = None; state\.lost_probe_count = 0; Some\(state\.last_probed_mtu\) \} _ => None,', b, 'on_probe_acked')
        b = body(MT, 'on_probe_lost', after='impl EnabledMtuDiscovery')
        find(r'if let Phase::Searching\(state\) = &mut self\.phase \{ state\.in_flight_probe = None; state\.lost_probe_count \+= 1; \}', b, 'on_probe_lost')
        b = body(MT, 'on_black_hole_detected')
        find(r'^\{ let next_mtud_activation = now \+ self\.config\.black_hole_cooldown; self\.phase = Phase::Complete\(next_mtud_activation\); \}$', b, 'on_black_hole_detected')
        return 1
    g.nat('mtudProbeResultShape', MT + '::EnabledMtuDiscovery::{on_probe_acked,on_probe_lost,on_black_hole_detected} (shape check)', acked_match)

    def search_new(which):
        b = body(MT, 'new', after='impl SearchState')
        m = find(r'^\{ lower_bound = (lower_bound\.min\(peer_max_udp_payload_size\)); let upper_bound = config \.upper_bound \.clamp\(lower_bound, peer_max_udp_payload_size\); '
                 r'Self \{ in_flight_probe: None, lost_probe_count: 0, lower_bound, upper_bound, minimum_change: config\.minimum_change, last_probed_mtu: lower_bound, \} \}$', b, 'SearchState::new')
        return translate_expr(m.group(1), {'lower_bound': 'lowerBound', 'peer_max_udp_payload_size': 'peerMax'})
    fun('mtudSearchLower', ['lowerBound', 'peerMax'], 'Nat', MT + '::SearchState::new lower bound (and clamp shape)', lambda: search_new(0))

    def next_mtu(which):
        b = body(MT, 'next_mtu_to_probe')
        m = find(r'^\{ debug_assert_eq!\(self\.in_flight_probe, None\); if last_probe_succeeded \{ self\.lower_bound = self\.last_probed_mtu; \} else \{ self\.upper_bound = (self\.last_probed_mtu(?: [-+] \d+)?); \} '
                 r'let next_mtu = (\(self\.lower_bound as i32 [-+] self\.upper_bound as i32\) / \d+); '
                 r'if \(\(next_mtu - self\.last_probed_mtu as i32\)\.unsigned_abs\(\) as u16\) ([<>=!]+) self\.minimum_change \{ '
                 r'if (self\.upper_bound\.saturating_sub\(self\.last_probed_mtu\) [<>=!]+ self\.minimum_change) \{ return Some\(self\.upper_bound\); \} return None; \} Some\(next_mtu as u16\) \}$', b, 'next_mtu_to_probe')
        ren = {'self.lower_bound': 'lowerBound', 'self.upper_bound': 'upperBound', 'self.last_probed_mtu': 'lastProbedMtu', 'self.minimum_change': 'minimumChange'}
        if which == 'dec':
            return translate_expr(m.group(1), ren)   # checked u16 subtraction: the model tests lastProbedMtu = 0 first
        if which == 'mid':
            return translate_expr(m.group(2), ren)
        if which == 'stop':
            return '(decide ((if nextMtu ≤ lastProbedMtu then lastProbedMtu - nextMtu else nextMtu - lastProbedMtu) ' + {'<': '<', '<=': '≤', '>': '>', '>=': '≥', '==': '=', '!=': '≠'}[m.group(3)] + ' minimumChange))'
        return translate_expr(m.group(4), ren)
    fun('mtudUpperAfterLoss', ['lastProbedMtu'], 'Nat', MT + '::SearchState::next_mtu_to_probe upper bound after a lost probe (checked subtraction)', lambda: next_mtu('dec'))
    fun('mtudMidpoint', ['lowerBound', 'upperBound'], 'Nat', MT + '::SearchState::next_mtu_to_probe midpoint', lambda: next_mtu('mid'))
    fun('mtudStop', ['nextMtu', 'lastProbedMtu', 'minimumChange'], 'Bool', MT + '::SearchState::next_mtu_to_probe stopping condition', lambda: next_mtu('stop'))
    fun('mtudProbeUpper', ['upperBound', 'lastProbedMtu', 'minimumChange'], 'Bool', MT + '::SearchState::next_mtu_to_probe last-step condition', lambda: next_mtu('upper'))

    def bhd(which):
        ren = {'len': 'len', 'self.acked_mtu': 'ackedMtu', 'burst.smallest_packet_size': 'smallest', 'pn': 'pn', 'current.latest_non_probe': 'latest',
               'self.min_mtu': 'minMtu', 'burst.latest_non_probe': 'latest', 'self.largest_post_loss_packet': 'largestPostLoss',
               'n': 'n', 'BLACK_HOLE_THRESHOLD': 'mtudBlackHoleThreshold', 'prev.smallest_packet_size': 'prev', 'prev_smallest': 'prev'}
        if which in ('noop', 'stays'):
            b = body(MT, 'on_non_probe_acked')
            m = find(r'^\{ if (len [<>=!]+ self\.acked_mtu) \{ return; \} self\.acked_mtu = len; self\.largest_post_loss_packet = pn; '
                     r'self\.suspicious_loss_bursts \.retain\(\|burst\| (burst\.smallest_packet_size [<>=!]+ len)\); \}$', b, 'on_non_probe_acked')
            return translate_expr(m.group(1 if which == 'noop' else 2), ren)
        if which == 'probe':
            b = body(MT, 'on_probe_acked', after='impl BlackHoleDetector')
            find(r'^\{ self\.suspicious_loss_bursts\.clear\(\); self\.acked_mtu = len; self\.largest_post_loss_packet = pn; \}$', b, 'BlackHoleDetector::on_probe_acked')
            return 1
        if which in ('end', 'merge'):
            b = body(MT, 'on_non_probe_lost', after='impl BlackHoleDetector')
            m = find(r'^\{ let end_last_burst = self \.current_loss_burst \.as_ref\(\) \.is_some_and\(\|current\| (pn - current\.latest_non_probe [<>=!]+ \d+)\); '
                     r'if end_last_burst \{ self\.finish_loss_burst\(\); \} self\.current_loss_burst = Some\(CurrentLossBurst \{ latest_non_probe: pn, '
                     r'smallest_packet_size: self \.current_loss_burst \.map_or\(len, \|prev\| (cmp::min\(prev\.smallest_packet_size, len\))\), \}\); \}$', b, 'on_non_probe_lost')
            if which == 'end':
                return translate_expr(m.group(1), ren)   # checked u64 subtraction: the model tests pn < latest first
            return translate_expr(m.group(2).replace('cmp::min(prev.smallest_packet_size, len)', 'prev_smallest.min(len)'), ren)
        if which == 'detected':
            b = body(MT, 'black_hole_detected', after='impl BlackHoleDetector')
            m = find(r'^\{ self\.finish_loss_burst\(\); if (self\.suspicious_loss_bursts\.len\(\) [<>=!]+ BLACK_HOLE_THRESHOLD) \{ return false; \} self\.suspicious_loss_bursts\.clear\(\); true \}$', b, 'BlackHoleDetector::black_hole_detected')
            return translate_expr(m.group(1).replace('self.suspicious_loss_bursts.len()', 'n'), ren)
        b = body(MT, 'finish_loss_burst')
        m = find(r'^\{ let Some\(burst\) = self\.current_loss_burst\.take\(\) else \{ return; \}; '
                 r'if (burst\.smallest_packet_size [<>=!]+ self\.min_mtu \|\| \(burst\.latest_non_probe [<>=!]+ self\.largest_post_loss_packet && burst\.smallest_packet_size [<>=!]+ self\.acked_mtu\)) \{ return; \} '
                 r'if (burst\.latest_non_probe [<>=!]+ self\.largest_post_loss_packet) \{ self\.acked_mtu = self\.min_mtu; \} '
                 r'let burst = LossBurst \{ smallest_packet_size: burst\.smallest_packet_size, \}; '
                 r'if (self\.suspicious_loss_bursts\.len\(\) [<>=!]+ BLACK_HOLE_THRESHOLD) \{ self\.suspicious_loss_bursts\.push\(burst\); return; \} '
                 r'let smallest = self \.suspicious_loss_bursts \.iter_mut\(\) \.min_by_key\(\|prev\| prev\.smallest_packet_size\) '
                 r'\.filter\(\|prev\| (prev\.smallest_packet_size [<>=!]+ burst\.smallest_packet_size)\); if let Some\(smallest\) = smallest \{ \*smallest = burst; \} \}$', b, 'finish_loss_burst')
        k = {'benign': 1, 'invalidates': 2, 'room': 3, 'replace': 4}[which]
        return translate_expr(m.group(k).replace('self.suspicious_loss_bursts.len()', 'n'), ren)
    fun('mtudAckedNoop', ['len', 'ackedMtu'], 'Bool', MT + '::BlackHoleDetector::on_non_probe_acked early return', lambda: bhd('noop'))
    fun('mtudBurstStays', ['smallest', 'len'], 'Bool', MT + '::BlackHoleDetector::on_non_probe_acked retain predicate', lambda: bhd('stays'))
    g.nat('mtudDetectorProbeAckedShape', MT + '::BlackHoleDetector::on_probe_acked (shape check)', lambda: bhd('probe'))
    fun('mtudEndsBurst', ['pn', 'latest'], 'Bool', MT + '::BlackHoleDetector::on_non_probe_lost burst boundary (checked subtraction)', lambda: bhd('end'))
    fun('mtudMergeSmallest', ['prev', 'len'], 'Nat', MT + '::BlackHoleDetector::on_non_probe_lost smallest size', lambda: bhd('merge'))
    fun('mtudNoBlackHole', ['n'], 'Bool', MT + '::BlackHoleDetector::black_hole_detected threshold', lambda: bhd('detected'))
    fun('mtudBenign', ['smallest', 'latest', 'minMtu', 'largestPostLoss', 'ackedMtu'], 'Bool', MT + '::BlackHoleDetector::finish_loss_burst non-suspicious test', lambda: bhd('benign'))
    fun('mtudInvalidates', ['latest', 'largestPostLoss'], 'Bool', MT + '::BlackHoleDetector::finish_loss_burst invalidation test', lambda: bhd('invalidates'))
    fun('mtudHasRoom', ['n'], 'Bool', MT + '::BlackHoleDetector::finish_loss_burst capacity test', lambda: bhd('room'))
    fun('mtudReplaces', ['prev', 'smallest'], 'Bool', MT + '::BlackHoleDetector::finish_loss_burst replacement test', lambda: bhd('replace'))

    def outer(which):
        if which == 'acked':
            b = body(MT, 'on_acked')
            find(r'^\{ if space != SpaceId::Data \{ return false; \} if let Some\(new_mtu\) = self \.state \.as_mut\(\) \.and_then\(\|state\| state\.on_probe_acked\(pn\)\) \{ '
                 r'self\.current_mtu = new_mtu; trace!\([^;]*\); self\.black_hole_detector\.on_probe_acked\(pn, len\); true \} else \{ self\.black_hole_detector\.on_non_probe_acked\(pn, len\); false \} \}$', b, 'MtuDiscovery::on_acked')
            return 1
        if which == 'bhd':
            b = body(MT, 'black_hole_detected', after='impl MtuDiscovery')
            m = find(r'^\{ if !self\.black_hole_detector\.black_hole_detected\(\) \{ return false; \} self\.current_mtu = (self\.current_mtu\.(?:min|max)\(self\.black_hole_detector\.min_mtu\)); '
                     r'if let Some\(state\) = &mut self\.state \{ state\.on_black_hole_detected\(now\); \} true \}$', b, 'MtuDiscovery::black_hole_detected')
            return translate_expr(m.group(1), {'self.current_mtu': 'currentMtu', 'self.black_hole_detector.min_mtu': 'minMtu'})
        if which == 'reset':
            b = body(MT, 'reset')
            m = find(r'^\{ self\.current_mtu = current_mtu; if let Some\(state\) = self\.state\.take\(\) \{ self\.state = Some\(EnabledMtuDiscovery::new\(state\.config\)\); '
                     r'self\.on_peer_max_udp_payload_size_received\(state\.peer_max_udp_payload_size\); \} else \{ self\.current_mtu = (self\.current_mtu\.(?:min|max)\(self\.peer_max_udp_payload_size\)); \} '
                     r'self\.black_hole_detector = BlackHoleDetector::new\(min_mtu\); \}$', b, 'MtuDiscovery::reset')
            return translate_expr(m.group(1), {'self.current_mtu': 'currentMtu', 'self.peer_max_udp_payload_size': 'peerMax'})
        b = body(MT, 'with_state')
        m = find(r'^\{ Self \{ current_mtu, state, black_hole_detector: BlackHoleDetector::new\(min_mtu\), peer_max_udp_payload_size: (\w+), \} \}$', b, 'MtuDiscovery::with_state')
        return translate_expr(m.group(1), {'MAX_UDP_PAYLOAD': 'maxUdpPayload'})
    g.nat('mtudOnAckedShape', MT + '::MtuDiscovery::on_acked (shape check)', lambda: outer('acked'))
    fun('mtudBlackHoleMtu', ['currentMtu', 'minMtu'], 'Nat', MT + '::MtuDiscovery::black_hole_detected new current_mtu', lambda: outer('bhd'))
    fun('mtudResetClamp', ['currentMtu', 'peerMax'], 'Nat', MT + '::MtuDiscovery::reset with discovery disabled: peer limit re-applied', lambda: outer('reset'))
    g.nat('mtudInitialPeerMax', MT + '::MtuDiscovery::with_state remembered peer limit before the transport parameters arrive', lambda: outer('with_state'))

    # ---- C13: size limit of the next datagram in Connection::poll_transmit (loss probes are clamped to INITIAL_MTU in EVERY space)
    connrs = 'quinn-proto/src/connection/mod.rs'
    def probe_clamp():
        body = api.strip_comments(api.fn_body(api.read(connrs), 'poll_transmit'))
        pat = (r'let probe_may_follow = spaces\[space_idx \+ 1\.\.\]\s*\.iter\(\)\s*\.any\(\|&id\| self\.spaces\[id\]\.loss_probes != 0\);\s*'
               r'let next_datagram_size_limit = match self\.spaces\[space_id\]\.loss_probes \{\s*0 if !probe_may_follow => segment_size,\s*'
               r'0 => cmp::min\(segment_size, usize::from\(INITIAL_MTU\)\),\s*_ => \{\s*'
               r'self\.spaces\[space_id\]\.loss_probes -= 1;\s*cmp::min\(segment_size, usize::from\(INITIAL_MTU\)\)\s*\}\s*\};\s*buf_capacity \+= next_datagram_size_limit;')
        if not re.search(pat, body, re.S):
            raise Exception('poll_transmit: loss-probe size clamp shape changed')
        return 1
    g.nat('lossProbeClampShapeChecked', f'{connrs}::Connection::poll_transmit `next_datagram_size_limit` (a datagram started for a loss probe, or while a later packet number space holds a loss-probe credit that may be coalesced into it, is limited to min(segment_size, INITIAL_MTU) whatever the packet space; modelled in Conn/Sizing.lean)', probe_clamp)
