"""T1 anchors of connection termination (C08): idle-timeout negotiation, idle period, closing period -> Gen/Term.lean"""
import re
NAME = 'Term'

def extend(g, api):
    conn = 'quinn-proto/src/connection/mod.rs'

    def negotiate():
        """`match (x, y) { (P, P) => E, ... }` over Option<VarInt> -> Lean match over Option Nat (milliseconds), arm by arm"""
        body = api.strip_comments(api.fn_body(api.read(conn), 'negotiate_max_idle_timeout'))
        m = re.search(r'match \(x, y\) \{(.*)\}\s*$', body.strip(), re.S)
        if not m:
            raise Exception('negotiate_max_idle_timeout: not a single match on (x, y)')
        arms = [a.strip() for a in m.group(1).split('\n') if a.strip() and a.strip() != '}']
        def atom(p):
            p = p.strip()
            if p == 'None':
                return 'none'
            if p == 'Some(VarInt(0))':
                return 'some 0'
            mm = re.fullmatch(r'Some\((\w+)\)', p)
            if mm:
                return f'some {mm.group(1)}'
            raise Exception(f'negotiate_max_idle_timeout: pattern {p!r}')
        def pat(p):
            return [atom(a) for a in p.split('|')]
        def expr(e):
            e = e.strip()
            if e == 'None':
                return 'none'
            mm = re.fullmatch(r'Some\(Duration::from_millis\((.*)\)\)', e)
            if not mm:
                raise Exception(f'negotiate_max_idle_timeout: arm value {e!r}')
            v = mm.group(1).strip()
            m2 = re.fullmatch(r'cmp::(min|max)\((\w+), (\w+)\)\.0', v)
            if m2:
                return f'some ({m2.group(1)} {m2.group(2)} {m2.group(3)})'
            m3 = re.fullmatch(r'(\w+)\.0', v)
            if m3:
                return f'some {m3.group(1)}'
            raise Exception(f'negotiate_max_idle_timeout: arm value {e!r}')
        out = []
        for a in arms:
            mm = re.fullmatch(r'\((.*),\s*([^,]*)\)\s*=>\s*(.*?),?', a)
            if not mm:
                raise Exception(f'negotiate_max_idle_timeout: arm {a!r}')
            # an or-pattern inside a tuple pattern = the cross product of alternatives of one Lean arm
            alts = ' | '.join(f'{a}, {b}' for a in pat(mm.group(1)) for b in pat(mm.group(2)))
            out.append(f'  | {alts} => {expr(mm.group(3))}')
        if len(out) < 2:
            raise Exception('negotiate_max_idle_timeout: arms not found')
        return '\n  match x, y with\n' + '\n'.join(out)
    g.fn('negotiateMaxIdleTimeout', '(x y : Option Nat) : Option Nat',
         f'{conn}::negotiate_max_idle_timeout (milliseconds; None = no timeout)', negotiate)

    def idle_factor():
        body = api.strip_comments(api.fn_body(api.read(conn), 'reset_idle_timeout'))
        m = re.search(r'let dt = cmp::max\(timeout, (\d+) \* self\.pto\(space\)\);\s*self\.timers\.set\(Timer::Idle, now \+ dt\);', body)
        if not m:
            raise Exception('reset_idle_timeout: the idle period is no longer max(negotiated timeout, K * pto)')
        return int(m.group(1))
    g.nat('idlePtoFactor', f'{conn}::Connection::reset_idle_timeout Timer::Idle = now + max(idle timeout, K * pto)', idle_factor)

    def close_factor():
        body = api.strip_comments(api.fn_body(api.read(conn), 'set_close_timer'))
        m = re.search(r'\.set\(Timer::Close, now \+ (\d+) \* self\.pto\(self\.highest_space\)\)', body)
        if not m:
            raise Exception('set_close_timer: the closing period is no longer K * pto(highest space)')
        return int(m.group(1))
    g.nat('closePtoFactor', f'{conn}::Connection::set_close_timer Timer::Close = now + K * pto(highest space)', close_factor)

    def idle_restart_rule():
        """which events restart the idle timer: every authenticated packet; of the packets sent only the first
        ack-eliciting one after a receive (RFC 9000 10.1)"""
        auth = api.strip_comments(api.fn_body(api.read(conn), 'on_packet_authenticated'))
        if not re.search(r'self\.reset_idle_timeout\(now, space_id\);\s*self\.permit_idle_reset = true;', auth):
            raise Exception('on_packet_authenticated: no longer restarts the idle timer and re-permits one restart by a send')
        pb = api.strip_comments(api.read('quinn-proto/src/connection/packet_builder.rs'))
        if not re.search(r'if ack_eliciting \{[^}]*?if conn\.permit_idle_reset \{\s*conn\.reset_idle_timeout\(now, space_id\);\s*\}\s*conn\.permit_idle_reset = false;', pb, re.S):
            raise Exception('packet_builder: an ack-eliciting send no longer restarts the idle timer only when permitted, clearing the permission')
        return 1
    g.nat('idleRestartRuleChecked', f'{conn}::on_packet_authenticated + packet_builder.rs (idle timer restarts: every authenticated packet; the first ack-eliciting packet sent after one)', idle_restart_rule)
