"""T1 shape anchors for C18 (async wake protocol) -> Gen/C18.lean

The Lean model QuinnModel/Async/Wake.lean is an abstraction of the locked wake protocol of the `quinn` crate
(check the condition under the connection/endpoint lock; if it fails register the waker under the SAME lock and
return Pending; the driver applies protocol events and wakes-and-removes the registered wakers of each affected
condition; terminate wakes and removes all; dropping a handle removes its registration).
It is tied to the source text by these anchors: each one pins, by a regular expression over the current
(comment-stripped, whitespace-normalised) source, one place where a waker is registered right after the failed
check, one place where the driver wakes it, or one place where a drop removes it. Removing or moving such a
line changes the match, the anchor becomes a translation break and Gen/C18.lean (imported by the model and by
Props/C18.lean) no longer elaborates.
"""
import re
NAME = 'C18'


def _norm(s):
    return re.sub(r'\s+', ' ', s)


def extend(g, api):
    conn_rs, recv_rs, send_rs, ep_rs = 'quinn/src/connection.rs', 'quinn/src/recv_stream.rs', 'quinn/src/send_stream.rs', 'quinn/src/endpoint.rs'

    def src(rel):
        return api.strip_comments(api.read(rel))

    def body(rel, fn, after=None):
        return _norm(api.fn_body(src(rel), fn, after))

    def shape(lean, anchor, get, patterns):
        """all `patterns` must match, in this order, inside the text returned by get()"""
        def f():
            t = get()
            pos = 0
            for p in patterns:
                m = re.compile(p).search(t, pos)
                if not m:
                    raise Exception('shape changed, not found (in order): ' + p[:70])
                pos = m.end()
            return 1
        g.nat(lean, anchor, f)

    W = r'cx\.waker\(\)\.clone\(\)'
    # ---- application polls: failed check -> register under the same lock -> Pending
    shape('c18ReadRegistersUnderLock', f'{recv_rs}::poll_read_generic (lock; read; Blocked with nothing read: error check, blocked_readers.insert, Pending)',
          lambda: body(recv_rs, 'poll_read_generic'),
          [r'let mut conn = self\.conn\.state\.lock\("RecvStream::poll_read"\);',
           r'let status = match self\.reset',
           r'ReadStatus::Failed\(read, Blocked\) => match read \{ Some\(val\) => Poll::Ready\(Ok\(Some\(val\)\)\), None => \{ if let Some\(ref x\) = conn\.error \{ return Poll::Ready\(Err\(ReadError::ConnectionLost\(x\.clone\(\)\)\)\); \} conn\.blocked_readers\.insert\(self\.stream, ' + W + r'\); Poll::Pending \}'])
    shape('c18ResetRegistersUnderLock', f'{recv_rs}::received_reset (lock; check; blocked_readers.insert; Pending)',
          lambda: body(recv_rs, 'received_reset'),
          [r'let mut conn = self\.conn\.state\.lock\("RecvStream::reset"\);',
           r'Ok\(None\) => \{ if let Some\(e\) = &conn\.error \{ return Poll::Ready\(Err\(e\.clone\(\)\.into\(\)\)\); \} conn\.blocked_readers\.insert\(self\.stream, ' + W + r'\); Poll::Pending \}'])
    shape('c18WriteRegistersUnderLock', f'{send_rs}::execute_poll (lock; error check; write; Blocked: blocked_writers.insert, Pending; success: wake the driver)',
          lambda: body(send_rs, 'execute_poll'),
          [r'let mut conn = self\.conn\.state\.lock\("SendStream::poll_write"\);',
           r'if let Some\(ref x\) = conn\.error \{ return Poll::Ready\(Err\(WriteError::ConnectionLost\(x\.clone\(\)\)\)\); \}',
           r'Err\(Blocked\) => \{ conn\.blocked_writers\.insert\(self\.stream, ' + W + r'\); return Poll::Pending; \}',
           r'conn\.wake\(\); Poll::Ready\(Ok\(result\)\)'])
    shape('c18StoppedRegistersUnderLock', f'{send_rs}::stopped (lock; check; stopped map entry; Notified created before the lock is released; await outside)',
          lambda: body(send_rs, 'stopped'),
          [r'loop \{', r'let notify; \{ let mut conn = conn\.state\.lock\("SendStream::stopped"\); if let Some\(output\) = send_stream_stopped\(&mut conn, stream, is_0rtt\) \{ return output; \} if locally_reset\.load\(Ordering::Relaxed\) \{ return Ok\(None\); \} notify = conn\.stopped\.entry\(stream\)\.or_default\(\)\.clone\(\); notify\.notified\(\) \} \.await'])
    NOTIFY_LOOP = r'loop \{ match notify\.as_mut\(\)\.poll\(ctx\) \{ Poll::Pending => return Poll::Pending, Poll::Ready\(\(\)\) => (\{ )?notify\.set\('
    shape('c18OpenRegistersUnderLock', f'{conn_rs}::poll_open (lock; error / open check; Notified polled while the lock is held)',
          lambda: body(conn_rs, 'poll_open'),
          [r'let mut state = conn\.state\.lock\("poll_open"\);', r'if let Some\(ref e\) = state\.error \{ return Poll::Ready\(Err\(e\.clone\(\)\)\); \} else if let Some\(id\) = state\.inner\.streams\(\)\.open\(dir\)',
           NOTIFY_LOOP + r'conn\.shared\.stream_budget_available\[dir as usize\]\.notified\(\)\)'])
    shape('c18AcceptRegistersUnderLock', f'{conn_rs}::poll_accept (lock; accept / error check; Notified polled while the lock is held)',
          lambda: body(conn_rs, 'poll_accept'),
          [r'let mut state = conn\.state\.lock\("poll_accept"\);', r'if let Some\(id\) = state\.inner\.streams\(\)\.accept\(dir\)', r'state\.wake\(\);', r'else if let Some\(ref e\) = state\.error \{ return Poll::Ready\(Err\(e\.clone\(\)\)\); \}',
           NOTIFY_LOOP + r'conn\.shared\.stream_incoming\[dir as usize\]\.notified\(\)\)'])
    shape('c18ReadDatagramRegistersUnderLock', f'{conn_rs}::ReadDatagram::poll', lambda: _norm(src(conn_rs)),
          [r'impl Future for ReadDatagram<\'_> \{', r'let mut state = this\.conn\.state\.lock\("ReadDatagram::poll"\);', r'if let Some\(x\) = state\.inner\.datagrams\(\)\.recv\(\) \{ return Poll::Ready\(Ok\(x\)\); \} else if let Some\(ref e\) = state\.error \{ return Poll::Ready\(Err\(e\.clone\(\)\)\); \}',
           r'loop \{ match this\.notify\.as_mut\(\)\.poll\(ctx\) \{ Poll::Pending => return Poll::Pending, Poll::Ready\(\(\)\) => this \.notify \.set\(this\.conn\.shared\.datagram_received\.notified\(\)\)'])
    shape('c18SendDatagramRegistersUnderLock', f'{conn_rs}::SendDatagram::poll', lambda: _norm(src(conn_rs)),
          [r'impl Future for SendDatagram<\'_> \{', r'let mut state = this\.conn\.state\.lock\("SendDatagram::poll"\);', r'if let Some\(ref e\) = state\.error \{ return Poll::Ready\(Err\(SendDatagramError::ConnectionLost\(e\.clone\(\)\)\)\); \}',
           r'Ok\(\(\)\) => \{ state\.wake\(\); Poll::Ready\(Ok\(\(\)\)\) \}',
           r'Blocked\(data\) => \{ this\.data\.replace\(data\); loop \{ match this\.notify\.as_mut\(\)\.poll\(ctx\) \{ Poll::Pending => return Poll::Pending, Poll::Ready\(\(\)\) => this \.notify \.set\(this\.conn\.shared\.datagrams_unblocked\.notified\(\)\)'])
    shape('c18ClosedRegistersUnderLock', f'{conn_rs}::Connection::closed (lock; error check; Notified created before the lock is released)',
          lambda: body(conn_rs, 'closed'),
          [r'\{ let conn = self\.0\.state\.lock\("closed"\); if let Some\(error\) = conn\.error\.as_ref\(\) \{ return error\.clone\(\); \} self\.0\.shared\.closed\.notified\(\) \} \.await;'])
    shape('c18ConfirmedRegistersUnderLock', f'{conn_rs}::Connection::handshake_confirmed', lambda: body(conn_rs, 'handshake_confirmed'),
          [r'let conn = self\.0\.state\.lock\("handshake_confirmed"\); if let Some\(error\) = conn\.error\.as_ref\(\) \{ return Err\(error\.clone\(\)\); \} if conn\.handshake_confirmed \{ return Ok\(\(\)\); \} self\.0\.shared\.handshake_confirmed\.notified\(\) \} \.await;'])
    shape('c18EndpointAcceptRegistersUnderLock', f'{ep_rs}::Accept::poll', lambda: _norm(src(ep_rs)),
          [r'impl Future for Accept<\'_> \{', r'let mut endpoint = this\.endpoint\.inner\.state\.lock\(\)\.unwrap\(\); if endpoint\.driver_lost \{ return Poll::Ready\(None\); \} if let Some\(incoming\) = endpoint\.recv_state\.incoming\.pop_front\(\)',
           r'if endpoint\.recv_state\.connections\.close\.is_some\(\) \{ return Poll::Ready\(None\); \}',
           r'loop \{ match this\.notify\.as_mut\(\)\.poll\(ctx\) \{ Poll::Pending => return Poll::Pending, Poll::Ready\(\(\)\) => this \.notify \.set\(this\.endpoint\.inner\.shared\.incoming\.notified\(\)\)'])
    shape('c18WaitIdleRegistersUnderLock', f'{ep_rs}::Endpoint::wait_idle', lambda: body(ep_rs, 'wait_idle'),
          [r'loop \{ \{ let endpoint = &mut \*self\.inner\.state\.lock\(\)\.unwrap\(\); if endpoint\.recv_state\.connections\.is_empty\(\) \{ break; \} self\.inner\.shared\.idle\.notified\(\) \} \.await; \}'])

    # ---- driver side: protocol event -> wake-and-remove the registered wakers of that condition
    shape('c18WakeHelpersRemove', f'{conn_rs}::wake_stream / wake_all / wake_stream_notify / wake_all_notify (remove, then wake)', lambda: _norm(src(conn_rs)),
          [r'fn wake_stream\(stream_id: StreamId, wakers: &mut FxHashMap<StreamId, Waker>\) \{ if let Some\(waker\) = wakers\.remove\(&stream_id\) \{ waker\.wake\(\); \} \}',
           r'fn wake_all\(wakers: &mut FxHashMap<StreamId, Waker>\) \{ wakers\.drain\(\)\.for_each\(\|\(_, waker\)\| waker\.wake\(\)\) \}',
           r'fn wake_stream_notify\(stream_id: StreamId, wakers: &mut FxHashMap<StreamId, Arc<Notify>>\) \{ if let Some\(notify\) = wakers\.remove\(&stream_id\) \{ notify\.notify_waiters\(\) \} \}',
           r'fn wake_all_notify\(wakers: &mut FxHashMap<StreamId, Arc<Notify>>\) \{ wakers \.drain\(\) \.for_each\(\|\(_, notify\)\| notify\.notify_waiters\(\)\) \}'])
    shape('c18ForwardAppEventsWakes', f'{conn_rs}::State::forward_app_events (every event wakes the waiters of its condition)', lambda: body(conn_rs, 'forward_app_events'),
          [r'while let Some\(event\) = self\.inner\.poll\(\) \{',
           r'Connected => \{ self\.connected = true; shared\.connected\.notify_waiters\(\);',
           r'wake_all\(&mut self\.blocked_writers\); wake_all\(&mut self\.blocked_readers\); wake_all_notify\(&mut self\.stopped\);',
           r'HandshakeConfirmed => \{ self\.handshake_confirmed = true; shared\.handshake_confirmed\.notify_waiters\(\); \}',
           r'ConnectionLost \{ reason \} => \{ self\.terminate\(reason, shared\); \}',
           r'Stream\(StreamEvent::Writable \{ id \}\) => wake_stream\(id, &mut self\.blocked_writers\),',
           r'Stream\(StreamEvent::Opened \{ dir: Dir::Uni \}\) => \{ shared\.stream_incoming\[Dir::Uni as usize\]\.notify_waiters\(\); \}',
           r'Stream\(StreamEvent::Opened \{ dir: Dir::Bi \}\) => \{ shared\.stream_incoming\[Dir::Bi as usize\]\.notify_waiters\(\); \}',
           r'DatagramReceived => \{ shared\.datagram_received\.notify_waiters\(\); \}',
           r'DatagramsUnblocked => \{ shared\.datagrams_unblocked\.notify_waiters\(\); \}',
           r'Stream\(StreamEvent::Readable \{ id \}\) => wake_stream\(id, &mut self\.blocked_readers\),',
           r'Stream\(StreamEvent::Available \{ dir \}\) => \{ shared\.stream_budget_available\[dir as usize\]\.notify_waiters\(\); \}',
           r'Stream\(StreamEvent::Finished \{ id \}\) => wake_stream_notify\(id, &mut self\.stopped\),',
           r'Stream\(StreamEvent::Stopped \{ id, \.\. \}\) => \{ wake_stream_notify\(id, &mut self\.stopped\); wake_stream\(id, &mut self\.blocked_writers\); \}'])
    shape('c18TerminateWakesAll', f'{conn_rs}::State::terminate (error set first, then every waker map drained and every Notify signalled)', lambda: body(conn_rs, 'terminate'),
          [r'self\.error = Some\(reason\.clone\(\)\);',
           r'wake_all\(&mut self\.blocked_writers\); wake_all\(&mut self\.blocked_readers\);',
           r'shared\.stream_budget_available\[Dir::Uni as usize\]\.notify_waiters\(\); shared\.stream_budget_available\[Dir::Bi as usize\]\.notify_waiters\(\);',
           r'shared\.stream_incoming\[Dir::Uni as usize\]\.notify_waiters\(\); shared\.stream_incoming\[Dir::Bi as usize\]\.notify_waiters\(\);',
           r'shared\.datagram_received\.notify_waiters\(\); shared\.datagrams_unblocked\.notify_waiters\(\); shared\.handshake_confirmed\.notify_waiters\(\);',
           r'wake_all_notify\(&mut self\.stopped\); shared\.closed\.notify_waiters\(\); shared\.connected\.notify_waiters\(\);'])
    shape('c18CloseTerminatesAndWakesDriver', f'{conn_rs}::State::close / wake / implicit_close', lambda: _norm(src(conn_rs)),
          [r'pub\(crate\) fn wake\(&mut self\) \{ if let Some\(x\) = self\.driver\.take\(\) \{ x\.wake\(\); \} \}',
           r'fn close\(&mut self, error_code: VarInt, reason: Bytes, shared: &Shared\) \{ self\.inner\.close\(self\.runtime\.now\(\), error_code, reason\); self\.terminate\(ConnectionError::LocallyClosed, shared\); self\.wake\(\); \}',
           r'pub\(crate\) fn implicit_close\(&mut self, shared: &Shared\) \{ self\.close\(0u32\.into\(\), Bytes::new\(\), shared\); \}'])
    shape('c18DriverRegistersItself', f'{conn_rs}::ConnectionDriver::poll (terminate on endpoint loss; re-arm own waker or self-wake; Ready only when drained)', lambda: _norm(src(conn_rs)),
          [r'impl Future for ConnectionDriver \{', r'if let Err\(e\) = conn\.process_conn_events\(&self\.0\.shared, cx\) \{ conn\.terminate\(e, &self\.0\.shared\); return Poll::Ready\(Ok\(\(\)\)\); \}',
           r'conn\.forward_endpoint_events\(\); conn\.forward_app_events\(&self\.0\.shared\);',
           r'if !conn\.inner\.is_drained\(\) \{ if keep_going \{ cx\.waker\(\)\.wake_by_ref\(\); \} else \{ conn\.driver = Some\(cx\.waker\(\)\.clone\(\)\); \} return Poll::Pending; \}'])
    shape('c18EndpointDriverWakes', f'{ep_rs}::EndpointDriver::poll / handle_events (incoming and idle notifications; termination condition)', lambda: _norm(src(ep_rs)),
          [r'impl Future for EndpointDriver \{', r'if !endpoint\.recv_state\.incoming\.is_empty\(\) \{ self\.0\.shared\.incoming\.notify_waiters\(\); \}',
           r'if self\.0\.shared\.ref_count\.load\(Ordering::Relaxed\) == 0 && endpoint\.recv_state\.connections\.is_empty\(\) \{ Poll::Ready\(Ok\(\(\)\)\) \}',
           r'impl Drop for EndpointDriver \{', r'endpoint\.driver_lost = true; self\.0\.shared\.incoming\.notify_waiters\(\);', r'endpoint\.recv_state\.connections\.senders\.clear\(\); self\.0\.shared\.idle\.notify_waiters\(\);',
           r'if event\.is_drained\(\) \{ self\.recv_state\.connections\.senders\.remove\(&ch\); if self\.recv_state\.connections\.is_empty\(\) \{ shared\.idle\.notify_waiters\(\); \} \}'])

    # ---- drops: registration removed, implicit finish / stop / close
    shape('c18RecvDropRemovesRegistration', f'{recv_rs}::Drop for RecvStream / stop (blocked_readers.remove; implicit stop; wake the driver)', lambda: _norm(src(recv_rs)),
          [r'pub fn stop\(&mut self, error_code: VarInt\)', r'conn\.inner\.recv_stream\(self\.stream\)\.stop\(error_code\)\?; conn\.wake\(\); self\.all_data_read = true;', r'conn\.blocked_readers\.remove\(&self\.stream\);',
           r'impl Drop for RecvStream \{', r'let mut conn = self\.conn\.state\.lock\("RecvStream::drop"\); if self\.is_0rtt && conn\.check_0rtt\(\)\.is_err\(\) \{ return; \} conn\.blocked_readers\.remove\(&self\.stream\); if conn\.error\.is_some\(\) \{ return; \}',
           r'let _ = conn\.inner\.recv_stream\(self\.stream\)\.stop\(0u32\.into\(\)\); conn\.wake\(\);'])
    shape('c18SendDropRemovesRegistration', f'{send_rs}::Drop for SendStream (blocked_writers.remove; implicit finish or reset; wake the driver)', lambda: _norm(src(send_rs)),
          [r'impl Drop for SendStream \{', r'let mut conn = self\.conn\.state\.lock\("SendStream::drop"\); if self\.is_0rtt && conn\.check_0rtt\(\)\.is_err\(\) \{ return; \} conn\.blocked_writers\.remove\(&self\.stream\); if conn\.error\.is_some\(\) \{ return; \}',
           r'match conn\.inner\.send_stream\(self\.stream\)\.finish\(\) \{ Ok\(\(\)\) => conn\.wake\(\), Err\(FinishError::Stopped\(reason\)\) => \{ if conn\.inner\.send_stream\(self\.stream\)\.reset\(reason\)\.is_ok\(\) \{ conn\.wake\(\); \} \}'])
    shape('c18LastHandleCloses', f'{conn_rs}::Drop for ConnectionRef / {ep_rs}::Drop for EndpointRef (last handle: implicit close / driver woken)', lambda: _norm(src(conn_rs)) + ' ##### ' + _norm(src(ep_rs)),
          [r'impl Drop for ConnectionRef \{ fn drop\(&mut self\) \{ if self\.shared\.ref_count\.fetch_sub\(1, Ordering::Relaxed\) > 1 \{ return; \}', r'if !conn\.inner\.is_closed\(\) \{ conn\.implicit_close\(&self\.shared\); \}',
           r'impl Drop for State \{ fn drop\(&mut self\) \{ if !self\.inner\.is_drained\(\) \{ let _ = self \.endpoint_events \.send\(\(self\.handle, EndpointEvent::drained\(\)\)\); \} \} \}',
           r'#####', r'impl Drop for EndpointRef \{ fn drop\(&mut self\) \{ if self\.shared\.ref_count\.fetch_sub\(1, Ordering::Relaxed\) > 1 \{ return; \}', r'if let Some\(task\) = endpoint\.driver\.take\(\) \{ task\.wake\(\); \}'])

    # ---- the connection driver ends on a fatal send error: everything that waits on the connection is failed first
    shape('c18ConnDriverIoErrorTerminates', f'{conn_rs}::ConnectionDriver::poll (drive_transmit error: terminate, then end the driver)', lambda: _norm(src(conn_rs)),
          [r'impl Future for ConnectionDriver \{', r'let mut keep_going = match conn\.drive_transmit\(cx\) \{ Ok\(keep_going\) => keep_going, Err\(e\) => \{ conn\.terminate\( ConnectionError::TransportError\(TransportError::new\( TransportErrorCode::INTERNAL_ERROR,',
           r'&self\.0\.shared, \); return Poll::Ready\(Err\(e\)\); \} \};'])
    # ---- handles of a rejected 0-RTT stream: every operation tests the rejection before it touches the stream id
    Z = r'if self\.is_0rtt && conn\.check_0rtt\(\)\.is_err\(\) \{ return '
    shape('c18RejectedHandleOpsReport', f'{send_rs} / {recv_rs}: write, finish, reset, set_priority, priority, stopped, read, stop, received_reset test check_0rtt first', lambda: _norm(src(send_rs)) + ' ##### ' + _norm(src(recv_rs)),
          [r'let mut conn = self\.conn\.state\.lock\("SendStream::poll_write"\); if self\.is_0rtt \{ conn\.check_0rtt\(\) \.map_err\(\|\(\)\| WriteError::ZeroRttRejected\)\?; \}',
           r'let mut conn = self\.conn\.state\.lock\("finish"\); ' + Z + r'Err\(ClosedStream::default\(\)\); \}',
           r'let mut conn = self\.conn\.state\.lock\("SendStream::reset"\); ' + Z + r'Ok\(\(\)\); \}',
           r'let mut conn = self\.conn\.state\.lock\("SendStream::set_priority"\); ' + Z + r'Err\(ClosedStream::default\(\)\); \}',
           r'let mut conn = self\.conn\.state\.lock\("SendStream::priority"\); ' + Z + r'Err\(ClosedStream::default\(\)\); \}',
           r'fn send_stream_stopped\(', r'\{ if is_0rtt && conn\.check_0rtt\(\)\.is_err\(\) \{ return Some\(Err\(StoppedError::ZeroRttRejected\)\); \}',
           r'#####',
           r'let mut conn = self\.conn\.state\.lock\("RecvStream::stop"\); ' + Z + r'Ok\(\(\)\); \}',
           r'let mut conn = self\.conn\.state\.lock\("RecvStream::reset"\); ' + Z + r'Poll::Ready\(Err\(ResetError::ZeroRttRejected\)\); \}',
           r'let mut conn = self\.conn\.state\.lock\("RecvStream::poll_read"\); if self\.is_0rtt \{ conn\.check_0rtt\(\)\.map_err\(\|\(\)\| ReadError::ZeroRttRejected\)\?; \}'])

    # ---- behaviour READ from the source (0/1), used by the model's `appSet`, `lose` and `dropRejected` steps: the
    # theorems over all interleavings go through only for 1
    def flag(lean, anchor, get, patterns):
        def f():
            t = get()
            pos = 0
            for p in patterns:
                m = re.compile(p).search(t, pos)
                if not m:
                    return 0
                pos = m.end()
            return 1
        g.nat(lean, anchor, f)
    flag('c18ResetNotifiesStopped', f'{send_rs}::reset sets the flag that stopped() tests under the lock and notifies-and-removes the stream\'s `stopped` entry (1) or not (0)',
         lambda: body(send_rs, 'reset') + ' ##### ' + body(send_rs, 'stopped'),
         [r'conn\.inner\.send_stream\(self\.stream\)\.reset\(error_code\)\?; self\.locally_reset\.store\(true, Ordering::Relaxed\); if let Some\(notify\) = conn\.stopped\.remove\(&self\.stream\) \{ notify\.notify_waiters\(\); \}',
          r'#####', r'let locally_reset = self\.locally_reset\.clone\(\);',
          r'if let Some\(output\) = send_stream_stopped\(&mut conn, stream, is_0rtt\) \{ return output; \} if locally_reset\.load\(Ordering::Relaxed\) \{ return Ok\(None\); \}'])
    drv_drop = lambda: body(ep_rs, 'drop', 'impl Drop for EndpointDriver')
    flag('c18EndpointDriverDropNotifiesIncoming', f'{ep_rs}::Drop for EndpointDriver notifies `incoming` after setting driver_lost (1) or not (0)', drv_drop,
         [r'endpoint\.driver_lost = true;', r'self\.0\.shared\.incoming\.notify_waiters\(\);'])
    flag('c18EndpointDriverDropNotifiesIdle', f'{ep_rs}::Drop for EndpointDriver notifies `idle` after clearing the connection table (1) or not (0)', drv_drop,
         [r'endpoint\.recv_state\.connections\.senders\.clear\(\);', r'self\.0\.shared\.idle\.notify_waiters\(\);'])
    flag('c18RejectedDropKeepsWaker', f'{send_rs} / {recv_rs}: Drop tests the 0-RTT rejection before blocked_writers/blocked_readers.remove (1) or after (0)',
         lambda: body(send_rs, 'drop', 'impl Drop for SendStream') + ' ##### ' + body(recv_rs, 'drop', 'impl Drop for RecvStream'),
         [r'let mut conn = self\.conn\.state\.lock\("SendStream::drop"\); if self\.is_0rtt && conn\.check_0rtt\(\)\.is_err\(\) \{ return; \} conn\.blocked_writers\.remove\(&self\.stream\);',
          r'#####', r'let mut conn = self\.conn\.state\.lock\("RecvStream::drop"\); if self\.is_0rtt && conn\.check_0rtt\(\)\.is_err\(\) \{ return; \} conn\.blocked_readers\.remove\(&self\.stream\);'])
