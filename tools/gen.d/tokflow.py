"""T1 anchors for Props/C14_flow (client side of address-validation tokens at connection level) -> Gen/TokFlow.lean

The theorem `presented_at_most_once` is about a model in which exactly two events touch the client's `TokenStore`
(`connect`: take; `newToken`: insert) and exactly two events overwrite the token a connection puts into its Initial
packets (`retry`, `initialKeysDiscarded`).  These anchors pin that shape in quinn-proto/src/connection/: any further
use of `token_store` (e.g. an `insert` on a timeout path), any further construction of `ConnectionSide::Client`, or any
further assignment to the client's `token` breaks the anchor (the definition below stops elaborating, so Props/C14_flow
no longer builds, and the break is listed in Gen/BREAKS.txt).
"""
import os, re, glob
NAME = 'TokFlow'

def extend(g, api):
    read, strip_comments, TranslateError = api.read, api.strip_comments, api.TranslateError
    CONN = 'quinn-proto/src/connection/mod.rs'
    EP = 'quinn-proto/src/endpoint.rs'

    def norm(s):
        return re.sub(r'\s+', ' ', strip_comments(s))

    def conn_files():
        """every source file that can see the private fields of `Connection` (the module and its children), hooks excluded"""
        root = os.path.join(os.environ.get('VERIF_REPO', '/repo'), 'quinn-proto/src/connection')
        out = []
        for f in sorted(glob.glob(os.path.join(root, '**', '*.rs'), recursive=True)):
            rel = os.path.relpath(f, root)
            if rel.startswith('verif' + os.sep):
                continue
            out.append('quinn-proto/src/connection/' + rel)
        return out

    def need(text, pats, what):
        for p in pats:
            n = len(re.findall(p, text))
            if n != 1:
                raise TranslateError(f'{what}: expected exactly one `{p[:70]}`, found {n}')

    def store_sites():
        total = {}
        for f in conn_files():
            n = len(re.findall(r'\btoken_store\b', strip_comments(read(f))))
            if n:
                total[f] = n
        if total != {CONN: 7}:
            raise TranslateError(f'uses of `token_store` under connection/: {total} (expected 7 in mod.rs: 2 field declarations, take in From<SideArgs>, insert in the NEW_TOKEN arm and their bindings)')
        t = norm(read(CONN))
        need(t, [
            # the only insert: a NEW_TOKEN frame received by a client
            r'Frame::NewToken\(NewToken \{ token \}\) => \{ let ConnectionSide::Client \{ token_store, server_name, \.\. \} = &self\.side else \{ return Err\(TransportError::PROTOCOL_VIOLATION\("client sent NEW_TOKEN"\)\); \}; if token\.is_empty\(\) \{ return Err\(TransportError::FRAME_ENCODING_ERROR\("empty token"\)\); \} trace!\("got new token"\); token_store\.insert\(server_name, token\); \}',
            # the only take: when the client side of a connection is created
            r'SideArgs::Client \{ token_store, server_name, \} => Self::Client \{ token: token_store\.take\(&server_name\)\.unwrap_or_default\(\), token_store, server_name, \}',
            r'\btoken_store\.insert\(',
            r'\btoken_store\.take\(',
        ], 'token store sites')
        if len(re.findall(r'\.insert\(server_name\b', t)) != 1 or len(re.findall(r'\.take\(&server_name\)', t)) != 1:
            raise TranslateError('another call keyed by server_name appeared')
        # the store reaches a connection only through SideArgs::Client, built once in Endpoint::connect
        e = norm(read(EP))
        need(e, [r'SideArgs::Client \{ token_store: config\.token_store, server_name: server_name\.into\(\), \}'], 'Endpoint::connect SideArgs')
        return 1
    g.nat('tokenStoreSitesShape', f'{CONN}: the TokenStore is touched at two sites only (take in From<SideArgs> for ConnectionSide, insert in the NEW_TOKEN arm of process_payload)', store_sites)

    def token_writers():
        texts = {f: norm(read(f)) for f in conn_files()}
        t = texts[CONN]
        # constructions of the client side
        n_ctor = sum(len(re.findall(r'(?:Self|ConnectionSide)::Client \{ token:', x)) for x in texts.values())
        if n_ctor != 1:
            raise TranslateError(f'ConnectionSide::Client is constructed {n_ctor} times')
        writes = re.findall(r'\*token = ([^;]+);', t)
        if sorted(writes) != sorted(['Bytes::new()', 'packet.payload.freeze().split_to(token_len)']):
            raise TranslateError(f'assignments to the client token: {writes}')
        PB = 'quinn-proto/src/connection/packet_builder.rs'
        for f, x in texts.items():
            if f not in (CONN, PB) and re.search(r'ConnectionSide::Client', x):
                raise TranslateError(f'ConnectionSide::Client is used in {f}')
        # the only reader outside mod.rs: the token field of every Initial header is the client's current token
        if len(re.findall(r'ConnectionSide::Client', texts[PB])) != 1:
            raise TranslateError('packet_builder.rs: uses of ConnectionSide::Client changed')
        need(texts[PB], [r'SpaceId::Initial => Header::Initial\(InitialHeader \{ src_cid: conn\.handshake_cid, dst_cid, token: match &conn\.side \{ ConnectionSide::Client \{ token, \.\. \} => token\.clone\(\), ConnectionSide::Server \{ \.\. \} => Bytes::new\(\), \}, number, version, \}\),'], 'PacketBuilder::new Initial header')
        if len(re.findall(r'ConnectionSide::Client', t)) != 3:
            raise TranslateError('mod.rs: uses of ConnectionSide::Client changed (expected: discard_space, Retry arm, NEW_TOKEN arm)')
        need(t, [
            r'if space_id == SpaceId::Initial \{ if let ConnectionSide::Client \{ token, \.\. \} = &mut self\.side \{ \*token = Bytes::new\(\); \} \}',
            r'let token_len = packet\.payload\.len\(\) - 16; let ConnectionSide::Client \{ ref mut token, \.\. \} = self\.side else \{ unreachable!\("we already short-circuited if we\'re server"\); \}; \*token = packet\.payload\.freeze\(\)\.split_to\(token_len\);',
        ], 'client token writers')
        return 1
    g.nat('clientTokenWritersShape', f'{CONN}: ConnectionSide::Client.token is written by its constructor (the store\'s take), the Retry arm and discard_space(Initial) only; read by PacketBuilder::new for the Initial header only', token_writers)
