"""T1 anchors for C03_total (a panic on peer input is a violation): the receive-side bound on packet numbers
-> Gen/C03Total.lean"""
import re
NAME = 'C03Total'

def extend(g, api):
    read, strip_comments, fn_body, TE = api.read, api.strip_comments, api.fn_body, api.TranslateError
    PC = 'quinn-proto/src/connection/packet_crypto.rs'

    def rx_bound():
        """what follows `let number = ...expand(rx_packet + 1);` in decrypt_packet_body:
        `if number > VarInt::MAX.into_inner() { ... return Err(None); }`  -> some (2^62 - 1)   (packet dropped)
        no test of `number` before the keys are chosen                     -> none              (any number accepted)"""
        b = strip_comments(fn_body(read(PC), 'decrypt_packet_body'))
        m = re.search(r'let\s+number\s*=\s*packet\.header\.number\(\)\.ok_or\(None\)\?\.expand\(\s*rx_packet\s*\+\s*1\s*\)\s*;(.*?)let\s+packet_key_phase', b, flags=re.S)
        if not m:
            raise TE('decrypt_packet_body: packet number expansion not recognised')
        mid = m.group(1)
        if not re.search(r'\bnumber\b', mid):
            return 'none'
        t = re.fullmatch(r'\s*if\s+number\s*>\s*VarInt::MAX\.into_inner\(\)\s*\{\s*(?:trace!\([^;]*\);\s*)?return\s+Err\(None\)\s*;\s*\}\s*', mid, flags=re.S)
        if not t:
            raise TE('decrypt_packet_body: test of the expanded packet number not recognised')
        vm = re.search(r'pub const MAX:\s*Self\s*=\s*Self\(\(1\s*<<\s*(\d+)\)\s*-\s*1\)', read('quinn-proto/src/varint.rs'))
        if not vm:
            raise TE('VarInt::MAX not recognised')
        return f'some (2^{vm.group(1)} - 1)'
    g.term('rxPnBound', 'Option Nat', f'{PC}::decrypt_packet_body largest packet number that is processed (none = unbounded)', rx_bound)
