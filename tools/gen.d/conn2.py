"""T1 anchors for the closed-connection rows of the receive pipeline, the first-packet decision of the endpoint and the
off-path PATH_RESPONSE size -> Gen/Conn2.lean"""
import re
NAME = 'Conn2'

def extend(g, api):
    conn = 'quinn-proto/src/connection/mod.rs'
    ep = 'quinn-proto/src/endpoint.rs'

    def closed_discards_unprotected():
        body = api.strip_comments(api.fn_body(api.read(conn), 'handle_packet'))
        i_un = body.find('let unprotected = matches!(')
        i_proc = body.find('self.process_decrypted_packet(')
        if not (0 < i_un < i_proc):
            raise Exception('handle_packet: `unprotected` / process_decrypted_packet not found')
        m = re.search(r'if unprotected && self\.state\.is_closed\(\)\s*\{(?:\s*trace!\([^;]*\);)?\s*return;\s*\}', body[i_un:i_proc], re.S)
        return 'true' if m else 'false'
    g.term('closedDiscardsUnprotected', 'Bool',
           f'{conn}::handle_packet `if unprotected && self.state.is_closed() {{ return; }}` between the `unprotected` test and process_decrypted_packet',
           closed_discards_unprotected)

    def closed_arm_shape():
        pd = api.strip_comments(api.fn_body(api.read(conn), 'process_decrypted_packet'))
        need = [r'State::Closed\(_\) => \{\s*for result in frame::Iter::new\(packet\.payload\.freeze\(\)\)\? \{',
                r'Err\(err\) => \{\s*debug!\([^;]*\);\s*continue;\s*\}',
                r'self\.stats\.frame_rx\.record\(&frame\);\s*if let Frame::Close\(_\) = frame \{\s*trace!\([^;]*\);\s*self\.state = State::Draining;\s*break;\s*\}',
                r'State::Draining \| State::Drained => return Ok\(\(\)\),']
        for n in need:
            if not re.search(n, pd, re.S):
                raise Exception('process_decrypted_packet: closed-state arms changed: ' + n[:50])
        hp = api.strip_comments(api.fn_body(api.read(conn), 'handle_packet'))
        need = [r'if let Err\(conn_err\) = result \{\s*self\.error = Some\(conn_err\.clone\(\)\);\s*self\.state = match conn_err \{',
                r'ConnectionError::TransportError\(err\) => \{\s*debug!\([^;]*\);\s*State::closed\(err\)\s*\}',
                r'if let State::Closed\(_\) = self\.state \{\s*self\.close = remote == self\.path\.remote;\s*\}',
                r'Err\(Some\(e\)\) => \{\s*warn!\([^;]*\);\s*Err\(e\.into\(\)\)\s*\}',
                r'_ if stateless_reset => \{\s*debug!\([^;]*\);\s*Err\(ConnectionError::Reset\)\s*\}']
        for n in need:
            if not re.search(n, hp.strip(), re.S):
                raise Exception('handle_packet: error tail changed: ' + n[:50])
        return 1
    g.nat('closedArmShapeChecked', f'{conn}::process_decrypted_packet closed/draining/drained arms and the error tail of handle_packet (as modelled in Conn/Receive.lean `Closed.step`)', closed_arm_shape)

    def closed_ignores_late_errors():
        hp = api.strip_comments(api.fn_body(api.read(conn), 'handle_packet'))
        i_tail = hp.find('if let Err(conn_err) = result {')
        i_res = hp.find('let result = match decrypted {')
        if not (0 < i_res < i_tail) or 'let was_closed = self.state.is_closed();' not in hp[:i_res]:
            raise Exception('handle_packet: result / error tail not found')
        m = re.search(r'let result = match result \{\s*Err\(e\) if was_closed && !matches!\(e, ConnectionError::Reset\) => \{(?:\s*debug!\([^;]*\);)?\s*Ok\(\(\)\)\s*\}\s*result => result,\s*\};', hp[i_res:i_tail], re.S)
        return 'true' if m else 'false'
    g.term('closedIgnoresLateErrors', 'Bool',
           f'{conn}::handle_packet: an error other than a stateless reset raised by a packet that arrives after the connection closed is dropped before the error tail',
           closed_ignores_late_errors)

    def close_frame_ends_packet():
        pp = api.strip_comments(api.fn_body(api.read(conn), 'process_payload'))
        if re.search(r'Frame::Close\(reason\) => \{\s*close = Some\(reason\);\s*break;\s*\}', pp, re.S):
            return 'true'
        if re.search(r'Frame::Close\(reason\) => \{\s*close = Some\(reason\);\s*\}', pp, re.S):
            return 'false'
        raise Exception('process_payload: CONNECTION_CLOSE arm changed')
    g.term('closeFrameEndsPacket', 'Bool', f'{conn}::process_payload: frames that follow a CONNECTION_CLOSE in the same 1-RTT packet are not processed (`break`)', close_frame_ends_packet)

    def vn_bounded():
        body = api.strip_comments(api.fn_body(api.read(ep), 'handle'))
        i_un = body.find('Err(PacketDecodeError::UnsupportedVersion')
        i_resp = body.find('return Some(DatagramEvent::Response(Transmit', i_un)
        if not (0 < i_un < i_resp):
            raise Exception('Endpoint::handle: version negotiation arm not found')
        if not re.search(r'let datagram_len = data\.len\(\);', body):
            raise Exception('Endpoint::handle: datagram_len is not the datagram size')
        m = re.search(r'if buf\.len\(\) > 3 \* datagram_len \{(?:\s*debug!\([^;]*\);)?\s*buf\.clear\(\);\s*return None;\s*\}', body[i_un:i_resp], re.S)
        return 'true' if m else 'false'
    g.term('vnReplyBounded', 'Bool', f'{ep}::Endpoint::handle Version Negotiation is dropped when `buf.len() > 3 * datagram_len`', vn_bounded)

    def first_packet_order():
        h = api.strip_comments(api.fn_body(api.read(ep), 'handle'))
        if not re.search(r'\} else if event\.first_decode\.initial_header\(\)\.is_some\(\) \{\s*self\.handle_first_packet\(datagram_len, event, addresses, buf\)', h, re.S):
            raise Exception('Endpoint::handle: first-packet dispatch changed')
        body = api.strip_comments(api.fn_body(api.read(ep), 'handle_first_packet'))
        m = re.search(r'if datagram_len < MIN_INITIAL_SIZE as usize \{\s*debug!\([^;]*\);\s*return None;\s*\}', body, re.S)
        if not m:
            return 'false'
        later = ['self.cids_exhausted()', '.initial_keys(', 'self.early_validate_first_packet(', 'self.initial_close(', 'self.incoming_buffers.insert(', 'insert_initial_incoming(', 'DatagramEvent::NewConnection(']
        pos = [body.find(x) for x in later]
        if min(pos) < 0:
            raise Exception('handle_first_packet: expected steps not found')
        i_srv = body.find('let Some(server_config) = &self.server_config else')
        ok = 0 <= i_srv < m.start() and all(m.end() <= p for p in pos)
        return 'true' if ok else 'false'
    g.term('firstPacketSizeCheckFirst', 'Bool', f'{ep}::handle_first_packet: `datagram_len < MIN_INITIAL_SIZE` returns None before anything is created or answered (a server)', first_packet_order)

    def off_path_factor():
        body = api.strip_comments(api.fn_body(api.read(conn), 'poll_transmit'))
        i = body.find('self.path_responses.pop_off_path(self.path.remote)')
        if i < 0:
            raise Exception('poll_transmit: off-path PATH_RESPONSE branch not found')
        j = body.find('return Some(Transmit', i)
        seg = body[i:j]
        m = re.search(r'let limit = challenge_len\.saturating_mul\((\d+)\);\s*builder\.pad_to\(MIN_INITIAL_SIZE\.min\(u16::try_from\(limit\)\.unwrap_or\(u16::MAX\)\)\);', seg, re.S)
        if m:
            pp = api.strip_comments(api.fn_body(api.read(conn), 'process_payload'))
            if not re.search(r'let packet_len = packet\.header_data\.len\(\) \+ packet\.payload\.len\(\);', pp) or 'self.path_responses.push(number, token, remote, packet_len);' not in pp:
                raise Exception('process_payload: the size recorded with a PATH_CHALLENGE is not the size of its packet')
            return int(m.group(1))
        if re.search(r'builder\.pad_to\(MIN_INITIAL_SIZE\);', seg):
            return 0
        raise Exception('poll_transmit: off-path PATH_RESPONSE padding changed')
    g.nat('offPathPadFactor', f'{conn}::poll_transmit off-path PATH_RESPONSE: padded to min(MIN_INITIAL_SIZE, N x size of the packet that carried the challenge); 0 = always to MIN_INITIAL_SIZE', off_path_factor)
