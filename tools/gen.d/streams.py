"""T1 anchors for the stream layer (flow-control guards, thresholds, limits) -> Gen/Streams.lean"""
import re
NAME = 'Streams'

def extend(g, api):
    read, strip, const_value, fn_body = api.read, api.strip_comments, api.const_value, api.fn_body
    tr_expr, tr_block, TE = api.translate_expr, api.translate_block, api.TranslateError

    STATE = 'quinn-proto/src/connection/streams/state.rs'
    RECV = 'quinn-proto/src/connection/streams/recv.rs'
    SEND = 'quinn-proto/src/connection/streams/send.rs'
    MOD = 'quinn-proto/src/connection/streams/mod.rs'

    def body(path, fn, after=None):
        return strip(fn_body(read(path), fn, after=after))

    def one(pattern, text, what):
        m = re.findall(pattern, text, flags=re.S)
        if len(m) != 1:
            raise TE(f'{what}: expected exactly one match of /{pattern}/, found {len(m)}')
        return m[0]

    def fun(lean, params, anchor, f, ty='Nat'):
        g.term(lean + ' ' + ' '.join(f'({p} : Nat)' for p in params), ty, anchor, f)

    # ---- lib.rs / frame.rs constants
    g.nat('maxStreamCount', 'quinn-proto/src/lib.rs::MAX_STREAM_COUNT',
          lambda: const_value(read('quinn-proto/src/lib.rs'), 'MAX_STREAM_COUNT'))

    def stream_size_bound():
        t = strip(read('quinn-proto/src/frame.rs'))
        e = one(r'impl FrameStruct for Stream\s*\{\s*const SIZE_BOUND\s*:\s*usize\s*=\s*([^;]+);', t, 'Stream::SIZE_BOUND')
        if not re.fullmatch(r'[\s0-9+]+', e):
            raise TE(f'Stream::SIZE_BOUND expression {e!r}')
        return eval(e)
    g.nat('streamSizeBound', 'quinn-proto/src/frame.rs::Stream::SIZE_BOUND', stream_size_bound)

    # ---- StreamsState::write_limit: the whole body is one expression
    fun('writeLimit', ['maxData', 'dataSent', 'sendWindow', 'unackedData'],
        f'{STATE}::write_limit',
        lambda: tr_block(body(STATE, 'write_limit'),
                         {'self.max_data': 'maxData', 'self.data_sent': 'dataSent',
                          'self.send_window': 'sendWindow', 'self.unacked_data': 'unackedData'}))

    # ---- Send::write: `let budget = self.max_data - self.pending.offset();`
    def send_budget():
        b = body(SEND, 'write', after='impl Send')
        e = one(r'let\s+budget\s*=\s*([^;]+);', b, 'Send::write budget')
        e = e.replace('self.pending.offset()', 'offset')
        if not re.search(r'if\s+budget\s*==\s*0\s*\{\s*return\s+Err\(WriteError::Blocked\)', b):
            raise TE('Send::write: `if budget == 0 { return Err(Blocked) }` not found')
        if not re.search(r'limit\.min\(budget\)', b):
            raise TE('Send::write: `limit.min(budget)` not found')
        return tr_expr(e, {'self.max_data': 'maxData', 'offset': 'offset'})
    fun('sendBudget', ['maxData', 'offset'], f'{SEND}::Send::write budget', send_budget)

    # ---- Streams::open: `if self.state.next[dir as usize] >= self.state.max[dir as usize]`
    def open_test():
        b = body(MOD, 'open', after='impl<\'a> Streams<\'a>')
        e = one(r'if\s+(self\.state\.next\[dir as usize\]\s*[<>=!]+\s*self\.state\.max\[dir as usize\])\s*\{', b, 'Streams::open limit test')
        e = e.replace('self.state.next[dir as usize]', 'next').replace('self.state.max[dir as usize]', 'max')
        return tr_expr(e, {'next': 'next', 'max': 'max'})
    fun('openExhausted', ['next', 'max'], f'{MOD}::Streams::open limit test', open_test, ty='Bool')

    # ---- Recv::credit_consumed_by
    def ccb():
        return body(RECV, 'credit_consumed_by')
    fun('creditNewBytes', ['offset', 'prevEnd'], f'{RECV}::Recv::credit_consumed_by new_bytes',
        lambda: tr_expr(one(r'let\s+new_bytes\s*=\s*([^;]+);', ccb(), 'new_bytes'), {'prev_end': 'prevEnd', 'offset': 'offset'}))

    def ccb_tests():
        c = one(r'if\s+([^{]+?)\s*\{\s*debug!', ccb(), 'credit_consumed_by test')
        parts = [p.strip() for p in c.split('||')]
        if len(parts) != 2:
            raise TE(f'credit_consumed_by: expected two disjuncts, got {parts}')
        if not re.search(r'return\s+Err\(TransportError::FLOW_CONTROL_ERROR', ccb()):
            raise TE('credit_consumed_by: error code changed')
        return parts
    fun('creditOverStream', ['offset', 'sentMaxStreamData'], f'{RECV}::Recv::credit_consumed_by stream limit test',
        lambda: tr_expr(ccb_tests()[0], {'self.sent_max_stream_data': 'sentMaxStreamData', 'offset': 'offset'}), ty='Bool')
    # the connection-level disjunct is either `received + new_bytes > max_data` (the sum may overflow: a panic in a
    # checked build) or `received.checked_add(new_bytes).is_none_or(|total| total > max_data)` (overflow = error)
    CHECKED = r'received\s*\.checked_add\(\s*new_bytes\s*\)\s*\.is_none_or\(\s*\|\s*(\w+)\s*\|\s*(\1\s*[<>=!]+\s*max_data)\s*\)'
    def ccb_conn():
        t = ccb_tests()[1]
        m = re.fullmatch(CHECKED, t)
        if m:
            return True, re.sub(r'\b' + m.group(1) + r'\b', 'sum', m.group(2))
        if re.search(r'checked_add|is_none_or|saturating|wrapping', t):
            raise TE(f'credit_consumed_by: connection limit test not recognised: {t}')
        return False, re.sub(r'received\s*\+\s*new_bytes', 'sum', t)
    fun('creditOverConn', ['sum', 'maxData'], f'{RECV}::Recv::credit_consumed_by connection limit test',
        lambda: tr_expr(ccb_conn()[1], {'max_data': 'maxData', 'sum': 'sum'}), ty='Bool')
    g.term('creditOverflowIsError', 'Bool', f'{RECV}::Recv::credit_consumed_by overflow of received + new_bytes is a FLOW_CONTROL_ERROR',
           lambda: 'true' if ccb_conn()[0] else 'false')

    # ---- Recv::ingest: `if end >= 2u64.pow(62)`
    def ingest_bound():
        b = body(RECV, 'ingest')
        n = one(r'if\s+end\s*>=\s*2u64\.pow\((\d+)\)\s*\{\s*return\s+Err\(TransportError::FLOW_CONTROL_ERROR', b, 'ingest bound')
        return f'2^{n}'
    g.nat('ingestEndBound', f'{RECV}::Recv::ingest offset bound', ingest_bound)

    # ---- thresholds (1/8 of the window)
    def msd_threshold():
        b = body(RECV, 'max_stream_data')
        e = one(r'let\s+transmit\s*=\s*self\.can_send_flow_control\(\)\s*&&\s*([^;]+);', b, 'max_stream_data threshold')
        if not re.search(r'let\s+diff\s*=\s*max_stream_data\s*-\s*self\.sent_max_stream_data\s*;', b):
            raise TE('max_stream_data: diff expression changed')
        return tr_expr(e, {'stream_receive_window': 'streamReceiveWindow', 'diff': 'diff'})
    fun('maxStreamDataSignificant', ['diff', 'streamReceiveWindow'], f'{RECV}::Recv::max_stream_data threshold', msd_threshold, ty='Bool')

    def md_threshold():
        b = body(STATE, 'add_read_credits')
        e = one(r'ShouldTransmit\((diff[^;]+)\)\s*\}\s*$', b.strip(), 'add_read_credits threshold')
        if not re.search(r'let\s+diff\s*=\s*self\.local_max_data\s*-\s*self\.sent_max_data\.into_inner\(\)\s*;', b):
            raise TE('add_read_credits: diff expression changed')
        return tr_expr(e, {'self.receive_window': 'receiveWindow', 'diff': 'diff'})
    fun('maxDataSignificant', ['diff', 'receiveWindow'], f'{STATE}::add_read_credits threshold', md_threshold, ty='Bool')

    def ms_threshold():
        b = body(STATE, 'queue_max_stream_id')
        e = one(r'if\s+((?:diff\s*>\s*0\s*&&\s*)?diff\s*[<>=]+\s*self\.max_concurrent_remote_count\[dir as usize\]\s*/\s*\d+)\s*\{', b, 'queue_max_stream_id threshold')
        if not re.search(r'let\s+diff\s*=\s*self\.max_remote\[dir as usize\]\s*-\s*self\.sent_max_remote\[dir as usize\]\s*;', b):
            raise TE('queue_max_stream_id: diff expression changed')
        return tr_expr(e.replace('self.max_concurrent_remote_count[dir as usize]', 'maxConcurrent'), {'diff': 'diff', 'maxConcurrent': 'maxConcurrent'})
    fun('maxStreamsSignificant', ['diff', 'maxConcurrent'], f'{STATE}::queue_max_stream_id threshold', ms_threshold, ty='Bool')

    def rms_bound():
        b = body(STATE, 'received_max_streams')
        e = one(r'if\s+(count\s*[<>=]+\s*MAX_STREAM_COUNT)\s*\{\s*return\s+Err\(TransportError::FRAME_ENCODING_ERROR', b, 'received_max_streams bound')
        return tr_expr(e, {'MAX_STREAM_COUNT': 'maxStreamCount', 'count': 'count'})
    fun('maxStreamsUnrepresentable', ['count'], f'{STATE}::received_max_streams bound test', rms_bound, ty='Bool')

    # ---- zero_rtt_rejected: what the rejection resets (absent assignment = the field is kept)
    def rejected_assign(field, param):
        b = body(STATE, 'zero_rtt_rejected')
        m = re.findall(r'self\.' + field + r'\s*=\s*([^;]+);', b)
        if len(m) > 1:
            raise TE(f'zero_rtt_rejected: {field} assigned {len(m)} times')
        if not m:
            return param
        return tr_expr(m[0], {})
    fun('rejectedUnackedData', ['old'], f'{STATE}::zero_rtt_rejected unacked_data', lambda: rejected_assign('unacked_data', 'old'))
    fun('rejectedMaxData', ['old'], f'{STATE}::zero_rtt_rejected max_data', lambda: rejected_assign('max_data', 'old'))

    def rejected_blocked():
        b = body(STATE, 'zero_rtt_rejected')
        n = len(re.findall(r'self\.streams_blocked\b[^\n]*=', b))
        if n == 0:
            return 'false'
        if n == 1 and re.search(r'self\.streams_blocked\s*=\s*\[\s*false\s*;\s*2\s*\]\s*;', b):
            return 'true'
        raise TE('zero_rtt_rejected: streams_blocked assignment not recognised')
    g.term('rejectedClearsStreamsBlocked', 'Bool', f'{STATE}::zero_rtt_rejected streams_blocked', rejected_blocked)

    # ---- set_receive_window: shrink debt cancelled by an expansion
    def cancelled():
        b = body(STATE, 'set_receive_window')
        if not re.search(r'if\s+receive_window\s*>\s*self\.receive_window\s*\{', b):
            raise TE('set_receive_window: expand test changed')
        m = re.findall(r'let\s+cancelled\s*=\s*([^;]+);', b)
        if not m:
            if re.search(r'saturating_add\(\s*receive_window\s*-\s*self\.receive_window\s*\)', b):
                return '0'      # the whole difference is new credit
            raise TE('set_receive_window: expansion arithmetic not recognised')
        if len(m) != 1:
            raise TE('set_receive_window: several `cancelled`')
        need = [r'let\s+growth\s*(?::\s*u64\s*)?=\s*receive_window\s*-\s*self\.receive_window\s*;',
                r'self\.receive_window_shrink_debt\s*-=\s*cancelled\s*;',
                r'saturating_add\(\s*growth\s*-\s*cancelled\s*\)']
        for n in need:
            if not re.search(n, b):
                raise TE(f'set_receive_window: expected /{n}/')
        return tr_expr(m[0], {'growth': 'growth', 'self.receive_window_shrink_debt': 'debt'})
    fun('recvWindowCancelled', ['growth', 'debt'], f'{STATE}::set_receive_window cancelled debt', cancelled)

    # ---- received_reset: how much of the stream was credited before the reset
    def reset_credited():
        b = body(STATE, 'received_reset')
        m = re.findall(r'let\s+credited\s*=\s*([^;]+);', b)
        if not m:
            if re.search(r'if\s+bytes_read\s*!=\s*final_offset\.into_inner\(\)', b) and \
               re.search(r'add_read_credits\(u64::from\(final_offset\)\s*-\s*bytes_read\)', b):
                return 'bytesRead'
            raise TE('received_reset: credit arithmetic not recognised')
        if len(m) != 1:
            raise TE('received_reset: several `credited`')
        for n in [r'if\s+credited\s*!=\s*final_offset\.into_inner\(\)',
                  r'add_read_credits\(u64::from\(final_offset\)\s*-\s*credited\)',
                  r'let\s+stopped\s*=\s*rs\.stopped\s*;', r'let\s+end\s*=\s*rs\.end\s*;',
                  r'let\s+bytes_read\s*=\s*rs\.assembler\.bytes_read\(\)\s*;']:
            if not re.search(n, b):
                raise TE(f'received_reset: expected /{n}/')
        return tr_expr(m[0], {'stopped': 'stopped', 'end': 'end_', 'bytes_read': 'bytesRead'})
    g.term('resetCredited (stopped : Bool) (end_ : Nat) (bytesRead : Nat)', 'Nat',
           f'{STATE}::received_reset credited', reset_credited)

    # ---- Recv::stop: is the credit for unread data issued only while the stream is still receiving
    def stop_credits_guarded():
        b = body(RECV, 'stop')
        m = re.findall(r'let\s+read_credits\s*=\s*([^;]+);', b)
        if len(m) != 1:
            raise TE('Recv::stop: expected exactly one `let read_credits = ..;`')
        e = re.sub(r'\s+', ' ', m[0]).strip()
        if e == 'self.end - self.assembler.bytes_read()':
            return 'false'
        if e == 'if self.is_receiving() { self.end - self.assembler.bytes_read() } else { 0 }':
            return 'true'
        raise TE(f'Recv::stop: read_credits expression not recognised: {e}')
    g.term('stopCreditsOnlyReceiving', 'Bool', f'{RECV}::Recv::stop read_credits', stop_credits_guarded)

    # ---- SendStream::write_source: is a stop by the peer reported before the connection-level limit test
    def write_stopped_first():
        b = body(MOD, 'write_source')
        lim = [m.start() for m in re.finditer(r'if\s+limit\s*==\s*0\s*\{', b)]
        if len(lim) != 1:
            raise TE('write_source: expected exactly one `if limit == 0 {`')
        n = len(re.findall(r'stop_reason', b))
        if n == 0:
            return 'false'
        m = [x for x in re.finditer(
            r'if\s+let\s*\(\s*true\s*,\s*Some\(\s*error_code\s*\)\s*\)\s*=\s*'
            r'\(\s*stream\.is_writable\(\)\s*,\s*stream\.stop_reason\s*\)\s*\{\s*'
            r'return\s+Err\(\s*WriteError::Stopped\(\s*error_code\s*\)\s*\)\s*;\s*\}', b)]
        closed = r'(?:if\s*!\s*stream\.is_writable\(\)\s*\{\s*return\s+Err\(\s*WriteError::ClosedStream\s*\)\s*;\s*\}\s*)?'
        if n == 1 and len(m) == 1 and m[0].end() <= lim[0] and \
           re.search(r'\.ok_or\(WriteError::ClosedStream\)\?\s*;\s*' + closed + r'$', b[:m[0].start()]):
            return 'true'
        raise TE('write_source: stop_reason test not recognised')
    g.term('writeStoppedFirst', 'Bool', f'{MOD}::SendStream::write_source stop test', write_stopped_first)

    # ---- received_max_stream_data: is a peer-initiated id checked against the advertised stream limit
    def maxsd_checks_limit():
        b = body(STATE, 'received_max_stream_data')
        if len(re.findall(r'let\s+write_limit\s*=\s*self\.write_limit\(\)\s*;', b)) != 1:
            raise TE('received_max_stream_data: expected one `let write_limit = self.write_limit();`')
        head = b[:b.index('let write_limit')]
        if not re.search(r'if\s+id\.initiator\(\)\s*!=\s*self\.side\s*&&\s*id\.dir\(\)\s*==\s*Dir::Uni\s*\{', head):
            raise TE('received_max_stream_data: recv-only test changed')
        n = len(re.findall(r'max_remote', b))
        if n == 0 and len(re.findall(r'\bif\b', head)) == 1:
            return 'false'
        m = re.findall(
            r'if\s+id\.initiator\(\)\s*!=\s*self\.side\s*&&\s*id\.index\(\)\s*>=\s*'
            r'self\.max_remote\[\s*id\.dir\(\)\s+as\s+usize\s*\]\s*\{(?:(?!\bif\b|\blet\b|\bself\b).)*?'
            r'return\s+Err\(\s*TransportError::STREAM_LIMIT_ERROR\(\s*""\s*\)\s*\)\s*;\s*\}', head, flags=re.S)
        if n == 1 and len(m) == 1 and len(re.findall(r'\bif\b', head)) == 2 and \
           head.index('Dir::Uni') < head.index('max_remote'):
            return 'true'
        raise TE('received_max_stream_data: stream-limit test not recognised')
    g.term('maxsdChecksRemoteLimit', 'Bool', f'{STATE}::received_max_stream_data stream limit test', maxsd_checks_limit)

    # ---- Recv::ingest: is a FIN below the data already received a final-size error
    def ingest_fin_below_end():
        b = body(RECV, 'ingest')
        if len(re.findall(r'let\s+new_bytes\s*=\s*self\.credit_consumed_by\(', b)) != 1:
            raise TE('ingest: expected one `let new_bytes = self.credit_consumed_by(`')
        head = b[:b.index('let new_bytes')]
        if not re.search(r'if\s+let\s+Some\(final_offset\)\s*=\s*self\.final_offset\(\)\s*\{\s*'
                         r'if\s+end\s*>\s*final_offset\s*\|\|\s*\(\s*frame\.fin\s*&&\s*end\s*!=\s*final_offset\s*\)\s*\{', head):
            raise TE('ingest: final-size test changed')
        n = len(re.findall(r'self\.end\b', head))
        nif = len(re.findall(r'\bif\b', head))
        if n == 0 and nif == 3:
            return 'false'
        m = re.findall(r'if\s+frame\.fin\s*&&\s*end\s*<\s*self\.end\s*\{(?:(?!\bif\b|\blet\b).)*?'
                       r'return\s+Err\(\s*TransportError::FINAL_SIZE_ERROR\(\s*""\s*\)\s*\)\s*;\s*\}', head, flags=re.S)
        if len(m) == 1 and nif == 4 and n in (1, 2) and head.index('final_offset') < head.index('end < self.end'):
            return 'true'
        raise TE('ingest: FIN-below-received test not recognised')
    g.term('ingestFinBelowEndIsError', 'Bool', f'{RECV}::Recv::ingest FIN below received data', ingest_fin_below_end)

    # ---- Recv::reset: is an already reset stream noticed before the flow-control test
    def reset_duplicate_first():
        b = body(RECV, 'reset')
        c = [m.start() for m in re.finditer(r'self\.credit_consumed_by\(\s*final_offset\.into\(\)\s*,\s*received\s*,\s*max_data\s*\)\s*\?\s*;', b)]
        d = [m.start() for m in re.finditer(r'if\s+matches!\(\s*self\.state\s*,\s*RecvState::ResetRecvd\s*\{\s*\.\.\s*\}\s*\)\s*\{\s*return\s+Ok\(false\)\s*;\s*\}', b)]
        v = [m.start() for m in re.finditer(r'lower than high water mark', b)]
        a = [m.start() for m in re.finditer(r'self\.state\s*=\s*RecvState::ResetRecvd\s*\{', b)]
        if len(c) != 1 or len(d) != 1 or len(v) != 1 or len(a) != 1:
            raise TE('Recv::reset: expected one credit test, one redundancy test, one size validation, one state assignment')
        if v[0] < c[0] < d[0] < a[0]:
            return 'false'
        if v[0] < d[0] < c[0] < a[0]:
            return 'true'
        raise TE('Recv::reset: order of the tests not recognised')
    g.term('resetDuplicateBeforeCredit', 'Bool', f'{RECV}::Recv::reset order of redundancy and flow-control tests', reset_duplicate_first)

    # ---- SendStream::write_source: is a finished / reset half reported before the connection-level limit test
    def write_closed_first():
        b = body(MOD, 'write_source')
        lim = [m.start() for m in re.finditer(r'if\s+limit\s*==\s*0\s*\{', b)]
        get = [m.end() for m in re.finditer(r'\.ok_or\(WriteError::ClosedStream\)\?\s*;', b)]
        if len(lim) != 1 or len(get) != 1 or not get[0] < lim[0]:
            raise TE('write_source: expected `.ok_or(WriteError::ClosedStream)?;` then one `if limit == 0 {`')
        n = len(re.findall(r'!\s*stream\.is_writable\(\)', b))
        if n == 0:
            return 'false'
        m = re.match(r'\s*if\s*!\s*stream\.is_writable\(\)\s*\{\s*return\s+Err\(\s*WriteError::ClosedStream\s*\)\s*;\s*\}', b[get[0]:])
        if n == 1 and m:
            return 'true'
        raise TE('write_source: closed-half test not recognised')
    g.term('writeClosedFirst', 'Bool', f'{MOD}::SendStream::write_source closed-half test', write_closed_first)

    # ---- retransmit_all_for_0rtt: is the FIN of a finished stream queued again
    def rtx0_requeues_fin():
        b = body(STATE, 'retransmit_all_for_0rtt')
        old = re.findall(r'if\s+stream\.pending\.is_fully_acked\(\)\s*&&\s*!\s*stream\.fin_pending\s*\{', b)
        new = re.findall(r'if\s+stream\.pending\.is_fully_acked\(\)\s*&&\s*!\s*stream\.fin_pending\s*&&\s*!\s*finished\s*\{', b)
        push = [m.start() for m in re.finditer(r'if\s*!\s*stream\.is_pending\(\)\s*\{\s*self\.pending\.push_pending\(', b)]
        rtx = [m.start() for m in re.finditer(r'stream\.pending\.retransmit_all_for_0rtt\(\)\s*;', b)]
        if len(push) != 1 or len(rtx) != 1 or not push[0] < rtx[0]:
            raise TE('retransmit_all_for_0rtt: push_pending / retransmit_all_for_0rtt not found in order')
        if len(old) == 1 and len(new) == 0 and 'finished' not in b and len(re.findall(r'fin_pending\s*[|]?=', b)) == 0:
            return 'false'
        fin = [m.start() for m in re.finditer(r'let\s+finished\s*=\s*matches!\(\s*stream\.state\s*,\s*SendState::DataSent\s*\{\s*finish_acked\s*:\s*false\s*\}\s*\)\s*;', b)]
        setf = [m.start() for m in re.finditer(r'stream\.fin_pending\s*\|=\s*finished\s*;', b)]
        if len(new) == 1 and len(old) == 0 and len(fin) == 1 and len(setf) == 1 and len(re.findall(r'\bfinished\b', b)) == 3 \
           and fin[0] < b.index('is_fully_acked') < push[0] < setf[0]:
            return 'true'
        raise TE('retransmit_all_for_0rtt: FIN re-queue not recognised')
    g.term('rtx0RequeuesFin', 'Bool', f'{STATE}::retransmit_all_for_0rtt FIN of a finished stream', rtx0_requeues_fin)

    # ---- Connection, Retry branch: the non-STREAM frames carried by the discarded 0-RTT packets are queued again
    def retry_requeues_control():
        t = strip(read('quinn-proto/src/connection/mod.rs'))
        calls = [m.start() for m in re.finditer(r'self\.streams\.retransmit_all_for_0rtt\(\)\s*;', t)]
        if len(calls) != 1:
            raise TE('connection/mod.rs: expected exactly one call of streams.retransmit_all_for_0rtt()')
        before = t[max(0, calls[0] - 700):calls[0]]
        loop = re.search(r'let\s+zero_rtt\s*=\s*mem::take\(\s*&mut\s+self\.spaces\[SpaceId::Data\]\.sent_packets\s*\)\s*;\s*'
                         r'for\s+info\s+in\s+zero_rtt\.into_values\(\)\s*\{\s*self\.remove_in_flight\(&info\)\s*;\s*'
                         r'self\.spaces\[SpaceId::Data\]\.pending\s*\|=\s*info\.retransmits\s*;\s*\}\s*$', before)
        if loop:
            return 'true'
        if 'info.retransmits' not in before and 'pending |=' not in before:
            return 'false'
        raise TE('connection/mod.rs: Retry branch before retransmit_all_for_0rtt() not recognised')
    g.term('retryRequeuesSentControlFrames', 'Bool',
           'quinn-proto/src/connection/mod.rs::Retry branch re-queues info.retransmits of the 0-RTT packets', retry_requeues_control)
