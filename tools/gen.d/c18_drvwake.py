"""T1 for the driver-wake rule of C18 -> Gen/C18DrvWake.lean

The async layer (`quinn`) never transmits by itself: frames queued in the protocol state machine leave only when
the connection driver task runs `poll_transmit`. Every application-side entry point that may queue frames therefore
ends in `State::wake()` (`conn.wake()` / `state.wake()` / `self.wake()`). This plugin reads, for EVERY such call
site in quinn/src/{recv_stream,send_stream,connection}.rs, the GUARD the call sits under, as a boolean function

    def c18dw<Site> (r u1 u2 : Bool) : Bool

of `r` = the fact about the preceding quinn-proto call that the site is allowed to depend on (the call returned
Ok / Some / `ShouldTransmit::should_transmit()` — named per site below) and of up to two further atoms `u1`, `u2`
(= any OTHER condition the source puts in front of the wake; none in the pinned tree). The model
(QuinnModel/Async/DriverWake.lean) states for each site when the proto call may have queued frames (`mayQueue`, from
the quinn-proto API contract) and the theorems need `mayQueue → guard` for all values of the atoms: a wake that is
skipped under an extra condition makes `Props/C18_drvwake.lean` fail; a call site that disappears, moves to another
position relative to its proto call, or gains a guard this reader cannot parse is a translation break.

Also generated: the NUMBER of `.wake()` call sites on `conn` / `state` / `self` receivers per file (a new, unlisted
site — or a removed one — changes the count and breaks `DriverWake.sites_accounted`), and the shape of
`ConnectionDriver::poll`'s exit (re-arm own waker only when nothing is left to do).
"""
import re
NAME = 'C18DrvWake'


def _norm(s):
    return re.sub(r'\s+', ' ', s)


class Break(Exception):
    pass


def _open_guards(between):
    """`between` = normalised source text from the end of the proto call to the `.wake()` call. Statements that are
    complete (balanced braces, terminated) are skipped unless they can leave the function (return / ? / break /
    continue); the block openers still open at the end are the guards. Returns the list of their headers."""
    # split into a stack of open headers
    stack = []       # (header text)
    cur = ''         # text of the statement being read at the current level
    depth_stack = []
    for ch in between:
        if ch == '{':
            stack.append(cur.strip())
            depth_stack.append('')
            cur = ''
        elif ch == '}':
            if not stack:
                raise Break('unbalanced } between the proto call and the wake')
            hdr = stack.pop()
            inner = depth_stack.pop()
            if re.search(r'\breturn\b|\?\s*;|\bbreak\b|\bcontinue\b', inner):
                raise Break('a closed block between the proto call and the wake can leave the function: ' + hdr[:40])
            cur = ''
        elif ch == ';':
            if re.search(r'\breturn\b|\?\s*$|\bbreak\b|\bcontinue\b', cur):
                raise Break('a statement between the proto call and the wake can leave the function: ' + cur.strip()[:40])
            if depth_stack:
                depth_stack[-1] += cur + ';'
            cur = ''
        else:
            cur += ch
            if depth_stack:
                depth_stack[-1] += ch
    if cur.strip() not in ('', '=>'):
        # text directly in front of `X.wake()` that is not a statement boundary (e.g. `Ok(()) =>`): handled by callers
        stack.append('@' + cur.strip())
    return stack


_ATOM = re.compile(r'[A-Za-z_][A-Za-z0-9_\.:\(\)&\*, ]*')


def _bool_expr(cond, known):
    """translate a Rust boolean expression over `&&`, `||`, `!`, parentheses and opaque atoms into Lean; atoms in
    `known` map to `r`, every other distinct atom to u1, u2 (more: break)"""
    toks = re.findall(r'&&|\|\||!(?!=)|\(|\)|[^&|!()]+', cond)
    # re-join call parentheses with their atoms: do a small recursive-descent over characters instead
    pos = 0
    unknown = []
    s = cond.strip()

    def atom_name(a):
        a = a.strip()
        if a in ('true', 'false'):
            return a
        if a in known:
            return 'r'
        if a not in unknown:
            unknown.append(a)
        if len(unknown) > 2:
            raise Break('more than two unknown atoms in a wake guard: ' + ', '.join(unknown))
        return 'u%d' % (unknown.index(a) + 1)

    def parse_or(i):
        l, i = parse_and(i)
        while s[i:i + 2] == '||':
            rr, i = parse_and(i + 2)
            l = f'({l} || {rr})'
        return l, i

    def parse_and(i):
        l, i = parse_not(i)
        while s[i:i + 2] == '&&':
            rr, i = parse_not(i + 2)
            l = f'({l} && {rr})'
        return l, i

    def skip(i):
        while i < len(s) and s[i] == ' ':
            i += 1
        return i

    def parse_not(i):
        i = skip(i)
        if i < len(s) and s[i] == '!' and s[i + 1:i + 2] != '=':
            e, i = parse_not(i + 1)
            return f'(!{e})', i
        if i < len(s) and s[i] == '(':
            e, i = parse_or(i + 1)
            i = skip(i)
            if s[i:i + 1] != ')':
                raise Break('unbalanced ( in a wake guard')
            return e, skip(i + 1)
        # opaque atom: up to the next top-level && or || or unmatched )
        j, depth = i, 0
        while j < len(s):
            if s[j] in '([{':
                depth += 1
            elif s[j] in ')]}':
                if depth == 0:
                    break
                depth -= 1
            elif depth == 0 and s[j:j + 2] in ('&&', '||'):
                break
            j += 1
        a = s[i:j].strip()
        if not a or re.search(r'[;=<>]', re.sub(r'\([^()]*\)', '', a)):
            raise Break('unsupported atom in a wake guard: ' + a[:40])
        return atom_name(a), skip(j)

    e, i = parse_or(0)
    if skip(i) != len(s):
        raise Break('trailing text in a wake guard: ' + s[i:][:40])
    del toks, pos
    return e


def extend(g, api):
    conn_rs, recv_rs, send_rs = 'quinn/src/connection.rs', 'quinn/src/recv_stream.rs', 'quinn/src/send_stream.rs'

    def src(rel):
        return api.strip_comments(api.read(rel))

    def body(rel, fn, after=None):
        return _norm(api.fn_body(src(rel), fn, after))

    def site(lean, anchor, get, call_re, known, arm=None):
        """the wake that follows the proto call matched by `call_re` inside get(): its guard as a Lean term.
        `known`: source atoms (normalised text) that stand for `r`. `arm`: regex of a match arm that must be the
        innermost opener (then `r` is conjoined: the arm IS the fact about the call)."""
        def f():
            t = get()
            m = re.compile(call_re).search(t)
            if not m:
                raise Break('proto call not found: ' + call_re[:60])
            w = re.compile(r'\b(conn|state|self)\.wake\(\)').search(t, m.end())
            if not w:
                raise Break('no wake after the proto call')
            between = t[m.end():w.start()]
            hdrs = _open_guards(between)
            terms = []
            for h in hdrs:
                if arm is not None and re.fullmatch(arm, h.lstrip('@').strip()):
                    terms.append('r')
                    continue
                mm = re.fullmatch(r'(?:.*[;}] ?)?if (?!let\b)(.+)', h)
                if not mm:
                    raise Break('wake sits under something that is not a plain `if`: ' + h[:50])
                terms.append(_bool_expr(mm.group(1), known))
            if not terms:
                return 'fun _ _ _ => true' if not known and arm is None else 'fun r _ _ => r'
            body_ = ' && '.join(terms)
            # a site whose wake is reached only when the call succeeded (`?` / returning Err arms before it)
            names = [n if re.search(r'\b' + n + r'\b', body_) else '_' for n in ('r', 'u1', 'u2')]
            return f"fun {' '.join(names)} => {body_}"
        g.term(lean, 'Bool → Bool → Bool → Bool', anchor, f)

    # ---- recv_stream.rs
    site('c18dwRecvStop', f'{recv_rs}::stop: wake after `recv_stream(..).stop(error_code)?` (r = the call returned Ok)',
         lambda: body(recv_rs, 'stop'), r'conn\.inner\.recv_stream\(self\.stream\)\.stop\(error_code\)\?;', ['@ok'])
    site('c18dwReceivedReset', f'{recv_rs}::received_reset: wake in the arm `Ok(Some(error_code))` of `recv_stream(..).received_reset()` (r = that arm)',
         lambda: body(recv_rs, 'received_reset'), r'match conn\.inner\.recv_stream\(self\.stream\)\.received_reset\(\) \{ Err\(_\) => Poll::Ready\(Ok\(None\)\),',
         [], arm=r'Ok\(Some\(error_code\)\) =>')
    site('c18dwRead', f'{recv_rs}::poll_read_generic: wake after `read_fn(&mut chunks)` under `chunks.finalize().should_transmit()` (r = should_transmit)',
         lambda: body(recv_rs, 'poll_read_generic'), r'let status = read_fn\(&mut chunks\);', ['chunks.finalize().should_transmit()'])
    site('c18dwRecvDrop', f'{recv_rs}::Drop for RecvStream: wake after the implicit `stop(0)` (result discarded: unconditional)',
         lambda: body(recv_rs, 'drop', 'impl Drop for RecvStream'), r'let _ = conn\.inner\.recv_stream\(self\.stream\)\.stop\(0u32\.into\(\)\);', [])
    # ---- send_stream.rs
    site('c18dwWrite', f'{send_rs}::execute_poll: wake after `write_fn(..)` returned Ok (every Err arm returns before it)',
         lambda: body(send_rs, 'execute_poll'),
         r'let result = match write_fn\(&mut conn\.inner\.send_stream\(self\.stream\)\) \{ Ok\(result\) => result, Err\(Blocked\) => \{ conn\.blocked_writers\.insert\(self\.stream, cx\.waker\(\)\.clone\(\)\); return Poll::Pending; \} Err\(Stopped\(error_code\)\) => \{ return Poll::Ready\(Err\(WriteError::Stopped\(error_code\)\)\); \} Err\(ClosedStream\) => \{ return Poll::Ready\(Err\(WriteError::ClosedStream\)\); \} \};',
         ['@ok'])
    site('c18dwFinish', f'{send_rs}::finish: wake in the arm `Ok(())` of `send_stream(..).finish()`',
         lambda: body(send_rs, 'finish'), r'match conn\.inner\.send_stream\(self\.stream\)\.finish\(\) \{', [], arm=r'Ok\(\(\)\) =>')
    site('c18dwReset', f'{send_rs}::reset: wake after `send_stream(..).reset(error_code)?` (r = the call returned Ok)',
         lambda: body(send_rs, 'reset'), r'conn\.inner\.send_stream\(self\.stream\)\.reset\(error_code\)\?;', ['@ok'])
    site('c18dwSendDropFinish', f'{send_rs}::Drop for SendStream: wake in the arm `Ok(())` of the implicit finish()',
         lambda: body(send_rs, 'drop', 'impl Drop for SendStream'), r'match conn\.inner\.send_stream\(self\.stream\)\.finish\(\) \{', [], arm=r'Ok\(\(\)\) =>')
    site('c18dwSendDropReset', f'{send_rs}::Drop for SendStream: wake under `send_stream(..).reset(reason).is_ok()` after finish() said Stopped',
         lambda: body(send_rs, 'drop', 'impl Drop for SendStream'), r'Err\(FinishError::Stopped\(reason\)\) => \{',
         ['conn.inner.send_stream(self.stream).reset(reason).is_ok()'])
    # ---- connection.rs
    site('c18dwSendDatagram', f'{conn_rs}::send_datagram: wake in the arm `Ok(())` of `datagrams().send(data, true)`',
         lambda: body(conn_rs, 'send_datagram'), r'match conn\.inner\.datagrams\(\)\.send\(data, true\) \{', [], arm=r'Ok\(\(\)\) =>')
    site('c18dwSendDatagramWait', f'{conn_rs}::SendDatagram::poll: wake in the arm `Ok(())` of `datagrams().send(.., false)`',
         lambda: _norm(src(conn_rs)), r'impl Future for SendDatagram<\'_> \{.*?match state \.inner \.datagrams\(\) \.send\(this\.data\.take\(\)\.unwrap\(\), false\) \{', [], arm=r'Ok\(\(\)\) =>')
    for fn, call in [('set_max_concurrent_uni_streams', r'conn\.inner\.set_max_concurrent_streams\(Dir::Uni, count\);'),
                     ('set_max_concurrent_bi_streams', r'conn\.inner\.set_max_concurrent_streams\(Dir::Bi, count\);'),
                     ('set_send_window', r'conn\.inner\.set_send_window\(send_window\);'),
                     ('set_receive_window', r'conn\.inner\.set_receive_window\(receive_window\);')]:
        lean = 'c18dw' + ''.join(p.capitalize() for p in fn.split('_'))
        site(lean, f'{conn_rs}::{fn}: unconditional wake after the proto setter', (lambda fn=fn: body(conn_rs, fn)), call, [])
    site('c18dwAccept', f'{conn_rs}::poll_accept: wake when `streams().accept(dir)` handed out a stream (r = Some)',
         lambda: body(conn_rs, 'poll_accept'), r'let mut state = conn\.state\.lock\("poll_accept"\);', [],
         arm=r'if let Some\(id\) = state\.inner\.streams\(\)\.accept\(dir\)')
    site('c18dwClose', f'{conn_rs}::State::close: unconditional wake after `inner.close(..)` and terminate',
         lambda: body(conn_rs, 'close', 'fn terminate'), r'self\.inner\.close\(self\.runtime\.now\(\), error_code, reason\);', [])

    # ---- every wake call site is one of the above
    def count(rel):
        def f():
            return len(re.findall(r'\b(?:conn|state|self)\.wake\(\)', src(rel)))
        return f
    g.nat('c18dwSitesRecv', f'{recv_rs}: number of `.wake()` calls on the connection state', count(recv_rs))
    g.nat('c18dwSitesSend', f'{send_rs}: number of `.wake()` calls on the connection state', count(send_rs))
    g.nat('c18dwSitesConn', f'{conn_rs}: number of `.wake()` calls on the connection state', count(conn_rs))

    # ---- the driver: loops until poll_transmit has nothing more (or its budget is spent / a timer fired: keep_going),
    # and stores its waker only when it does not keep going
    def driver_shape():
        t = _norm(src(conn_rs))
        pats = [r'impl Future for ConnectionDriver \{',
                r'let mut keep_going = match conn\.drive_transmit\(cx\) \{ Ok\(keep_going\) => keep_going,',
                r'keep_going \|= conn\.drive_timer\(cx\);',
                r'if !conn\.inner\.is_drained\(\) \{ if keep_going \{ cx\.waker\(\)\.wake_by_ref\(\); \} else \{ conn\.driver = Some\(cx\.waker\(\)\.clone\(\)\); \} return Poll::Pending; \}']
        pos = 0
        for p in pats:
            m = re.compile(p).search(t, pos)
            if not m:
                raise Break('ConnectionDriver::poll shape changed: ' + p[:50])
            pos = m.end()
        d = _norm(api.fn_body(src(conn_rs), 'drive_transmit'))
        for p in [r'loop \{', r'None => break,', r'Poll::Pending => \{ self\.buffered_transmit = Some\(t\); return Ok\(false\); \}',
                  r'if transmits >= MAX_TRANSMIT_DATAGRAMS \{', r'return Ok\(true\); \} \} Ok\(false\)']:
            if not re.search(p, d):
                raise Break('drive_transmit shape changed: ' + p[:50])
        w = _norm(api.fn_body(src(conn_rs), 'wake', 'fn drive_timer'))
        if not re.fullmatch(r'\{ if let Some\(x\) = self\.driver\.take\(\) \{ x\.wake\(\); \} \}', w):
            raise Break('State::wake shape changed')
        return 1
    g.nat('c18dwDriverLoopShape', f'{conn_rs}::ConnectionDriver::poll / drive_transmit / State::wake: transmit until poll_transmit yields None (or the budget is spent: keep_going; or the socket blocks: waker left with the socket), store the own waker only when not keep_going; wake() takes and wakes it', driver_shape)
