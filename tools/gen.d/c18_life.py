"""T1 for the end-of-life rules of C18 -> Gen/C18Life.lean

Two rules of the `quinn` crate that the theorems of Props/C18_life.lean quantify over (models in
QuinnModel/Async/Life.lean):

* ENDPOINT CLOSE reaches every connection of the endpoint, also one registered afterwards. `Endpoint::close`
  records the close in the connection set and sends `ConnectionEvent::Close` to every sender present; an `Incoming`
  that was queued or is held by the application stays valid and reaches `ConnectionSet::insert` later, which is the
  only place that can tell such a connection. Read from the source:
    c18InsertAfterCloseSendsClose  (0/1)  `ConnectionSet::insert` tests `self.close` and, when set, sends
                                          `ConnectionEvent::Close` into the new channel BEFORE it registers the sender
    c18EndpointCloseTellsAll       (0/1)  `Endpoint::close` sets `connections.close` and sends Close to every sender
  and pinned as shapes (a change is a translation break):
    c18InsertIsTheOnlyRegistration        `senders.insert` occurs once in endpoint.rs, inside `ConnectionSet::insert`
    c18ConnCloseEventCloses               `process_conn_events`: `ConnectionEvent::Close` -> `self.close(..)`
                                          (= terminate + wake, anchor c18CloseTerminatesAndWakesDriver of Gen/C18)
    c18AcceptHandsOutQueuedAfterClose     `Accept::poll` pops the queue BEFORE it looks at `close` (so attempts queued at
                                          the close do reach `insert`), and `poll_socket` queues nothing once closed
* PER-ID WAKER TABLES WITH ID REUSE: after a 0-RTT rejection stream ids are used again; `blocked_readers` /
  `blocked_writers` are keyed by id only. Read from the source:
    c18RejectionDrainsWakerTables  (0/1)  `forward_app_events`, `Connected` arm: on a rejection both tables (and the
                                          `stopped` map) are drained — nothing of the old generation stays registered
    c18StaleDropKeepsTable         (0/1)  both `Drop` impls return on `is_0rtt && check_0rtt().is_err()` BEFORE the
                                          table's `remove` (same source lines as Gen.c18RejectedDropKeepsWaker)
    c18StaleStopKeepsTable         (0/1)  `RecvStream::stop` likewise returns before `blocked_readers.remove`
"""
import re
NAME = 'C18Life'


def _norm(s):
    return re.sub(r'\s+', ' ', s)


def extend(g, api):
    conn_rs, recv_rs, send_rs, ep_rs = 'quinn/src/connection.rs', 'quinn/src/recv_stream.rs', 'quinn/src/send_stream.rs', 'quinn/src/endpoint.rs'

    def src(rel):
        return api.strip_comments(api.read(rel))

    def body(rel, fn, after=None):
        return _norm(api.fn_body(src(rel), fn, after))

    def seq(t, patterns):
        pos = 0
        for p in patterns:
            m = re.compile(p).search(t, pos)
            if not m:
                return p
            pos = m.end()
        return None

    def shape(lean, anchor, get, patterns):
        def f():
            miss = seq(get(), patterns)
            if miss is not None:
                raise Exception('shape changed, not found (in order): ' + miss[:70])
            return 1
        g.nat(lean, anchor, f)

    def flag(lean, anchor, get, patterns):
        g.nat(lean, anchor, lambda: 1 if seq(get(), patterns) is None else 0)

    CLOSE_EV = r'ConnectionEvent::Close \{ error_code, reason: reason\.clone\(\), \}'
    flag('c18InsertAfterCloseSendsClose', f'{ep_rs}::ConnectionSet::insert sends ConnectionEvent::Close into the new channel when the endpoint was closed, before registering the sender (1) or not (0)',
         lambda: body(ep_rs, 'insert', 'impl ConnectionSet'),
         [r'let \(send, recv\) = mpsc::unbounded_channel\(\);',
          r'if let Some\(\(error_code, ref reason\)\) = self\.close \{ send\.send\(' + CLOSE_EV + r'\) \.unwrap\(\); \}',
          r'self\.senders\.insert\(handle, send\);'])
    flag('c18EndpointCloseTellsAll', f'{ep_rs}::Endpoint::close records the close and sends ConnectionEvent::Close to every registered sender (1) or not (0)',
         lambda: body(ep_rs, 'close', 'pub fn open_connections'),
         [r'endpoint\.recv_state\.connections\.close = Some\(\(error_code, reason\.clone\(\)\)\);',
          r'for sender in endpoint\.recv_state\.connections\.senders\.values\(\) \{ let _ = sender\.send\(' + CLOSE_EV + r'\); \}',
          r'self\.inner\.shared\.incoming\.notify_waiters\(\);'])

    def only_registration():
        t = _norm(src(ep_rs))
        n = len(re.findall(r'senders\s*\.insert\(', t))
        if n != 1:
            raise Exception(f'senders.insert occurs {n} times in endpoint.rs (expected once, in ConnectionSet::insert)')
        if seq(body(ep_rs, 'insert', 'impl ConnectionSet'), [r'self\.senders\.insert\(handle, send\);']) is not None:
            raise Exception('senders.insert is not in ConnectionSet::insert')
        # both creators of connections go through it
        if seq(t, [r'pub\(crate\) fn accept\(', r'\.recv_state \.connections \.insert\(handle, conn, sender, runtime\)']) is not None:
            raise Exception('EndpointInner::accept no longer registers through ConnectionSet::insert')
        if seq(_norm(body(ep_rs, 'connect_with')), [r'if endpoint\.driver_lost \|\| endpoint\.recv_state\.connections\.close\.is_some\(\) \{ return Err\(ConnectError::EndpointStopping\); \}', r'\.connections \.insert\(ch, conn, sender, self\.runtime\.clone\(\)\)']) is not None:
            raise Exception('connect_with: shape changed (EndpointStopping test, ConnectionSet::insert)')
        return 1
    g.nat('c18InsertIsTheOnlyRegistration', f'{ep_rs}: senders.insert occurs once, in ConnectionSet::insert; EndpointInner::accept and connect_with register through it (connect_with refuses on a closed endpoint)', only_registration)

    shape('c18ConnCloseEventCloses', f'{conn_rs}::State::process_conn_events (ConnectionEvent::Close -> self.close = terminate + wake the driver)',
          lambda: body(conn_rs, 'process_conn_events'),
          [r'loop \{ match self\.conn_events\.poll_recv\(cx\) \{',
           r'Poll::Ready\(Some\(ConnectionEvent::Close \{ reason, error_code \}\)\) => \{ self\.close\(error_code, reason, shared\); \}'])
    shape('c18AcceptHandsOutQueuedAfterClose', f'{ep_rs}::Accept::poll pops the queue before it tests `close`; poll_socket queues no attempt once closed',
          lambda: _norm(src(ep_rs)),
          [r'impl Future for Accept<\'_> \{',
           r'if let Some\(incoming\) = endpoint\.recv_state\.incoming\.pop_front\(\) \{',
           r'if endpoint\.recv_state\.connections\.close\.is_some\(\) \{ return Poll::Ready\(None\); \}',
           r'fn poll_socket\(',
           r'Some\(DatagramEvent::NewConnection\(incoming\)\) => \{ if self\.connections\.close\.is_none\(\) \{'])

    flag('c18RejectionDrainsWakerTables', f'{conn_rs}::forward_app_events, Connected arm: a 0-RTT rejection drains blocked_writers, blocked_readers and stopped (1) or not (0)',
         lambda: body(conn_rs, 'forward_app_events'),
         [r'Connected => \{ self\.connected = true; shared\.connected\.notify_waiters\(\);',
          r'if self\.inner\.side\(\)\.is_client\(\) && !self\.inner\.accepted_0rtt\(\) \{',
          r'wake_all\(&mut self\.blocked_writers\); wake_all\(&mut self\.blocked_readers\); wake_all_notify\(&mut self\.stopped\);'])
    Z = r'if self\.is_0rtt && conn\.check_0rtt\(\)\.is_err\(\) \{ return'
    flag('c18StaleDropKeepsTable', f'{send_rs} / {recv_rs}: Drop returns on a rejected 0-RTT handle BEFORE blocked_writers/blocked_readers.remove (1) or not (0)',
         lambda: body(send_rs, 'drop', 'impl Drop for SendStream') + ' ##### ' + body(recv_rs, 'drop', 'impl Drop for RecvStream'),
         [r'let mut conn = self\.conn\.state\.lock\("SendStream::drop"\); ' + Z + r'; \} conn\.blocked_writers\.remove\(&self\.stream\);',
          r'#####', r'let mut conn = self\.conn\.state\.lock\("RecvStream::drop"\); ' + Z + r'; \} conn\.blocked_readers\.remove\(&self\.stream\);'])

    def one_remove_per_drop():
        for rel, impl, tab in ((send_rs, 'impl Drop for SendStream', 'blocked_writers'), (recv_rs, 'impl Drop for RecvStream', 'blocked_readers')):
            b = body(rel, 'drop', impl)
            n = len(re.findall(tab + r'\s*\.remove\(', b))
            if n != 1:
                raise Exception(f'{impl}: {tab}.remove occurs {n} times (expected once)')
        return 1
    g.nat('c18DropRemovesOnce', f'{send_rs} / {recv_rs}: each Drop impl removes from its waker table exactly once', one_remove_per_drop)
    flag('c18StaleStopKeepsTable', f'{recv_rs}::RecvStream::stop returns on a rejected 0-RTT handle before blocked_readers.remove (1) or not (0)',
         lambda: body(recv_rs, 'stop'),
         [r'let mut conn = self\.conn\.state\.lock\("RecvStream::stop"\); ' + Z + r' Ok\(\(\)\); \}',
          r'conn\.blocked_readers\.remove\(&self\.stream\);'])
