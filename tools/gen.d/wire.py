"""T1 anchors for the wire codecs and Dedup -> Gen/Consts.lean"""
import re
NAME = 'Consts'

def extend(g, api):
    read, strip_comments, const_value, fn_body, TranslateError = api.read, api.strip_comments, api.const_value, api.fn_body, api.TranslateError

    def varint_chain(fn, expect_results=None):
        """thresholds of the `x < 2u64.pow(N)` chain in VarInt::<fn>"""
        text = read('quinn-proto/src/varint.rs')
        body = strip_comments(fn_body(text, fn, after='impl Codec for VarInt' if fn == 'encode' else None))
        ns = [int(n) for n in re.findall(r'x\s*<\s*2u64\.pow\((\d+)\)', body)]
        if len(ns) != 4:
            raise TranslateError(f'VarInt::{fn}: expected 4 thresholds, found {ns}')
        if re.search(r'x\s*<=', body):
            raise TranslateError(f'VarInt::{fn}: comparison shape changed')
        if expect_results is not None:
            rs = [int(r) for r in re.findall(r'x\s*<\s*2u64\.pow\(\d+\)\s*\{\s*(\d+)\s*\}', body)]
            if rs != expect_results:
                raise TranslateError(f'VarInt::size results {rs}')
        return ns

    def varint_tags():
        text = read('quinn-proto/src/varint.rs')
        body = strip_comments(fn_body(text, 'encode', after='impl Codec for VarInt'))
        tags = re.findall(r'\((0b[01]+)\s*<<\s*(\d+)\)', body)
        vals = [int(t, 0) << int(s) for t, s in tags]
        if len(vals) != 3:
            raise TranslateError(f'VarInt::encode tags {tags}')
        return vals

    def pn_new_chain():
        text = read('quinn-proto/src/packet.rs')
        body = strip_comments(fn_body(text, 'new', after='impl PacketNumber'))
        if not re.search(r'let\s+range\s*=\s*\(n\s*-\s*largest_acked\)\s*\*\s*2\s*;', body):
            raise TranslateError('PacketNumber::new: range expression changed')
        ns = [int(n) for n in re.findall(r'range\s*<\s*1\s*<<\s*(\d+)', body)]
        arms = re.findall(r'Self::(U\d+)\(n as (u\d+)\)', body)
        if len(ns) != 4 or arms != [('U8', 'u8'), ('U16', 'u16'), ('U24', 'u32'), ('U32', 'u32')]:
            raise TranslateError(f'PacketNumber::new: chain {ns} arms {arms}')
        return ns

        # ---- varint.rs
    for i, k in enumerate(['1', '2', '4', '8']):
        g.nat(f'varintSizeT{k}', f'quinn-proto/src/varint.rs::VarInt::size threshold {i}',
              lambda i=i: f"2^{varint_chain('size', [1, 2, 4, 8])[i]}")
        g.nat(f'varintT{k}', f'quinn-proto/src/varint.rs::VarInt::encode threshold {i}',
              lambda i=i: f"2^{varint_chain('encode')[i]}")
    g.nat('varintFromU64Bound', 'quinn-proto/src/varint.rs::VarInt::from_u64',
          lambda: "2^" + re.search(r'if\s+x\s*<\s*2u64\.pow\((\d+)\)', fn_body(read('quinn-proto/src/varint.rs'), 'from_u64')).group(1))
    for i, k in enumerate(['2', '4', '8']):
        g.nat(f'varintTag{k}', f'quinn-proto/src/varint.rs::VarInt::encode tag {k}', lambda i=i: varint_tags()[i])
    # ---- packet.rs
    for i in range(4):
        g.nat(f'pnNewBits{i+1}', f'quinn-proto/src/packet.rs::PacketNumber::new threshold {i}',
              lambda i=i: pn_new_chain()[i])
    # ---- spaces.rs
    g.nat('dedupWindowSize', 'quinn-proto/src/connection/spaces.rs::WINDOW_SIZE',
          lambda: const_value(read('quinn-proto/src/connection/spaces.rs'), 'WINDOW_SIZE'))

