"""T1 anchors for the UDP layer -> Gen/Udp.lean"""
import re
NAME = 'Udp'

def extend(g, api):
    cm = 'quinn-udp/src/cmsg/mod.rs'
    g.nat('cmsgLen', f'{cm}::LEN (unix)', lambda: int(re.search(r'#\[cfg\(unix\)\]\s*pub\(crate\) const LEN: usize = (\d+);', api.read(cm)).group(1)))
    # sizes of the libc payload types on x86_64/aarch64 Linux (reported and compared at run time by the harness)
    g.nat('cmsgHdrSize', 'libc::cmsghdr size on 64-bit Linux (validated against libc::CMSG_SPACE by the harness)', lambda: 16)
    g.nat('sizeofCInt', 'size_of::<libc::c_int>()', lambda: 4)
    g.nat('sizeofInPktinfo', 'size_of::<libc::in_pktinfo>()', lambda: 12)
    g.nat('sizeofIn6Pktinfo', 'size_of::<libc::in6_pktinfo>()', lambda: 20)
    g.nat('sizeofTimespec', 'size_of::<libc::timespec>() on 64-bit Linux', lambda: 16)
    def recv_opts_shape():
        t = api.strip_comments(api.read('quinn-udp/src/unix.rs'))
        need = [r'libc::IP_RECVTOS', r'libc::IP_PKTINFO,\s*OPTION_ON', r'libc::UDP_GRO,\s*OPTION_ON', r'libc::SO_TIMESTAMPNS,\s*OPTION_ON', r'libc::IPV6_RECVPKTINFO', r'libc::IPV6_RECVTCLASS']
        for n in need:
            if not re.search(n, t):
                raise Exception('UdpSocketState::new: receive option set changed: ' + n)
        return 1
    g.nat('recvOptsShapeChecked', 'quinn-udp/src/unix.rs::UdpSocketState::new (receive-side socket options as modelled)', recv_opts_shape)
    def eff_shape():
        body = api.strip_comments(api.fn_body(api.read('quinn-udp/src/lib.rs'), 'effective_segment_size'))
        if not re.search(r'match\s+self\.segment_size\?\s*\{\s*size\s+if\s+size\s*>=\s*self\.contents\.len\(\)\s*=>\s*None\s*,\s*size\s*=>\s*Some\(size\)', body):
            raise Exception('effective_segment_size shape changed')
        return 1
    g.nat('effSegShapeChecked', 'quinn-udp/src/lib.rs::Transmit::effective_segment_size (shape as modelled)', eff_shape)
    def split_shape():
        t = api.strip_comments(api.read('quinn/src/endpoint.rs'))
        if not re.search(r'while\s+!data\.is_empty\(\)\s*\{\s*let\s+buf\s*=\s*data\.split_to\(meta\.stride\.min\(data\.len\(\)\)\)', t):
            raise Exception('poll_socket stride split loop shape changed')
        return 1
    g.nat('strideSplitShapeChecked', 'quinn/src/endpoint.rs::poll_socket stride split loop (shape as modelled)', split_shape)
    def prepare_shape():
        body = api.strip_comments(api.fn_body(api.read('quinn-udp/src/unix.rs'), 'prepare_msg'))
        need = [r'encoder\.push\(libc::IPPROTO_IP,\s*libc::IP_TOS,\s*ecn as IpTosTy\)', r'encoder\.push\(libc::IPPROTO_IPV6,\s*libc::IPV6_TCLASS,\s*ecn\)',
                r'gso::set_segment_size\(&mut encoder,\s*segment_size as u16\)', r'encoder\.push\(libc::IPPROTO_IP,\s*libc::IP_PKTINFO,\s*pktinfo\)',
                r'encoder\.push\(libc::IPPROTO_IPV6,\s*libc::IPV6_PKTINFO,\s*pktinfo\)', r'hdr\.msg_controllen\s*=\s*cmsg::LEN']
        for n in need:
            if not re.search(n, body):
                raise Exception('prepare_msg shape changed: ' + n)
        return 1
    g.nat('prepareMsgShapeChecked', 'quinn-udp/src/unix.rs::prepare_msg (set of control messages as modelled)', prepare_shape)
    def send_fallback_shape():
        # the Linux `fn send` (free function, after the cfg that excludes apple/openbsd/netbsd) as modelled in Udp/Send.lean
        t = api.strip_comments(api.read('quinn-udp/src/unix.rs'))
        body = api.fn_body(t, 'send', after='#[cfg(not(any(apple, target_os = "openbsd", target_os = "netbsd")))]\nfn send(')
        halt = re.search(r'state\.max_gso_segments\.store\(1,\s*Ordering::Relaxed\)', body)
        fb = re.search(r'if\s+let\s+Some\(segment_size\)\s*=\s*transmit\.effective_segment_size\(\)\s*\{\s*return\s+send_unsegmented\(state,\s*&io,\s*transmit,\s*segment_size\)\s*;\s*\}', body)
        einval = re.search(r'state\.set_sendmsg_einval\(\)', body)
        if not (halt and fb and einval):
            raise Exception('send: a refused GSO batch is not re-sent datagram by datagram (send_unsegmented fallback missing)')
        if not (halt.start() < fb.start() < einval.start()):
            raise Exception('send: order of halt-offload / unsegmented fallback / sendmsg_einval changed')
        if not re.search(r'matches!\(e\.raw_os_error\(\),\s*Some\(libc::EINVAL\)\s*\|\s*Some\(libc::EIO\)\)\s*&&\s*!state\.sendmsg_einval\(\)', body):
            raise Exception('send: sendmsg_einval retry condition changed')
        ub = api.fn_body(t, 'send_unsegmented')
        if not re.search(r'for\s+contents\s+in\s+transmit\.contents\.chunks\(segment_size\)\s*\{\s*send\(\s*state,\s*SockRef::from\(io\),\s*&Transmit\s*\{\s*contents,\s*segment_size:\s*None,\s*\.\.transmit\.clone\(\)\s*,?\s*\}\s*,?\s*\)\?\s*;\s*\}\s*Ok\(\(\)\)', ub):
            raise Exception('send_unsegmented shape changed')
        return 1
    g.nat('sendGsoFallbackShapeChecked', 'quinn-udp/src/unix.rs::send + send_unsegmented (refused GSO batch re-sent datagram by datagram before the sendmsg_einval fallback; as modelled in Udp/Send.lean)', send_fallback_shape)
