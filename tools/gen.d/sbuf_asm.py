"""T1 anchors for SendBuffer / Assembler -> Gen/StreamBuf.lean"""
import re
NAME = 'StreamBuf'

def extend(g, api):
    read, strip_comments, fn_body, TranslateError = api.read, api.strip_comments, api.fn_body, api.TranslateError

    def poll_body():
        return strip_comments(fn_body(read('quinn-proto/src/connection/send_buffer.rs'), 'poll_transmit'))

    def poll_min():
        m = re.search(r'debug_assert!\(\s*max_len\s*>=\s*(\d+)\s*\+\s*(\d+)\s*\)', poll_body())
        if not m:
            raise TranslateError('poll_transmit: debug_assert!(max_len >= a + b) not found')
        return int(m.group(1)) + int(m.group(2))

    def poll_len_reserve():
        body = poll_body()
        ns = re.findall(r'encode_length\s*=\s*true;\s*max_len\s*-=\s*(\d+)\s*;', body)
        if len(ns) != 2 or ns[0] != ns[1]:
            raise TranslateError(f'poll_transmit: length reservations {ns}')
        # shape of the two comparisons that decide encode_length
        if len(re.findall(r'<\s*max_len\s+as\s+u64', body)) != 2 or re.search(r'<=\s*max_len\s+as\s+u64', body):
            raise TranslateError('poll_transmit: comparison shape changed')
        if len(re.findall(r'!=\s*0\s*\{\s*max_len\s*-=\s*VarInt::size', body)) != 2:
            raise TranslateError('poll_transmit: offset reservation changed')
        return int(ns[0])

    def asm_max_chunks():
        body = strip_comments(fn_body(read('quinn-proto/src/connection/assembler.rs'), 'insert'))
        m = re.search(r'if\s+self\.data\.len\(\)\s*>\s*(\d+)\s*\{\s*return\s+Err\(TooManyChunks\)', body)
        if not m:
            raise TranslateError('Assembler::insert: TooManyChunks guard not found')
        return int(m.group(1))

    g.nat('sbufMinMaxLen', 'quinn-proto/src/connection/send_buffer.rs::SendBuffer::poll_transmit debug_assert bound', poll_min)
    g.nat('sbufLenReserve', 'quinn-proto/src/connection/send_buffer.rs::SendBuffer::poll_transmit bytes reserved for the length', poll_len_reserve)
    g.nat('asmMaxChunks', 'quinn-proto/src/connection/assembler.rs::Assembler::insert TooManyChunks bound', asm_max_chunks)
