"""T1 anchors for C03 (state-dependent handlers of peer-controlled values) -> Gen/C03Consts.lean

Constants, transport error codes and the small guard expressions of
cid_queue.rs, connection/cid_state.rs, connection/ack_frequency.rs, frame.rs (ACK scan), connection/paths.rs,
connection/spaces.rs (PendingAcks) and the NEW_CONNECTION_ID arm of connection/mod.rs.
"""
import re
NAME = 'C03Consts'

def extend(g, api):
    read, strip_comments, const_value, fn_body, TranslateError = api.read, api.strip_comments, api.const_value, api.fn_body, api.TranslateError
    tx = api.translate_expr

    def norm(s):
        return re.sub(r'\s+', ' ', strip_comments(s)).strip()

    def need(pattern, text, what):
        m = re.search(pattern, text, flags=re.S)
        if not m:
            raise TranslateError(f'{what}: shape changed')
        return m

    # ---------------------------------------------------------------- plain constants
    g.nat('cidQueueLen', 'quinn-proto/src/cid_queue.rs::CidQueue::LEN',
          lambda: const_value(read('quinn-proto/src/cid_queue.rs'), 'LEN'))

    def max_pending():
        t = norm(read('quinn-proto/src/connection/mod.rs'))
        m = need(r'const MAX_PENDING_RETIRED_CIDS: u64 = CidQueue::LEN as u64 \* (\d+);', t, 'MAX_PENDING_RETIRED_CIDS')
        return f'cidQueueLen * {int(m.group(1))}'
    g.nat('maxPendingRetiredCids', 'quinn-proto/src/connection/mod.rs::MAX_PENDING_RETIRED_CIDS', max_pending)

    g.nat('maxPathResponses', 'quinn-proto/src/connection/paths.rs::PathResponses::push::MAX_PATH_RESPONSES',
          lambda: const_value(read('quinn-proto/src/connection/paths.rs'), 'MAX_PATH_RESPONSES'))
    g.nat('maxAckBlocks', 'quinn-proto/src/connection/spaces.rs::MAX_ACK_BLOCKS',
          lambda: const_value(read('quinn-proto/src/connection/spaces.rs'), 'MAX_ACK_BLOCKS'))
    g.nat('locCidCount', 'quinn-proto/src/lib.rs::LOC_CID_COUNT',
          lambda: const_value(read('quinn-proto/src/lib.rs'), 'LOC_CID_COUNT'))

    def duration_const(rel, name):
        """`const NAME: Duration = Duration::from_<unit>(n);` -> nanoseconds"""
        t = norm(read(rel))
        m = need(r'const ' + name + r': Duration = Duration::from_(secs|millis|micros|nanos)\(([0-9_]+)\);', t, name)
        mult = dict(secs=10**9, millis=10**6, micros=10**3, nanos=1)[m.group(1)]
        return int(m.group(2).replace('_', '')) * mult
    g.nat('minAutomaticAckDelayNs', 'quinn-proto/src/connection/ack_frequency.rs::MIN_AUTOMATIC_ACK_DELAY',
          lambda: duration_const('quinn-proto/src/connection/ack_frequency.rs', 'MIN_AUTOMATIC_ACK_DELAY'))
    g.nat('timerGranularityNs', 'quinn-proto/src/lib.rs::TIMER_GRANULARITY',
          lambda: duration_const('quinn-proto/src/lib.rs', 'TIMER_GRANULARITY'))

    def max_rtt_error():
        t = norm(read('quinn-proto/src/connection/ack_frequency.rs'))
        m = need(r'const MAX_RTT_ERROR: f32 = ([0-9]+\.[0-9]+);', t, 'MAX_RTT_ERROR')
        return m.group(1)
    g.term('maxRttError', 'Float32', 'quinn-proto/src/connection/ack_frequency.rs::MAX_RTT_ERROR', max_rtt_error)

    # ---------------------------------------------------------------- transport error codes
    def code(name):
        t = read('quinn-proto/src/transport_error.rs')
        m = need(r'\b' + name + r'\((0x[0-9a-fA-F]+)\)', t, f'error code {name}')
        return int(m.group(1), 16)
    for lean, name in [('codeFrameEncodingError', 'FRAME_ENCODING_ERROR'),
                       ('codeConnectionIdLimitError', 'CONNECTION_ID_LIMIT_ERROR'),
                       ('codeProtocolViolation', 'PROTOCOL_VIOLATION')]:
        g.nat(lean, f'quinn-proto/src/transport_error.rs::{name}', lambda name=name: code(name))

    LEANCODE = {'FRAME_ENCODING_ERROR': 'codeFrameEncodingError', 'CONNECTION_ID_LIMIT_ERROR': 'codeConnectionIdLimitError',
                'PROTOCOL_VIOLATION': 'codeProtocolViolation'}

    # ---------------------------------------------------------------- cid_queue.rs guards
    def cidq_insert():
        return norm(fn_body(read('quinn-proto/src/cid_queue.rs'), 'insert', after='impl CidQueue'))

    def cidq_exceeds():
        b = cidq_insert()
        need(r'let Some\(index\) = cid\.sequence\.checked_sub\(self\.offset\) else \{ return Err\(InsertError::Retired\); \};', b, 'CidQueue::insert Retired test')
        need(r'let retired_count = cid\.retire_prior_to\.saturating_sub\(self\.offset\);', b, 'CidQueue::insert retired_count')
        m = need(r'if (index [^{]+) \{ return Err\(InsertError::ExceedsLimit\); \}', b, 'CidQueue::insert ExceedsLimit test')
        return 'fun index retired_count => ' + tx(m.group(1), {'index': 'index', 'retired_count': 'retired_count', 'Self::LEN': 'cidQueueLen'})
    g.term('cidqExceedsLimit', 'Nat → Nat → Bool', 'quinn-proto/src/cid_queue.rs::CidQueue::insert ExceedsLimit guard', cidq_exceeds)

    def cidq_clear_count():
        b = cidq_insert()
        m = need(r'for i in 0\.\.\(([^)]+\)) as usize\) \{ self\.buffer\[\(self\.cursor \+ i\) % Self::LEN\] = None; \}', b, 'CidQueue::insert discard loop')
        return 'fun retired_count => ' + tx(m.group(1), {'retired_count': 'retired_count', 'Self::LEN': 'cidQueueLen'})
    g.term('cidqClearCount', 'Nat → Nat', 'quinn-proto/src/cid_queue.rs::CidQueue::insert discard loop bound', cidq_clear_count)

    def cidq_range_end():
        b = cidq_insert()
        m = need(r'Ok\(Some\(\( orig_offset\.\.([^,]+), token\.expect', b, 'CidQueue::insert retired range')
        return 'fun offset orig_offset => ' + tx(m.group(1).strip(), {'self.offset': 'offset', 'orig_offset': 'orig_offset', 'Self::LEN': 'cidQueueLen'})
    g.term('cidqRetiredEnd', 'Nat → Nat → Nat', 'quinn-proto/src/cid_queue.rs::CidQueue::insert retired range end', cidq_range_end)

    # ---------------------------------------------------------------- connection/mod.rs NEW_CONNECTION_ID arm
    def ncid_arm():
        t = norm(read('quinn-proto/src/connection/mod.rs'))
        i = t.find('Frame::NewConnectionId(frame) => {')
        j = t.find('Frame::NewToken(', i)
        if i < 0 or j < 0:
            raise TranslateError('NEW_CONNECTION_ID arm not found')
        return t[i:j]

    def ncid_codes():
        a = ncid_arm()
        seq = re.findall(r'TransportError::([A-Z_]+)\(', a)
        if len(seq) != 5 or any(x not in LEANCODE for x in seq):
            raise TranslateError(f'NEW_CONNECTION_ID arm: error sites {seq}')
        need(r'if self\.rem_cids\.active\(\)\.is_empty\(\) \{ return Err\(TransportError::' + seq[0], a, 'arm: cids not in use')
        need(r'if frame\.retire_prior_to > frame\.sequence \{ return Err\(TransportError::' + seq[1], a, 'arm: retire_prior_to > sequence')
        need(r'const MAX_PENDING_RETIRED_CIDS: u64 = CidQueue::LEN as u64 \* \d+; match self\.rem_cids\.insert\(frame\) \{ Ok\(None\) => \{\}', a,
             'arm: limit constant shared by both arms')
        need(r'Err\(InsertError::ExceedsLimit\) => \{ return Err\(TransportError::' + seq[3], a, 'arm: ExceedsLimit mapping')
        need(r'Err\(InsertError::Retired\) => \{ .*?let pending_retired = &mut self\.spaces\[SpaceId::Data\]\.pending\.retire_cids; '
             r'if [^{]+\{ return Err\(TransportError::' + seq[4] + r'\( "[^"]*", \)\); \} pending_retired\.push\(frame\.sequence\); continue; \}', a,
             'arm: Retired mapping (bounded push)')
        need(r'if self\.side\.is_server\(\) && self\.rem_cids\.active_seq\(\) == 0 \{ .*?self\.update_rem_cid\(\); \}', a, 'arm: server switches off initial CID')
        return seq
    for k, lean in enumerate(['ncidNotInUseCode', 'ncidRetireUnissuedCode', 'ncidTooManyRetiredCode', 'ncidExceedsLimitCode',
                              'ncidRetiredArmFullCode']):
        g.nat(lean, f'quinn-proto/src/connection/mod.rs::process_payload NEW_CONNECTION_ID error site {k}',
              lambda k=k: LEANCODE[ncid_codes()[k]])

    def ncid_retired_arm_full():
        a = ncid_arm()
        m = need(r'Err\(InsertError::Retired\) => \{ .*?if \(pending_retired\.len\(\) as u64\)(\.saturating_add\(1\) > MAX_PENDING_RETIRED_CIDS) \{', a,
                 'arm: Retired bound')
        return 'fun pending_len => ' + tx('pending_len' + m.group(1), {'pending_len': 'pending_len', 'MAX_PENDING_RETIRED_CIDS': 'maxPendingRetiredCids'})
    g.term('ncidRetiredArmFull', 'Nat → Bool', 'quinn-proto/src/connection/mod.rs::process_payload NEW_CONNECTION_ID already-retired arm bound', ncid_retired_arm_full)

    def ncid_too_many():
        a = ncid_arm()
        m = need(r'if \(pending_retired\.len\(\) as u64\) (\.saturating_add\(retired\.end\.saturating_sub\(retired\.start\)\) > MAX_PENDING_RETIRED_CIDS) \{', a, 'arm: pending bound')
        return 'fun pending_len rstart rend => ' + tx('pending_len' + m.group(1), {
            'pending_len': 'pending_len', 'retired.end': 'rend', 'retired.start': 'rstart', 'MAX_PENDING_RETIRED_CIDS': 'maxPendingRetiredCids'})
    g.term('ncidTooManyRetired', 'Nat → Nat → Nat → Bool', 'quinn-proto/src/connection/mod.rs::process_payload NEW_CONNECTION_ID pending bound', ncid_too_many)

    # ---------------------------------------------------------------- cid_state.rs
    def cid_retirement():
        return norm(fn_body(read('quinn-proto/src/connection/cid_state.rs'), 'on_cid_retirement'))

    def retire_codes():
        b = cid_retirement()
        seq = re.findall(r'TransportError::([A-Z_]+)\(', b)
        if len(seq) != 2 or any(s not in LEANCODE for s in seq):
            raise TranslateError(f'on_cid_retirement error sites {seq}')
        need(r'if self\.cid_len == 0 \{ return Err\(TransportError::' + seq[0], b, 'on_cid_retirement: cid_len test')
        return seq
    g.nat('retireNotInUseCode', 'quinn-proto/src/connection/cid_state.rs::on_cid_retirement error site 0', lambda: LEANCODE[retire_codes()[0]])
    g.nat('retireUnissuedCode', 'quinn-proto/src/connection/cid_state.rs::on_cid_retirement error site 1', lambda: LEANCODE[retire_codes()[1]])

    def retire_unissued():
        b = cid_retirement()
        m = need(r'if (sequence [<>=]+ self\.issued) \{ debug!', b, 'on_cid_retirement: unissued test')
        return 'fun sequence issued => ' + tx(m.group(1), {'sequence': 'sequence', 'self.issued': 'issued'})
    g.term('retireUnissued', 'Nat → Nat → Bool', 'quinn-proto/src/connection/cid_state.rs::on_cid_retirement unissued guard', retire_unissued)

    def retire_allow():
        b = cid_retirement()
        m = need(r'Ok\((limit [<>=]+) self\.active_seq\.len\(\) as u64\)', b, 'on_cid_retirement: result')
        return 'fun limit active_len => ' + tx(m.group(1) + ' active_len', {'limit': 'limit', 'active_len': 'active_len'})
    g.term('retireAllowMore', 'Nat → Nat → Bool', 'quinn-proto/src/connection/cid_state.rs::on_cid_retirement result', retire_allow)

    def issue_limit():
        b = norm(fn_body(read('quinn-proto/src/transport_parameters.rs'), 'issue_cids_limit'))
        need(r'^\{ self\.active_connection_id_limit\.0\.min\(LOC_CID_COUNT\) \}$', b, 'issue_cids_limit')
        return 'fun peer_limit => Nat.min peer_limit locCidCount'
    g.term('issueCidsLimit', 'Nat → Nat', 'quinn-proto/src/transport_parameters.rs::issue_cids_limit', issue_limit)

    # ---------------------------------------------------------------- ack_frequency.rs
    def ackfreq_received():
        return norm(fn_body(read('quinn-proto/src/connection/ack_frequency.rs'), 'ack_frequency_received'))

    def ackfreq_code():
        b = ackfreq_received()
        seq = re.findall(r'TransportError::([A-Z_]+)\(', b)
        if len(seq) != 1 or seq[0] not in LEANCODE:
            raise TranslateError(f'ack_frequency_received error sites {seq}')
        need(r'is_some_and\(\|highest_sequence_nr\| frame\.sequence\.into_inner\(\) <= highest_sequence_nr\) \{ return Ok\(false\); \}', b, 'ack_frequency_received: stale test')
        need(r'let max_ack_delay = Duration::from_micros\(frame\.request_max_ack_delay\.into_inner\(\)\); if max_ack_delay < TIMER_GRANULARITY \{ return Err', b, 'ack_frequency_received: granularity test')
        return LEANCODE[seq[0]]
    g.nat('ackFreqTooSmallCode', 'quinn-proto/src/connection/ack_frequency.rs::ack_frequency_received error site', ackfreq_code)

    def candidate_upper():
        """`let upper = <expr>; … .clamp(min_ack_delay, upper)`: the upper clamp bound as a function of rtt and the
        peer's min_ack_delay (both ns)"""
        b = norm(fn_body(read('quinn-proto/src/connection/ack_frequency.rs'), 'candidate_max_ack_delay'))
        need(r'let min_ack_delay = Duration::from_micros\(peer_params\.min_ack_delay\.map_or\(0, \|x\| x\.into\(\)\)\);', b,
             'candidate_max_ack_delay min_ack_delay')
        m = need(r'let upper = ([^;]+); config \.max_ack_delay \.unwrap_or\(self\.peer_max_ack_delay\) \.clamp\(min_ack_delay, upper\) \}$', b,
                 'candidate_max_ack_delay clamp')
        return 'fun rtt min_ack_delay => ' + tx(m.group(1), {'rtt': 'rtt', 'min_ack_delay': 'min_ack_delay',
                                                             'MIN_AUTOMATIC_ACK_DELAY': 'minAutomaticAckDelayNs'})
    g.term('candidateUpper', 'Nat → Nat → Nat', 'quinn-proto/src/connection/ack_frequency.rs::candidate_max_ack_delay upper clamp bound', candidate_upper)

    def tp_ack_delay():
        t = norm(read('quinn-proto/src/transport_parameters.rs'))
        need(r'\|\| params\.max_ack_delay\.0 >= 1 << 14', t, 'TransportParameters::read max_ack_delay bound')
        m = need(r'params\.min_ack_delay\.is_some_and\(\|min_ack_delay\| \{ (min_ack_delay\.0 > params\.max_ack_delay\.0 \* 1_000) \}\)', t, 'TransportParameters::read min_ack_delay test')
        src = m.group(1).replace('params.max_ack_delay.0', 'max_ms').replace('min_ack_delay.0', 'min_us')
        e = tx(src, {'min_us': 'min_ack_delay_us', 'max_ms': 'max_ack_delay_ms'})
        return f'fun min_ack_delay_us max_ack_delay_ms => (decide (max_ack_delay_ms ≥ 1 <<< 14)) || {e}'
    g.term('tpAckDelayRejected', 'Nat → Nat → Bool', 'quinn-proto/src/transport_parameters.rs::read ack-delay validation', tp_ack_delay)

    # ---------------------------------------------------------------- frame.rs ACK scan
    def ack_bias():
        t = read('quinn-proto/src/frame.rs')
        s = norm(fn_body(t, 'scan_ack_blocks'))
        m1 = need(r'smallest = smallest\.checked_sub\(gap \+ (\d+)\)\.ok_or\(IterErr::Malformed\)\?;', s, 'scan_ack_blocks gap step')
        need(r'let mut smallest = largest\.checked_sub\(first_block\)\.ok_or\(IterErr::Malformed\)\?;', s, 'scan_ack_blocks first block')
        need(r'smallest = smallest\.checked_sub\(block\)\.ok_or\(IterErr::Malformed\)\?;', s, 'scan_ack_blocks block step')
        it = norm(fn_body(t, 'next', after='impl Iterator for AckIter'))
        m2 = need(r'self\.largest -= block \+ gap \+ (\d+);', it, 'AckIter::next gap step')
        need(r'Some\(largest - block\.\.=largest\)', it, 'AckIter::next range')
        e = norm(fn_body(t, 'encode', after='impl Ack {'))
        need(r'buf\.write_var\(prev - block\.end - 1\); buf\.write_var\(size - 1\);', e, 'Ack::encode gap/size')
        if m1.group(1) != m2.group(1):
            raise TranslateError('scan_ack_blocks and AckIter disagree on the gap bias')
        return int(m1.group(1))
    g.nat('ackGapBias', 'quinn-proto/src/frame.rs::scan_ack_blocks/AckIter gap bias', ack_bias)

    def ack_types():
        t = norm(read('quinn-proto/src/frame.rs'))
        a = need(r'\bACK = (0x[0-9a-f]+),', t, 'frame type ACK')
        b = need(r'\bACK_ECN = (0x[0-9a-f]+),', t, 'frame type ACK_ECN')
        return int(a.group(1), 16), int(b.group(1), 16)
    g.nat('frameTypeAck', 'quinn-proto/src/frame.rs::frame_types ACK', lambda: ack_types()[0])
    g.nat('frameTypeAckEcn', 'quinn-proto/src/frame.rs::frame_types ACK_ECN', lambda: ack_types()[1])

    # ---------------------------------------------------------------- paths.rs PathResponses::push, spaces.rs PendingAcks
    def path_push():
        return norm(fn_body(read('quinn-proto/src/connection/paths.rs'), 'push', after='impl PathResponses'))

    def path_update_guard():
        b = path_push()
        need(r'let existing = self\.pending\.iter_mut\(\)\.find\(\|x\| x\.remote == remote\);', b, 'PathResponses::push lookup')
        m = need(r'if (existing\.packet [<>=]+ packet) \{ \*existing = response; \} return;', b, 'PathResponses::push update test')
        return 'fun existing_packet packet => ' + tx(m.group(1), {'existing.packet': 'existing_packet', 'packet': 'packet'})
    g.term('pathRespUpdate', 'Nat → Nat → Bool', 'quinn-proto/src/connection/paths.rs::PathResponses::push update guard', path_update_guard)

    def path_room_guard():
        b = path_push()
        m = need(r'if (self\.pending\.len\(\) [<>=]+ MAX_PATH_RESPONSES) \{ self\.pending\.push\(response\); \}', b, 'PathResponses::push cap test')
        return 'fun len => ' + tx(m.group(1).replace('self.pending.len()', 'len'), {'len': 'len', 'MAX_PATH_RESPONSES': 'maxPathResponses'})
    g.term('pathRespHasRoom', 'Nat → Bool', 'quinn-proto/src/connection/paths.rs::PathResponses::push cap guard', path_room_guard)

    def pending_over_cap():
        b = norm(fn_body(read('quinn-proto/src/connection/spaces.rs'), 'insert_one', after='impl PendingAcks'))
        need(r'self\.ranges\.insert_one\(packet\);', b, 'PendingAcks::insert_one insert')
        m = need(r'if (self\.ranges\.len\(\) [<>=]+ MAX_ACK_BLOCKS) \{ self\.ranges\.pop_min\(\); \}', b, 'PendingAcks::insert_one cap test')
        s2 = norm(fn_body(read('quinn-proto/src/connection/spaces.rs'), 'subtract_below', after='impl PendingAcks'))
        need(r'^\{ self\.ranges\.remove\(0\.\.\(max \+ 1\)\); \}$', s2, 'PendingAcks::subtract_below')
        return 'fun len => ' + tx(m.group(1).replace('self.ranges.len()', 'len'), {'len': 'len', 'MAX_ACK_BLOCKS': 'maxAckBlocks'})
    g.term('pendingAcksOverCap', 'Nat → Bool', 'quinn-proto/src/connection/spaces.rs::PendingAcks::insert_one cap guard', pending_over_cap)
