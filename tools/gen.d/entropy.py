"""T1 static check for C20 ("consults no clock and no entropy other than the instants and seeds it is given")
-> Gen/Entropy.lean

Scans the PRODUCTION code of quinn-proto (quinn-proto/src/**/*.rs without tests/, without `#[cfg(test)]` items,
without the `verif/` hook modules and `#[cfg(feature = "quinn_rs_quinn_verif")]` items) for constructs that
read a clock, OS entropy, the environment, the thread, or that make behaviour depend on a randomly keyed hasher:

  Instant::now(  SystemTime::now(  .elapsed(  rand::rng(  thread_rng(  rand::random  OsRng  SysRng  getrandom
  SystemRandom  ThreadRng  fastrand
  from_os_rng  from_entropy  RandomState  std::env / env::var  std::thread / thread::  std::process
  std `HashMap` / `HashSet` (default RandomState hasher) named in a `use` or by path, and every ITERATION over a
  field of such a type (lookup/insert/remove do not expose the hash order; iteration does)

and emits the list of (file, enclosing item, construct) as `Gen.hiddenInputs`.  ALLOWED below is the committed
allowlist, emitted as `Gen.hiddenInputsAllowed`; `Props.C20.hidden_inputs_are_the_allowlisted_ones` states that
the two are equal.  An occurrence that is not allowlisted (or an allowlist entry that no longer exists) is a
TRANSLATION BREAK for C20: the definition does not elaborate and the break names the new occurrence.
"""
import os, re
NAME = 'Entropy'

# (file, enclosing item, construct): justification.  Keep sorted.
ALLOWED = {
    # --- documented OS entropy at CONSTRUCTION of configuration objects, overridable by the caller --------------
    ('quinn-proto/src/config/mod.rs', 'EndpointConfig::default', 'rand::rng('):
        'EndpointConfig::default draws the reset key from the OS; callers wanting reproducibility use '
        'EndpointConfig::new(reset_key) (the harness does).  Construction of a config, not the state machine.',
    ('quinn-proto/src/config/mod.rs', 'ServerConfig::with_crypto', 'rand::rng('):
        'ServerConfig::with_crypto draws the token master key from the OS ("Uses a randomized handshake token '
        'key"); ServerConfig::new(crypto, token_key) is the reproducible constructor (the harness uses it).  '
        'Construction of a config.',
    ('quinn-proto/src/config/mod.rs', 'StdSystemTime::now', 'SystemTime::now('):
        'the DEFAULT TimeSource (ServerConfig::time_source): documented wall clock for token timestamps; the '
        'state machine reads time only through the TimeSource it is given (the harness supplies SimClock).',
    ('quinn-proto/src/endpoint.rs', '<module>', 'SysRng'):
        'import used by Endpoint::new only (next entry).',
    ('quinn-proto/src/endpoint.rs', 'Endpoint::new', 'SysRng'):
        'Endpoint::new: `rng_seed: None` => documented OS entropy ONCE at construction; `EndpointConfig::rng_seed` '
        'makes the endpoint (and every per-connection seed derived in add_connection) reproducible.',
    # --- connection-ID generators: pluggable trait objects, not the core; seedable alternatives exist -----------
    ('quinn-proto/src/cid_generator.rs', 'RandomConnectionIdGenerator::generate_cid', 'rand::rng('):
        'the default ConnectionIdGenerator is random by definition (CIDs must be unpredictable); it is an input '
        'object supplied through EndpointConfig::cid_generator (the harness supplies a seeded generator).',
    ('quinn-proto/src/cid_generator.rs', 'HashedConnectionIdGenerator::new', 'rand::rng('):
        'key of the hashed generator drawn at construction; HashedConnectionIdGenerator::from_key is the '
        'reproducible constructor.',
    ('quinn-proto/src/cid_generator.rs', 'HashedConnectionIdGenerator::generate_cid', 'rand::rng('):
        'nonce of a hashed CID: same remark as RandomConnectionIdGenerator (pluggable generator object).',
    # --- congestion controllers ------------------------------------------------------------------------------
    ('quinn-proto/src/congestion/bbr/mod.rs', 'Bbr::new', 'rand::rng('):
        'public stand-alone constructor (kept for API compatibility).  Connections never reach it: PathData::new / reset '
        'call ControllerFactory::build_seeded with a value drawn from Connection.rng and BbrConfig::build_seeded '
        'uses Bbr::with_rng(Pcg32::seed_from_u64(seed)) (pinned by the anchor bbrSeededShapeChecked).',
    # --- diagnostics -----------------------------------------------------------------------------------------
    ('quinn-proto/src/config/transport.rs', 'QlogConfig::default', 'Instant::now('):
        'qlog (feature "qlog", diagnostics): default reference instant of the log stream; not protocol state.',
    # --- std HashMap/HashSet (RandomState) -------------------------------------------------------------------
    ('quinn-proto/src/endpoint.rs', '<module>', 'use std HashMap'):
        'ConnectionIndex / ResetTokenTable keyed by attacker-chosen values (collision resistance wanted): only '
        'get / insert / remove / entry / len are used; no iteration outside the verif hooks (an iteration would be '
        'listed as its own entry by this scan).',
    ('quinn-proto/src/token_memory_cache.rs', '<module>', 'use std HashMap'):
        'TokenMemoryCache.lookup: entry / get / remove only; order is kept in the slab list, never in the map.',
    ('quinn-proto/src/bloom_token_log.rs', '<module>', 'use std HashSet'):
        'HashSet<u64, IdentityBuildHasher>: explicit deterministic hasher (fingerprints are already uniform).',
}

PATTERNS = [
    (r'\bInstant::now\s*\(', 'Instant::now('),
    (r'\bSystemTime::now\s*\(', 'SystemTime::now('),
    (r'\.elapsed\s*\(', '.elapsed('),
    (r'\brand::rng\s*\(', 'rand::rng('),
    (r'\bthread_rng\s*\(', 'thread_rng('),
    (r'\brand::random\b', 'rand::random'),
    (r'\bOsRng\b', 'OsRng'),
    (r'\bSysRng\b', 'SysRng'),
    (r'\bgetrandom\b', 'getrandom'),
    (r'\bSystemRandom\b', 'SystemRandom'),
    (r'\bThreadRng\b', 'ThreadRng'),
    (r'\bfastrand\b', 'fastrand'),
    (r'\bfrom_os_rng\b', 'from_os_rng'),
    (r'\bfrom_entropy\b', 'from_entropy'),
    (r'\bRandomState\b', 'RandomState'),
    (r'\bstd::env\b|\benv::(?:var|vars|args|var_os)\b', 'std::env'),
    (r'\bstd::thread\b|\bthread::(?:current|sleep|spawn|park)\b', 'std::thread'),
    (r'\bstd::process\b', 'std::process'),
]

def clean(text):
    """comments, string and char literals blanked (positions and line breaks kept); one pass, so that `//` inside a
    string or a quote inside a comment cannot desynchronise the scan"""
    out = list(text)
    n = len(text)
    def wipe(a, b, keep_ends=False):
        for k in range(a, min(b, n)):
            if out[k] != '\n' and not (keep_ends and k in (a, b - 1)):
                out[k] = ' '
    i = 0
    while i < n:
        c = text[i]
        if text.startswith('//', i):
            j = text.find('\n', i)
            j = n if j < 0 else j
            wipe(i, j)
            i = j
        elif text.startswith('/*', i):
            depth, j = 1, i + 2
            while j < n and depth:
                if text.startswith('/*', j):
                    depth += 1; j += 2
                elif text.startswith('*/', j):
                    depth -= 1; j += 2
                else:
                    j += 1
            wipe(i, j)
            i = j
        elif c == 'r' and re.match(r'r#*"', text[i:i + 8]) and (i == 0 or not (text[i - 1].isalnum() or text[i - 1] == '_')):
            hashes = len(re.match(r'r(#*)"', text[i:i + 8]).group(1))
            close = '"' + '#' * hashes
            j = text.find(close, i + 2 + hashes)
            j = n if j < 0 else j + len(close)
            wipe(i, j)
            i = j
        elif c == '"':
            j = i + 1
            while j < n and text[j] != '"':
                j += 2 if text[j] == '\\' else 1
            j = min(j + 1, n)
            wipe(i, j, keep_ends=True)
            i = j
        elif c == "'":
            m = re.match(r"'(?:\\(?:x[0-9a-fA-F]{2}|u\{[0-9a-fA-F_]+\}|.)|[^\\'])'", text[i:i + 14])
            if m:
                wipe(i, i + m.end())
                i += m.end()
            else:
                i += 1      # a lifetime
        else:
            i += 1
    return ''.join(out)

def match_brace(text, i):
    """index just after the brace block that opens at text[i] == '{'"""
    depth = 0
    while i < len(text):
        c = text[i]
        if c == '{':
            depth += 1
        elif c == '}':
            depth -= 1
            if depth == 0:
                return i + 1
        i += 1
    return len(text)

CFG_DROP = re.compile(r'#\[cfg\(\s*(?:test|all\(\s*test\b[^\]]*|feature\s*=\s*"quinn_rs_quinn_verif"|all\(\s*feature\s*=\s*"quinn_rs_quinn_verif"[^\]]*)\s*\)\]')

def drop_items(text, raw):
    """blank every item guarded by #[cfg(test)] or by the verification feature (the cfg attribute is read from the
    text with string literals intact)"""
    out = list(text)
    for m in CFG_DROP.finditer(raw):
        i = m.end()
        # skip further attributes
        while True:
            mm = re.compile(r'\s*#\[[^\]]*\]').match(raw, i)
            if not mm:
                break
            i = mm.end()
        # the guarded thing: an item (ends with its `{..}` block or `;`), or a field / parameter / match arm /
        # struct-literal entry (ends with `,` at nesting depth 0, or with the closing bracket of the enclosing list)
        j = i
        depth = 0
        while j < len(text):
            c = text[j]
            if text.startswith('->', j) or text.startswith('=>', j):
                j += 2
                continue
            if c in '([<':
                depth += 1
            elif c in ')]>':
                if depth == 0:
                    break
                depth -= 1
            elif c in ';,' and depth == 0:
                j += 1
                break
            elif c == '}' and depth == 0:
                break
            elif c == '{':
                j = match_brace(text, j)
                # `field: Type { .. },`
                mm = re.compile(r'\s*,').match(text, j)
                if mm:
                    j = mm.end()
                break
            j += 1
        for k in range(m.start(), min(j, len(out))):
            if out[k] != '\n':
                out[k] = ' '
    return ''.join(out)

def items(text):
    """[(start, end, qualified name)] of every fn body, qualified by the enclosing impl/trait type"""
    impls = []
    for m in re.finditer(r'\b(impl|trait)\b([^{;]*)\{', text):
        head = m.group(2)
        if m.group(1) == 'impl':
            head = re.sub(r'\bwhere\b.*', '', head, flags=re.S)
            if re.search(r'\bfor\b', head):
                head = re.split(r'\bfor\b', head)[-1]
            head = re.sub(r'^\s*<[^>]*>', '', head.strip()) if head.strip().startswith('<') else head
        tm = re.search(r'([A-Za-z_][A-Za-z0-9_]*)\s*(?:<.*>)?\s*$', head.strip(), flags=re.S)
        if tm:
            impls.append((m.end() - 1, match_brace(text, m.end() - 1), tm.group(1)))
    fns = []
    for m in re.finditer(r'\bfn\s+([A-Za-z_][A-Za-z0-9_]*)', text):
        i = m.end()
        depth = 0
        body = None
        while i < len(text):
            c = text[i]
            if c in '([':
                depth += 1
            elif c in ')]':
                depth -= 1
            elif c == ';' and depth == 0:
                break
            elif c == '{' and depth == 0:
                body = i
                break
            i += 1
        if body is None:
            continue
        end = match_brace(text, body)
        owner = [t for (a, b, t) in impls if a < m.start() < b]
        # innermost impl
        q = m.group(1)
        if owner:
            inner = min(((b - a, t) for (a, b, t) in impls if a < m.start() < b))[1]
            q = inner + '::' + q
        fns.append((body, end, q))
    return fns

def enclosing(fns, pos):
    best = None
    for (a, b, q) in fns:
        if a <= pos < b and (best is None or b - a < best[0]):
            best = (b - a, q)
    return best[1] if best else '<module>'

def scan(api):
    repo = os.environ.get('VERIF_REPO', '/repo')
    root = os.path.join(repo, 'quinn-proto', 'src')
    files = {}
    for d, _, fs in os.walk(root):
        rel_d = os.path.relpath(d, repo)
        parts = rel_d.split(os.sep)
        if 'tests' in parts or 'verif' in parts:
            continue
        for f in sorted(fs):
            if not f.endswith('.rs') or f in ('tests.rs',):
                continue
            rel = os.path.join(rel_d, f)
            raw = open(os.path.join(repo, rel)).read()
            files[rel] = drop_items(clean(raw), raw)
    found = set()
    std_hash_fields = set()
    for rel, text in sorted(files.items()):
        fns = items(text)
        for pat, name in PATTERNS:
            for m in re.finditer(pat, text):
                found.add((rel, enclosing(fns, m.start()), name))
        # std HashMap / HashSet (not FxHashMap / FxHashSet / hashbrown with explicit hasher)
        for m in re.finditer(r'\buse\s+std::(?:collections::)?\{?[^;]*;', text):
            for kind in ('HashMap', 'HashSet'):
                if re.search(r'(?<![A-Za-z])' + kind + r'\b', m.group(0)):
                    found.add((rel, enclosing(fns, m.start()), 'use std ' + kind))
        for m in re.finditer(r'\bstd::collections::(HashMap|HashSet)\b', text):
            if not re.match(r'use\b', text[max(0, text.rfind('\n', 0, m.start())):m.start()].strip() or 'x'):
                found.add((rel, enclosing(fns, m.start()), 'std::collections::' + m.group(1)))
        imports_std = any(x[0] == rel and x[2].startswith(('use std Hash', 'std::collections::Hash')) for x in found)
        if imports_std:
            for m in re.finditer(r'\b([a-z_][a-z0-9_]*)\s*:\s*(?:std::collections::)?Hash(?:Map|Set)<([^;{}]*?)>\s*[,}\n]', text):
                # an explicit third (HashMap) / second (HashSet) type parameter names a hasher: deterministic if not RandomState
                args = m.group(2)
                if 'BuildHasher' in args and 'RandomState' not in args:
                    continue
                std_hash_fields.add(m.group(1))
    # iteration over a field whose type is a std HashMap/HashSet exposes the random order
    for rel, text in sorted(files.items()):
        fns = items(text)
        for f in sorted(std_hash_fields):
            for m in re.finditer(r'\b' + f + r'\s*\.\s*(iter|iter_mut|keys|values|values_mut|drain|retain|into_iter|into_keys|into_values)\s*\(', text):
                found.add((rel, enclosing(fns, m.start()), f'iteration over std-hashed `{f}` (.{m.group(1)})'))
            for m in re.finditer(r'\bin\s+&?\s*(?:mut\s+)?[A-Za-z0-9_\.]*\b' + f + r'\s*\{', text):
                found.add((rel, enclosing(fns, m.start()), f'iteration over std-hashed `{f}` (for)'))
    return sorted(found)

def lean_list(triples):
    q = lambda s: '"' + s.replace('\\', '\\\\').replace('"', '\\"') + '"'
    if not triples:
        return '[]'
    return '[\n  ' + ',\n  '.join(f'({q(a)}, {q(b)}, {q(c)})' for a, b, c in triples) + ']'

def extend(g, api):
    ty = 'List (String × String × String)'
    g.term('hiddenInputsAllowed', ty, 'tools/gen.d/entropy.py::ALLOWED (committed allowlist of clock/entropy/hash-order constructs in quinn-proto production code, each justified there)', lambda: lean_list(sorted(ALLOWED)))
    def found():
        f = scan(api)
        new = [x for x in f if x not in ALLOWED]
        gone = [x for x in sorted(ALLOWED) if x not in f]
        if new:
            raise Exception('hidden input not on the allowlist: ' + '; '.join(f'{a} {b} {c}' for a, b, c in new[:6]))
        if gone:
            raise Exception('allowlist entry no longer present (remove it): ' + '; '.join(f'{a} {b} {c}' for a, b, c in gone[:6]))
        return lean_list(f)
    g.term('hiddenInputs', ty, 'quinn-proto/src/**/*.rs production code: every construct that reads a clock, OS entropy, the environment, a thread, or iterates a randomly keyed std HashMap/HashSet (file, enclosing item, construct)', found)
    def bbr_seeded():
        p = api.strip_comments(api.read('quinn-proto/src/connection/paths.rs'))
        if len(re.findall(r'congestion_controller_factory\s*\.clone\(\)\s*\.build_seeded\(\s*now,\s*config\.get_initial_mtu\(\),\s*congestion_seed,?\s*\)', p)) != 2:
            raise Exception('PathData::new / PathData::reset do not build the controller with build_seeded(.., congestion_seed)')
        if re.search(r'\.build\(', p):
            raise Exception('PathData builds a controller with the unseeded ControllerFactory::build')
        c = api.strip_comments(api.read('quinn-proto/src/connection/mod.rs'))
        n = len(re.findall(r'PathData::new\(', c))
        if n != 2 or not re.search(r'PathData::new\(remote,\s*allow_mtud,\s*None,\s*0,\s*now,\s*&config,\s*rng\.random\(\)\)', c) or not re.search(r'&self\.config,\s*self\.rng\.random\(\),\s*\)',  c) or not re.search(r'self\.path\.reset\(now,\s*&self\.config,\s*self\.rng\.random\(\)\)', c):
            raise Exception('Connection: PathData::new / PathData::reset call sites no longer pass a value drawn from the connection rng')
        b = api.strip_comments(api.read('quinn-proto/src/congestion/bbr/mod.rs'))
        if not re.search(r'fn\s+build_seeded\([^)]*seed:\s*u64,?\s*\)\s*->\s*Box<dyn Controller>\s*\{\s*Box::new\(Bbr::with_rng\(self,\s*current_mtu,\s*Pcg32::seed_from_u64\(seed\)\)\)', b):
            raise Exception('BbrConfig::build_seeded shape changed')
        if len(re.findall(r'random_number_generator', b)) != 4 or not re.search(r'random_number_generator,\s*\}', b):
            raise Exception('Bbr: uses of random_number_generator changed')
        return 1
    g.nat('bbrSeededShapeChecked', 'quinn-proto/src/connection/{paths,mod}.rs + congestion/bbr/mod.rs (connections seed their congestion controller from Connection.rng via ControllerFactory::build_seeded)', bbr_seeded)
