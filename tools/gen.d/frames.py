"""T1 anchors for frames, transport parameters, connection ids and headers -> Gen/Frames.lean

frame.rs: the `frame_types!` invocation (name -> code), STREAM_TYS / DATAGRAM_TYS, the flag masks of
StreamInfo / DatagramInfo (decoder) and of StreamMeta::encode / Datagram::encode (encoder), every SIZE_BOUND,
the NEW_CONNECTION_ID / preferred-address literal lengths;
transport_parameters.rs: TransportParameterId values, the `apply_params!` table (name, id, default), the
SUPPORTED write-order table, the literals of the semantic validation in `read`, MAX_PAYLOAD_LEN;
lib.rs: MAX_CID_SIZE, RESET_TOKEN_SIZE, MAX_STREAM_COUNT.
"""
import re
NAME = 'Frames'


def camel(s):
    parts = s.lower().split('_')
    return ''.join(p.capitalize() for p in parts)


def extend(g, api):
    read, strip_comments, const_value, fn_body, TranslateError = api.read, api.strip_comments, api.const_value, api.fn_body, api.TranslateError

    def num(s):
        s = s.strip().replace('_', '')
        s = re.sub(r'(u8|u16|u32|u64|usize)$', '', s)
        return int(s, 0)

    FR = 'quinn-proto/src/frame.rs'
    TP = 'quinn-proto/src/transport_parameters.rs'
    LIB = 'quinn-proto/src/lib.rs'

    # ------------------------------------------------------------------ frame type table
    EXPECTED = ['PADDING', 'PING', 'ACK', 'ACK_ECN', 'RESET_STREAM', 'STOP_SENDING', 'CRYPTO', 'NEW_TOKEN',
                'MAX_DATA', 'MAX_STREAM_DATA', 'MAX_STREAMS_BIDI', 'MAX_STREAMS_UNI', 'DATA_BLOCKED',
                'STREAM_DATA_BLOCKED', 'STREAMS_BLOCKED_BIDI', 'STREAMS_BLOCKED_UNI', 'NEW_CONNECTION_ID',
                'RETIRE_CONNECTION_ID', 'PATH_CHALLENGE', 'PATH_RESPONSE', 'CONNECTION_CLOSE',
                'APPLICATION_CLOSE', 'HANDSHAKE_DONE', 'ACK_FREQUENCY', 'IMMEDIATE_ACK']

    def frame_table():
        text = strip_comments(read(FR))
        m = re.search(r'\bframe_types!\s*\{(.*?)\}', text[text.index('frame_types! {\n') if 'frame_types! {\n' in text else 0:], flags=re.S)
        # the macro *definition* also contains `frame_types` – take the invocation (the one whose body has `NAME = 0x..,`)
        tabs = [b for b in re.findall(r'\bframe_types!\s*\{(.*?)\n\}', text, flags=re.S) if re.search(r'^\s*[A-Z_0-9]+\s*=\s*0x', b, flags=re.M)]
        if len(tabs) != 1:
            raise TranslateError(f'frame_types! invocation: found {len(tabs)}')
        ents = re.findall(r'^\s*([A-Z][A-Z_0-9]*)\s*=\s*(0x[0-9a-fA-F]+|\d+)\s*,', tabs[0], flags=re.M)
        rest = re.sub(r'^\s*([A-Z][A-Z_0-9]*)\s*=\s*(0x[0-9a-fA-F]+|\d+)\s*,', '', tabs[0], flags=re.M).strip()
        if rest:
            raise TranslateError(f'frame_types!: unparsed {rest[:40]!r}')
        return [(n, int(v, 0)) for n, v in ents]

    def frame_code(name):
        t = dict(frame_table())
        if name not in t:
            raise TranslateError(f'frame type {name} missing from frame_types!')
        return t[name]

    for n in EXPECTED:
        g.nat('ft' + camel(n), f'{FR}::frame_types!::{n}', lambda n=n: frame_code(n))

    def table_names():
        names = [n for n, _ in frame_table()]
        if sorted(names) != sorted(EXPECTED):
            raise TranslateError(f'frame_types! names changed: {sorted(set(names) ^ set(EXPECTED))}')
        return '[' + ', '.join(f'("{n}", {v})' for n, v in frame_table()) + ']'
    g.term('frameTypeTable', 'List (String × Nat)', f'{FR}::frame_types! (whole table, name set checked)', table_names)

    def tys(name, which):
        text = strip_comments(read(FR))
        m = re.search(r'const\s+' + name + r'\s*:\s*RangeInclusive<u64>\s*=\s*RangeInclusive::new\(\s*([^,]+),\s*([^)]+)\)\s*;', text)
        if not m:
            raise TranslateError(f'{name} not found')
        return num(m.group(which))
    g.nat('streamTysLo', f'{FR}::STREAM_TYS.start', lambda: tys('STREAM_TYS', 1))
    g.nat('streamTysHi', f'{FR}::STREAM_TYS.end', lambda: tys('STREAM_TYS', 2))
    g.nat('datagramTysLo', f'{FR}::DATAGRAM_TYS.start', lambda: tys('DATAGRAM_TYS', 1))
    g.nat('datagramTysHi', f'{FR}::DATAGRAM_TYS.end', lambda: tys('DATAGRAM_TYS', 2))

    def info_mask(struct, fn):
        text = strip_comments(read(FR))
        i = text.find(f'impl {struct} ')
        if i < 0:
            raise TranslateError(f'impl {struct} not found')
        body = fn_body(text, fn, after=f'impl {struct} ')
        m = re.fullmatch(r'\{\s*self\.0\s*&\s*(0x[0-9a-fA-F]+|\d+)\s*!=\s*0\s*\}', body.strip())
        if not m:
            raise TranslateError(f'{struct}::{fn}: shape changed: {body.strip()[:50]}')
        return num(m.group(1))
    g.nat('streamFinMask', f'{FR}::StreamInfo::fin', lambda: info_mask('StreamInfo', 'fin'))
    g.nat('streamLenMask', f'{FR}::StreamInfo::len', lambda: info_mask('StreamInfo', 'len'))
    g.nat('streamOffMask', f'{FR}::StreamInfo::off', lambda: info_mask('StreamInfo', 'off'))
    g.nat('datagramLenMask', f'{FR}::DatagramInfo::len', lambda: info_mask('DatagramInfo', 'len'))

    def meta_bit(cond):
        text = strip_comments(read(FR))
        body = fn_body(text, 'encode', after='impl StreamMeta')
        m = re.search(r'if\s+' + cond + r'\s*\{\s*ty\s*\|=\s*(0x[0-9a-fA-F]+|\d+)\s*;\s*\}', body)
        if not m:
            raise TranslateError(f'StreamMeta::encode: flag for `{cond}` not found')
        if not re.search(r'let\s+mut\s+ty\s*=\s*\*STREAM_TYS\.start\(\)\s*;', body):
            raise TranslateError('StreamMeta::encode: base type changed')
        return num(m.group(1))
    g.nat('streamEncOffBit', f'{FR}::StreamMeta::encode off bit', lambda: meta_bit(r'self\.offsets\.start\s*!=\s*0'))
    g.nat('streamEncLenBit', f'{FR}::StreamMeta::encode len bit', lambda: meta_bit(r'length'))
    g.nat('streamEncFinBit', f'{FR}::StreamMeta::encode fin bit', lambda: meta_bit(r'self\.fin'))

    def dgram_enc():
        text = strip_comments(read(FR))
        body = fn_body(text, 'encode', after='impl Datagram {')
        if not re.search(r'FrameType\(\*DATAGRAM_TYS\.start\(\)\s*\|\s*u64::from\(length\)\)', body):
            raise TranslateError('Datagram::encode: type expression changed')
        return 1
    g.nat('datagramEncLenBit', f'{FR}::Datagram::encode len bit (u64::from(length))', dgram_enc)

    # ------------------------------------------------------------------ size bounds
    def lib_const(name):
        return const_value(read(LIB), name)

    def size_bound(struct, via_trait=True):
        text = strip_comments(read(FR))
        if via_trait:
            m = re.search(r'impl\s+FrameStruct\s+for\s+' + struct + r'\s*\{\s*const\s+SIZE_BOUND\s*:\s*usize\s*=\s*([^;]+);', text)
        else:
            i = text.find(f'impl {struct} ')
            m = re.compile(r'const\s+SIZE_BOUND\s*:\s*usize\s*=\s*([^;]+);').search(text, i) if i >= 0 else None
        if not m:
            raise TranslateError(f'SIZE_BOUND of {struct} not found')
        e = m.group(1)
        for ref in ('MAX_CID_SIZE', 'RESET_TOKEN_SIZE'):
            if ref in e:
                e = e.replace(ref, str(lib_const(ref)))
        if not re.fullmatch(r'[\s0-9+*()]*', e):
            raise TranslateError(f'SIZE_BOUND of {struct}: unsupported {e.strip()!r}')
        return int(eval(e))
    for s in ['ConnectionClose', 'ApplicationClose', 'Stream', 'ResetStream', 'StopSending', 'NewConnectionId', 'Datagram']:
        g.nat('sizeBound' + s, f'{FR}::{s}::SIZE_BOUND', lambda s=s: size_bound(s))
    g.nat('sizeBoundCrypto', f'{FR}::Crypto::SIZE_BOUND', lambda: size_bound('Crypto', via_trait=False))
    g.nat('sizeBoundRetireConnectionId', f'{FR}::RETIRE_CONNECTION_ID_SIZE_BOUND',
          lambda: const_value(strip_comments(read(FR)), 'RETIRE_CONNECTION_ID_SIZE_BOUND'))

    g.nat('wireMaxCidSize', f'{LIB}::MAX_CID_SIZE', lambda: lib_const('MAX_CID_SIZE'))
    g.nat('wireResetTokenSize', f'{LIB}::RESET_TOKEN_SIZE', lambda: lib_const('RESET_TOKEN_SIZE'))
    g.nat('wireMaxStreamCount', f'{LIB}::MAX_STREAM_COUNT', lambda: lib_const('MAX_STREAM_COUNT'))

    def ncid_token_len():
        body = strip_comments(fn_body(read(FR), 'try_next'))
        m = re.search(r'if\s+self\.bytes\.remaining\(\)\s*<\s*(\d+)\s*\{\s*return\s+Err\(IterErr::UnexpectedEnd\);\s*\}\s*let\s+mut\s+reset_token\s*=\s*\[0;\s*RESET_TOKEN_SIZE\]', body)
        if not m:
            raise TranslateError('try_next NEW_CONNECTION_ID: reset-token length check changed')
        if not re.search(r'if\s+length\s*>\s*MAX_CID_SIZE\s*\|\|\s*length\s*==\s*0\s*\{\s*return\s+Err\(IterErr::Malformed\)', body):
            raise TranslateError('try_next NEW_CONNECTION_ID: cid length check changed')
        if not re.search(r'if\s+retire_prior_to\s*>\s*sequence\s*\{\s*return\s+Err\(IterErr::Malformed\)', body):
            raise TranslateError('try_next NEW_CONNECTION_ID: retire_prior_to check changed')
        return int(m.group(1))
    g.nat('ncidTokenCheckLen', f'{FR}::Iter::try_next NEW_CONNECTION_ID token length check (+ shape of the two Malformed guards)', ncid_token_len)

    def close_budget(struct):
        """the budget expression `let max_len = max_len - N [- self.error_code.size()] [- size(ty)] - size(reason.len())`
        -> (N, whether the size of the error code is subtracted)"""
        body = strip_comments(fn_body(read(FR), 'encode', after=f'impl {struct} '))
        m = re.search(r'let\s+max_len\s*=\s*max_len((?:\s*-\s*[^;-]+)+);', body)
        if not m:
            raise TranslateError(f'{struct}::encode: max_len arithmetic changed')
        terms = [re.sub(r'\s+', '', t) for t in re.split(r'\s-\s|(?<=\))-|\n\s*-', ' ' + m.group(1)) if t.strip()]
        terms = [t.lstrip('-') for t in terms]
        if not terms or not re.fullmatch(r'\d+', terms[0]):
            raise TranslateError(f'{struct}::encode: budget does not start with a constant: {terms}')
        const = int(terms[0])
        rest = terms[1:]
        code = 'self.error_code.size()' in rest
        if code:
            rest.remove('self.error_code.size()')
        want = ['VarInt::from_u64(self.reason.len()asu64).unwrap().size()']
        if struct == 'ConnectionClose':
            want = ['VarInt::from_u64(ty).unwrap().size()'] + want
        if rest != want:
            raise TranslateError(f'{struct}::encode: budget terms {rest}')
        if not re.search(r'let\s+actual_len\s*=\s*self\.reason\.len\(\)\.min\(max_len\)\s*;', body):
            raise TranslateError(f'{struct}::encode: truncation changed')
        return const, (1 if code else 0)
    g.nat('closeConnOverhead', f'{FR}::ConnectionClose::encode budget constant', lambda: close_budget('ConnectionClose')[0])
    g.nat('closeConnBudgetsCodeSize', f'{FR}::ConnectionClose::encode budget subtracts the size of the error code (1) or not (0)',
          lambda: close_budget('ConnectionClose')[1])
    g.nat('closeAppOverhead', f'{FR}::ApplicationClose::encode budget constant', lambda: close_budget('ApplicationClose')[0])
    g.nat('closeAppBudgetsCodeSize', f'{FR}::ApplicationClose::encode budget subtracts self.error_code.size() (1) or not (0)',
          lambda: close_budget('ApplicationClose')[1])

    def te_code_max():
        """largest transport error code the crate itself can construct: the `errors!` table and `Code::crypto(u8)`"""
        text = strip_comments(read('quinn-proto/src/transport_error.rs'))
        i = text.rfind('errors! {')
        if i < 0:
            raise TranslateError('errors! invocation not found')
        vals = [int(v, 0) for v in re.findall(r'^\s*[A-Z_0-9]+\((0x[0-9a-fA-F]+|\d+)\)', text[i:], flags=re.M)]
        body = fn_body(text, 'crypto', after='impl Code')
        m = re.fullmatch(r'\{\s*Self\((0x[0-9a-fA-F]+)\s*\|\s*u64::from\(code\)\)\s*\}', body.strip())
        if not vals or not m:
            raise TranslateError('transport_error.rs: errors! table / Code::crypto changed')
        if not re.search(r'pub struct Code\(u64\);', text):
            raise TranslateError('transport_error.rs: Code is no longer a private u64 newtype')
        return max(vals + [int(m.group(1), 0) | 0xff])
    g.nat('transportErrorCodeMax', 'quinn-proto/src/transport_error.rs::errors! table and Code::crypto (largest locally constructible code)', te_code_max)

    # ------------------------------------------------------------------ transport parameters
    def tp_ids():
        text = strip_comments(read(TP))
        m = re.search(r'pub\(crate\)\s+enum\s+TransportParameterId\s*\{(.*?)\n\}', text, flags=re.S)
        if not m:
            raise TranslateError('enum TransportParameterId not found')
        ents = re.findall(r'([A-Za-z0-9]+)\s*=\s*(0x[0-9A-Fa-f]+|\d+)\s*,', m.group(1))
        return [(n, int(v, 0)) for n, v in ents]

    TPID = ['OriginalDestinationConnectionId', 'MaxIdleTimeout', 'StatelessResetToken', 'MaxUdpPayloadSize',
            'InitialMaxData', 'InitialMaxStreamDataBidiLocal', 'InitialMaxStreamDataBidiRemote',
            'InitialMaxStreamDataUni', 'InitialMaxStreamsBidi', 'InitialMaxStreamsUni', 'AckDelayExponent',
            'MaxAckDelay', 'DisableActiveMigration', 'PreferredAddress', 'ActiveConnectionIdLimit',
            'InitialSourceConnectionId', 'RetrySourceConnectionId', 'ReservedTransportParameter',
            'MaxDatagramFrameSize', 'GreaseQuicBit', 'MinAckDelayDraft07']

    def tp_id(n):
        t = dict(tp_ids())
        if sorted(t) != sorted(TPID):
            raise TranslateError(f'TransportParameterId variants changed: {sorted(set(t) ^ set(TPID))}')
        return t[n]
    for n in TPID:
        g.nat('tpId' + n, f'{TP}::TransportParameterId::{n}', lambda n=n: tp_id(n))

    INTS = [('max_idle_timeout', 'MaxIdleTimeout'), ('max_udp_payload_size', 'MaxUdpPayloadSize'),
            ('initial_max_data', 'InitialMaxData'),
            ('initial_max_stream_data_bidi_local', 'InitialMaxStreamDataBidiLocal'),
            ('initial_max_stream_data_bidi_remote', 'InitialMaxStreamDataBidiRemote'),
            ('initial_max_stream_data_uni', 'InitialMaxStreamDataUni'),
            ('initial_max_streams_bidi', 'InitialMaxStreamsBidi'), ('initial_max_streams_uni', 'InitialMaxStreamsUni'),
            ('ack_delay_exponent', 'AckDelayExponent'), ('max_ack_delay', 'MaxAckDelay'),
            ('active_connection_id_limit', 'ActiveConnectionIdLimit')]

    def apply_params():
        text = strip_comments(read(TP))
        m = re.search(r'macro_rules!\s*apply_params\s*\{.*?\$macro!\s*\{(.*?)\}\s*\}\s*;?\s*\}', text, flags=re.S)
        if not m:
            raise TranslateError('apply_params! not found')
        body = re.sub(r'///[^\n]*', '', read(TP)[read(TP).index('macro_rules! apply_params'):])
        body = body[body.index('$macro! {') + 9:]
        body = body[:body.index('}')]
        ents = re.findall(r'([a-z_0-9]+)\s*\(\s*([A-Za-z0-9]+)\s*\)\s*=\s*(\d[\d_]*)\s*,', strip_comments(body))
        got = [(a, b) for a, b, _ in ents]
        if got != INTS:
            raise TranslateError(f'apply_params! table changed: {got}')
        return [(a, b, int(c.replace("_", ""))) for a, b, c in ents]

    for i, (name, _) in enumerate(INTS):
        g.nat('tpDefault' + camel(name), f'{TP}::apply_params!::{name} default', lambda i=i: apply_params()[i][2])
    g.term('tpIntTable', 'List (String × Nat × Nat)', f'{TP}::apply_params! (name, id, default) in table order',
           lambda: '[' + ', '.join(f'("{a}", {tp_id(b)}, {c})' for a, b, c in apply_params()) + ']')

    def supported():
        text = strip_comments(read(TP))
        m = re.search(r'const\s+SUPPORTED\s*:\s*\[Self;\s*(\d+)\]\s*=\s*\[(.*?)\]\s*;', text, flags=re.S)
        if not m:
            raise TranslateError('SUPPORTED not found')
        names = re.findall(r'Self::([A-Za-z0-9]+)', m.group(2))
        if len(names) != int(m.group(1)) or sorted(names) != sorted(TPID):
            raise TranslateError('SUPPORTED: not a permutation of the enum')
        return names
    g.term('tpSupported', 'List Nat', f'{TP}::TransportParameterId::SUPPORTED (ids in write-order index order)',
           lambda: '[' + ', '.join(str(tp_id(n)) for n in supported()) + ']')
    g.nat('tpSupportedLen', f'{TP}::TransportParameterId::SUPPORTED.len()', lambda: len(supported()))

    def sem(pattern, what, grp=1):
        body = strip_comments(fn_body(read(TP), 'read', after='impl TransportParameters {\n    /// Encode'))
        m = re.search(pattern, body)
        if not m:
            raise TranslateError(f'TransportParameters::read: {what} changed')
        return num(m.group(grp))
    g.nat('tpMaxAckDelayExponent', f'{TP}::read ack_delay_exponent.0 > N', lambda: sem(r'params\.ack_delay_exponent\.0\s*>\s*(\d+)', 'ack_delay_exponent check'))
    g.nat('tpMaxAckDelayBoundLog', f'{TP}::read max_ack_delay.0 >= 1 << N', lambda: sem(r'params\.max_ack_delay\.0\s*>=\s*1\s*<<\s*(\d+)', 'max_ack_delay check'))
    g.nat('tpMinActiveCidLimit', f'{TP}::read active_connection_id_limit.0 < N', lambda: sem(r'params\.active_connection_id_limit\.0\s*<\s*(\d+)', 'active_connection_id_limit check'))
    g.nat('tpMinUdpPayload', f'{TP}::read max_udp_payload_size.0 < N', lambda: sem(r'params\.max_udp_payload_size\.0\s*<\s*(\d+)', 'max_udp_payload_size check'))
    g.nat('tpMinAckDelayScale', f'{TP}::read min_ack_delay.0 > max_ack_delay.0 * N', lambda: sem(r'min_ack_delay\.0\s*>\s*params\.max_ack_delay\.0\s*\*\s*([\d_]+)', 'min_ack_delay check'))

    def sem_streams():
        body = strip_comments(fn_body(read(TP), 'read', after='impl TransportParameters {\n    /// Encode'))
        for f in ('initial_max_streams_bidi', 'initial_max_streams_uni'):
            if not re.search(r'params\.' + f + r'\.0\s*>\s*MAX_STREAM_COUNT', body):
                raise TranslateError(f'read: {f} check changed')
        return lib_const('MAX_STREAM_COUNT')
    g.nat('tpMaxStreams', f'{TP}::read initial_max_streams_{{bidi,uni}}.0 > MAX_STREAM_COUNT', sem_streams)
    g.nat('tpResetTokenLen', f'{TP}::read StatelessResetToken len != N', lambda: sem(r'if\s+len\s*!=\s*(\d+)\s*\|\|\s*params\.stateless_reset_token\.is_some\(\)', 'stateless_reset_token length'))
    g.nat('tpMaxDatagramLenMax', f'{TP}::read MaxDatagramFrameSize len > N', lambda: sem(r'if\s+len\s*>\s*(\d+)\s*\|\|\s*params\.max_datagram_frame_size\.is_some\(\)', 'max_datagram_frame_size length'))

    def token_write_len():
        body = strip_comments(fn_body(read(TP), 'write', after='impl TransportParameters {\n    /// Encode'))
        m = re.search(r'TransportParameterId::StatelessResetToken\s*=>\s*\{\s*if let Some\(ref x\) = self\.stateless_reset_token\s*\{\s*w\.write_var\(id as u64\);\s*w\.write_var\((\d+)\);\s*w\.put_slice\(x\);', body)
        if not m:
            raise TranslateError('write: stateless_reset_token arm changed')
        return int(m.group(1))
    g.nat('tpResetTokenWriteLen', f'{TP}::write StatelessResetToken length literal', token_write_len)

    def reserved_max():
        text = strip_comments(read(TP))
        m = re.search(r'const\s+MAX_PAYLOAD_LEN\s*:\s*usize\s*=\s*(\d+)\s*;', text)
        if not m:
            raise TranslateError('MAX_PAYLOAD_LEN not found')
        return int(m.group(1))
    g.nat('tpReservedMaxPayload', f'{TP}::ReservedTransportParameter::MAX_PAYLOAD_LEN', reserved_max)

    def pa_wire():
        body = strip_comments(fn_body(read(TP), 'wire_size', after='impl PreferredAddress'))
        m = re.fullmatch(r'\{\s*4\s*\+\s*2\s*\+\s*16\s*\+\s*2\s*\+\s*1\s*\+\s*self\.connection_id\.len\(\)\s*as\s*u16\s*\+\s*(\d+)\s*\}', body.strip())
        if not m:
            raise TranslateError('PreferredAddress::wire_size changed')
        return 4 + 2 + 16 + 2 + 1 + int(m.group(1))
    g.nat('tpPreferredAddrFixed', f'{TP}::PreferredAddress::wire_size fixed part', pa_wire)

    # ------------------------------------------------------------------ packet headers
    PK = 'quinn-proto/src/packet.rs'
    for lean, name in [('hdrLongHeaderForm', 'LONG_HEADER_FORM'), ('hdrFixedBit', 'FIXED_BIT'), ('hdrSpinBit', 'SPIN_BIT'),
                       ('hdrKeyPhaseBit', 'KEY_PHASE_BIT')]:
        g.nat(lean, f'{PK}::{name}', lambda name=name: const_value(strip_comments(read(PK)), name))

    def from_byte():
        body = strip_comments(fn_body(read(PK), 'from_byte', after='impl LongHeaderType'))
        m = re.search(r'match\s*\(b\s*&\s*(0x[0-9a-fA-F]+)\)\s*>>\s*(\d+)\s*\{(.*?)_\s*=>\s*unreachable!\(\)', body, flags=re.S)
        if not m:
            raise TranslateError('LongHeaderType::from_byte: shape changed')
        arms = dict((b.strip(), int(a, 0)) for a, b in re.findall(r'(0x[0-9a-fA-F]+)\s*=>\s*([A-Za-z()]+)\s*,', m.group(3)))
        want = ['Initial', 'Standard(ZeroRtt)', 'Standard(Handshake)', 'Retry']
        if sorted(arms) != sorted(want):
            raise TranslateError(f'LongHeaderType::from_byte arms {arms}')
        return int(m.group(1), 0), int(m.group(2)), arms

    def to_byte():
        text = strip_comments(read(PK))
        i = text.find('impl From<LongHeaderType> for u8')
        if i < 0:
            raise TranslateError('impl From<LongHeaderType> for u8 not found')
        body = fn_body(text, 'from', after='impl From<LongHeaderType> for u8')
        out = {}
        if not re.search(r'Initial\s*=>\s*LONG_HEADER_FORM\s*\|\s*FIXED_BIT\s*,', body):
            raise TranslateError('From<LongHeaderType>: Initial arm changed')
        out['Initial'] = 0
        for name in ['Standard(ZeroRtt)', 'Standard(Handshake)', 'Retry']:
            m = re.search(re.escape(name) + r'\s*=>\s*LONG_HEADER_FORM\s*\|\s*FIXED_BIT\s*\|\s*\((0x[0-9a-fA-F]+)\s*<<\s*(\d+)\)', body)
            if not m:
                raise TranslateError(f'From<LongHeaderType>: {name} arm changed')
            out[name] = int(m.group(1), 0) << int(m.group(2))
        return out
    g.nat('hdrTypeMask', f'{PK}::LongHeaderType::from_byte mask', lambda: from_byte()[0])
    g.nat('hdrTypeShift', f'{PK}::LongHeaderType::from_byte shift', lambda: from_byte()[1])
    for lean, name in [('Initial', 'Initial'), ('ZeroRtt', 'Standard(ZeroRtt)'), ('Handshake', 'Standard(Handshake)'), ('Retry', 'Retry')]:
        g.nat('hdrTypeDec' + lean, f'{PK}::LongHeaderType::from_byte {name}', lambda name=name: from_byte()[2][name])
        g.nat('hdrTypeEnc' + lean, f'{PK}::From<LongHeaderType> for u8 {name} (type bits)', lambda name=name: to_byte()[name])

    def len_patch():
        body = strip_comments(fn_body(read(PK), 'finish', after='impl PartialEncode'))
        m = re.search(r'assert!\(len\s*<\s*2usize\.pow\((\d+)\)\)', body)
        m2 = re.search(r'slice\.put_u16\(len as u16\s*\|\s*\((0b[01]+)\s*<<\s*(\d+)\)\)', body)
        if not m or not m2 or not re.search(r'let\s+len\s*=\s*buf\.len\(\)\s*-\s*header_len\s*\+\s*pn_len\s*;', body):
            raise TranslateError('PartialEncode::finish: length patch changed')
        return int(m.group(1)), int(m2.group(1), 0) << int(m2.group(2))
    g.nat('hdrLenBoundLog', f'{PK}::PartialEncode::finish assert!(len < 2^N)', lambda: len_patch()[0])
    g.nat('hdrLenTag', f'{PK}::PartialEncode::finish 2-byte varint tag', lambda: len_patch()[1])
