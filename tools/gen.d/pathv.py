"""T1 anchors of the path-validation deadline (C15) -> Gen/PathV.lean"""
import re
NAME = 'PathV'

def extend(g, api):
    conn = 'quinn-proto/src/connection/mod.rs'
    def factor():
        body = api.strip_comments(api.fn_body(api.read(conn), 'migrate'))
        # the PTO of the path being left is read BEFORE the path is replaced, the deadline is
        # now + K * max(PTO of the new path, PTO of the old path)
        i_prev = body.find('let prev_pto = self.pto(SpaceId::Data);')
        i_repl = body.find('mem::replace(&mut self.path, new_path)')
        m = re.search(r'self\.timers\.set\(\s*Timer::PathValidation,\s*now \+ (\d+) \* cmp::max\(self\.pto\(SpaceId::Data\), prev_pto\),?\s*\)', body)
        if not m or not (0 <= i_prev < i_repl < m.start()):
            raise Exception('migrate: the validation deadline is no longer now + K * max(pto(new path), pto(old path))')
        return int(m.group(1))
    g.nat('pathValidationFactor', f'{conn}::Connection::migrate Timer::PathValidation = now + K * max(pto of the new path, pto of the path being left)', factor)
