"""T1 anchors for the reset-token source model (Conn/ResetTokens.lean, property C04 reset clause) -> Gen/ResetTok.lean.

`init0rttClearsResetToken` is READ from the field list of the struct update in `Connection::init_0rtt` (true iff the list
contains `stateless_reset_token: None`): the model uses it, so dropping the field makes the theorems of Props/C04_reset.lean
unprovable. The other anchors pin (value 1, or a translation break) that `peer_params.stateless_reset_token` is written
only by `set_reset_token` and by the whole-struct assignment of `set_peer_params`, who calls those, and what
`is-stateless-reset` compares."""
import re
NAME = 'ResetTok'


def extend(g, api):
    read, sc, fn_body, TE = api.read, api.strip_comments, api.fn_body, api.TranslateError
    CONN = 'quinn-proto/src/connection/mod.rs'
    PC = 'quinn-proto/src/connection/packet_crypto.rs'

    def ws(s):
        return re.sub(r'\s+', ' ', s).strip()

    def clears():
        b = ws(sc(fn_body(read(CONN), 'init_0rtt')))
        m = re.search(r'let params = TransportParameters \{(.*?)\.\.params \};', b)
        if not m:
            raise TE('init_0rtt: scrubbed struct update not recognised')
        fields = [f.strip() for f in m.group(1).split(',') if f.strip()]
        if not re.search(r'self\.set_peer_params\(params\);', b[m.end():]):
            raise TE('init_0rtt: the scrubbed parameters no longer go through set_peer_params')
        return 'stateless_reset_token: None' in fields
    g.fn('init0rttClearsResetToken', ': Bool', f'{CONN}::init_0rtt field list of `TransportParameters {{ …, ..params }}` contains `stateless_reset_token: None`',
         lambda: 'true' if clears() else 'false')

    def writers():
        src = sc(read(CONN))
        # every write of the field / of the whole struct
        w1 = re.findall(r'self\.peer_params\.stateless_reset_token\s*=[^=]', src)
        w2 = re.findall(r'self\.peer_params\s*=[^=]', src)
        if len(w1) != 1 or len(w2) != 1:
            raise TE(f'peer_params token writers changed: field writes {len(w1)}, struct writes {len(w2)}')
        if 'self.peer_params.stateless_reset_token = Some(reset_token);' not in ws(fn_body(src, 'set_reset_token')):
            raise TE('set_reset_token no longer stores its argument')
        if 'self.peer_params = params;' not in ws(fn_body(src, 'set_peer_params')):
            raise TE('set_peer_params no longer assigns the struct')
        n_spp = len(re.findall(r'self\.set_peer_params\(', src))
        n_hpp = len(re.findall(r'self\.handle_peer_params\(', src))
        n_srt = len(re.findall(r'self\.set_reset_token\(', src))
        if (n_spp, n_hpp, n_srt) != (2, 2, 2):
            raise TE(f'callers changed: set_peer_params {n_spp} (init_0rtt, handle_peer_params), handle_peer_params {n_hpp}, set_reset_token {n_srt} (NEW_CONNECTION_ID arm, update_rem_cid)')
        u = ws(fn_body(src, 'update_rem_cid'))
        if not re.search(r'let Some\(\(reset_token, retired\)\) = self\.rem_cids\.next\(\) else \{ return; \};.*self\.set_reset_token\(reset_token\);', u):
            raise TE('update_rem_cid: shape changed')
        return 1
    g.nat('resetTokenWriters', f'{CONN}: `peer_params.stateless_reset_token` written only by set_reset_token (NEW_CONNECTION_ID arm, update_rem_cid) and set_peer_params (init_0rtt, handle_peer_params)', writers)

    def compare():
        b = ws(sc(fn_body(read(PC), 'unprotect_header')))
        if 'let stateless_reset = packet.len() >= RESET_TOKEN_SIZE + 5 && stateless_reset_token.as_deref() == Some(&packet[packet.len() - RESET_TOKEN_SIZE..]);' not in b:
            raise TE('unprotect_header: stateless-reset comparison changed')
        d = ws(sc(fn_body(read(CONN), 'handle_decode')))
        if not re.search(r'packet_crypto::unprotect_header\( partial_decode, &self\.spaces, self\.zero_rtt_crypto\.as_ref\(\), self\.peer_params\.stateless_reset_token, \)', d):
            raise TE('handle_decode: token source changed')
        return 1
    g.nat('isStatelessResetSource', f'{PC}::unprotect_header compares the last 16 bytes with the token handed in by {CONN}::handle_decode = peer_params.stateless_reset_token', compare)
