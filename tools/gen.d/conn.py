"""T1 anchors for the Connection-level skeleton models (amplification gate, send gate, timers, pto) -> Gen/Conn.lean"""
import re
NAME = 'Conn'

def call_arg(text, fn, callee):
    """text of the (single) argument expression of the first call `.callee(...)` inside fn `fn`"""
    from rustexpr import fn_body
    body = fn_body(text, fn)
    i = body.find('.' + callee + '(')
    if i < 0:
        raise Exception(f'{callee} not called in {fn}')
    j = i + len(callee) + 2
    depth, k = 1, j
    while depth:
        if body[k] == '(':
            depth += 1
        elif body[k] == ')':
            depth -= 1
        k += 1
    return body[j:k - 1]

def extend(g, api):
    paths = 'quinn-proto/src/connection/paths.rs'
    conn = 'quinn-proto/src/connection/mod.rs'
    g.fn('antiAmpBlocked', '(validated : Bool) (total_sent total_recvd bytes_to_send : Nat) : Bool',
         f'{paths}::PathData::anti_amplification_blocked',
         lambda: api.translate_block(api.strip_comments(api.fn_body(api.read(paths), 'anti_amplification_blocked')),
                                     {'self.validated': 'validated', 'self.total_recvd': 'total_recvd',
                                      'self.total_sent': 'total_sent', 'bytes_to_send': 'bytes_to_send'}))
    g.fn('antiAmpGateArg', '(segment_size num_datagrams : Nat) : Nat',
         f'{conn}::Connection::poll_transmit argument of anti_amplification_blocked',
         lambda: api.translate_expr(api.strip_comments(call_arg(api.read(conn), 'poll_transmit', 'anti_amplification_blocked')),
                                    {'segment_size': 'segment_size', 'num_datagrams': 'num_datagrams'}))
    g.nat('libMinInitialSize', 'quinn-proto/src/lib.rs::MIN_INITIAL_SIZE',
          lambda: api.const_value(api.read('quinn-proto/src/lib.rs'), 'MIN_INITIAL_SIZE'))
    g.nat('libInitialMtu', 'quinn-proto/src/lib.rs::INITIAL_MTU',
          lambda: api.const_value(api.read('quinn-proto/src/lib.rs'), 'INITIAL_MTU'))
    g.nat('resetTokenSize', 'quinn-proto/src/lib.rs::RESET_TOKEN_SIZE',
          lambda: api.const_value(api.read('quinn-proto/src/lib.rs'), 'RESET_TOKEN_SIZE'))
    g.nat('maxBackoffExponent', f'{conn}::MAX_BACKOFF_EXPONENT',
          lambda: api.const_value(api.read(conn), 'MAX_BACKOFF_EXPONENT'))

    ep = 'quinn-proto/src/endpoint.rs'
    both = lambda: api.read(ep) + "\n" + api.read('quinn-proto/src/lib.rs')
    g.nat('resetMinPaddingLen', f'{ep}::stateless_reset MIN_PADDING_LEN', lambda: api.const_value(both(), 'MIN_PADDING_LEN'))
    g.nat('resetIdealMinPaddingLen', f'{ep}::stateless_reset IDEAL_MIN_PADDING_LEN', lambda: api.const_value(both(), 'IDEAL_MIN_PADDING_LEN'))
    def reset_shape():
        body = api.strip_comments(api.fn_body(api.read(ep), 'stateless_reset'))
        need = [r'inciting_dgram_len\.checked_sub\(RESET_TOKEN_SIZE\)', r'Some\(headroom\)\s+if\s+headroom\s*>\s*MIN_PADDING_LEN\s*=>\s*headroom\s*-\s*1',
                r'if\s+max_padding_len\s*<=\s*IDEAL_MIN_PADDING_LEN', r'random_range\(IDEAL_MIN_PADDING_LEN\.\.max_padding_len\)',
                r'last\s*\+\s*self\.config\.min_reset_interval\s*>\s*now', r'buf\.resize\(padding_len,\s*0\)']
        for n in need:
            if not re.search(n, body):
                raise Exception('stateless_reset: expected shape not found: ' + n)
        return 1
    g.nat('resetShapeChecked', f'{ep}::stateless_reset (headroom / padding / interval expressions as modelled)', reset_shape)

    def close_gate():
        body = api.strip_comments(api.fn_body(api.read(conn), 'poll_transmit'))
        # shape of the send gate as modelled in Conn/Lifecycle.lean `sendsDatagram`
        need = [r'if\s+ack_eliciting\s*&&\s*self\.spaces\[space_id\]\.loss_probes\s*==\s*0\s*\{',
                r'self\.path\.in_flight\.bytes\s*\+\s*bytes_to_send\s*>=\s*self\.path\.congestion\.window\(\)']
        for n in need:
            if not re.search(n, body):
                raise Exception('poll_transmit: send gate shape changed: ' + n)
        m = re.search(r'if\s+close\s*\{\s*ack_eliciting\s*=\s*false\s*;\s*\}', body)
        i_gate = body.find('if ack_eliciting && self.spaces[space_id].loss_probes == 0')
        return 'true' if (m and m.start() < i_gate) else 'false'
    g.term('closeClearsAckEliciting', 'Bool', f'{conn}::Connection::poll_transmit `if close {{ ack_eliciting = false; }}` before the congestion/pacing gate', close_gate)

    timer = 'quinn-proto/src/connection/timer.rs'
    def timer_values():
        t = api.strip_comments(api.read(timer))
        m = re.search(r'const VALUES: \[Self; (\d+)\] = \[(.*?)\];', t, re.S)
        names = re.findall(r'Self::(\w+)', m.group(2))
        enum = re.search(r'enum Timer \{(.*?)\}', t, re.S).group(1)
        disc = dict((n, int(v)) for n, v in re.findall(r'(\w+)\s*=\s*(\d+)', enum))
        if int(m.group(1)) != len(names) or [disc[n] for n in names] != list(range(len(names))):
            raise Exception('Timer::VALUES is not the enum in discriminant order')
        if not re.search(r'self\.data\.iter\(\)\.filter_map\(\|&x\| x\)\.min\(\)', t) or not re.search(r'is_some_and\(\|x\| x <= after\)', t):
            raise Exception('TimerTable::{next_timeout,is_expired} shape changed')
        return names
    g.nat('timerCount', f'{timer}::Timer::VALUES length', lambda: len(timer_values()))
    g.nat('timerIdle', f'{timer}::Timer::Idle index', lambda: timer_values().index('Idle'))
    g.nat('timerClose', f'{timer}::Timer::Close index', lambda: timer_values().index('Close'))
    g.nat('timerLossDetection', f'{timer}::Timer::LossDetection index', lambda: timer_values().index('LossDetection'))

    pc = 'quinn-proto/src/connection/packet_crypto.rs'
    def reset_extra():
        body = api.strip_comments(api.fn_body(api.read(pc), 'unprotect_header'))
        m = re.search(r'packet\.len\(\)\s*>=\s*RESET_TOKEN_SIZE\s*\+\s*(\d+)\s*&&\s*stateless_reset_token\.as_deref\(\)\s*==\s*Some\(&packet\[packet\.len\(\)\s*-\s*RESET_TOKEN_SIZE\.\.\]\)', body)
        if not m:
            raise Exception('unprotect_header: stateless reset test changed')
        return int(m.group(1))
    g.nat('resetMinLenExtra', f'{pc}::unprotect_header stateless reset minimum length = RESET_TOKEN_SIZE + N', reset_extra)
    def pipeline_shape():
        body = api.strip_comments(api.fn_body(api.read(conn), 'handle_packet'))
        need = [r'let is_duplicate = \|n\| self\.spaces\[packet\.header\.space\(\)\]\.dedup\.insert\(n\);\s*if number\.is_some_and\(is_duplicate\)\s*\{[^}]*return;',
                r'else if self\.state\.is_handshake\(\) && packet\.header\.is_short\(\)\s*\{[^}]*return;',
                r'if self\.side\.is_server\(\) && token != &hs\.expected_token\s*\{[^}]*return;',
                r'let unprotected = matches!\(\s*packet\.header,\s*Header::Retry \{ \.\. \} \| Header::VersionNegotiate \{ \.\. \}\s*\);\s*if !self\.state\.is_closed\(\) && !unprotected\s*\{',
                r'self\.authentication_failures \+= 1;']
        for n in need:
            if not re.search(n, body, re.S):
                raise Exception('handle_packet: receive pipeline shape changed: ' + n[:60])
        i_dup = body.find('is_some_and(is_duplicate)'); i_auth = body.find('self.on_packet_authenticated('); i_proc = body.find('self.process_decrypted_packet(')
        if not (0 < i_dup < i_auth < i_proc):
            raise Exception('handle_packet: duplicate filter no longer precedes authentication accounting and processing')
        first = api.strip_comments(api.fn_body(api.read(conn), 'handle_first_packet'))
        i_ins = first.find('.dedup.insert(packet_number)'); i_p = first.find('self.process_decrypted_packet(')
        if not (0 < i_ins < i_p):
            raise Exception('handle_first_packet: first packet number is not recorded in the duplicate filter before processing')
        pd = api.strip_comments(api.fn_body(api.read(conn), 'process_decrypted_packet'))
        for n in [r'Header::Retry \{[^}]*\} => \{\s*if self\.side\.is_server\(\) \{\s*trace!\([^)]*\);\s*return Ok\(\(\)\);', r'if self\.total_authed_packets > 0\s*\|\| packet\.payload\.len\(\) <= 16', r'\|\| !self\.crypto\.is_valid_retry\(',
                  r'Header::VersionNegotiate \{ \.\. \} => \{\s*if self\.total_authed_packets > 0 \{\s*return Ok\(\(\)\);']:
            if not re.search(n, pd, re.S):
                raise Exception('process_decrypted_packet: Retry/VN acceptance test changed: ' + n[:50])
        return 1
    g.nat('receivePipelineShapeChecked', f'{conn}::handle_packet / handle_first_packet / process_decrypted_packet (order and tests of the receive pipeline as modelled in Conn/Receive.lean)', pipeline_shape)

    pacing = 'quinn-proto/src/connection/pacing.rs'
    def pacing_tail():
        body = api.strip_comments(api.fn_body(api.read(pacing), 'delay'))
        need = [r'let unscaled_delay = smoothed_rtt\s*\.checked_mul\(\(bytes_to_send\.max\(self\.capacity\) - self\.tokens\) as _\)\s*\.unwrap_or\(Duration::MAX\)\s*/ window;',
                r'let delay = \(unscaled_delay / 5\) \* 4;\s*if delay\.is_zero\(\) \{\s*return None;\s*\}\s*Some\(now \+ delay\)\s*\}?\s*$']
        for n in need:
            if not re.search(n, body.strip(), re.S):
                raise Exception('Pacer::delay: tail shape changed: ' + n[:50])
        return 1
    g.nat('pacingTailShapeChecked', f'{pacing}::Pacer::delay tail (a wake-up instant is returned only when the delay is non-zero, as modelled in Recovery/Pacing.lean)', pacing_tail)

    def discard_resets_pto():
        body = api.strip_comments(api.fn_body(api.read(conn), 'discard_space'))
        if not re.search(r'self\.remove_in_flight\(&packet\);\s*\}\s*self\.pto_count = 0;\s*self\.set_loss_detection_timer\(now\)', body, re.S):
            raise Exception('discard_space: the PTO backoff is no longer reset with the discarded space (RFC 9002 A.4)')
        return 1
    g.nat('discardSpaceResetsPtoChecked', f'{conn}::Connection::discard_space resets pto_count before re-arming the loss detection timer', discard_resets_pto)
