"""T1 anchors for the key-update model (Conn/KeyUpdate.lean, component `keyupd`, property C04 / RFC 9001 section 6)
-> Gen/KeyUpd.lean.

Guard expressions of `packet_crypto.rs::decrypt_packet_body`, `Connection::{handle_packet, force_key_update}` and
`PacketBuilder::new` are TRANSLATED (the model calls the generated functions); the statement order of every arm of
`decrypt_packet_body`, `Connection::{decrypt_packet, update_keys, force_key_update, set_key_discard_timer, handle_timeout,
poll_transmit, upgrade_crypto}` that the model mirrors is pinned by shape anchors (value 1, or a translation break)."""
import re
NAME = 'KeyUpd'


def extend(g, api):
    read, sc, fn_body, tx, TE = api.read, api.strip_comments, api.fn_body, api.translate_expr, api.TranslateError
    PC = 'quinn-proto/src/connection/packet_crypto.rs'
    CONN = 'quinn-proto/src/connection/mod.rs'
    PB = 'quinn-proto/src/connection/packet_builder.rs'

    def ws(s):
        return re.sub(r'\s+', ' ', s).strip()

    def body():
        return ws(sc(fn_body(read(PC), 'decrypt_packet_body')))

    def need(text, pats, what):
        pos = 0
        for p in pats:
            m = re.compile(p, re.S).search(text, pos)
            if not m:
                raise TE(f'{what}: shape changed at /{p[:70]}/')
            pos = m.end()
        return 1

    g.nat('keyUpdateMargin', f'{CONN}::KEY_UPDATE_MARGIN', lambda: api.const_value(read(CONN), 'KEY_UPDATE_MARGIN'))

    def discard_factor():
        b = ws(sc(fn_body(read(CONN), 'set_key_discard_timer')))
        m = re.search(r'self\.timers \.set\(Timer::KeyDiscard, start \+ self\.pto\(space\) \* (\d+)\);', b)
        if not m:
            raise TE('set_key_discard_timer: deadline expression not recognised')
        return int(m.group(1))
    g.nat('keyDiscardPtoFactor', f'{CONN}::set_key_discard_timer `start + self.pto(space) * N`', discard_factor)

    def close_factor():
        b = ws(sc(fn_body(read(CONN), 'set_close_timer')))
        m = re.search(r'\.set\(Timer::Close, now \+ (\d+) \* self\.pto\(self\.highest_space\)\)', b)
        if not m:
            raise TE('set_close_timer: deadline expression not recognised')
        return int(m.group(1))
    g.nat('closeTimerPtoFactor', f'{CONN}::set_close_timer `now + N * self.pto(highest_space)`', close_factor)

    # ---- translated guards of decrypt_packet_body ------------------------------------------------------
    def cur_selected():
        m = re.search(r'\} else if (packet_key_phase == conn_key_phase \|\| space != SpaceId::Data) \{ &spaces\[space\]\.crypto\.as_ref\(\)\.unwrap\(\)\.packet\.remote \}', body())
        if not m:
            raise TE('decrypt_packet_body: current-keys arm not recognised')
        return tx(m.group(1).replace('space != SpaceId::Data', '!space_is_data'),
                  {'packet_key_phase': 'packet_key_phase', 'conn_key_phase': 'conn_key_phase', 'space_is_data': 'space_is_data'})
    g.fn('kuCurrentSelected', '(packet_key_phase conn_key_phase space_is_data : Bool) : Bool',
         f'{PC}::decrypt_packet_body test of the arm that selects the CURRENT keys', cur_selected)

    def prev_applies():
        m = re.search(r'\} else if let Some\(prev\) = prev_crypto\.filter\(\|&crypto\| crypto\.end_packet\.is_none_or\(\|\(pn, _\)\| ([^)]*)\)\) \{ &prev\.crypto\.remote \} else \{', body())
        if not m:
            raise TE('decrypt_packet_body: previous-keys arm not recognised')
        return tx(m.group(1), {'number': 'number', 'pn': 'end_pn'})
    g.fn('kuBelowEndPacket', '(number end_pn : Nat) : Bool',
         f'{PC}::decrypt_packet_body previous keys apply iff end_packet is None or this holds of (number, end_packet.0)', prev_applies)

    def acked():
        m = re.search(r'if let Some\(prev\) = prev_crypto \{ if (prev\.end_packet\.is_none\(\) && packet_key_phase == conn_key_phase) \{ outgoing_key_update_acked = true; \} \}', body())
        if not m:
            raise TE('decrypt_packet_body: outgoing_key_update_acked test not recognised')
        return tx(m.group(1).replace('prev.end_packet.is_none()', 'end_none'),
                  {'end_none': 'end_none', 'packet_key_phase': 'packet_key_phase', 'conn_key_phase': 'conn_key_phase'})
    g.fn('kuOutgoingAcked', '(end_none packet_key_phase conn_key_phase : Bool) : Bool',
         f'{PC}::decrypt_packet_body outgoing_key_update_acked (given prev_crypto is Some)', acked)

    def invalid():
        m = re.search(r'if crypto_update \{ if (number <= rx_packet \|\| prev_crypto\.is_some_and\(\|x\| x\.update_unacked\)) \{ return Err\(Some\(TransportError::KEY_UPDATE_ERROR\(""\)\)\); \} \}', body())
        if not m:
            raise TE('decrypt_packet_body: validation of an incoming key update not recognised')
        return tx(m.group(1).replace('prev_crypto.is_some_and(|x| x.update_unacked)', 'prev_unacked'),
                  {'number': 'number', 'rx_packet': 'rx_packet', 'prev_unacked': 'prev_unacked'})
    g.fn('kuUpdateInvalid', '(number rx_packet : Nat) (prev_unacked : Bool) : Bool',
         f'{PC}::decrypt_packet_body KEY_UPDATE_ERROR test (prev_unacked = prev_crypto.is_some_and(update_unacked))', invalid)

    def body_shape():
        return need(body(), [
            r'let rx_packet = spaces\[space\]\.rx_packet; let number = packet\.header\.number\(\)\.ok_or\(None\)\?\.expand\(rx_packet \+ 1\);',
            r'let packet_key_phase = packet\.header\.key_phase\(\); let mut crypto_update = false; let crypto = if packet\.header\.is_0rtt\(\) \{ &zero_rtt_crypto\.unwrap\(\)\.packet \} else if packet_key_phase == conn_key_phase',
            r'\} else if let Some\(prev\) = prev_crypto\.filter\(',
            r'\{ &prev\.crypto\.remote \} else \{ crypto_update = true; &next_crypto\.unwrap\(\)\.remote \};',
            r'crypto \.decrypt\(number, &packet\.header_data, &mut packet\.payload\) \.map_err\(\|_\| \{ (?:trace!\([^;]*\); )?None \}\)\?;',
            r'if !packet\.reserved_bits_valid\(\) \{ return Err\(Some\(TransportError::PROTOCOL_VIOLATION\( "reserved bits set", \)\)\); \}',
            r'let mut outgoing_key_update_acked = false; if let Some\(prev\) = prev_crypto \{',
            r'if crypto_update \{ if number <= rx_packet',
            r'Ok\(Some\(DecryptPacketResult \{ number, outgoing_key_update_acked, incoming_key_update: crypto_update, \}\)\) \}?$',
        ], 'decrypt_packet_body')
    g.nat('decryptBodyShapeChecked', f'{PC}::decrypt_packet_body (key selection chain, AEAD before the reserved-bit test before the key-update validation, result fields: as modelled in Conn/KeyUpdate.lean)', body_shape)

    def decrypt_packet_shape():
        b = ws(sc(fn_body(read(CONN), 'decrypt_packet')))
        return need(b, [
            r'let result = packet_crypto::decrypt_packet_body\( packet, &self\.spaces, self\.zero_rtt_crypto\.as_ref\(\), self\.key_phase, self\.prev_crypto\.as_ref\(\), self\.next_crypto\.as_ref\(\), \)\?;',
            r'let Some\(result\) = result else \{ return Ok\(None\); \};',
            r'if result\.outgoing_key_update_acked \{ if let Some\(prev\) = self\.prev_crypto\.as_mut\(\) \{ prev\.end_packet = Some\(\(result\.number, now\)\); self\.set_key_discard_timer\(now, packet\.header\.space\(\)\); \} \}',
            r'if result\.incoming_key_update \{ (?:trace!\([^;]*\); )?self\.update_keys\(Some\(\(result\.number, now\)\), true\); self\.set_key_discard_timer\(now, packet\.header\.space\(\)\); \}',
            r'Ok\(Some\(result\.number\)\)',
        ], 'Connection::decrypt_packet')
    g.nat('decryptPacketShapeChecked', f'{CONN}::Connection::decrypt_packet (effects of outgoing_key_update_acked / incoming_key_update)', decrypt_packet_shape)

    def update_keys_shape():
        b = ws(sc(fn_body(read(CONN), 'update_keys')))
        return need(b, [
            r'let new = self \.crypto \.next_1rtt_keys\(\) \.expect\("[^"]*"\);',
            r'self\.key_phase_size = new \.local \.confidentiality_limit\(\) \.saturating_sub\(KEY_UPDATE_MARGIN\);',
            r'let old = mem::replace\( &mut self\.spaces\[SpaceId::Data\] \.crypto \.as_mut\(\) \.unwrap\(\) \.packet, mem::replace\(self\.next_crypto\.as_mut\(\)\.unwrap\(\), new\), \);',
            r'self\.spaces\[SpaceId::Data\]\.sent_with_keys = 0;',
            r'self\.prev_crypto = Some\(PrevCrypto \{ crypto: old, end_packet, update_unacked: remote, \}\);',
            r'self\.key_phase = !self\.key_phase; self\.key_phase_first_pn = Some\(self\.spaces\[SpaceId::Data\]\.next_packet_number\); \}?$',
        ], 'Connection::update_keys')
    g.nat('updateKeysShapeChecked', f'{CONN}::Connection::update_keys', update_keys_shape)

    FORCE = (r'^\{? ?if !self\.state\.is_established\(\) \{ (?:debug!\([^;]*\); )?return; \} '
             r'if self\.spaces\[SpaceId::Handshake\]\.crypto\.is_some\(\) \{ (?:debug!\([^;]*\); )?return; \} '
             r'if self\.prev_crypto\.is_some\(\) \{ (?:debug!\([^;]*\); )?return; \} '
             r'if let Some\(first\) = self\.key_phase_first_pn \{ let acked = self\.spaces\[SpaceId::Data\]\.largest_acked_packet; '
             r'if acked\.is_none_or\(\|pn\| ([^)]*)\) \{ (?:debug!\([^;]*\); )?self\.ping\(\); return; \} \} '
             r'self\.update_keys\(None, false\); \}?$')

    def force_shape():
        b = ws(sc(fn_body(read(CONN), 'force_key_update')))
        if not re.search(FORCE, b):
            raise TE('Connection::force_key_update: guard list changed')
        return 1
    g.nat('forceKeyUpdateShapeChecked', f'{CONN}::Connection::force_key_update (the complete guard list: established, handshake confirmed = Handshake keys discarded, no previous keys retained, a packet of the current key phase acknowledged once a key update has taken place; then update_keys(None, false))', force_shape)

    def acked_below():
        b = ws(sc(fn_body(read(CONN), 'force_key_update')))
        m = re.search(FORCE, b)
        if not m:
            raise TE('Connection::force_key_update: acknowledgement guard not recognised')
        return tx(m.group(1), {'pn': 'acked_pn', 'first': 'first_pn'})
    g.fn('kuAckedBelowPhase', '(acked_pn first_pn : Nat) : Bool',
         f'{CONN}::Connection::force_key_update refused if key_phase_first_pn is Some(first_pn) and largest_acked_packet is None or Some(acked_pn) with this', acked_below)

    def discard_timer_shape():
        b = ws(sc(fn_body(read(CONN), 'set_key_discard_timer')))
        need(b, [r'let start = if self\.zero_rtt_crypto\.is_some\(\) \{ now \} else \{ self\.prev_crypto \.as_ref\(\) \.expect\("[^"]*"\) \.end_packet \.as_ref\(\) \.expect\("[^"]*"\) \.1 \};'],
             'set_key_discard_timer')
        h = ws(sc(fn_body(read(CONN), 'handle_timeout')))
        need(h, [r'for &timer in &Timer::VALUES \{ if !self\.timers\.is_expired\(timer, now\) \{ continue; \} self\.timers\.stop\(timer\);',
                 r'Timer::Close => \{ self\.state = State::Drained;',
                 r'Timer::KeyDiscard => \{ self\.zero_rtt_crypto = None; self\.prev_crypto = None; \}'], 'handle_timeout')
        return 1
    g.nat('keyDiscardShapeChecked', f'{CONN}::set_key_discard_timer start instant; handle_timeout arms Close and KeyDiscard', discard_timer_shape)

    def poll_transmit_shape():
        b = ws(sc(fn_body(read(CONN), 'poll_transmit')))
        return need(b, [r'if let Some\(ref mut prev\) = self\.prev_crypto \{ prev\.update_unacked = false; \}',
                        r'let builder = builder_storage\.insert\(PacketBuilder::new\('], 'poll_transmit')
    g.nat('unackedClearedOnSendShapeChecked', f'{CONN}::poll_transmit clears prev_crypto.update_unacked before the packet is built', poll_transmit_shape)

    def routine():
        b = ws(sc(fn_body(read(PB), 'new')))
        m = re.search(r'let sent_with_keys = conn\.spaces\[space_id\]\.sent_with_keys; if space_id == SpaceId::Data \{ if (sent_with_keys >= conn\.key_phase_size) \{ (?:debug!\([^;]*\); )?conn\.force_key_update\(\); \} \} else \{', b)
        if not m:
            raise TE('PacketBuilder::new: routine key update not recognised')
        if not re.search(r'self\.sent_with_keys \+= 1;', sc(fn_body(read('quinn-proto/src/connection/spaces.rs'), 'get_tx_number'))):
            raise TE('PacketSpace::get_tx_number no longer counts sent_with_keys')
        return tx(m.group(1), {'sent_with_keys': 'sent_with_keys', 'conn.key_phase_size': 'key_phase_size'})
    g.fn('kuRoutineUpdateDue', '(sent_with_keys key_phase_size : Nat) : Bool',
         f'{PB}::PacketBuilder::new routine key update test (Data space)', routine)

    def upgrade_shape():
        b = ws(sc(fn_body(read(CONN), 'upgrade_crypto')))
        return need(b, [r'if space == SpaceId::Data \{ self\.next_crypto = Some\( self\.crypto \.next_1rtt_keys\(\) \.expect\("[^"]*"\), \); \}',
                        r'self\.spaces\[space\]\.crypto = Some\(crypto\);'], 'upgrade_crypto')
    g.nat('nextKeysWithDataKeysShapeChecked', f'{CONN}::upgrade_crypto installs next_crypto whenever it installs the 1-RTT keys (decrypt_packet_body: next_crypto.unwrap())', upgrade_shape)

    def limit():
        b = ws(sc(fn_body(read(CONN), 'handle_packet')))
        m = re.search(r'Err\(None\) => \{ (?:debug!\([^;]*\); )?self\.authentication_failures \+= 1; let integrity_limit = self\.spaces\[self\.highest_space\] \.crypto \.as_ref\(\) \.unwrap\(\) \.packet \.local \.integrity_limit\(\); if (self\.authentication_failures > integrity_limit) \{ Err\(TransportError::AEAD_LIMIT_REACHED\("[^"]*"\)\.into\(\)\) \} else \{ return; \} \}', b)
        if not m:
            raise TE('handle_packet: authentication failure arm not recognised')
        need(b, [r'Err\(e\) if was_closed && !matches!\(e, ConnectionError::Reset\) => \{ (?:debug!\([^;]*\); )?Ok\(\(\)\) \}',
                 r'\| ConnectionError::TransportError\(TransportError \{ code: TransportErrorCode::AEAD_LIMIT_REACHED, \.\. \}\) => State::Drained,',
                 r'if !was_closed && self\.state\.is_closed\(\) \{ self\.close_common\(\); if !self\.state\.is_drained\(\) \{ self\.set_close_timer\(now\); \} \}'],
             'handle_packet (error tail)')
        return tx(m.group(1), {'self.authentication_failures': 'failures', 'integrity_limit': 'integrity_limit'})
    g.fn('kuIntegrityLimitExceeded', '(failures integrity_limit : Nat) : Bool',
         f'{CONN}::handle_packet AEAD_LIMIT_REACHED test after counting a failed authentication; error tail of handle_packet', limit)

    def authed_shape():
        b = ws(sc(fn_body(read(CONN), 'on_packet_authenticated')))
        return need(b, [r'^\{? ?self\.total_authed_packets \+= 1;',
                        r'space\.pending_acks\.insert_one\(packet, now\); if packet >= space\.rx_packet \{ space\.rx_packet = packet;'], 'on_packet_authenticated')
    g.nat('rxPacketAdvanceShapeChecked', f'{CONN}::on_packet_authenticated (total_authed_packets, rx_packet = max)', authed_shape)
