"""T1 anchors for C14 (token.rs, bloom_token_log.rs, token_memory_cache.rs, config/mod.rs) -> Gen/C14.lean

Constants (token type bytes, ip tags, nonce width, default lifetimes, cache/bloom defaults) and the
comparison operators of the guards the C14 theorems depend on: each guard is emitted as a Lean
`Bool` function whose operator is read from the Rust source, so `<` -> `<=` (or a dropped negation)
changes the generated definition and the kernel re-checks the theorems against it.
"""
import re
NAME = 'C14'

LEAN_OP = {'<': '<', '<=': '≤', '>': '>', '>=': '≥', '==': '=', '!=': '≠'}

def extend(g, api):
    read, strip_comments, const_value, fn_body, TranslateError = api.read, api.strip_comments, api.const_value, api.fn_body, api.TranslateError
    TOKEN, BLOOM, CACHE, CONFIG, LIB = ('quinn-proto/src/token.rs', 'quinn-proto/src/bloom_token_log.rs',
                                        'quinn-proto/src/token_memory_cache.rs', 'quinn-proto/src/config/mod.rs',
                                        'quinn-proto/src/lib.rs')

    def norm(s):
        return re.sub(r'\s+', ' ', strip_comments(s))

    def enum_value(variant):
        m = re.search(r'enum\s+TokenType\s*\{([^}]*)\}', read(TOKEN))
        if not m:
            raise TranslateError('enum TokenType not found')
        vs = dict(re.findall(r'(\w+)\s*=\s*(\d+)', m.group(1)))
        if sorted(vs) != ['Retry', 'Validation']:
            raise TranslateError(f'TokenType variants {sorted(vs)}')
        return int(vs[variant])

    def ip_tags():
        enc = norm(fn_body(read(TOKEN), 'encode_ip'))
        dec = norm(fn_body(read(TOKEN), 'decode_ip'))
        e = re.findall(r'IpAddr::(V\d)\(x\) => \{ buf\.put_u8\((\d+)\); buf\.put_slice\(&x\.octets\(\)\); \}', enc)
        d = re.findall(r'(\d+) => buf\.get\(\)\.ok\(\)\.map\(IpAddr::(V\d)\)', dec)
        if sorted(e) != sorted((v, t) for t, v in d) or len(e) != 2 or '_ => None' not in dec:
            raise TranslateError(f'encode_ip/decode_ip tags {e} {d}')
        return dict(e)

    def nonce_bytes():
        body = norm(fn_body(read(TOKEN), 'decode', after='impl Token'))
        m = re.search(r'raw_token_bytes\.len\(\)\.checked_sub\(size_of::<(\w+)>\(\)\)\?', body)
        if not m or 'split_at_checked(nonce_slice_start)?' not in body or 'from_le_bytes' not in body:
            raise TranslateError('Token::decode nonce split changed')
        if 'self.nonce.to_le_bytes()' not in norm(fn_body(read(TOKEN), 'encode', after='impl Token')):
            raise TranslateError('Token::encode nonce suffix changed')
        return {'u128': 16, 'u64': 8}[m.group(1)]

    def secs(expr):
        """Duration::from_secs(<integer product>) -> nanoseconds"""
        m = re.fullmatch(r'Duration::from_secs\(([\d\s\*_]+)\)', expr.strip())
        if not m:
            raise TranslateError(f'duration {expr!r}')
        return int(eval(m.group(1).replace('_', ''))) * 10**9

    def field_default(fn_after, field):
        text = read(CONFIG)
        i = text.find(fn_after)
        if i < 0:
            raise TranslateError(f'{fn_after} not found')
        m = re.search(r'\b' + field + r'\s*:\s*(Duration::from_secs\([^)]*\))', text[i:i + 1500])
        if not m:
            raise TranslateError(f'default of {field} not found')
        return secs(m.group(1))

    def guard(lean, anchor, file, fn, after, pattern, lhs, rhs, doc_vars='a b'):
        """emit `def lean (a b : Nat) : Bool := decide (a OP b)` with OP read from `pattern` (one group)"""
        def f():
            body = norm(fn_body(read(file), fn, after=after))
            ms = re.findall(pattern, body)
            if len(ms) != 1:
                raise TranslateError(f'{fn}: guard {pattern!r} found {len(ms)} times')
            op = ms[0] if isinstance(ms[0], str) else ms[0][0]
            if op not in LEAN_OP:
                raise TranslateError(f'{fn}: operator {op!r}')
            return f'fun {lhs} {rhs} => decide ({lhs} {LEAN_OP[op]} {rhs})'
        g.term(lean, 'Nat → Nat → Bool', anchor, f)

    # ---- token.rs constants
    g.nat('tokenTypeRetry', f'{TOKEN}::TokenType::Retry', lambda: enum_value('Retry'))
    g.nat('tokenTypeValidation', f'{TOKEN}::TokenType::Validation', lambda: enum_value('Validation'))
    g.nat('tokenIpTagV4', f'{TOKEN}::encode_ip/decode_ip V4 tag', lambda: ip_tags()['V4'])
    g.nat('tokenIpTagV6', f'{TOKEN}::encode_ip/decode_ip V6 tag', lambda: ip_tags()['V6'])
    g.nat('tokenNonceBytes', f'{TOKEN}::Token::decode size_of nonce', nonce_bytes)
    g.nat('maxCidSize', f'{LIB}::MAX_CID_SIZE', lambda: const_value(read(LIB), 'MAX_CID_SIZE'))
    # ---- config defaults
    g.nat('retryTokenLifetimeDefaultNs', f'{CONFIG}::ServerConfig::new retry_token_lifetime',
          lambda: field_default('impl ServerConfig', 'retry_token_lifetime'))
    g.nat('validationTokenLifetimeDefaultNs', f'{CONFIG}::ValidationTokenConfig::default lifetime',
          lambda: field_default('impl Default for ValidationTokenConfig', 'lifetime'))
    # ---- from_header guards
    for kind, cfgfield in (('Retry', r'server_config\.retry_token_lifetime'), ('Validation', r'server_config\.validation_token\.lifetime')):
        def f(kind=kind, cfgfield=cfgfield):
            body = norm(fn_body(read(TOKEN), 'from_header'))
            ms = re.findall(r'if issued \+ ' + cfgfield + r' (<=|<|>=|>) server_config\.time_source\.now\(\)', body)
            if len(ms) != 1:
                raise TranslateError(f'from_header {kind} expiry guard found {len(ms)} times')
            return f'fun expires now => decide (expires {LEAN_OP[ms[0]]} now)'
        g.term(f'token{kind}Expired', 'Nat → Nat → Bool', f'{TOKEN}::IncomingToken::from_header {kind} expiry guard', f)

    def addr_guards():
        body = norm(fn_body(read(TOKEN), 'from_header'))
        if len(re.findall(r'if address != remote_address \{ return Err\(InvalidRetryTokenError\); \}', body)) != 1:
            raise TranslateError('from_header: Retry address guard changed')
        if len(re.findall(r'if ip != remote_address\.ip\(\) \{ return Ok\(unvalidated\); \}', body)) != 1:
            raise TranslateError('from_header: Validation ip guard changed')
        if len(re.findall(r'\.check_and_insert\(retry\.nonce, issued, server_config\.validation_token\.lifetime\) \.is_err\(\) \{ return Ok\(unvalidated\); \}', body)) != 1:
            raise TranslateError('from_header: token log consultation changed')
        return 1
    g.nat('tokenFromHeaderShape', f'{TOKEN}::IncomingToken::from_header address/ip/log guards (shape check)', addr_guards)

    # ---- bloom_token_log.rs
    g.nat('bloomDefaultMaxBytes', f'{BLOOM}::DEFAULT_MAX_BYTES', lambda: const_value(read(BLOOM), 'DEFAULT_MAX_BYTES'))
    g.nat('bloomDefaultExpectedHits', f'{BLOOM}::DEFAULT_EXPECTED_HITS', lambda: const_value(read(BLOOM), 'DEFAULT_EXPECTED_HITS'))

    def bloom_arms():
        body = norm(fn_body(read(BLOOM), 'check_and_insert', after='impl TokenLog for BloomTokenLog'))
        m = re.search(r'match periods_forward \{ 0 => &mut state\.filter_1, 1 => &mut state\.filter_2, 2 => \{ state\.filter_1 = take\(&mut state\.filter_2\); state\.period_1_start \+= lifetime; &mut state\.filter_2 \} _ => \{ state\.filter_1 = Filter::default\(\); state\.filter_2 = Filter::default\(\); state\.period_1_start = expires_at; &mut state\.filter_1 \} \}', body)
        if not m:
            raise TranslateError('BloomTokenLog::check_and_insert: period match changed')
        if 'let expires_at = issued + lifetime;' not in body or 'duration.as_nanos() / lifetime.as_nanos()' not in body \
                or '.duration_since(state.period_1_start)' not in body or 'filter.check_and_insert(nonce as u64, &state.config)' not in body:
            raise TranslateError('BloomTokenLog::check_and_insert: period arithmetic changed')
        return 3
    g.nat('bloomTurnOverBoth', f'{BLOOM}::BloomTokenLog::check_and_insert periods_forward arms (first value of the catch-all)', bloom_arms)
    g.nat('bloomFingerprintBits', f'{BLOOM}::check_and_insert nonce as u64',
          lambda: {'u64': 64, 'u32': 32, 'u128': 128}[re.search(r'filter\.check_and_insert\(nonce as (\w+),', read(BLOOM)).group(1)])
    guard('bloomSetWithinBudget', f'{BLOOM}::Filter::check_and_insert set budget guard', BLOOM, 'check_and_insert', 'impl Filter',
          r'if hset\.capacity\(\) \* size_of::<u64>\(\) (<=|<|>=|>) config\.filter_max_bytes \{ return Ok\(\(\)\); \}', 'capBytes', 'budget')
    g.nat('bloomFilterBudgetSplit', f'{BLOOM}::BloomTokenLog::new filter_max_bytes = max_bytes / N',
          lambda: int(re.search(r'filter_max_bytes: max_bytes / (\d+),', read(BLOOM)).group(1)))

    # ---- token_memory_cache.rs
    def cache_default(i):
        m = re.search(r'impl Default for TokenMemoryCache \{\s*fn default\(\) -> Self \{\s*Self::new\((\d+), (\d+)\)', read(CACHE))
        if not m:
            raise TranslateError('TokenMemoryCache::default changed')
        return int(m.group(i))
    g.nat('tokenCacheDefaultServerNames', f'{CACHE}::TokenMemoryCache::default max_server_names', lambda: cache_default(1))
    g.nat('tokenCacheDefaultTokensPerServer', f'{CACHE}::TokenMemoryCache::default max_tokens_per_server', lambda: cache_default(2))
    guard('tokenCacheQueueFull', f'{CACHE}::State::store queue bound guard', CACHE, 'store', 'impl State',
          r'if tokens\.len\(\) (<=|<|>=|>|==) self\.max_tokens_per_server \{', 'len', 'maxTokens')
    guard('tokenCacheNamesFull', f'{CACHE}::State::store name bound guard', CACHE, 'store', 'impl State',
          r'if self\.lru\.len\(\) (<=|<|>=|>|==) self\.max_server_names \{', 'len', 'maxNames')
