"""T1 anchors for the endpoint routing tables (C09) -> Gen/C09Consts.lean

Besides the numeric constants, three *shape* anchors pin the statements of `endpoint.rs` that the
hand-written model mirrors and that the two repaired defects (F5, connect-leak) depend on; when one of
them is edited (e.g. the ownership check in `ConnectionIndex::remove` is dropped again) the anchor no
longer matches, the generated definition does not elaborate and Props/C09 stops building.
"""
import re
NAME = 'C09Consts'

def extend(g, api):
    read, strip_comments, const_value, fn_body, TranslateError = api.read, api.strip_comments, api.const_value, api.fn_body, api.TranslateError

    def squash(s):
        return re.sub(r'\s+', '', strip_comments(s))

    def lib_const(name):
        return const_value(read('quinn-proto/src/lib.rs'), name)

    def exhausted():
        """cids_exhausted: `cid_len == 0 || cid_len > A`, bits = cid_len * B, reserve = 1 << (bits - C), len > space - reserve"""
        b = squash(fn_body(read('quinn-proto/src/endpoint.rs'), 'cids_exhausted'))
        m = re.search(r'ifcid_len==0\|\|cid_len>(\d+)\{returnfalse;\}', b)
        m2 = re.search(r'letbits=\(cid_len\*(\d+)\)asu32;letspace=1u64<<bits;letreserve=1u64<<\(bits-(\d+)\);', b)
        m3 = re.search(r'len>\(space-reserve\)\}?$', b)
        if not (m and m2 and m3):
            raise TranslateError('cids_exhausted: shape changed')
        return int(m.group(1)), int(m2.group(1)), int(m2.group(2))

    def remove_shape():
        """ConnectionIndex::remove drops the address-tuple entries only when they map to the removed handle (F5 fixed)"""
        b = squash(fn_body(read('quinn-proto/src/endpoint.rs'), 'remove', after='impl ConnectionIndex'))
        want = ('ifconn.side.is_server(){self.remove_initial(conn.init_cid);}'
                'forcidinconn.loc_cids.values(){self.connection_ids.remove(cid);}'
                'ifself.incoming_connection_remotes.get(&conn.addresses)==Some(&ch){'
                'self.incoming_connection_remotes.remove(&conn.addresses);}'
                'ifself.outgoing_connection_remotes.get(&conn.addresses.remote)==Some(&ch){'
                'self.outgoing_connection_remotes.remove(&conn.addresses.remote);}'
                'ifletSome((remote,token))=conn.reset_token{self.connection_reset_tokens.remove(remote,token);}')
        if want not in b:
            raise TranslateError('ConnectionIndex::remove: statement sequence changed')
        sig = squash(read('quinn-proto/src/endpoint.rs'))
        if 'fnremove(&mutself,ch:ConnectionHandle,conn:&ConnectionMeta)' not in sig or 'self.index.remove(ch,&conn);' not in sig:
            raise TranslateError('ConnectionIndex::remove: signature / call site changed')
        return 1

    def get_shape():
        """order of the routing cascade in ConnectionIndex::get"""
        b = squash(fn_body(read('quinn-proto/src/endpoint.rs'), 'get', after='impl ConnectionIndex'))
        order = ['if!datagram.dst_cid().is_empty(){ifletSome(&ch)=self.connection_ids.get(',
                 'ifdatagram.is_initial()||datagram.is_0rtt(){ifletSome(&ch)=self.connection_ids_initial.get(',
                 'ifdatagram.dst_cid().is_empty(){ifletSome(&ch)=self.incoming_connection_remotes.get(addresses)',
                 'self.outgoing_connection_remotes.get(&addresses.remote)',
                 'ifdata.len()<RESET_TOKEN_SIZE{returnNone;}',
                 'self.connection_reset_tokens.get(addresses.remote,&data[data.len()-RESET_TOKEN_SIZE..])']
        pos = [b.find(x) for x in order]
        if -1 in pos or pos != sorted(pos):
            raise TranslateError('ConnectionIndex::get: cascade changed')
        return 1

    def connect_shape():
        """Endpoint::connect unregisters the local CID (`index.retire(loc_cid)`) when the TLS `start_session` fails"""
        b = squash(fn_body(read('quinn-proto/src/endpoint.rs'), 'connect'))
        a = b.find('letch=ConnectionHandle(self.connections.vacant_key());letloc_cid=self.new_cid(ch);')
        c = b.find('.start_session(config.version,server_name,&params){Ok(tls)=>tls,Err(e)=>{self.index.retire(loc_cid);returnErr(e);}};')
        d = b.find('self.add_connection(')
        if a < 0 or c < 0 or d < 0 or not (a < c < d) or 'start_session(config.version,server_name,&params)?' in b:
            raise TranslateError('Endpoint::connect: statement order / error path changed')
        return 1

    g.nat('cidxResetTokenSize', 'quinn-proto/src/lib.rs::RESET_TOKEN_SIZE', lambda: lib_const('RESET_TOKEN_SIZE'))
    g.nat('cidxMaxCidSize', 'quinn-proto/src/lib.rs::MAX_CID_SIZE', lambda: lib_const('MAX_CID_SIZE'))
    g.nat('cidxLocCidCount', 'quinn-proto/src/lib.rs::LOC_CID_COUNT', lambda: lib_const('LOC_CID_COUNT'))
    g.nat('cidxExhaustedMaxLen', 'quinn-proto/src/endpoint.rs::Endpoint::cids_exhausted cid_len bound', lambda: exhausted()[0])
    g.nat('cidxExhaustedBitsPerByte', 'quinn-proto/src/endpoint.rs::Endpoint::cids_exhausted bits per byte', lambda: exhausted()[1])
    g.nat('cidxExhaustedReserveShift', 'quinn-proto/src/endpoint.rs::Endpoint::cids_exhausted reserve shift', lambda: exhausted()[2])
    g.nat('cidxRemoveChecksOwner', 'quinn-proto/src/endpoint.rs::ConnectionIndex::remove statement sequence', remove_shape)
    g.nat('cidxGetCascade', 'quinn-proto/src/endpoint.rs::ConnectionIndex::get cascade order', get_shape)
    g.nat('cidxConnectRetiresCidOnTlsError', 'quinn-proto/src/endpoint.rs::Endpoint::connect statement order', connect_shape)
