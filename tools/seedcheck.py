#!/usr/bin/env python3
"""seedcheck.py <seed_out_dir> <name> <Cxx> [Cyy ...] [--tier thorough]
Confirm a seeded breaking change (compiles, suite passes, demo fails with / passes without) in a scratch
worktree, then run the named checks against it in /repo (patch applied, then undone) and store everything
under /verif/seeded/<name>/."""
import json, os, re, shutil, subprocess, sys, time
out, name = sys.argv[1], sys.argv[2]
args = sys.argv[3:]
tier = 'quick'
if '--tier' in args:
    i = args.index('--tier'); tier = args[i + 1]; args = args[:i] + args[i + 2:]
props = args
skip_confirm = os.environ.get('SEED_SKIP_CONFIRM') == '1'
dest = f'/verif/seeded/{name}'
os.makedirs(dest, exist_ok=True)
def sh(cmd, cwd=None, timeout=3600):
    p = subprocess.run(cmd, shell=True, cwd=cwd, text=True, stdout=subprocess.PIPE, stderr=subprocess.STDOUT, timeout=timeout)
    return p.returncode, p.stdout
meta = json.load(open(f'{out}/meta.json')) if os.path.exists(f'{out}/meta.json') else {}
for f in ('patch.diff', 'demo.diff', 'README.md', 'demo_cmd.txt'):
    if os.path.exists(f'{out}/{f}'):
        shutil.copy(f'{out}/{f}', f'{dest}/{f}')
res = dict(confirmed={}, checks={})
if os.path.exists(f'{dest}/meta.json'):
    _old = json.load(open(f'{dest}/meta.json')).get('verification', {})
    # results of checks not re-run now are kept (a re-run replaces the earlier result of the same check)
    res['checks'] = dict(_old.get('checks', {}))
    if skip_confirm:
        res['confirmed'] = _old.get('confirmed', {})
if not skip_confirm:
    wt = f'/tmp/sv-{name}'
    sh(f'git -C /repo worktree remove --force {wt}')
    rc, o = sh(f'git -C /repo worktree add -q {wt} HEAD')
    try:
        rc, o = sh(f'git apply {out}/patch.diff', cwd=wt); res['confirmed']['patch_applies'] = rc == 0
        rc, o = sh('cargo build --offline -p quinn-proto -p quinn -p quinn-udp 2>&1 | tail -3', cwd=wt); res['confirmed']['builds'] = rc == 0 and not re.search(r'(^|\n)error(:|\[)', o)
        rc, o = sh('cargo nextest run --workspace --offline --no-fail-fast 2>&1 | tail -4', cwd=wt)
        res['confirmed']['suite_with_patch'] = o.strip().splitlines()[-1] if o.strip() else ''
        res['confirmed']['suite_passes'] = ('passed' in o and 'failed' not in o.split('Summary')[-1])
        demo_cmd = meta.get('demo_cmd') or (open(f'{out}/demo_cmd.txt').read().strip().splitlines()[-1] if os.path.exists(f'{out}/demo_cmd.txt') else '')
        demo_cmd = re.sub(r'^\s*cd\s+\S+\s*&&\s*', '', demo_cmd)   # run it in OUR scratch worktree, not the author's
        demo_cmd = demo_cmd.replace('cargo test', 'cargo test --offline') if '--offline' not in demo_cmd else demo_cmd
        if os.path.exists(f'{out}/demo.diff') and demo_cmd:
            rc, o = sh(f'git apply {out}/demo.diff', cwd=wt); res['confirmed']['demo_applies'] = rc == 0
            rc1, o1 = sh(demo_cmd + ' 2>&1 | tail -15', cwd=wt)
            res['confirmed']['demo_fails_with_patch'] = ('FAILED' in o1 or 'failed' in o1 or 'panicked' in o1)
            sh(f'git apply -R {out}/patch.diff', cwd=wt)
            rc2, o2 = sh(demo_cmd + ' 2>&1 | tail -8', cwd=wt)
            res['confirmed']['demo_passes_without_patch'] = ('test result: ok' in o2 or ' passed' in o2) and 'FAILED' not in o2
            res['confirmed']['demo_cmd'] = demo_cmd
            res['confirmed']['demo_tail_with_patch'] = o1[-600:]
    finally:
        sh(f'git -C /repo worktree remove --force {wt}')
        shutil.rmtree(wt, ignore_errors=True)
# run checks against the change
rc, o = sh('git -C /repo status --short | grep -v "^??" | head -3')
if o.strip():
    print('REFUSING: /repo has uncommitted changes:', o); sys.exit(2)
rc, o = sh(f'git -C /repo apply {out}/patch.diff')
if rc != 0:
    print('patch does not apply to /repo', o); sys.exit(2)
# the evidence files describe the UNCHANGED tree: keep them aside while the checks run against the seeded change
evsave = f'/verif/.cache/evidence-save-{os.getpid()}'
shutil.rmtree(evsave, ignore_errors=True)
shutil.copytree('/verif/evidence', evsave)
try:
    for p in props:
        t0 = time.time()
        rc, o = sh(f'./check {p} {tier}', cwd='/verif', timeout=7200)
        lines = [l for l in o.splitlines() if l.startswith('VIOLATION') or l.startswith('INFRA') or l.startswith(p + ' ')]
        res['checks'][p] = dict(exit=rc, wall=round(time.time() - t0, 1), lines=lines[:6])
        # keep the replay of the first violation
        for l in lines:
            if l.startswith('VIOLATION') and 'replay=' in l:
                rp = l.split('replay=')[1].split()[0]
                if os.path.exists(rp):
                    shutil.copy(rp, f'{dest}/replay-{p}.json')
                break
finally:
    sh('git -C /repo checkout -- .')
    for f in os.listdir(evsave):
        shutil.copy(os.path.join(evsave, f), os.path.join('/verif/evidence', f))
    shutil.rmtree(evsave, ignore_errors=True)
meta.update(dict(name=name, verification=res, tier=tier, ran=time.strftime('%Y-%m-%d %H:%M')))
json.dump(meta, open(f'{dest}/meta.json', 'w'), indent=1)
print(json.dumps(res, indent=1))
