#!/usr/bin/env python3
"""Regenerate MANIFEST.json from tools/props.py (claimed checks) and tools/manifest_meta.py."""
import json, os, sys
ROOT = os.path.abspath(os.path.join(os.path.dirname(__file__), '..'))
sys.path.insert(0, os.path.join(ROOT, 'tools'))
import props as P, manifest_meta as M
import glob, importlib.util
for _p in sorted(glob.glob(os.path.join(ROOT, 'tools', 'claims.d', '*.py'))):
    _s = importlib.util.spec_from_file_location('claims_' + os.path.basename(_p)[:-3], _p)
    _m = importlib.util.module_from_spec(_s); _s.loader.exec_module(_m)
    M.CLAIMS.update(getattr(_m, 'CLAIMS', {}))
    M.HOOK_COMMITS += getattr(_m, 'HOOK_COMMITS', [])
    for _k, _v in getattr(_m, 'ADD', {}).items():
        # growth addenda: appended to the claim of an already claimed property
        if _k in M.CLAIMS:
            M.CLAIMS[_k] = dict(M.CLAIMS[_k])
            M.CLAIMS[_k]['text'] = M.CLAIMS[_k]['text'].rstrip() + ' ' + _v.get('text', '')
            M.CLAIMS[_k]['note'] = (_v.get('note', '') + ' ' + M.CLAIMS[_k]['note']).strip()
            if _v.get('technique'):
                M.CLAIMS[_k]['technique'] = M.CLAIMS[_k]['technique'] + ' + ' + _v['technique']

ids = [json.loads(l)['id'] for l in open(os.path.join(ROOT, 'properties.jsonl'))]
checks, na = [], []
for pid in ids:
    if pid in P.PROPS and pid in M.CLAIMS:
        c = M.CLAIMS[pid]
        checks.append(dict(
            property_id=pid,
            quick_cmd=f'./check {pid} quick',
            thorough_cmd=f'./check {pid} thorough',
            evidence_file=f'/verif/evidence/{pid}.json',
            replay_cmd_template='cat {path}',
            engine='lean4-proof+correspondence',
            level_claimed=dict(category='proof', text=c['text'], design_ref=c['ref']),
            level_note=c['note'],
            technique=c['technique'],
        ))
    else:
        na.append(dict(property_id=pid, reason=M.NOT_YET.get(pid, 'check not built yet in this session; design in DESIGN.md section 5')))
man = dict(
    version=1,
    setup_cmd='./setup.sh',
    hooks=dict(
        guard='quinn_rs_quinn_verif',
        enable='cargo feature: harness/Cargo.toml depends on /repo/quinn-proto with features=["quinn_rs_quinn_verif"] (and quinn/quinn-udp likewise where hooked)',
        baseline_off_cmd='cd /repo && cargo nextest run --workspace --no-fail-fast --tool-config-file pb:/w/lib/nextest.toml --profile pb --test-threads 8 --offline || cargo test --workspace --no-fail-fast --offline',
        source_commits=M.HOOK_COMMITS,
        add_only=True,
    ),
    engines=[dict(name='lean4-proof+correspondence', path='/verif/lean + /verif/harness + /verif/tools/check.py',
                  serves_properties=[c['property_id'] for c in checks],
                  kind_free_text='Lean 4 theorems over hand-written executable models (lake build + #print axioms audit); models tied to /repo on every run by T1 (constants/guards regenerated from the Rust source) and T2 (differential execution of the real components against the native Lean driver, plus spec oracles on the implementation outputs)')],
    checks=checks,
    notes='See DESIGN.md. known_findings.txt lists recorded defects; replays/ is written by failing runs.',
    not_applicable=na,
)
json.dump(man, open(os.path.join(ROOT, 'MANIFEST.json'), 'w'), indent=1)
print(f'{len(checks)} checks, {len(na)} not claimed')
