import QuinnModel.Util
import QuinnModel.Gen.Streams
import QuinnModel.Wire.VarInt
/-
Model of the sending half of a stream:
  quinn-proto/src/connection/streams/send.rs   (`Send`, `SendState`)
  quinn-proto/src/connection/send_buffer.rs    (`SendBuffer` — offsets only, no data content)
  quinn-proto/src/range_set/btree_range_set.rs (`RangeSet::{insert,pop_min,min}` as a sorted list)
`none` is a panic of the Rust code (checked arithmetic in a debug build, `unwrap`, `assert!`).
-/
namespace QM.Streams

/-- u64 checked subtraction (`a - b` panics in a checked build when `b > a`) -/
def subU (a b : Nat) : Option Nat := if b ≤ a then some (a - b) else none

/-- u64 checked addition -/
def addU (a b : Nat) : Option Nat := if a + b < 2 ^ 64 then some (a + b) else none

/-- `u64::saturating_add` -/
def satAdd (a b : Nat) : Nat := Nat.min (a + b) (2 ^ 64 - 1)

/-! ### RangeSet (BTreeMap start -> end) as a list of ranges sorted by start -/

abbrev RangeSet := List (Nat × Nat)

/-- `RangeSet::insert` for a non-empty range `a..b`: ranges that overlap or touch are merged -/
def RangeSet.insertNE : RangeSet → Nat → Nat → RangeSet
  | [], a, b => [(a, b)]
  | (s, e) :: r, a, b =>
    if e < a then (s, e) :: insertNE r a b
    else if b < s then (a, b) :: (s, e) :: r
    else insertNE r (Nat.min s a) (Nat.max e b)

/-- `RangeSet::insert` (empty ranges are ignored) -/
def RangeSet.insert (rs : RangeSet) (a b : Nat) : RangeSet :=
  if a < b then RangeSet.insertNE rs a b else rs

/-- total length of the ranges -/
def RangeSet.total : RangeSet → Nat
  | [] => 0
  | (s, e) :: r => (e - s) + total r

/-! ### SendBuffer -/

structure SendBuf where
  /-- first offset not yet written by the application -/
  offset : Nat := 0
  /-- `unacked_len`: bytes queued and not yet discarded; the buffer starts at `offset - unackedLen` -/
  unackedLen : Nat := 0
  /-- first offset that was never sent -/
  unsent : Nat := 0
  acks : RangeSet := []
  retransmits : RangeSet := []
deriving Repr, DecidableEq

/-- `SendBuffer::write` of `n` bytes -/
def SendBuf.write (b : SendBuf) (n : Nat) : SendBuf :=
  { b with unackedLen := b.unackedLen + n, offset := b.offset + n }

/-- the `while self.acks.min() == Some(self.offset - self.unacked_len)` loop of `SendBuffer::ack` -/
def SendBuf.ackLoop : Nat → SendBuf → Option SendBuf
  | 0, b => some b
  | fuel + 1, b =>
    match subU b.offset b.unackedLen with
    | none => none
    | some base =>
      match b.acks with
      | [] => some b
      | (s, e) :: rest =>
        if s = base then
          -- `self.unacked_len -= to_advance` (and the segment loop's `expect`) panic when the
          -- acknowledged prefix is longer than what is buffered
          match subU b.unackedLen (e - s) with
          | none => none
          | some ul => ackLoop fuel { b with acks := rest, unackedLen := ul }
        else some b

/-- `SendBuffer::ack(range)` -/
def SendBuf.ack (b : SendBuf) (a e : Nat) : Option SendBuf :=
  match subU b.offset b.unackedLen with
  | none => none
  | some base =>
    let a' := Nat.max base a
    let e' := Nat.max base e
    let b1 := { b with acks := RangeSet.insert b.acks a' e' }
    SendBuf.ackLoop (b1.acks.length + 1) b1

/-- `SendBuffer::retransmit(range)` (`debug_assert!(range.end <= self.unsent)`) -/
def SendBuf.retransmit (b : SendBuf) (a e : Nat) : Option SendBuf :=
  if e ≤ b.unsent then some { b with retransmits := RangeSet.insert b.retransmits a e } else none

/-- `SendBuffer::retransmit_all_for_0rtt` (`debug_assert_eq!(self.offset, self.unacked_len)`) -/
def SendBuf.retransmitAllFor0rtt (b : SendBuf) : Option SendBuf :=
  if b.offset = b.unackedLen then some { b with unsent := 0 } else none

def SendBuf.isFullyAcked (b : SendBuf) : Bool := b.unackedLen == 0

def SendBuf.hasUnsentData (b : SendBuf) : Bool := b.unsent != b.offset || !b.retransmits.isEmpty

/-- `SendBuffer::unacked` -/
def SendBuf.unacked (b : SendBuf) : Option Nat := subU b.unackedLen (RangeSet.total b.acks)

/-- space taken by an offset field: "Offset 0 requires no space" -/
def sizeNZ (x : Nat) : Option Nat := if x ≠ 0 then VarInt.size x else some 0

/-- `SendBuffer::poll_transmit(max_len)`: (start, end, encode_length, new buffer).
    `maxLen ≥ 17` at the only call site (loop guard of `write_stream_frames`), so the `usize`
    subtractions of at most 8 + 8 cannot underflow; `none` = `VarInt::size` of a value ≥ 2^62 or
    `offset - unsent` underflow. -/
def SendBuf.pollTransmit (b : SendBuf) (maxLen : Nat) : Option (Nat × Nat × Bool × SendBuf) :=
  match b.retransmits with
  | (s, e) :: rest =>
    match sizeNZ s with
    | none => none
    | some sz =>
      let m1 := maxLen - sz
      let enc := decide (e - s < m1)
      let m2 := if enc then m1 - 8 else m1
      let end_ := Nat.min e (m2 + s)
      let r' := if end_ ≠ e then RangeSet.insert rest end_ e else rest
      some (s, end_, enc, { b with retransmits := r' })
  | [] =>
    match sizeNZ b.unsent with
    | none => none
    | some sz =>
      match subU b.offset b.unsent with
      | none => none
      | some left =>
        let m1 := maxLen - sz
        let enc := decide (left < m1)
        let m2 := if enc then m1 - 8 else m1
        let end_ := Nat.min b.offset (m2 + b.unsent)
        some (b.unsent, end_, enc, { b with unsent := end_ })

/-! ### Send -/

inductive SendState
  | ready
  | dataSent (finishAcked : Bool)
  | resetSent
deriving Repr, DecidableEq

structure Send where
  maxData : Nat
  state : SendState := .ready
  pending : SendBuf := {}
  priority : Int := 0
  finPending : Bool := false
  connectionBlocked : Bool := false
  stopReason : Option Nat := none
deriving Repr, DecidableEq

/-- `Send::new(max_data)` -/
def Send.new (maxData : Nat) : Send := { maxData }

def Send.isReset (s : Send) : Bool := s.state == .resetSent
def Send.isWritable (s : Send) : Bool := s.state == .ready
def Send.offset (s : Send) : Nat := s.pending.offset
def Send.isPending (s : Send) : Bool := s.pending.hasUnsentData || s.finPending

inductive WriteErr
  | blocked
  | stopped (code : Nat)
  | closedStream
deriving Repr, DecidableEq

/-- `Send::write(source, limit)` for a `ByteSlice` source of `n` bytes: bytes accepted and the new
    stream; outer `none` = panic (`self.max_data - self.pending.offset()` underflow). -/
def Send.write (s : Send) (n limit : Nat) : Option (Except WriteErr (Nat × Send)) :=
  if !s.isWritable then some (.error .closedStream)
  else match s.stopReason with
  | some c => some (.error (.stopped c))
  | none =>
    if s.pending.offset ≤ s.maxData then
      let budget := Gen.sendBudget s.maxData s.pending.offset
      if budget = 0 then some (.error .blocked)
      else
        let k := Nat.min n (Nat.min limit budget)
        some (.ok (k, { s with pending := s.pending.write k }))
    else none

/-- the first test `SendStream::write_source` makes on the half: a finished or reset half reports a
    closed stream before the connection-level limit is looked at -/
def Send.closedFirst (s : Send) : Bool := Gen.writeClosedFirst && !s.isWritable

/-- the test `SendStream::write_source` makes before looking at the connection-level limit: a
    writable half the peer stopped reports the stop -/
def Send.stoppedFirst (s : Send) : Option Nat :=
  if Gen.writeStoppedFirst && s.isWritable then s.stopReason else none

/-- `let finished = matches!(stream.state, SendState::DataSent { finish_acked: false })` in the body of
    `retransmit_all_for_0rtt`: the FIN of such a stream is queued again (it may have gone out in 0-RTT; an
    empty stream has no data to carry it) -/
def Send.rtx0Finished (s : Send) : Bool := Gen.rtx0RequeuesFin && s.state == .dataSent false

/-- `Send::finish` -/
def Send.finish (s : Send) : Except WriteErr Send :=
  match s.stopReason with
  | some c => .error (.stopped c)
  | none =>
    if s.state = .ready then .ok { s with state := .dataSent false, finPending := true }
    else .error .closedStream

/-- `Send::reset` -/
def Send.reset (s : Send) : Send :=
  match s.state with
  | .dataSent _ | .ready => { s with state := .resetSent }
  | .resetSent => s

/-- `Send::try_stop` -/
def Send.tryStop (s : Send) (code : Nat) : Send × Bool :=
  match s.stopReason with
  | none => ({ s with stopReason := some code }, true)
  | some _ => (s, false)

/-- `Send::ack(frame)`: new stream and "finished and fully acknowledged" -/
def Send.ack (s : Send) (a e : Nat) (fin : Bool) : Option (Send × Bool) :=
  match s.pending.ack a e with
  | none => none
  | some p =>
    match s.state with
    | .dataSent fa =>
      let fa' := fa || fin
      some ({ s with pending := p, state := .dataSent fa' }, fa' && p.isFullyAcked)
    | _ => some ({ s with pending := p }, false)

/-- `Send::increase_max_data(offset)`: new stream and "was blocked" -/
def Send.increaseMaxData (s : Send) (offset : Nat) : Send × Bool :=
  if offset ≤ s.maxData || s.state != .ready then (s, false)
  else ({ s with maxData := offset }, s.pending.offset == s.maxData)

end QM.Streams
