import QuinnModel.Streams.Recv
/-
Model of quinn-proto/src/connection/streams/state.rs (`StreamsState`) and of the application-facing
wrappers in streams/mod.rs (`Streams`, `SendStream`, `RecvStream`, `PendingStreamsQueue`) and
recv.rs (`Chunks`).  One Lean function per Rust method, same branches and order of effects.
`none` = the Rust code panics.

Not represented: `free_recv` (recycled `Recv` boxes are re-initialised to exactly `Recv::new`, so a
`Some(StreamRecv::Free(_))` map entry is the same as `None`), unordered reads, data content.
-/
namespace QM.Streams

inductive Side | client | server
deriving Repr, DecidableEq

inductive Dir | bi | uni
deriving Repr, DecidableEq

def Side.not : Side → Side
  | .client => .server
  | .server => .client

def Side.toNat : Side → Nat
  | .client => 0
  | .server => 1

def Dir.toNat : Dir → Nat
  | .bi => 0
  | .uni => 1

/-! ### StreamId (a u62) -/

/-- `StreamId::new(initiator, dir, index)` -/
def sidNew (initiator : Side) (dir : Dir) (index : Nat) : Nat :=
  index * 4 + dir.toNat * 2 + initiator.toNat

def sidInitiator (id : Nat) : Side := if id % 2 = 0 then .client else .server
def sidDir (id : Nat) : Dir := if id / 2 % 2 = 0 then .bi else .uni
def sidIndex (id : Nat) : Nat := id / 4

/-! ### per-direction pairs `[T; 2]` -/

structure Two (α : Type) where
  bi : α
  uni : α
deriving Repr, DecidableEq

def Two.get {α} (t : Two α) : Dir → α
  | .bi => t.bi
  | .uni => t.uni

def Two.set {α} (t : Two α) (d : Dir) (v : α) : Two α :=
  match d with
  | .bi => { t with bi := v }
  | .uni => { t with uni := v }

/-! ### hash maps as association lists (keys unique; printed sorted) -/

abbrev Map (α : Type) := List (Nat × α)

def Map.find? {α} : Map α → Nat → Option α
  | [], _ => none
  | (k', v) :: r, k => if k' = k then some v else Map.find? r k

def Map.contains {α} (m : Map α) (k : Nat) : Bool := (m.find? k).isSome

/-- replace the value of an existing key -/
def Map.set {α} : Map α → Nat → α → Map α
  | [], _, _ => []
  | (k', v') :: r, k, v => if k' = k then (k, v) :: r else (k', v') :: Map.set r k v

def Map.erase {α} : Map α → Nat → Map α
  | [], _ => []
  | (k', v') :: r, k => if k' = k then Map.erase r k else (k', v') :: Map.erase r k

/-- `assert!(map.insert(k, v).is_none())` -/
def Map.insertNew {α} (m : Map α) (k : Nat) (v : α) : Option (Map α) :=
  if m.contains k then none else some ((k, v) :: m)

/-! ### events, pending-stream queue, queued control frames -/

inductive Event
  | opened (dir : Dir)
  | readable (id : Nat)
  | writable (id : Nat)
  | finished (id : Nat)
  | stopped (id : Nat) (code : Nat)
  | available (dir : Dir)
deriving Repr, DecidableEq

/-- `PendingStream`; `rc` = number of `push_pending` calls before this one + 1 (`u64::MAX - recency`) -/
structure PStream where
  priority : Int
  rc : Nat
  id : Nat
deriving Repr, DecidableEq

/-- derived `Ord`: higher priority first, then higher recency (= lower `rc`) -/
def PStream.before (a b : PStream) : Bool :=
  a.priority > b.priority || (a.priority == b.priority && a.rc < b.rc)

structure PQueue where
  streams : List PStream := []
  next : Option PStream := none
  rc : Nat := 0
deriving Repr, DecidableEq

def PQueue.pushPending (q : PQueue) (id : Nat) (priority : Int) : PQueue :=
  { q with rc := q.rc + 1, streams := { priority, rc := q.rc + 1, id } :: q.streams }

def PQueue.reinsertPending (q : PQueue) (id : Nat) (priority : Int) : Option PQueue :=
  match q.next with
  | some _ => none
  | none => some { q with next := some { priority, rc := q.rc, id } }

/-- the maximum of the heap -/
def pqBest : List PStream → Option PStream
  | [] => none
  | p :: r => match pqBest r with
    | none => some p
    | some b => if p.before b then some p else some b

def pqRemove : List PStream → PStream → List PStream
  | [], _ => []
  | p :: r, x => if p = x then r else p :: pqRemove r x

def PQueue.pop (q : PQueue) : Option (PStream × PQueue) :=
  match q.next with
  | some p => some (p, { q with next := none })
  | none => match pqBest q.streams with
    | none => none
    | some p => some (p, { q with streams := pqRemove q.streams p })

def PQueue.clear (q : PQueue) : PQueue := { q with next := none, streams := [] }

/-- heap content in pop order (for printing) -/
def pqSorted : Nat → List PStream → List PStream
  | 0, _ => []
  | fuel + 1, l => match pqBest l with
    | none => []
    | some p => p :: pqSorted fuel (pqRemove l p)

/-- `Retransmits` of the data space, stream-related fields (owned by `Connection`) -/
structure Rtx where
  maxData : Bool := false
  maxStreamId : Two Bool := ⟨false, false⟩
  streamsBlocked : Two Bool := ⟨false, false⟩
  resetStream : List (Nat × Nat) := []
  stopSending : List (Nat × Nat) := []
  /-- a set: sorted, no duplicates -/
  maxStreamData : List Nat := []
deriving Repr, DecidableEq

def sortedInsert : List Nat → Nat → List Nat
  | [], x => [x]
  | y :: r, x => if x < y then x :: y :: r else if x = y then y :: r else y :: sortedInsert r x

/-! ### StreamsState -/

structure State where
  side : Side
  send : Map (Option Send) := []
  recv : Map (Option Recv) := []
  next : Two Nat := ⟨0, 0⟩
  max : Two Nat := ⟨0, 0⟩
  maxRemote : Two Nat
  sentMaxRemote : Two Nat
  allocatedRemoteCount : Two Nat
  maxConcurrentRemoteCount : Two Nat
  flowControlAdjusted : Bool := false
  nextRemote : Two Nat := ⟨0, 0⟩
  opened : Two Bool := ⟨false, false⟩
  nextReportedRemote : Two Nat := ⟨0, 0⟩
  sendStreams : Nat := 0
  pending : PQueue := {}
  events : List Event := []
  connectionBlocked : List Nat := []
  maxData : Nat := 0
  receiveWindow : Nat
  localMaxData : Nat
  sentMaxData : Nat
  dataSent : Nat := 0
  dataRecvd : Nat := 0
  unackedData : Nat := 0
  sendWindow : Nat
  streamReceiveWindow : Nat
  initialMaxStreamDataUni : Nat := 0
  initialMaxStreamDataBidiLocal : Nat := 0
  initialMaxStreamDataBidiRemote : Nat := 0
  receiveWindowShrinkDebt : Nat := 0
  streamsBlocked : Two Bool := ⟨false, false⟩
  /-- `Connection.spaces[Data].pending` (stream-related part); not a field of `StreamsState` -/
  rtx : Rtx := {}
  /-- `Connection.state.is_closed()`; not a field of `StreamsState` -/
  connClosed : Bool := false
deriving Repr, DecidableEq

/-- `if c { assert!(map.insert(id, None).is_none()) }` -/
def mapInsertIf {α} (c : Bool) (m : Map (Option α)) (id : Nat) : Option (Map (Option α)) :=
  if c then m.insertNew id none else some m

/-- `StreamsState::insert(remote, id)` -/
def State.insert (s : State) (remote : Bool) (id : Nat) : Option State :=
  match mapInsertIf (sidDir id == .bi || !remote) s.send id with
  | none => none
  | some send =>
    match mapInsertIf (sidDir id == .bi || remote) s.recv id with
    | none => none
    | some recv => some { s with send := send, recv := recv }

/-- `for i in 0..count { self.insert(true, StreamId::new(!side, dir, start + i)) }` -/
def State.insertRemoteRange (s : State) (dir : Dir) (start : Nat) : Nat → Nat → Option State
  | 0, _ => some s
  | n + 1, i =>
    match s.insert true (sidNew s.side.not dir (start + i)) with
    | none => none
    | some s' => State.insertRemoteRange s' dir start n (i + 1)

structure Config where
  side : Side
  maxRemoteUni : Nat
  maxRemoteBi : Nat
  sendWindow : Nat
  receiveWindow : Nat
  streamReceiveWindow : Nat
deriving Repr, DecidableEq

/-- `StreamsState::new` -/
def State.new (c : Config) : Option State :=
  let mr : Two Nat := ⟨c.maxRemoteBi, c.maxRemoteUni⟩
  let this : State := {
    side := c.side, maxRemote := mr, sentMaxRemote := mr, allocatedRemoteCount := mr,
    maxConcurrentRemoteCount := mr, receiveWindow := c.receiveWindow,
    localMaxData := c.receiveWindow, sentMaxData := c.receiveWindow, sendWindow := c.sendWindow,
    streamReceiveWindow := c.streamReceiveWindow }
  match this.insertRemoteRange .bi 0 (this.maxRemote.get .bi) 0 with
  | none => none
  | some s1 => s1.insertRemoteRange .uni 0 (s1.maxRemote.get .uni) 0

/-- `StreamsState::received_max_data` -/
def State.receivedMaxData (s : State) (n : Nat) : State := { s with maxData := Nat.max s.maxData n }

structure Params where
  initialMaxStreamDataUni : Nat
  initialMaxStreamDataBidiLocal : Nat
  initialMaxStreamDataBidiRemote : Nat
  initialMaxStreamsBidi : Nat
  initialMaxStreamsUni : Nat
  initialMaxData : Nat
deriving Repr, DecidableEq

/-- the `for i in 0..self.max_remote[Bi]` loop of `set_params` -/
def setParamsLoop (side : Side) (v : Nat) (send : Map (Option Send)) : Nat → Nat → Map (Option Send)
  | 0, _ => send
  | n + 1, i =>
    let id := sidNew side.not .bi i
    let send' := match send.find? id with
      | some (some snd) => send.set id (some { snd with maxData := v })
      | _ => send
    setParamsLoop side v send' n (i + 1)

/-- `StreamsState::set_params` -/
def State.setParams (s : State) (p : Params) : State :=
  let s1 := { s with
    initialMaxStreamDataUni := p.initialMaxStreamDataUni,
    initialMaxStreamDataBidiLocal := p.initialMaxStreamDataBidiLocal,
    initialMaxStreamDataBidiRemote := p.initialMaxStreamDataBidiRemote,
    max := ⟨p.initialMaxStreamsBidi, p.initialMaxStreamsUni⟩ }
  let s2 := s1.receivedMaxData p.initialMaxData
  { s2 with send := setParamsLoop s2.side p.initialMaxStreamDataBidiLocal s2.send (s2.maxRemote.get .bi) 0 }

/-- `StreamsState::ensure_remote_streams(dir)` -/
def State.ensureRemoteStreams (s : State) (dir : Dir) : Option State :=
  let newCount := s.maxConcurrentRemoteCount.get dir - s.allocatedRemoteCount.get dir
  match s.insertRemoteRange dir (s.maxRemote.get dir) newCount 0 with
  | none => none
  | some s' =>
    some { s' with
      allocatedRemoteCount := s'.allocatedRemoteCount.set dir (s'.allocatedRemoteCount.get dir + newCount),
      maxRemote := s'.maxRemote.set dir (s'.maxRemote.get dir + newCount) }

/-- the `for i in 0..self.next[dir]` loop of `zero_rtt_rejected` -/
def zeroRttLoop (side : Side) (dir : Dir) (send : Map (Option Send)) (recv : Map (Option Recv)) :
    Nat → Nat → Option (Map (Option Send) × Map (Option Recv))
  | 0, _ => some (send, recv)
  | n + 1, i =>
    let id := sidNew side dir i
    if !send.contains id then none
    else
      let send' := send.erase id
      if dir = .bi then
        if !recv.contains id then none
        else zeroRttLoop side dir send' (recv.erase id) n (i + 1)
      else zeroRttLoop side dir send' recv n (i + 1)

def State.zeroRttDir (s : State) (dir : Dir) : Option State :=
  match zeroRttLoop s.side dir s.send s.recv (s.next.get dir) 0 with
  | none => none
  | some (send, recv) =>
    let smr := if s.flowControlAdjusted then s.sentMaxRemote.set dir 0 else s.sentMaxRemote
    some { s with send := send, recv := recv, next := s.next.set dir 0, sentMaxRemote := smr }

/-- `StreamsState::zero_rtt_rejected` -/
def State.zeroRttRejected (s : State) : Option State :=
  match s.zeroRttDir .bi with
  | none => none
  | some s1 => match s1.zeroRttDir .uni with
    | none => none
    | some s2 =>
      some { s2 with pending := s2.pending.clear, sendStreams := 0, dataSent := 0, connectionBlocked := [],
                     unackedData := Gen.rejectedUnackedData s2.unackedData,
                     maxData := Gen.rejectedMaxData s2.maxData,
                     streamsBlocked := if Gen.rejectedClearsStreamsBlocked then ⟨false, false⟩
                                       else s2.streamsBlocked }

/-- `StreamsState::max_send_data(id)` -/
def State.maxSendData (s : State) (id : Nat) : Nat :=
  let remote := s.side != sidInitiator id
  match sidDir id with
  | .uni => s.initialMaxStreamDataUni
  | .bi => if remote then s.initialMaxStreamDataBidiLocal else s.initialMaxStreamDataBidiRemote

/-- `StreamsState::write_limit`; `none` = `self.max_data - self.data_sent` underflow -/
def State.writeLimit (s : State) : Option Nat :=
  if s.dataSent ≤ s.maxData then
    some (Gen.writeLimit s.maxData s.dataSent s.sendWindow s.unackedData)
  else none

/-- `StreamsState::on_stream_frame(notify_readable, stream)` -/
def State.onStreamFrame (s : State) (notifyReadable : Bool) (id : Nat) : State :=
  if sidInitiator id = s.side then
    if notifyReadable then { s with events := s.events ++ [.readable id] } else s
  else
    let d := sidDir id
    if sidIndex id ≥ s.nextRemote.get d then
      { s with nextRemote := s.nextRemote.set d (sidIndex id + 1), opened := s.opened.set d true }
    else if notifyReadable then { s with events := s.events ++ [.readable id] }
    else s

/-- first half of `add_read_credits`: pay off shrink debt, then raise `local_max_data` -/
def State.applyCredits (s : State) (credits : Nat) : State :=
  if credits > s.receiveWindowShrinkDebt then
    { s with localMaxData := satAdd s.localMaxData (credits - s.receiveWindowShrinkDebt),
             receiveWindowShrinkDebt := 0 }
  else { s with receiveWindowShrinkDebt := s.receiveWindowShrinkDebt - credits }

/-- `StreamsState::add_read_credits(credits)`;
    `none` = `self.local_max_data - self.sent_max_data` underflow -/
def State.addReadCredits (s : State) (credits : Nat) : Option (State × Bool) :=
  let s1 := s.applyCredits credits
  if s1.localMaxData > 2 ^ 62 - 1 then some (s1, false)
  else match subU s1.localMaxData s1.sentMaxData with
    | none => none
    | some diff => some (s1, Gen.maxDataSignificant diff s1.receiveWindow)

inductive Half | send | recv
deriving Repr, DecidableEq

/-- `fully_free` of `stream_freed`: the stream has a single half, or its other half is gone too -/
def State.fullyFree (s : State) (id : Nat) (half : Half) : Bool :=
  sidDir id == .uni ||
    (match half with
     | .send => !s.recv.contains id
     | .recv => !s.send.contains id)

/-- first half of `stream_freed`: a remotely initiated stream that is now fully closed stops
    counting against the concurrency limit and a new one is permitted -/
def State.freeRemote (s : State) (id : Nat) (half : Half) : Option State :=
  if sidInitiator id ≠ s.side then
    if s.fullyFree id half then
      match subU (s.allocatedRemoteCount.get (sidDir id)) 1 with
      | none => none
      | some c =>
        ({ s with allocatedRemoteCount := s.allocatedRemoteCount.set (sidDir id) c }).ensureRemoteStreams (sidDir id)
    else some s
  else some s

/-- `StreamsState::stream_freed(id, half)` -/
def State.streamFreed (s : State) (id : Nat) (half : Half) : Option State :=
  match s.freeRemote id half with
  | none => none
  | some s1 =>
    if half = .send then
      match subU s1.sendStreams 1 with
      | none => none
      | some n => some { s1 with sendStreams := n }
    else some s1

/-- `StreamsState::stream_recv_freed(id, recv)` -/
def State.streamRecvFreed (s : State) (id : Nat) : Option State := s.streamFreed id .recv

/-- `validate_receive_id` -/
def State.validateReceiveId (s : State) (id : Nat) : Option TErr :=
  if s.side = sidInitiator id then
    match sidDir id with
    | .uni => some (.streamState "illegal operation on send-only stream")
    | .bi => if sidIndex id ≥ s.next.get .bi then some (.streamState "operation on unopened stream") else none
  else
    if sidIndex id ≥ s.maxRemote.get (sidDir id) then some .streamLimit else none

/-- `self.recv.get_mut(&id).map(get_or_insert_recv(self.stream_receive_window))` -/
def State.getOrInsertRecv (s : State) (id : Nat) : Option (Recv × State) :=
  match s.recv.find? id with
  | none => none
  | some (some r) => some (r, s)
  | some none =>
    let r := Recv.new s.streamReceiveWindow
    some (r, { s with recv := s.recv.set id (some r) })

/-- `self.send.get_mut(&id).map(get_or_insert_send(max_send_data))` -/
def State.getOrInsertSend (s : State) (id : Nat) : Option (Send × State) :=
  match s.send.find? id with
  | none => none
  | some (some x) => some (x, s)
  | some none =>
    let x := Send.new (s.maxSendData id)
    some (x, { s with send := s.send.set id (some x) })

def State.putSend (s : State) (id : Nat) (x : Send) : State := { s with send := s.send.set id (some x) }
def State.putRecv (s : State) (id : Nat) (r : Recv) : State := { s with recv := s.recv.set id (some r) }

/-- `if c { let rs = self.recv.remove(&id)...; self.stream_recv_freed(id, rs) }` -/
def State.freeRecvIf (s : State) (c : Bool) (id : Nat) : Option State :=
  if c then ({ s with recv := s.recv.erase id }).streamRecvFreed id else some s

/-- `add_read_credits(credits)` followed by the caller's `if should_transmit { pending.max_data = true }` -/
def State.creditAndQueue (s : State) (credits : Nat) : Option (State × Bool) :=
  match s.addReadCredits credits with
  | none => none
  | some (s', t) => some ({ s' with rtx := if t then { s'.rtx with maxData := true } else s'.rtx }, t)

/-- `StreamsState::received(frame, payload_len)` followed by Connection's
    `if should_transmit { pending.max_data = true }` -/
def State.received (s : State) (id offset len : Nat) (fin : Bool) : Option (State × Except TErr Bool) :=
  match s.validateReceiveId id with
  | some e => some (s, .error e)
  | none =>
    match s.getOrInsertRecv id with
    | none => some (s, .ok false)
    | some (rs, s1) =>
      if !rs.isReceiving then some (s1, .ok false)
      else match rs.ingest offset len fin s1.dataRecvd s1.localMaxData with
      | none => none
      | some (.error e) => some (s1, .error e)
      | some (.ok (newBytes, closed, rs')) =>
        let s2 := { (s1.putRecv id rs') with dataRecvd := satAdd s1.dataRecvd newBytes }
        if !rs'.stopped then some (s2.onStreamFrame true id, .ok false)
        else
          -- `self.recv.remove(&id).flatten().unwrap()` when closed
          match s2.freeRecvIf closed id with
          | none => none
          | some s3 =>
            match s3.creditAndQueue newBytes with
            | none => none
            | some (s4, t) => some (s4, .ok t)

/-- `StreamsState::received_reset(frame)` followed by Connection's
    `if should_transmit { pending.max_data = true }` -/
def State.receivedReset (s : State) (id code finalOffset : Nat) : Option (State × Except TErr Bool) :=
  match s.validateReceiveId id with
  | some e => some (s, .error e)
  | none =>
    match s.getOrInsertRecv id with
    | none => some (s, .ok false)
    | some (rs, s1) =>
      match rs.reset code finalOffset s1.dataRecvd s1.localMaxData with
      | none => none
      | some (.error e) => some (s1, .error e)
      | some (.ok (false, _)) => some (s1, .ok false)
      | some (.ok (true, rs')) =>
        let s2 := s1.putRecv id rs'
        let bytesRead := rs'.assembler.bytesRead
        let stopped := rs'.stopped
        let end_ := rs'.end_
        match s2.freeRecvIf stopped id with
        | none => none
        | some s3 =>
          let s4 := s3.onStreamFrame (!stopped) id
          let credited := Gen.resetCredited stopped end_ bytesRead
          if credited ≠ finalOffset then
            match subU finalOffset end_ with
            | none => none
            | some d =>
              match subU finalOffset credited with
              | none => none
              | some credits =>
                match ({ s4 with dataRecvd := satAdd s4.dataRecvd d }).creditAndQueue credits with
                | none => none
                | some (s6, t) => some (s6, .ok t)
          else some (s4, .ok false)

/-- `StreamsState::received_stop_sending(id, error_code)` -/
def State.receivedStopSending (s : State) (id code : Nat) : State :=
  match s.getOrInsertSend id with
  | none => s
  | some (x, s1) =>
    let (x', stoppedNow) := x.tryStop code
    if stoppedNow then
      ({ (s1.putSend id x') with events := s1.events ++ [Event.stopped id code] }).onStreamFrame false id
    else s1

/-- `StreamsState::reset_acked(id)` -/
def State.resetAcked (s : State) (id : Nat) : Option State :=
  match s.send.find? id with
  | some (some x) =>
    if x.state = .resetSent then ({ s with send := s.send.erase id }).streamFreed id .send else some s
  | _ => some s

/-- `StreamsState::received_ack_of(frame)` -/
def State.receivedAckOf (s : State) (id a e : Nat) (fin : Bool) : Option State :=
  match s.send.find? id with
  | some (some x) =>
    if x.isReset then some s
    else match subU s.unackedData (e - a) with
    | none => none
    | some ua =>
      match x.ack a e fin with
      | none => none
      | some (x', done) =>
        let s1 := { (s.putSend id x') with unackedData := ua }
        if !done then some s1
        else match ({ s1 with send := s1.send.erase id }).streamFreed id .send with
          | none => none
          | some s2 => some { s2 with events := s2.events ++ [.finished id] }
  | _ => some s

/-- `StreamsState::retransmit(frame)` -/
def State.retransmit (s : State) (id a e : Nat) (fin : Bool) : Option State :=
  match s.send.find? id with
  | some (some x) =>
    let q := if !x.isPending then s.pending.pushPending id x.priority else s.pending
    match x.pending.retransmit a e with
    | none => none
    | some p => some { (s.putSend id { x with finPending := x.finPending || fin, pending := p }) with pending := q }
  | _ => some s

/-- body of the `for index in 0..self.next[dir]` loop of `retransmit_all_for_0rtt` -/
def State.rtx0Loop (s : State) (dir : Dir) : Nat → Nat → Option State
  | 0, _ => some s
  | n + 1, i =>
    let id := sidNew .client dir i
    match s.send.find? id with
    | some (some x) =>
      if x.pending.isFullyAcked && !x.finPending && !x.rtx0Finished then State.rtx0Loop s dir n (i + 1)
      else
        let q := if !x.isPending then s.pending.pushPending id x.priority else s.pending
        match x.pending.retransmitAllFor0rtt with
        | none => none
        | some p =>
          State.rtx0Loop { (s.putSend id { x with pending := p, finPending := x.finPending || x.rtx0Finished })
            with pending := q } dir n (i + 1)
    | _ => State.rtx0Loop s dir n (i + 1)

/-- `StreamsState::retransmit_all_for_0rtt` -/
def State.retransmitAllFor0rtt (s : State) : Option State :=
  match s.rtx0Loop .bi (s.next.get .bi) 0 with
  | none => none
  | some s1 => s1.rtx0Loop .uni (s1.next.get .uni) 0

/-- `StreamsState::received_max_streams(dir, count)` -/
def State.receivedMaxStreams (s : State) (dir : Dir) (count : Nat) : State × Option TErr :=
  if Gen.maxStreamsUnrepresentable count then (s, some (.frameEncoding "unrepresentable stream limit"))
  else if count > s.max.get dir then
    ({ s with max := s.max.set dir count, streamsBlocked := s.streamsBlocked.set dir false,
              events := s.events ++ [.available dir] }, none)
  else (s, none)

/-- `StreamsState::is_local_unopened` -/
def State.isLocalUnopened (s : State) (id : Nat) : Bool := sidIndex id ≥ s.next.get (sidDir id)

/-- the `if ss.increase_max_data(offset) { … }` body of `received_max_stream_data`: tell the
    application, or remember that the stream waits for connection-level credit -/
def State.afterUnblock (s : State) (wasBlocked : Bool) (id : Nat) (x' : Send) (writeLimit : Nat) : State :=
  if wasBlocked then
    if writeLimit > 0 then { s with events := s.events ++ [.writable id] }
    else if !x'.connectionBlocked then
      { (s.putSend id { x' with connectionBlocked := true }) with
        connectionBlocked := s.connectionBlocked ++ [id] }
    else s
  else s

/-- `StreamsState::received_max_stream_data(id, offset)` -/
def State.receivedMaxStreamData (s : State) (id offset : Nat) : Option (State × Option TErr) :=
  if sidInitiator id ≠ s.side && sidDir id == .uni then
    some (s, some (.streamState "MAX_STREAM_DATA on recv-only stream"))
  else if Gen.maxsdChecksRemoteLimit && sidInitiator id ≠ s.side &&
      decide (sidIndex id ≥ s.maxRemote.get (sidDir id)) then
    some (s, some .streamLimit)
  else match s.writeLimit with
  | none => none
  | some writeLimit =>
    match s.getOrInsertSend id with
    | some (x, s1) =>
      let r := x.increaseMaxData offset
      let s2 := s1.putSend id r.1
      some ((s2.afterUnblock r.2 id r.1 writeLimit).onStreamFrame false id, none)
    | none =>
      if sidInitiator id = s.side && s.isLocalUnopened id then
        some (s, some (.streamState "MAX_STREAM_DATA on unopened stream"))
      else some (s.onStreamFrame false id, none)

/-- the `while let Some(id) = self.connection_blocked.pop()` loop of `poll` -/
def State.pollBlocked (s : State) : Nat → Option (State × Option Event)
  | 0 => some (s, none)
  | fuel + 1 =>
    match s.connectionBlocked.getLast? with
    | none => some (s, none)
    | some id =>
      let s1 := { s with connectionBlocked := s.connectionBlocked.dropLast }
      match s1.send.find? id with
      | some (some x) =>
        -- `debug_assert!(stream.connection_blocked)`
        if !x.connectionBlocked then none
        else
          let x' := { x with connectionBlocked := false }
          let s2 := s1.putSend id x'
          if x'.isWritable && x'.maxData > x'.offset then some (s2, some (.writable id))
          else State.pollBlocked s2 fuel
      | _ => State.pollBlocked s1 fuel

def State.pollBlockedIf (s : State) (c : Bool) : Option (State × Option Event) :=
  if c then s.pollBlocked (s.connectionBlocked.length + 1) else some (s, none)

/-- `StreamsState::poll` -/
def State.poll (s : State) : Option (State × Option Event) :=
  if s.opened.bi then some ({ s with opened := s.opened.set .bi false }, some (.opened .bi))
  else if s.opened.uni then some ({ s with opened := s.opened.set .uni false }, some (.opened .uni))
  else match s.writeLimit with
  | none => none
  | some wl =>
    match s.pollBlockedIf (decide (wl > 0)) with
    | none => none
    | some (s1, some e) => some (s1, some e)
    | some (s1, none) =>
      match s1.events with
      | [] => some (s1, none)
      | e :: rest => some ({ s1 with events := rest }, some e)

/-- `StreamsState::queue_max_stream_id(pending)`; `none` = `max_remote - sent_max_remote` underflow -/
def State.queueMaxStreamId (s : State) : Option (State × Bool) :=
  match subU (s.maxRemote.get .bi) (s.sentMaxRemote.get .bi) with
  | none => none
  | some d0 =>
    let q0 := Gen.maxStreamsSignificant d0 (s.maxConcurrentRemoteCount.get .bi)
    let s1 := if q0 then { s with rtx := { s.rtx with maxStreamId := s.rtx.maxStreamId.set .bi true } } else s
    match subU (s1.maxRemote.get .uni) (s1.sentMaxRemote.get .uni) with
    | none => none
    | some d1 =>
      let q1 := Gen.maxStreamsSignificant d1 (s1.maxConcurrentRemoteCount.get .uni)
      let s2 := if q1 then { s1 with rtx := { s1.rtx with maxStreamId := s1.rtx.maxStreamId.set .uni true } } else s1
      some (s2, q0 || q1)

/-- `StreamsState::set_max_concurrent(dir, count)` -/
def State.setMaxConcurrent (s : State) (dir : Dir) (count : Nat) : Option State :=
  ({ s with flowControlAdjusted := true,
            maxConcurrentRemoteCount := s.maxConcurrentRemoteCount.set dir count }).ensureRemoteStreams dir

/-- `StreamsState::set_receive_window` followed by Connection's `if expanded { pending.max_data = true }` -/
def State.setReceiveWindow (s : State) (rw : Nat) : State × Bool :=
  if rw > s.receiveWindow then
    let growth := rw - s.receiveWindow
    let cancelled := Gen.recvWindowCancelled growth s.receiveWindowShrinkDebt
    ({ s with receiveWindowShrinkDebt := s.receiveWindowShrinkDebt - cancelled,
              localMaxData := satAdd s.localMaxData (growth - cancelled), receiveWindow := rw,
              rtx := { s.rtx with maxData := true } }, true)
  else
    ({ s with receiveWindowShrinkDebt := satAdd s.receiveWindowShrinkDebt (s.receiveWindow - rw),
              receiveWindow := rw }, false)

/-! ### `Streams` -/

/-- `Streams::open(dir)` -/
def State.open_ (s : State) (dir : Dir) : Option (State × Option Nat) :=
  if s.connClosed then some (s, none)
  else if Gen.openExhausted (s.next.get dir) (s.max.get dir) then
    some ({ s with streamsBlocked := s.streamsBlocked.set dir true }, none)
  else
    let s1 := { s with next := s.next.set dir (s.next.get dir + 1) }
    let id := sidNew s1.side dir (s1.next.get dir - 1)
    match s1.insert false id with
    | none => none
    | some s2 => some ({ s2 with sendStreams := s2.sendStreams + 1 }, some id)

/-- `Streams::accept(dir)` -/
def State.accept (s : State) (dir : Dir) : State × Option Nat :=
  if s.nextRemote.get dir = s.nextReportedRemote.get dir then (s, none)
  else
    let x := s.nextReportedRemote.get dir
    let s1 := { s with nextReportedRemote := s.nextReportedRemote.set dir (x + 1) }
    let s2 := if dir = .bi then { s1 with sendStreams := s1.sendStreams + 1 } else s1
    (s2, some (sidNew s.side.not dir x))

/-! ### `SendStream` -/

/-- `SendStream::write(data)` with `data.len() = n` -/
def State.write (s : State) (id n : Nat) : Option (State × Except WriteErr Nat) :=
  if s.connClosed then some (s, .error .blocked)
  else match s.writeLimit with
  | none => none
  | some limit =>
    match s.getOrInsertSend id with
    | none => some (s, .error .closedStream)
    | some (x, s1) =>
      if x.closedFirst then some (s1, .error .closedStream) else
      match x.stoppedFirst with
      | some c => some (s1, .error (.stopped c))
      | none =>
      if limit = 0 then
        if !x.connectionBlocked then
          some ({ (s1.putSend id { x with connectionBlocked := true }) with
                  connectionBlocked := s1.connectionBlocked ++ [id] }, .error .blocked)
        else some (s1, .error .blocked)
      else
        let wasPending := x.isPending
        match x.write n limit with
        | none => none
        | some (.error e) => some (s1, .error e)
        | some (.ok (k, x')) =>
          let s2 := { (s1.putSend id x') with
            dataSent := s1.dataSent + k, unackedData := s1.unackedData + k }
          let s3 := if !wasPending then { s2 with pending := s2.pending.pushPending id x'.priority } else s2
          some (s3, .ok k)

/-- `SendStream::stopped` : `none` = ClosedStream -/
def State.stopped (s : State) (id : Nat) : Option (Option Nat) :=
  match s.send.find? id with
  | some (some x) => some x.stopReason
  | some none => some none
  | none => none

/-- `SendStream::finish` -/
def State.finish (s : State) (id : Nat) : State × Except WriteErr Unit :=
  match s.getOrInsertSend id with
  | none => (s, .error .closedStream)
  | some (x, s1) =>
    let wasPending := x.isPending
    match x.finish with
    | .error e => (s1, .error e)
    | .ok x' =>
      let s2 := s1.putSend id x'
      (if !wasPending then { s2 with pending := s2.pending.pushPending id x'.priority } else s2, .ok ())

/-- `SendStream::reset(error_code)`: `false` = ClosedStream; `none` = `unacked_data` underflow -/
def State.reset (s : State) (id code : Nat) : Option (State × Bool) :=
  match s.getOrInsertSend id with
  | none => some (s, false)
  | some (x, s1) =>
    if x.state = .resetSent then some (s1, false)
    else match x.pending.unacked with
    | none => none
    | some u =>
      match subU s1.unackedData u with
      | none => none
      | some ua =>
        let rtx := { s1.rtx with resetStream := s1.rtx.resetStream ++ [(id, code)] }
        some ({ (s1.putSend id x.reset) with unackedData := ua, rtx := rtx }, true)

/-- `SendStream::set_priority` -/
def State.setPriority (s : State) (id : Nat) (p : Int) : State × Bool :=
  match s.getOrInsertSend id with
  | none => (s, false)
  | some (x, s1) => (s1.putSend id { x with priority := p }, true)

/-! ### `RecvStream` -/

inductive ReadEnd
  | more
  | blocked
  | fin
  | reset (code : Nat)
deriving Repr, DecidableEq

inductive ReadRes
  | closedStream
  | ok (bytes : Nat) (end_ : ReadEnd) (transmit : Bool)
deriving Repr, DecidableEq

/-- `if freed { self.streams.stream_recv_freed(self.id, recv) }` (the entry is already out of the map) -/
def State.freeIf (s : State) (freed : Bool) (id : Nat) : Option State :=
  if freed then s.streamRecvFreed id else some s

/-- outcome of the last `Chunks::next` call after `k` of `budget` bytes were delivered (it is made
    only while budget remains): the result and whether the stream was freed;
    `none` = `debug_assert_eq!(self.read, 0, "reset streams have empty buffers")` -/
def Recv.readEnd (rs1 : Recv) (k budget : Nat) : Option (ReadEnd × Bool) :=
  if k = budget then some (.more, false)
  else match rs1.state with
    | .resetRecvd _ code => if k = 0 then some (.reset code, true) else none
    | .recv size =>
      if size = some rs1.end_ && rs1.assembler.bytesRead = rs1.end_ then some (.fin, true)
      else some (.blocked, false)

/-- the `if let ChunksState::Readable(rs) = state` part of `Chunks::finalize` -/
def State.finalizeReadable (s : State) (id : Nat) (rs1 : Recv) (freed t0 : Bool) : Option (State × Bool) :=
  if freed then some (s, t0)
  else match rs1.maxStreamData s.streamReceiveWindow with
    | none => none
    | some (_, t1) =>
      let rtx := if t1 then { s.rtx with maxStreamData := sortedInsert s.rtx.maxStreamData id } else s.rtx
      -- `self.streams.recv.insert(self.id, Some(StreamRecv::Open(rs)))`
      some ({ s with rtx := rtx, recv := (id, some rs1) :: s.recv }, t0 || t1)

/-- `RecvStream::read(true)`, then `Chunks::next(remaining)` until `budget` bytes were delivered or
    `next` returns something other than a chunk, then `Chunks::finalize` -/
def State.read (s : State) (id budget : Nat) : Option (State × ReadRes) :=
  match s.getOrInsertRecv id with
  | none => some (s, .closedStream)
  | some (rs, s1) =>
    if rs.stopped then some (s1, .closedStream)
    else
      -- `entry.remove()`: the stream is out of the map while `Chunks` exists
      let s2 := { s1 with recv := s1.recv.erase id }
      let k := Nat.min budget rs.assembler.available
      let rs1 := { rs with assembler := rs.assembler.consume k }
      match rs1.readEnd k budget with
      | none => none
      | some (end_, freed) =>
        match s2.freeIf freed id with
        | none => none
        | some s3 =>
          -- finalize
          match s3.queueMaxStreamId with
          | none => none
          | some (s4, t0) =>
            match s4.finalizeReadable id rs1 freed t0 with
            | none => none
            | some (s5, t01) =>
              match s5.addReadCredits k with
              | none => none
              | some (s6, t2) =>
                some ({ s6 with rtx := { s6.rtx with maxData := s6.rtx.maxData || t2 } },
                      .ok k end_ (t01 || t2))

/-- `if stop_sending.should_transmit() { self.pending.stop_sending.push(..) }` -/
def State.queueStopSending (s : State) (c : Bool) (id code : Nat) : State :=
  if c then { s with rtx := { s.rtx with stopSending := s.rtx.stopSending ++ [(id, code)] } } else s

/-- `if c { self.state.queue_max_stream_id(self.pending); }` (the result is discarded) -/
def State.queueMaxIf (s : State) (c : Bool) : Option State :=
  if c then
    match s.queueMaxStreamId with
    | none => none
    | some (s', _) => some s'
  else some s

/-- `RecvStream::stop(error_code)`: `false` = ClosedStream.  A stream whose final size is known is
    freed at once (`stream_recv_freed`) and the slot it gives back is announced at once
    (`queue_max_stream_id`, as in `RecvStream::received_reset`). -/
def State.stop (s : State) (id code : Nat) : Option (State × Bool) :=
  match s.getOrInsertRecv id with
  | none => some (s, false)
  | some (rs, s1) =>
    match rs.stop with
    | none => none
    | some none => some (s1, false)
    | some (some (credits, stopSending, rs')) =>
      match ((s1.putRecv id rs').queueStopSending stopSending id code).freeRecvIf (!rs'.finalOffsetUnknown) id with
      | none => none
      | some s4 =>
        match s4.queueMaxIf (!rs'.finalOffsetUnknown) with
        | none => none
        | some s4q =>
          match s4q.creditAndQueue credits with
          | none => none
          | some (s5, _) => some (s5, true)

/-- `RecvStream::received_reset`: `none` inside = ClosedStream -/
def State.recvReceivedReset (s : State) (id : Nat) : Option (State × Option (Option Nat)) :=
  match s.recv.find? id with
  | none => some (s, none)
  | some none => some (s, some none)
  | some (some rs) =>
    if rs.stopped then some (s, none)
    else match rs.resetCode with
    | none => some (s, some none)
    | some code =>
      match ({ s with recv := s.recv.erase id }).streamRecvFreed id with
      | none => none
      | some s1 =>
        match s1.queueMaxStreamId with
        | none => none
        | some (s2, _) => some (s2, some (some code))

/-! ### transmission -/

/-- `StreamsState::can_send_stream_data` -/
def State.canSendStreamData (s : State) : Bool :=
  let live (p : PStream) : Bool := match s.send.find? p.id with
    | some (some x) => !x.isReset
    | _ => false
  (match s.pending.next with
   | some p => live p
   | none => false) || s.pending.streams.any live

/-- `StreamsState::can_send_flow_control(id)` -/
def State.canSendFlowControl (s : State) (id : Nat) : Bool :=
  match s.recv.find? id with
  | some (some r) => r.canSendFlowControl
  | _ => false

structure SentFrame where
  id : Nat
  start : Nat
  end_ : Nat
  fin : Bool
deriving Repr, DecidableEq

/-- the `if stream.is_pending() { if fair { push_pending } else { reinsert_pending } }` step -/
def PQueue.requeue (q : PQueue) (pending fair : Bool) (id : Nat) (priority : Int) : Option PQueue :=
  if pending then
    if fair then some (q.pushPending id priority) else q.reinsertPending id priority
  else some q

/-- encoded size of an optional varint field -/
def sizeIf (c : Bool) (x : Nat) : Option Nat := if c then VarInt.size x else some 0

/-- `StreamsState::write_stream_frames(buf, max_buf_size, fair)` on an empty `buf`:
    final `buf.len()` and the frame metadata -/
def State.writeStreamFrames (s : State) (maxBuf : Nat) (fair : Bool) :
    Nat → Nat → List SentFrame → Option (State × Nat × List SentFrame)
  | 0, bufLen, acc => some (s, bufLen, acc.reverse)
  | fuel + 1, bufLen, acc =>
    if !(bufLen + Gen.streamSizeBound < maxBuf) then some (s, bufLen, acc.reverse)
    else match s.pending.pop with
    | none => some (s, bufLen, acc.reverse)
    | some (p, q) =>
      let s1 := { s with pending := q }
      let id := p.id
      match s1.send.find? id with
      | some (some x) =>
        if x.isReset then State.writeStreamFrames s1 maxBuf fair fuel bufLen acc
        else match VarInt.size id with
        | none => none
        | some idSz =>
          let maxLen := maxBuf - bufLen - 1 - idSz
          match x.pending.pollTransmit maxLen with
          | none => none
          | some (a, e, encLen, pb) =>
            let fin := e == pb.offset && (match x.state with | .dataSent _ => true | _ => false)
            let x' := { x with pending := pb, finPending := if fin then false else x.finPending }
            match s1.pending.requeue x'.isPending fair id x'.priority with
            | none => none
            | some q' =>
              match sizeIf (decide (a ≠ 0)) a with
              | none => none
              | some offSz =>
                match sizeIf encLen (e - a) with
                | none => none
                | some lenSz =>
                  let s2 := { (s1.putSend id x') with pending := q' }
                  State.writeStreamFrames s2 maxBuf fair fuel (bufLen + 1 + idSz + offSz + lenSz + (e - a))
                    (⟨id, a, e, fin⟩ :: acc)
      | _ => State.writeStreamFrames s1 maxBuf fair fuel bufLen acc

inductive CtrlFrame
  | resetStream (id code finalOffset : Nat)
  | stopSending (id code : Nat)
  | maxData (v : Nat)
  | maxStreamData (id v : Nat)
  | maxStreams (dir : Dir) (v : Nat)
  | streamsBlocked (dir : Dir) (v : Nat)
deriving Repr, DecidableEq

/-- the MAX_STREAM_DATA loop of `write_control_frames` over the queued ids -/
def State.ctrlMsd (s : State) : List Nat → List CtrlFrame → Option (State × List CtrlFrame)
  | [], acc => some (s, acc.reverse)
  | id :: rest, acc =>
    match s.recv.find? id with
    | some (some rs) =>
      if !rs.canSendFlowControl then State.ctrlMsd s rest acc
      else match rs.maxStreamData s.streamReceiveWindow with
        | none => none
        | some (mx, _) =>
          -- `buf.write_var(max)` panics for a value that is not a varint
          if mx < 2 ^ 62 then
            State.ctrlMsd (s.putRecv id (rs.recordSentMaxStreamData mx)) rest (.maxStreamData id mx :: acc)
          else none
    | _ => State.ctrlMsd s rest acc

/-- MAX_DATA step of `write_control_frames` -/
def State.ctrlMaxData (s : State) : State × List CtrlFrame :=
  if s.rtx.maxData then
    let mx := Nat.min s.localMaxData (2 ^ 62 - 1)
    ({ s with rtx := { s.rtx with maxData := false },
              sentMaxData := if mx > s.sentMaxData then mx else s.sentMaxData }, [.maxData mx])
  else (s, [])

/-- MAX_STREAMS step of `write_control_frames` for one direction -/
def State.ctrlMaxStreams (s : State) (d : Dir) : State × List CtrlFrame :=
  if s.rtx.maxStreamId.get d then
    ({ s with rtx := { s.rtx with maxStreamId := s.rtx.maxStreamId.set d false },
              sentMaxRemote := s.sentMaxRemote.set d (s.maxRemote.get d) }, [.maxStreams d (s.maxRemote.get d)])
  else (s, [])

/-- `if self.streams_blocked[dir] { pending.streams_blocked[dir] = true; self.streams_blocked[dir] = false }` -/
def State.ctrlMoveBlocked (s : State) (d : Dir) : State :=
  if s.streamsBlocked.get d then
    { s with rtx := { s.rtx with streamsBlocked := s.rtx.streamsBlocked.set d true },
             streamsBlocked := s.streamsBlocked.set d false }
  else s

/-- STREAMS_BLOCKED step of `write_control_frames` for one direction -/
def State.ctrlStreamsBlocked (s : State) (d : Dir) : State × List CtrlFrame :=
  let s' := s.ctrlMoveBlocked d
  if s'.rtx.streamsBlocked.get d then
    ({ s' with rtx := { s'.rtx with streamsBlocked := s'.rtx.streamsBlocked.set d false } },
     [.streamsBlocked d (s'.max.get d)])
  else (s', [])

/-- RESET_STREAM frames: `pending.reset_stream.pop()` takes from the back; entries whose stream is
    gone are skipped -/
def State.ctrlResets (s : State) : List CtrlFrame :=
  s.rtx.resetStream.reverse.filterMap fun (id, code) =>
    match s.send.find? id with
    | some (some x) => some (CtrlFrame.resetStream id code x.offset)
    | _ => none

/-- `StreamsState::write_control_frames` with room for every queued frame
    (RESET_STREAM, STOP_SENDING, MAX_DATA, MAX_STREAM_DATA, MAX_STREAMS, STREAMS_BLOCKED in this order;
    MAX_STREAM_DATA frames listed by ascending id) -/
def State.writeControlFrames (s : State) : Option (State × List CtrlFrame) :=
  let stops := s.rtx.stopSending.reverse.map fun (id, code) => CtrlFrame.stopSending id code
  let r2 := ({ s with rtx := { s.rtx with resetStream := [], stopSending := [] } }).ctrlMaxData
  match ({ r2.1 with rtx := { r2.1.rtx with maxStreamData := [] } }).ctrlMsd r2.1.rtx.maxStreamData [] with
  | none => none
  | some (s3, msd) =>
    let r4 := s3.ctrlMaxStreams .bi
    let r5 := r4.1.ctrlMaxStreams .uni
    let r6 := r5.1.ctrlStreamsBlocked .bi
    let r7 := r6.1.ctrlStreamsBlocked .uni
    some (r7.1, s.ctrlResets ++ stops ++ r2.2 ++ msd ++ r4.2 ++ r5.2 ++ r6.2 ++ r7.2)

/-! ### operations of the line protocol -/

inductive Op
  | new (c : Config)
  | params (p : Params)
  | conn (closed : Bool)
  | open_ (dir : Dir)
  | accept (dir : Dir)
  | write (id n : Nat)
  | finish (id : Nat)
  | reset (id code : Nat)
  | stopped (id : Nat)
  | prio (id : Nat) (p : Int)
  | stream (id offset len : Nat) (fin : Bool)
  | rst (id code finalOffset : Nat)
  | stopSending (id code : Nat)
  | maxData (n : Nat)
  | maxStreamData (id n : Nat)
  | maxStreams (dir : Dir) (n : Nat)
  | ack (id a e : Nat) (fin : Bool)
  | lost (id a e : Nat) (fin : Bool)
  | rstAck (id : Nat)
  | read (id budget : Nat)
  | stop (id code : Nat)
  | recvReset (id : Nat)
  | poll
  | transmit (maxBuf : Nat) (fair : Bool)
  | canSend
  | canFlow (id : Nat)
  | ctrl
  | queueMaxStreamId
  | pendMaxData
  | pendMaxStreamData (id : Nat)
  | pendMaxStreamId (dir : Dir)
  | sendWindow (n : Nat)
  | recvWindow (n : Nat)
  | maxConcurrent (dir : Dir) (n : Nat)
  | rejected
  | rtx0
  | view
deriving Repr, DecidableEq

inductive Out
  | ok
  | okNat (n : Nat)
  | okOpt (o : Option Nat)
  | okFlag (b : Bool)
  | none_
  | bool (b : Bool)
  | errWrite (e : WriteErr)
  | errClosed
  | errT (e : TErr)
  | event (e : Event)
  | read (bytes : Nat) (end_ : ReadEnd) (transmit : Bool)
  | xmit (bufLen : Nat) (frames : List SentFrame)
  | ctrl (frames : List CtrlFrame)
deriving Repr, DecidableEq

def outT (r : Except TErr Bool) : Out :=
  match r with
  | .ok t => .okFlag t
  | .error e => .errT e

/-- fresh component state (before any `new`) -/
def State.initial : State :=
  { side := .client, maxRemote := ⟨0, 0⟩, sentMaxRemote := ⟨0, 0⟩, allocatedRemoteCount := ⟨0, 0⟩,
    maxConcurrentRemoteCount := ⟨0, 0⟩, receiveWindow := 0, localMaxData := 0, sentMaxData := 0,
    sendWindow := 0, streamReceiveWindow := 0 }

/-- one operation; `none` = the implementation panics -/
def step (s : State) : Op → Option (State × Out)
  | .new c => (State.new c).map fun s' => (s', .ok)
  | .params p => some (s.setParams p, .ok)
  | .conn closed => some ({ s with connClosed := closed }, .ok)
  | .open_ d => (s.open_ d).map fun (s', r) => (s', match r with | some id => .okNat id | none => .none_)
  | .accept d => let (s', r) := s.accept d; some (s', match r with | some id => .okNat id | none => .none_)
  | .write id n => (s.write id n).map fun (s', r) =>
      (s', match r with | .ok k => .okNat k | .error e => .errWrite e)
  | .finish id => let (s', r) := s.finish id
      some (s', match r with | .ok _ => .ok | .error e => .errWrite e)
  | .reset id code => (s.reset id code).map fun (s', ok) => (s', if ok then .ok else .errClosed)
  | .stopped id => some (s, match s.stopped id with | some o => .okOpt o | none => .errClosed)
  | .prio id p => let (s', ok) := s.setPriority id p; some (s', if ok then .ok else .errClosed)
  | .stream id off len fin => (s.received id off len fin).map fun (s', r) => (s', outT r)
  | .rst id code fo => (s.receivedReset id code fo).map fun (s', r) => (s', outT r)
  | .stopSending id code => some (s.receivedStopSending id code, .ok)
  | .maxData n => some (s.receivedMaxData n, .ok)
  | .maxStreamData id n => (s.receivedMaxStreamData id n).map fun (s', e) =>
      (s', match e with | none => .ok | some e => .errT e)
  | .maxStreams d n => let (s', e) := s.receivedMaxStreams d n
      some (s', match e with | none => .ok | some e => .errT e)
  | .ack id a e fin => (s.receivedAckOf id a e fin).map fun s' => (s', .ok)
  | .lost id a e fin => (s.retransmit id a e fin).map fun s' => (s', .ok)
  | .rstAck id => (s.resetAcked id).map fun s' => (s', .ok)
  | .read id budget => (s.read id budget).map fun (s', r) =>
      (s', match r with | .closedStream => .errClosed | .ok k e t => .read k e t)
  | .stop id code => (s.stop id code).map fun (s', ok) => (s', if ok then .ok else .errClosed)
  | .recvReset id => (s.recvReceivedReset id).map fun (s', r) =>
      (s', match r with | none => .errClosed | some o => .okOpt o)
  | .poll => s.poll.map fun (s', e) => (s', match e with | some e => .event e | none => .none_)
  | .transmit maxBuf fair =>
      (s.writeStreamFrames maxBuf fair (maxBuf + s.pending.streams.length + 2) 0 []).map
        fun (s', len, fs) => (s', .xmit len fs)
  | .canSend => some (s, .bool s.canSendStreamData)
  | .canFlow id => some (s, .bool (s.canSendFlowControl id))
  | .ctrl => s.writeControlFrames.map fun (s', fs) => (s', .ctrl fs)
  | .queueMaxStreamId => s.queueMaxStreamId.map fun (s', b) => (s', .bool b)
  | .pendMaxData => some ({ s with rtx := { s.rtx with maxData := true } }, .ok)
  | .pendMaxStreamData id =>
      some ({ s with rtx := { s.rtx with maxStreamData := sortedInsert s.rtx.maxStreamData id } }, .ok)
  | .pendMaxStreamId d =>
      some ({ s with rtx := { s.rtx with maxStreamId := s.rtx.maxStreamId.set d true } }, .ok)
  | .sendWindow n => some ({ s with sendWindow := n }, .ok)
  | .recvWindow n => let (s', b) := s.setReceiveWindow n; some (s', .okFlag b)
  | .maxConcurrent d n => (s.setMaxConcurrent d n).map fun s' => (s', .ok)
  | .rejected => s.zeroRttRejected.map fun s' => ({ s' with rtx := {} }, .ok)
  | .rtx0 => s.retransmitAllFor0rtt.map fun s' => (s', .ok)
  | .view => some (s, .ok)

end QM.Streams
