import QuinnModel.Lemmas.SendBuffer
import QuinnModel.Lemmas.Assembler
import QuinnModel.Streams.State
/-
C01 end to end: ONE stream, a sending endpoint, an adversarial network and a receiving endpoint, composed
from the component models that the micro-differentials `sbuf`, `asm` and `streams` tie to the code. Nothing
is re-modelled here:

  sender    `SendBuffer.Sys` (= `SendBuffer` + the frames in flight + the ghost stream `w` of written bytes,
            with its `step`: `write`, `poll_transmit`, `ack`, `retransmit`) and the copy loop of
            `write_stream_frames` (`SendBuffer.copyLoop`), under the half's state machine `Streams.Send`
            (`Send::{write, finish, reset, try_stop, increase_max_data}` are called as they are; `pending`
            is kept equal to the offsets of the content buffer (`proj`). The three glue lines of
            `Send::ack`, `StreamsState::retransmit` and `write_stream_frames` that touch `state` /
            `fin_pending` are spelled out next to the content-buffer call they wrap: the streams model
            wraps them around its own offsets-only buffer.)
  network   every STREAM / RESET_STREAM frame ever transmitted stays deliverable for ever: the adversary may
            deliver any of them at any time, any number of times, in any order, or never (drop, duplicate,
            delay, reorder). Acknowledgements and loss reports come in any order, for a transmission that is
            still in flight; an acknowledgement only for a frame the receiver was handed.
  receiver  the decisions `Recv::{ingest, reset, stop}` and the end-of-stream test of `Chunks::next`
            (`Recv.readEnd`) of the streams model, on top of `Assembler.Sys` (= `Assembler` + ghost record of
            every chunk handed to the application) with its `step`: insert / read with any `max_length`,
            ordered or unordered, the switch / `clear`. `Recv`'s own offsets-only assembler is not used: the
            read counter the decisions look at is the content assembler's (`view`).

The receiver-side glue written here (`deliver`, `read`, `openRead`, `stop`: which `Recv` decision guards which
`Assembler` call, `ClosedStream` / `IllegalOrderedRead`, when the half leaves the receive map) is tied to the code
by the exact micro-differential `rcv` (Drv/Rcv.lean): real `StreamsState` + `RecvStream` / `Chunks` on one stream.
It models recv.rs AFTER fix-illegal-ordered-read-drops-stream (a refused ordered read leaves the stream stored).
The sender-side glue is the same three expressions the `streams` model uses (`ack_glue_is_send_ack`).

Flow-control inputs (`received`, `max_data`, the connection-level write limit, MAX_STREAM_DATA values) are
arbitrary labels of the events: windows are the subject of C05/C06, here they only decide WHETHER a frame or a
write is accepted. `none` = the event is not enabled in this state, or the code panics.
-/
namespace QM.E2E
open QM

inductive Frame where
  | stream (off : Nat) (bytes : Bytes) (fin : Bool)
  | reset (code : Nat) (finalSize : Nat)
deriving Repr, DecidableEq

/-- the offsets of the content buffer, as the streams model's `SendBuf` -/
def proj (sb : SendBuffer.SendBuffer) : Streams.SendBuf :=
  { offset := sb.offset, unackedLen := sb.unackedLen, unsent := sb.unsent,
    acks := sb.acks, retransmits := sb.retransmits }

structure St where
  -- sender
  sys : SendBuffer.Sys
  half : Streams.Send
  /-- the half is still stored in `StreamsState::send` -/
  live : Bool
  /-- RESET_STREAM queued or in flight (`Retransmits::reset_stream`, `SentPacket::retransmits`) -/
  resetCode : Option Nat
  /-- STREAM frame metadata in flight (`SentPacket::stream_frames`): start, end, fin -/
  T : List (Nat × Nat × Bool)
  /-- network: every frame ever transmitted -/
  net : List Frame
  -- receiver
  rv : Streams.Recv
  asm : Assembler.Sys
  /-- the half is still stored in `StreamsState::recv` -/
  rlive : Bool
  -- ghost
  /-- `finish()` was accepted when this many bytes had been written -/
  finishedAt : Option Nat
  /-- `reset(code)` was accepted -/
  appReset : Option Nat
  /-- frames handed to the receiver's stream layer and not answered with a connection error -/
  got : List Frame
  /-- the reader was told end-of-stream (`Chunks::next` = `Ok(None)`) -/
  eos : Bool
  /-- the reader was told `ReadError::Reset(code)` -/
  sawReset : Option Nat
  /-- `stop(code)` was accepted -/
  stopCode : Option Nat

def St.init (maxData window : Nat) : St :=
  { sys := SendBuffer.Sys.init, half := Streams.Send.new maxData, live := true, resetCode := none, T := [],
    net := [], rv := Streams.Recv.new window, asm := Assembler.Sys.init, rlive := true,
    finishedAt := none, appReset := none, got := [], eos := false, sawReset := none, stopCode := none }

/-- the receive half as the decisions of `Recv` see it: its read counter is the content assembler's -/
def St.view (s : St) : Streams.Recv :=
  { s.rv with assembler := { bytesRead := s.asm.a.bytesRead, buf := [] } }

def isDataSent : Streams.SendState → Bool
  | .dataSent _ => true
  | _ => false

inductive Ev where
  /-- `SendStream::write(d)` under the connection-level limit `limit` -/
  | write (d : Bytes) (limit : Nat)
  | finish
  | reset (code : Nat)
  /-- MAX_STREAM_DATA(v) from the peer -/
  | maxStreamData (v : Nat)
  /-- one iteration of `write_stream_frames` that picked this stream, `max_len` bytes of room -/
  | transmit (maxLen : Nat)
  /-- RESET_STREAM written by `write_control_frames` -/
  | transmitReset
  | ack (a e : Nat) (fin : Bool)
  | lose (a e : Nat) (fin : Bool)
  | ackReset
  /-- the receiver's STOP_SENDING arrives -/
  | stopSending
  /-- the network hands the receiver a frame; `received`/`maxData` connection-level flow-control inputs,
      `alloc`/`tooMany` as in `Assembler.Op.insert` -/
  | deliver (f : Frame) (received maxData alloc : Nat) (tooMany : Bool)
  /-- `RecvStream::read(ordered)` + one `Chunks::next(max)` that returned `obs` -/
  | read (max : Nat) (ordered : Bool) (obs : Assembler.Obs)
  /-- `RecvStream::read(ordered)` dropped without `next` -/
  | openRead (ordered : Bool)
  | stop (code : Nat)

/-! ### sender -/

/-- `SendStream::write`: `Send::write` decides how much is accepted, the content buffer stores it -/
def write (s : St) (d : Bytes) (limit : Nat) : Option St :=
  if !s.live then some s                                          -- ClosedStream
  else match s.half.write d.length limit with
    | none => none
    | some (.error _) => some s
    | some (.ok (k, _)) =>
      match SendBuffer.step s.sys (.write (d.take k)) with
      | none => none
      | some sys' => some { s with sys := sys', half := { s.half with pending := proj sys'.sb } }

/-- `SendStream::finish` -/
def finish (s : St) : Option St :=
  if !s.live then some s
  else match s.half.finish with
    | .error _ => some s
    | .ok h => some { s with half := h, finishedAt := some s.sys.sb.offset }

/-- `SendStream::reset(code)` -/
def reset (s : St) (code : Nat) : Option St :=
  if !s.live then some s
  else if s.half.state = .resetSent then some s
  else some { s with half := s.half.reset, resetCode := some code, appReset := some code }

/-- `StreamsState::received_max_stream_data` -/
def maxStreamData (s : St) (v : Nat) : Option St :=
  if !s.live then some s else some { s with half := (s.half.increaseMaxData v).1 }

/-- one iteration of `write_stream_frames`: `poll_transmit`, the FIN decision, the copy loop -/
def transmit (s : St) (maxLen : Nat) : Option St :=
  if !s.live || s.half.isReset then none                          -- not stored / `continue`
  else match SendBuffer.pollTransmit s.sys.sb maxLen with
    | none => none
    | some (sb', r, _) =>
      match SendBuffer.copyLoop sb' (r.2 - r.1) r.1 r.2 with
      | none => none
      | some bytes =>
        let fin := r.2 == sb'.offset && isDataSent s.half.state
        some { s with
          sys := { s.sys with sb := sb', F := r :: s.sys.F },
          half := { s.half with pending := proj sb', finPending := if fin then false else s.half.finPending },
          T := (r.1, r.2, fin) :: s.T,
          net := .stream r.1 bytes fin :: s.net }

/-- RESET_STREAM: `State.ctrlResets` (code from the queue entry, final size = `Send::offset()`) -/
def transmitReset (s : St) : Option St :=
  if !s.live || !s.half.isReset then none
  else match s.resetCode with
    | none => none
    | some c => some { s with net := .reset c s.half.offset :: s.net }

/-- the receiver was handed STREAM `a..e` with this FIN bit -/
def St.gotStream (s : St) (a e : Nat) (fin : Bool) : Bool :=
  s.got.any fun f => match f with
    | .stream o b f' => o == a && b.length == e - a && f' == fin
    | _ => false

def St.gotReset (s : St) : Bool :=
  s.got.any fun f => match f with
    | .reset _ _ => true
    | _ => false

/-- `StreamsState::received_ack_of` (with `Send::ack`) for a frame in flight the receiver was handed -/
def ack (s : St) (a e : Nat) (fin : Bool) : Option St :=
  if (a, e, fin) ∉ s.T ∨ (a, e) ∉ s.sys.F ∨ s.gotStream a e fin = false then none
  else if !s.live || s.half.isReset then some { s with T := s.T.erase (a, e, fin) }
  else match SendBuffer.step s.sys (.ack (a, e)) with
    | none => none
    | some sys' =>
      match s.half.state with
      | .dataSent fa =>
        some { s with sys := sys', T := s.T.erase (a, e, fin),
                      half := { s.half with pending := proj sys'.sb, state := .dataSent (fa || fin) },
                      live := !((fa || fin) && SendBuffer.isFullyAcked sys'.sb) }
      | _ => some { s with sys := sys', T := s.T.erase (a, e, fin), half := { s.half with pending := proj sys'.sb } }

/-- `StreamsState::retransmit` for a frame in flight -/
def lose (s : St) (a e : Nat) (fin : Bool) : Option St :=
  if (a, e, fin) ∉ s.T ∨ (a, e) ∉ s.sys.F then none
  else if !s.live then some { s with T := s.T.erase (a, e, fin) }
  else match SendBuffer.step s.sys (.lose (a, e)) with
    | none => none
    | some sys' =>
      some { s with sys := sys', T := s.T.erase (a, e, fin),
                    half := { s.half with pending := proj sys'.sb, finPending := s.half.finPending || fin } }

/-- `StreamsState::reset_acked` once the receiver was handed a RESET_STREAM -/
def ackReset (s : St) : Option St :=
  if s.gotReset = false then none
  else if s.live && s.half.isReset then some { s with live := false } else some s

/-- `StreamsState::received_stop_sending` -/
def stopSending (s : St) : Option St :=
  match s.stopCode with
  | none => none
  | some c => if !s.live then some s else some { s with half := (s.half.tryStop c).1 }

/-! ### receiver -/

/-- `StreamsState::received` / `received_reset` for a frame the network holds -/
def deliver (s : St) (f : Frame) (received maxData alloc : Nat) (tm : Bool) : Option St :=
  if f ∉ s.net then none
  else if !s.rlive then some { s with got := f :: s.got }         -- "dropping frame for closed stream"
  else match f with
    | .stream off bytes fin =>
      if !s.rv.isReceiving then some { s with got := f :: s.got }
      else match s.rv.ingest off bytes.length fin received maxData with
        | none => none
        | some (.error _) => some s                               -- connection error
        | some (.ok (_, closed, rv')) =>
          if rv'.stopped then some { s with rv := rv', got := f :: s.got, rlive := !closed }
          else match Assembler.step s.asm (.insert off bytes alloc tm) with
            | none => none
            | some asm' => some { s with rv := rv', asm := asm', got := f :: s.got }
    | .reset code fs =>
      match s.rv.reset code fs received maxData with
      | none => none
      | some (.error _) => some s
      | some (.ok (false, _)) => some { s with got := f :: s.got }
      | some (.ok (true, rv')) =>
        match Assembler.step s.asm .clear with
        | none => none
        | some asm' => some { s with rv := rv', asm := asm', got := f :: s.got, rlive := !rv'.stopped }

/-- `Chunks::new(ordered)`; `Chunks::next(max)` with the observed result; the end-of-stream / reset test -/
def read (s : St) (max : Nat) (ordered : Bool) (obs : Assembler.Obs) : Option St :=
  if !s.rlive || s.rv.stopped then some s                         -- ClosedStream
  else if ordered && s.asm.a.unordered then some s                -- IllegalOrderedRead: nothing happens
  else match Assembler.step s.asm (.read max ordered obs) with
    | none => none
    | some asm' =>
      match obs with
      | .chunk _ _ => some { s with asm := asm' }
      | .none =>
        match Streams.Recv.readEnd ({ s with asm := asm' } : St).view 0 1 with
        | none => none
        | some (.reset code, _) => some { s with asm := asm', sawReset := some code, rlive := false }
        | some (.fin, _) => some { s with asm := asm', eos := true, rlive := false }
        | some (_, _) => some { s with asm := asm' }

/-- `Chunks::new(ordered)` alone -/
def openRead (s : St) (ordered : Bool) : Option St :=
  if !s.rlive || s.rv.stopped then some s
  else if ordered && s.asm.a.unordered then some s
  else match Assembler.step s.asm (.ensure ordered) with
    | none => none
    | some asm' => some { s with asm := asm' }

/-- `RecvStream::stop(code)` -/
def stop (s : St) (code : Nat) : Option St :=
  if !s.rlive then some s
  else match s.view.stop with
    | none => none
    | some none => some s
    | some (some (_, _, rv')) =>
      match Assembler.step s.asm .clear with
      | none => none
      | some asm' =>
        some { s with rv := rv', asm := asm', rlive := rv'.finalOffsetUnknown,
                      stopCode := match s.stopCode with | some c => some c | none => some code }

def step (s : St) : Ev → Option St
  | .write d limit => write s d limit
  | .finish => finish s
  | .reset code => reset s code
  | .maxStreamData v => maxStreamData s v
  | .transmit n => transmit s n
  | .transmitReset => transmitReset s
  | .ack a e fin => ack s a e fin
  | .lose a e fin => lose s a e fin
  | .ackReset => ackReset s
  | .stopSending => stopSending s
  | .deliver f r m al tm => deliver s f r m al tm
  | .read max ordered obs => read s max ordered obs
  | .openRead ordered => openRead s ordered
  | .stop code => stop s code

def run : St → List Ev → Option St
  | s, [] => some s
  | s, ev :: evs => match step s ev with
    | some s' => run s' evs
    | none => none

end QM.E2E
