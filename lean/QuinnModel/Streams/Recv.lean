import QuinnModel.Streams.Send
/-
Model of the receiving half of a stream:
  quinn-proto/src/connection/streams/recv.rs  (`Recv`, `RecvState`, the per-stream part of `Chunks`)
  quinn-proto/src/connection/assembler.rs     (`Assembler` in ORDERED mode, offsets only: the set of
     buffered bytes at or above the read offset as disjoint maximal intervals; data content, chunk
     boundaries, defragmentation and the `TooManyChunks` limit are the subject of another component)
-/
namespace QM.Streams

/-! ### Assembler (ordered mode, offsets only) -/

structure Asm where
  bytesRead : Nat := 0
  /-- buffered, not yet read bytes: sorted disjoint non-touching intervals, all above `bytesRead` -/
  buf : RangeSet := []
deriving Repr, DecidableEq

/-- `Assembler::insert(offset, bytes)` in ordered mode: the part below the read offset is dropped -/
def Asm.insert (a : Asm) (offset len : Nat) : Asm :=
  { a with buf := RangeSet.insert a.buf (Nat.max offset a.bytesRead) (offset + len) }

/-- `Assembler::clear` -/
def Asm.clear (a : Asm) : Asm := { a with buf := [] }

/-- number of bytes an ordered read can deliver right now -/
def Asm.available (a : Asm) : Nat :=
  match a.buf with
  | (s, e) :: _ => if s = a.bytesRead then e - s else 0
  | [] => 0

/-- ordered reads of `k ≤ available` bytes in total -/
def Asm.consume (a : Asm) (k : Nat) : Asm :=
  match a.buf with
  | (s, e) :: rest =>
    if k = 0 then a
    else if s + k < e then { bytesRead := a.bytesRead + k, buf := (s + k, e) :: rest }
    else { bytesRead := a.bytesRead + k, buf := rest }
  | [] => a

/-! ### Recv -/

inductive RecvState
  | recv (size : Option Nat)
  | resetRecvd (size : Nat) (errorCode : Nat)
deriving Repr, DecidableEq

structure Recv where
  state : RecvState := .recv none
  assembler : Asm := {}
  sentMaxStreamData : Nat
  end_ : Nat := 0
  stopped : Bool := false
deriving Repr, DecidableEq

/-- `Recv::new(initial_max_data)` (a recycled `StreamRecv::Free` is `reinit`-ed to the same value) -/
def Recv.new (initialMaxData : Nat) : Recv := { sentMaxStreamData := initialMaxData }

def Recv.finalOffset (r : Recv) : Option Nat :=
  match r.state with
  | .recv size => size
  | .resetRecvd size _ => some size

def Recv.finalOffsetUnknown (r : Recv) : Bool := r.state == .recv none
def Recv.canSendFlowControl (r : Recv) : Bool := r.finalOffsetUnknown && !r.stopped
def Recv.isReceiving (r : Recv) : Bool :=
  match r.state with
  | .recv _ => true
  | .resetRecvd _ _ => false
def Recv.resetCode (r : Recv) : Option Nat :=
  match r.state with
  | .resetRecvd _ c => some c
  | .recv _ => none

/-- transport error codes raised by the stream layer, with the reason text -/
inductive TErr
  | flowControl (reason : String)
  | finalSize (reason : String)
  | streamLimit
  | streamState (reason : String)
  | frameEncoding (reason : String)
deriving Repr, DecidableEq

/-- `Recv::credit_consumed_by(offset, received, max_data)`;
    outer `none` = `received + new_bytes` overflows u64 (checked build) where the code adds unchecked; with
    `checked_add(..).is_none_or(..)` (`Gen.creditOverflowIsError`) the overflow is the FLOW_CONTROL_ERROR
    (`max_data` is a u64: values from 2^64 on do not occur) -/
def Recv.creditConsumedBy (r : Recv) (offset received maxData : Nat) : Option (Except TErr Nat) :=
  let newBytes := Gen.creditNewBytes offset r.end_
  if Gen.creditOverStream offset r.sentMaxStreamData then some (.error (.flowControl ""))
  else match addU received newBytes with
  | none => if Gen.creditOverflowIsError && decide (maxData < 2 ^ 64) then some (.error (.flowControl "")) else none
  | some sum =>
    if Gen.creditOverConn sum maxData then some (.error (.flowControl "")) else some (.ok newBytes)

/-- the final-size tests of `ingest`: data past the final size, a FIN at a different size, or a FIN
    below the data already received -/
def Recv.finalSizeErr (r : Recv) (end_ : Nat) (fin : Bool) : Bool :=
  (match r.finalOffset with
   | some fo => decide (end_ > fo) || (fin && decide (end_ ≠ fo))
   | none => false) ||
  (Gen.ingestFinBelowEndIsError && fin && decide (end_ < r.end_))

/-- `ingest` after the size checks: flow-control credit, then the state update -/
def Recv.ingestTail (r : Recv) (offset len : Nat) (fin : Bool) (received maxData : Nat) :
    Option (Except TErr (Nat × Bool × Recv)) :=
  let end_ := offset + len
  match r.creditConsumedBy end_ received maxData with
  | none => none
  | some (.error e) => some (.error e)
  | some (.ok newBytes) =>
    let st := if fin && !r.stopped then
        (match r.state with
         | .recv _ => RecvState.recv (some end_)
         | s => s)
      else r.state
    let asm := if !r.stopped then r.assembler.insert offset len else r.assembler
    some (.ok (newBytes, fin && r.stopped,
      { r with state := st, end_ := Nat.max r.end_ end_, assembler := asm }))

/-- `Recv::ingest(frame, payload_len, received, max_data)`: `(new_bytes, closed)` and the new half -/
def Recv.ingest (r : Recv) (offset len : Nat) (fin : Bool) (received maxData : Nat) :
    Option (Except TErr (Nat × Bool × Recv)) :=
  if offset + len ≥ Gen.ingestEndBound then some (.error (.flowControl "maximum stream offset too large"))
  else if r.finalSizeErr (offset + len) fin then some (.error (.finalSize ""))
  else r.ingestTail offset len fin received maxData

/-- `Recv::stop`: `(read_credits, stop_sending?)`; `none` inside = `ClosedStream`;
    outer `none` = `self.end - bytes_read` underflow -/
def Recv.stop (r : Recv) : Option (Option (Nat × Bool × Recv)) :=
  if r.stopped then some none
  else match (if Gen.stopCreditsOnlyReceiving && !r.isReceiving then some 0
              else subU r.end_ r.assembler.bytesRead) with
  | none => none
  | some credits =>
    some (some (credits, r.isReceiving, { r with stopped := true, assembler := r.assembler.clear }))

/-- `Recv::max_stream_data(stream_receive_window)`: `(max_stream_data, transmit?)`;
    `none` = `max_stream_data - self.sent_max_stream_data` underflow -/
def Recv.maxStreamData (r : Recv) (srw : Nat) : Option (Nat × Bool) :=
  let msd := r.assembler.bytesRead + srw
  match subU msd r.sentMaxStreamData with
  | none => none
  | some diff => some (msd, r.canSendFlowControl && Gen.maxStreamDataSignificant diff srw)

/-- `Recv::record_sent_max_stream_data` -/
def Recv.recordSentMaxStreamData (r : Recv) (v : Nat) : Recv :=
  if v > r.sentMaxStreamData then { r with sentMaxStreamData := v } else r

/-- the final-size validation of `Recv::reset` -/
def Recv.resetSizeErr (r : Recv) (finalOffset : Nat) : Option TErr :=
  match r.finalOffset with
  | some fo => if fo ≠ finalOffset then some (.finalSize "inconsistent value") else none
  | none => if r.end_ > finalOffset then some (.finalSize "lower than high water mark") else none

/-- `reset` after the size validation -/
def Recv.resetTail (r : Recv) (code finalOffset received maxData : Nat) :
    Option (Except TErr (Bool × Recv)) :=
  -- a retransmitted RESET_STREAM (same final size) is noticed before the flow-control test
  if Gen.resetDuplicateBeforeCredit && !r.isReceiving then some (.ok (false, r))
  else
  match r.creditConsumedBy finalOffset received maxData with
  | none => none
  | some (.error e) => some (.error e)
  | some (.ok _) =>
    match r.state with
    | .resetRecvd _ _ => some (.ok (false, r))
    | .recv _ =>
      some (.ok (true, { r with state := .resetRecvd finalOffset code, assembler := r.assembler.clear }))

/-- `Recv::reset(error_code, final_offset, received, max_data)`: `false` iff redundant -/
def Recv.reset (r : Recv) (code finalOffset received maxData : Nat) :
    Option (Except TErr (Bool × Recv)) :=
  match r.resetSizeErr finalOffset with
  | some e => some (.error e)
  | none => r.resetTail code finalOffset received maxData

end QM.Streams
