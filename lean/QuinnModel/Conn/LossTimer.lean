import QuinnModel.Gen.Conn
/-
Model of the loss-detection timer decision (quinn-proto/src/connection/mod.rs `set_loss_detection_timer`,
`pto_time_and_space`, `loss_time_and_space`, `peer_completed_address_validation` as an input).
Spaces are indexed 0 = Initial, 1 = Handshake, 2 = Data.  Durations/instants are Nat.
-/
namespace QM.LossTimer

structure SpaceL where
  /-- `sent_packets.has_in_flight()` -/
  hasInFlight : Bool
  /-- `time_of_last_ack_eliciting_packet` -/
  lastAckEliciting : Option Nat
  /-- `loss_time` -/
  lossTime : Option Nat
deriving Repr, DecidableEq

structure S where
  closed : Bool
  handshaking : Bool
  /-- `path.anti_amplification_blocked(1)` -/
  ampBlocked : Bool
  /-- `path.in_flight.ack_eliciting` -/
  inFlightAckEliciting : Nat
  /-- `peer_completed_address_validation()` -/
  peerCompleted : Bool
  ptoCount : Nat
  /-- `path.rtt.pto_base()` -/
  ptoBase : Nat
  /-- `ack_frequency.max_ack_delay_for_pto()` -/
  maxAckDelay : Nat
  /-- `highest_space == Handshake` -/
  highestIsHandshake : Bool
  sp0 : SpaceL
  sp1 : SpaceL
  sp2 : SpaceL
deriving Repr, DecidableEq

def optMin (a b : Option Nat) : Option Nat :=
  match a, b with
  | none, b => b
  | a, none => a
  | some x, some y => some (Nat.min x y)

/-- `loss_time_and_space` (only the time) -/
def lossTime (s : S) : Option Nat := optMin (optMin s.sp0.lossTime s.sp1.lossTime) s.sp2.lossTime

def backoff (s : S) : Nat := 2 ^ (Nat.min s.ptoCount Gen.maxBackoffExponent)

/-- candidate PTO of one space given the (already accumulated) duration -/
def spacePto (sp : SpaceL) (duration : Nat) : Option Nat :=
  if sp.hasInFlight then sp.lastAckEliciting.map (· + duration) else none

/-- `pto_time_and_space` (only the time) -/
def ptoTime (s : S) (now : Nat) : Option Nat :=
  let d := s.ptoBase * backoff s
  if s.inFlightAckEliciting = 0 then some (now + d)
  else
    let r01 := optMin (spacePto s.sp0 d) (spacePto s.sp1 d)
    if s.sp2.hasInFlight then
      if s.handshaking then r01     -- "Skip ApplicationData until handshake completes": returns what was found so far
      else optMin r01 (spacePto s.sp2 (d + s.maxAckDelay * backoff s))
    else r01

/-- `set_loss_detection_timer`: the new value of Timer::LossDetection (`old` when the function returns early) -/
def setTimer (s : S) (now : Nat) (old : Option Nat) : Option Nat :=
  if s.closed then old
  else match lossTime s with
    | some t => some t
    | none =>
      if s.ampBlocked then none
      else if s.inFlightAckEliciting = 0 ∧ s.peerCompleted then none
      else ptoTime s now

/-- a space whose in-flight ack-eliciting data the PTO covers in the current state -/
def covered (s : S) : Prop :=
  (s.sp0.hasInFlight = true ∧ s.sp0.lastAckEliciting.isSome = true) ∨
  (s.sp1.hasInFlight = true ∧ s.sp1.lastAckEliciting.isSome = true) ∨
  (s.handshaking = false ∧ s.sp2.hasInFlight = true ∧ s.sp2.lastAckEliciting.isSome = true)

/-- `Connection::discard_space` (Initial / Handshake keys dropped): besides forgetting the space it resets the PTO
    backoff (`self.pto_count = 0`, RFC 9002 A.4; pinned by the T1 anchor `Gen.discardSpaceResetsPtoChecked`) -/
def discardSpace (s : S) (clear : S → S) : S :=
  let _ := Gen.discardSpaceResetsPtoChecked
  { clear s with ptoCount := 0 }

end QM.LossTimer
