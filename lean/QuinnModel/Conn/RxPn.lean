import QuinnModel.Wire.PacketNumber
import QuinnModel.Gen.C03Total
/-
Model of the first lines of `packet_crypto.rs::decrypt_packet_body`: the packet number a received packet is
processed under.  `rx_packet` is the largest packet number processed so far in the space
(`on_packet_authenticated`: `if packet >= space.rx_packet { space.rx_packet = packet }`).
The decryption itself is not modelled ("the peer holds the keys": C03 hostile authenticated peer).
-/
namespace QM.RxPn
open QM

inductive Out where
  | accept (number : Nat)
  | drop
  | panic
deriving Repr, DecidableEq

/-- `let number = packet.header.number()?.expand(rx_packet + 1);` followed by the bound test, if the code has one
    (`Gen.rxPnBound`).  `panic` = checked u64 arithmetic overflows (`rx_packet + 1`, inside `expand`). -/
def rxNumber (p : Nat × Nat) (rxPacket : Nat) : Out :=
  if 18446744073709551616 ≤ rxPacket + 1 then .panic else
  match PacketNumber.expand p (rxPacket + 1) with
  | none => .panic
  | some n =>
    match Gen.rxPnBound with
    | some b => if n > b then .drop else .accept n
    | none => .accept n

/-- `on_packet_authenticated`: the largest processed packet number -/
def advance (rxPacket : Nat) : Out → Nat
  | .accept n => if n ≥ rxPacket then n else rxPacket
  | _ => rxPacket

/-- a history of received (authenticated) packets, each given by its truncated packet number `(len, value)`;
    `none` = some packet made the receive path panic -/
def run : Nat → List (Nat × Nat) → Option Nat
  | rx, [] => some rx
  | rx, p :: ps =>
    match rxNumber p rx with
    | .panic => none
    | o => run (advance rx o) ps

/-- every packet number accepted along a history -/
def accepted : Nat → List (Nat × Nat) → List Nat
  | _, [] => []
  | rx, p :: ps =>
    match rxNumber p rx with
    | .accept n => n :: accepted (advance rx (.accept n)) ps
    | o => accepted (advance rx o) ps

/-- what `PacketNumber::decode` yields: a length 1..4 and a value below 2^(8·len) -/
def wire (p : Nat × Nat) : Prop := 1 ≤ p.1 ∧ p.1 ≤ 4 ∧ p.2 < PacketNumber.winOf p.1

end QM.RxPn
