import QuinnModel.Gen.Conn
/-
Skeleton model of the connection lifecycle (quinn-proto/src/connection/mod.rs: `close_inner`, `close_common`,
`set_close_timer`, `kill`, the error→state mapping at the end of `handle_packet`, peer close in
`process_payload`, `Closed→Draining` in `process_decrypted_packet`, `handle_timeout(Close|Idle)`,
`reset_idle_timeout`, `poll` (ConnectionLost delivery), the close/drained branches of `poll_transmit`).
Time is Nat; `pto3` is the value of `3 * self.pto(highest_space)` at the moment the close timer is set
(an input: the RTT estimator is not part of this model).
-/
namespace QM.Life

inductive St where
  | handshake | established | closed | draining | drained
deriving Repr, DecidableEq

def St.isClosed : St → Bool
  | .closed | .draining | .drained => true
  | _ => false

/-- classes of `ConnectionError` produced by packet processing, by the state they map to -/
inductive PktErr where
  /-- ApplicationClosed / ConnectionClosed / TransportError ↦ `State::Closed` -/
  | toClosed
  /-- Reset / AEAD_LIMIT_REACHED ↦ `State::Drained` -/
  | toDrained
  /-- VersionMismatch ↦ `State::Draining` -/
  | toDraining
deriving Repr, DecidableEq

structure L where
  st : St
  /-- `self.error.is_some()` -/
  error : Bool
  /-- `self.close`: a CONNECTION_CLOSE packet is owed -/
  closeFlag : Bool
  closeTimer : Option Nat
  idleTimer : Option Nat
  /-- ghost: number of `ConnectionLost` events handed to the application by `poll` -/
  lost : Nat
  /-- ghost: number of `Drained` endpoint events pushed -/
  drainedEv : Nat
  /-- ghost: the application called close() -/
  localClose : Bool
deriving Repr, DecidableEq

def init : L := ⟨.handshake, false, false, none, none, 0, 0, false⟩

inductive Ev where
  /-- application `close()` at `now` -/
  | close (now pto3 : Nat)
  /-- packet processing returned `Err(e)`; `samePath` = packet came from the current path's address -/
  | pktErr (e : PktErr) (now pto3 : Nat) (samePath : Bool)
  /-- a CONNECTION_CLOSE from the peer processed in Handshake/Established (`process_payload` sets
      `error`, `Draining`, `close = true`) -/
  | peerClose (now pto3 : Nat)
  /-- a CONNECTION_CLOSE from the peer in an Initial/Handshake packet (`process_early_payload`: sets
      `error` and `Draining` but does not owe a closing packet) -/
  | peerCloseEarly (now pto3 : Nat)
  /-- a packet containing a close frame processed while `Closed` (↦ Draining) -/
  | closeFrameWhileClosed
  /-- handshake completes -/
  | established
  /-- an authenticated packet in a non-closed state restarts the idle timer -/
  | authed (now idle : Nat)
  /-- `handle_timeout(now)` -/
  | timeout (now : Nat)
  /-- application `poll()` until empty -/
  | poll
  /-- `poll_transmit` (only its close bookkeeping) -/
  | pollTransmit
deriving Repr

/-- `close_common`: stop every timer -/
def stopTimers (l : L) : L := { l with closeTimer := none, idleTimer := none }

/-- tail of `handle_packet` after the state was (maybe) changed -/
def afterPacket (wasClosed wasDrained : Bool) (now pto3 : Nat) (samePath : Bool) (l : L) : L :=
  let l := if !wasClosed && l.st.isClosed then
             let l := stopTimers l
             if l.st != .drained then { l with closeTimer := some (now + pto3) } else l
           else l
  let l := if !wasDrained && l.st == .drained then
             { l with drainedEv := l.drainedEv + 1, closeTimer := none }
           else l
  if l.st == .closed then { l with closeFlag := samePath } else l

/-- `Timer::Idle` expired: `kill(TimedOut)` -/
def fireIdle (l : L) (now : Nat) : L :=
  match l.idleTimer with
  | some t => if t ≤ now then
      { (stopTimers l) with error := true, st := .drained, drainedEv := l.drainedEv + 1 }
    else l
  | none => l

/-- `Timer::Close` expired (checked after Idle, as in `Timer::VALUES`) -/
def fireClose (l : L) (now : Nat) : L :=
  match l.closeTimer with
  | some t => if t ≤ now then { l with closeTimer := none, st := .drained, drainedEv := l.drainedEv + 1 } else l
  | none => l

def step (l : L) : Ev → L
  | .close now pto3 =>
    if l.st.isClosed then { l with localClose := true }
    else { (stopTimers l) with closeTimer := some (now + pto3), closeFlag := true, st := .closed, localClose := true }
  | .pktErr e now pto3 samePath =>
    let wasClosed := l.st.isClosed
    let wasDrained := l.st == .drained
    let st' := match e with
      | .toClosed => St.closed
      | .toDrained => St.drained
      | .toDraining => St.draining
    afterPacket wasClosed wasDrained now pto3 samePath { l with error := true, st := st' }
  | .peerClose now pto3 =>
    if l.st.isClosed then l   -- not reachable through `process_payload` (only runs when Established/Handshake)
    else afterPacket false false now pto3 true { l with error := true, st := .draining, closeFlag := true }
  | .peerCloseEarly now pto3 =>
    if l.st.isClosed then l
    else afterPacket false false now pto3 true { l with error := true, st := .draining }
  | .closeFrameWhileClosed =>
    if l.st == .closed then afterPacket true false 0 0 true { l with st := .draining } else l
  | .established => if l.st == .handshake then { l with st := .established } else l
  | .authed now idle => if l.st.isClosed then l else { l with idleTimer := some (now + idle) }
  | .timeout now => fireClose (fireIdle l now) now
  | .poll => if l.error then { l with error := false, lost := l.lost + 1 } else l
  | .pollTransmit =>
    match l.st with
    | .drained => l
    | .closed | .draining => if l.closeFlag then { l with closeFlag := false } else l
    | _ => l

def run (l : L) (evs : List Ev) : L := evs.foldl step l

/-- does `poll_transmit` produce a packet for the close bookkeeping? (drained: never) -/
def transmitsClose (l : L) : Bool :=
  match l.st with
  | .drained => false
  | .closed | .draining => l.closeFlag
  | _ => false

/-- decision skeleton of the datagram loop of `poll_transmit` for one candidate datagram:
    anti-amplification gate, then (for ack-eliciting non-probe packets) congestion window and pacing.
    `queued` = ack-eliciting data is queued; with a close pending the code clears `ack_eliciting`
    (generated flag `Gen.closeClearsAckEliciting` says whether the source still does). -/
def sendsDatagram (close queued : Bool) (lossProbes : Nat) (ampBlocked ccBlocked pacingBlocked : Bool) : Bool :=
  let ackEliciting := if close && Gen.closeClearsAckEliciting then false else queued
  if ampBlocked then false
  else if ackEliciting && lossProbes == 0 && (ccBlocked || pacingBlocked) then false
  else true

end QM.Life
