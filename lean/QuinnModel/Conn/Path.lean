import QuinnModel.Gen.PathV
/-
Skeleton model of path migration and validation on an established server/client connection
(quinn-proto/src/connection/mod.rs: the remote check at the top of `handle_event`, the migration trigger at
the end of `process_payload`, `migrate`, PATH_RESPONSE handling, `handle_timeout(PathValidation)`).
Addresses and challenge tokens are Nat; a migration carries the probe timeouts of the new path and of the path
being left, the validation deadline is `now + Gen.pathValidationFactor * max ptoNew ptoOld` (the factor is
regenerated from `migrate`).
-/
namespace QM.PathM

structure P where
  addr : Nat
  validated : Bool
  challenge : Option Nat
  pending : Bool
deriving Repr, DecidableEq

structure S where
  path : P
  prev : Option P
  /-- Timer::PathValidation -/
  timer : Option Nat
  /-- `side.remote_may_migrate()`: server with migration enabled -/
  mayMigrate : Bool
deriving Repr, DecidableEq

inductive Ev where
  /-- an authenticated 1-RTT packet from `src`; `trigger` = it is non-probing and carries the highest packet
      number seen (the condition at the end of `process_payload`); `tok`, `tok2` are the fresh random challenge
      tokens drawn by `migrate` -/
  | pkt (src : Nat) (trigger : Bool) (now ptoNew ptoOld tok tok2 : Nat)
  /-- a PATH_RESPONSE frame with `tok` in a packet from `src` -/
  | response (src tok : Nat)
  /-- `handle_timeout(now)` -/
  | timeout (now : Nat)
deriving Repr

/-- how long an unvalidated path is kept: `K * max(PTO of the new path, PTO of the path being left)` -/
def validationPeriod (ptoNew ptoOld : Nat) : Nat := Gen.pathValidationFactor * max ptoNew ptoOld

def migrate (s : S) (src now ptoNew ptoOld tok tok2 : Nat) : S :=
  let newPath : P := ⟨src, false, some tok, true⟩
  let prev' := if s.path.challenge.isNone then some { s.path with challenge := some tok2, pending := true } else s.prev
  { s with path := newPath, prev := prev', timer := some (now + validationPeriod ptoNew ptoOld) }

def step (s : S) : Ev → S
  | .pkt src trigger now ptoNew ptoOld tok tok2 =>
    if src ≠ s.path.addr ∧ !s.mayMigrate then s          -- dropped before any processing
    else if src ≠ s.path.addr ∧ trigger then migrate s src now ptoNew ptoOld tok tok2
    else s
  | .response src tok =>
    if src ≠ s.path.addr ∧ !s.mayMigrate then s
    else if s.path.challenge = some tok ∧ src = s.path.addr then
      { s with timer := none,
               path := { s.path with challenge := none, validated := true },
               prev := s.prev.map (fun p => { p with challenge := none, pending := false }) }
    else s
  | .timeout now =>
    match s.timer with
    | some t =>
      if t ≤ now then
        let path' := match s.prev with | some p => p | none => s.path
        { s with timer := none, prev := none, path := { path' with challenge := none, pending := false } }
      else s
    | none => s

def run (s : S) (evs : List Ev) : S := evs.foldl step s

/-- start: established connection on a validated path -/
def init (addr : Nat) (mayMigrate : Bool) : S := ⟨⟨addr, true, none, false⟩, none, none, mayMigrate⟩

end QM.PathM
