import QuinnModel.Data.CidQueue
import QuinnModel.Gen.Conn
import QuinnModel.Gen.ResetTok
/-
Where the stateless-reset token a connection honours comes from (C04, reset clause).

quinn-proto/src/connection/mod.rs:
  * `handle_decode` hands `self.peer_params.stateless_reset_token` to `packet_crypto::unprotect_header`, which flags a
    packet of at least RESET_TOKEN_SIZE + 5 bytes whose last 16 bytes equal it; `handle_packet` then ends the connection
    with `ConnectionError::Reset` whatever else the packet is (`accepts`).
  * the field is written by exactly three things (T1 anchors `Gen.resetTokenWriters`, `…SetResetTokenShape`):
      - `set_peer_params` (`self.peer_params = params`), called by `init_0rtt` with the parameters REMEMBERED with the
        session ticket after the struct update `stateless_reset_token: None, ..params`
        (`Gen.init0rttClearsResetToken`: whether that field is in the list), and by `handle_peer_params` with
        the peer's own parameters when the handshake completes;
      - `set_reset_token`, called by the NEW_CONNECTION_ID arm with the token `CidQueue::insert` reports and by
        `update_rem_cid` with the token `CidQueue::next` reports.
`CidQueue` is the model of Data/CidQueue.lean (compared exactly with the real one by component `cidq`).
Tokens, CIDs: `Bytes`. Crypto-free: a token is just a value; which values the PEER issued is the history's business.
-/
namespace QM.ResetTokens
open QM QM.CidQueue

structure St where
  /-- `self.side.is_server()` -/
  server : Bool
  /-- `self.peer_params.stateless_reset_token` -/
  tok : Option Bytes
  /-- `self.rem_cids` -/
  q : CidQueue
deriving DecidableEq, Repr

/-- `Connection::new`: `rem_cids = CidQueue::new(rem_cid)`, `peer_params = TransportParameters::default()` -/
def init (server : Bool) (remCid : Bytes) : St := ⟨server, none, CidQueue.new remCid⟩

/-- `set_reset_token` -/
def setResetToken (s : St) (t : Bytes) : St := { s with tok := some t }

/-- `update_rem_cid`: `let Some((reset_token, retired)) = self.rem_cids.next() else { return }; … set_reset_token` -/
def updateRemCid (s : St) : St :=
  match CidQueue.next s.q with
  | (q', .ok t _ _) => setResetToken { s with q := q' } t
  | (_, .none) => s
  | (_, .panic) => s

/-- `init_0rtt` (client branch): the remembered parameters, scrubbed, through `set_peer_params`.
`remembered` = the `stateless_reset_token` field of the parameters stored with the ticket; `clears` = whether the
field list of the struct update names `stateless_reset_token: None` (read from the source by T1). -/
def init0rttWith (clears : Bool) (s : St) (remembered : Option Bytes) : St :=
  if s.server then s
  else { s with tok := if clears then none else remembered }

def init0rtt (s : St) (remembered : Option Bytes) : St :=
  init0rttWith Gen.init0rttClearsResetToken s remembered

/-- `handle_peer_params` → `set_peer_params`: `self.peer_params = params` -/
def peerParams (s : St) (t : Option Bytes) : St := { s with tok := t }

/-- NEW_CONNECTION_ID arm of `process_payload`, as far as tokens go (frames the arm refuses before `insert`, and the
error returns, close the connection: no later effect on the token) -/
def onNewCid (s : St) (seq rpt : Nat) (cid tok : Bytes) : St :=
  if rpt > seq then s else
  match CidQueue.insert s.q seq rpt cid tok with
  | (q', .retired _ _ t) =>
    let s1 := setResetToken { s with q := q' } t
    if s1.server && CidQueue.activeSeq s1.q == 0 then updateRemCid s1 else s1
  | (q', .none) =>
    let s1 := { s with q := q' }
    if s1.server && CidQueue.activeSeq s1.q == 0 then updateRemCid s1 else s1
  | (_, _) => s

inductive Ev where
  /-- handshake start of a resumed session: transport parameters remembered with the ticket (their token field) -/
  | resume (remembered : Option Bytes)
  /-- the peer's own transport parameters arrive (handshake completes) -/
  | params (tok : Option Bytes)
  | newCid (seq rpt : Nat) (cid tok : Bytes)
  /-- `local_address_changed` / a migration of the peer: `update_rem_cid` -/
  | switch
deriving DecidableEq, Repr

def step (s : St) : Ev → St
  | .resume r => init0rtt s r
  | .params t => peerParams s t
  | .newCid seq rpt cid tok => onNewCid s seq rpt cid tok
  | .switch => updateRemCid s

def run (s : St) : List Ev → St
  | [] => s
  | e :: es => run (step s e) es

/-- `unprotect_header` + `handle_packet`: a datagram (remainder) of `len` bytes ending in `suffix` ends the connection
as a stateless reset -/
def accepts (s : St) (len : Nat) (suffix : Bytes) : Bool :=
  decide (len ≥ Gen.resetTokenSize + Gen.resetMinLenExtra) && decide (s.tok = some suffix)

/-! ### the ledger of the property: what the PEER issued FOR THIS CONNECTION (independent of the queue) -/

/-- tokens the peer issued in this connection: the one in its transport parameters and those of its
NEW_CONNECTION_ID frames. Parameters remembered from an earlier connection are not among them. -/
def issued : List Ev → List Bytes
  | [] => []
  | .params (some t) :: es => t :: issued es
  | .newCid _ _ _ t :: es => t :: issued es
  | _ :: es => issued es

end QM.ResetTokens
