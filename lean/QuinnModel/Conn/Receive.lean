import QuinnModel.Data.Dedup
import QuinnModel.Gen.Conn
/-
Skeleton model of the receive pipeline of one packet-number space
(quinn-proto/src/connection/packet_crypto.rs `unprotect_header` stateless-reset test, connection/mod.rs
`handle_packet`: decrypt → duplicate filter → state filters → `on_packet_authenticated` → processing; the
Retry / Version Negotiation acceptance tests of `process_decrypted_packet`).
AEAD is ideal and abstract: `authentic` says whether the packet opens under the keys the connection selects.
-/
namespace QM.Receive

inductive Kind where
  | protectedPkt   -- Initial / Handshake / 0-RTT / 1-RTT packet with a packet number
  | retry
  | versionNegotiation
deriving Repr, DecidableEq

structure Pkt where
  kind : Kind
  pn : Nat
  /-- AEAD opens (protected) / Retry integrity tag verifies (retry) -/
  authentic : Bool
  /-- total length of the datagram remainder holding this packet -/
  len : Nat
  /-- its last 16 bytes equal the stateless reset token of the active remote CID -/
  endsWithResetToken : Bool
  /-- header decoding / header unprotection succeeded -/
  headerOk : Bool
  /-- short-header packet -/
  short : Bool
  /-- Initial packet whose token differs from the one the server expects -/
  badInitialToken : Bool
  /-- Retry payload (token + 16-byte tag) length -/
  retryPayloadLen : Nat
  /-- Version Negotiation lists our version -/
  vnListsOurVersion : Bool
deriving Repr, DecidableEq

structure C where
  dedup : Dedup.Dedup
  handshake : Bool
  closed : Bool
  server : Bool
  /-- `total_authed_packets` -/
  authed : Nat
  authFailures : Nat
deriving Repr, DecidableEq

inductive Out where
  | dropped
  /-- connection ends with ConnectionError::Reset -/
  | statelessReset
  /-- frames of packet `pn` are processed -/
  | processed (pn : Nat)
  | retryFollowed
  | versionMismatch
deriving Repr, DecidableEq

/-- `unprotect_header`: is this datagram treated as a stateless reset? -/
def isStatelessReset (p : Pkt) : Bool :=
  decide (p.len ≥ Gen.resetTokenSize + Gen.resetMinLenExtra) && p.endsWithResetToken

def step (c : C) (p : Pkt) : C × Out :=
  let reset := isStatelessReset p
  if !p.headerOk then
    (if reset then (c, .statelessReset) else (c, .dropped))
  else if reset then (c, .statelessReset)
  else match p.kind with
    | .protectedPkt =>
      if !p.authentic then ({ c with authFailures := c.authFailures + 1 }, .dropped)
      else
        let (d', dup) := Dedup.insert c.dedup p.pn
        let c := { c with dedup := d' }
        if dup then (c, .dropped)
        else if c.handshake && p.short then (c, .dropped)
        else if c.handshake && c.server && p.badInitialToken then (c, .dropped)
        else
          let c := if c.closed then c else { c with authed := c.authed + 1 }
          (c, .processed p.pn)
    | .retry =>
      -- unprotected: not counted before validation (see the `unprotected` test in handle_packet)
      if !c.handshake then (c, .dropped)
      else if c.server then (c, .dropped)     -- (a server closes with PROTOCOL_VIOLATION; not a state change we model)
      else if c.authed > 0 || decide (p.retryPayloadLen ≤ 16) || !p.authentic then (c, .dropped)
      else ({ c with authed := c.authed + 1 }, .retryFollowed)
    | .versionNegotiation =>
      if !c.handshake then (c, .dropped)
      else if c.authed > 0 then (c, .dropped)
      else if p.vnListsOurVersion then (c, .dropped)
      else (c, .versionMismatch)

/-- outcomes of a whole delivery sequence -/
def run (c : C) : List Pkt → List (Pkt × Out)
  | [] => []
  | p :: ps => (p, (step c p).2) :: run (step c p).1 ps

def processedPns (os : List (Pkt × Out)) : List Nat :=
  os.filterMap fun (_, o) => match o with | .processed n => some n | _ => none

end QM.Receive
