import QuinnModel.Data.Dedup
import QuinnModel.Gen.Conn
import QuinnModel.Gen.Conn2
/-
Skeleton model of the receive pipeline of one packet-number space
(quinn-proto/src/connection/packet_crypto.rs `unprotect_header` stateless-reset test, connection/mod.rs
`handle_packet`: decrypt → duplicate filter → state filters → `on_packet_authenticated` → processing; the
Retry / Version Negotiation acceptance tests of `process_decrypted_packet`).
AEAD is ideal and abstract: `authentic` says whether the packet opens under the keys the connection selects.
-/
namespace QM.Receive

inductive Kind where
  | protectedPkt   -- Initial / Handshake / 0-RTT / 1-RTT packet with a packet number
  | retry
  | versionNegotiation
deriving Repr, DecidableEq

structure Pkt where
  kind : Kind
  pn : Nat
  /-- AEAD opens (protected) / Retry integrity tag verifies (retry) -/
  authentic : Bool
  /-- total length of the datagram remainder holding this packet -/
  len : Nat
  /-- its last 16 bytes equal the stateless reset token of the active remote CID -/
  endsWithResetToken : Bool
  /-- header decoding / header unprotection succeeded -/
  headerOk : Bool
  /-- short-header packet -/
  short : Bool
  /-- Initial packet whose token differs from the one the server expects -/
  badInitialToken : Bool
  /-- Retry payload (token + 16-byte tag) length -/
  retryPayloadLen : Nat
  /-- Version Negotiation lists our version -/
  vnListsOurVersion : Bool
deriving Repr, DecidableEq

structure C where
  dedup : Dedup.Dedup
  handshake : Bool
  closed : Bool
  server : Bool
  /-- `total_authed_packets` -/
  authed : Nat
  authFailures : Nat
deriving Repr, DecidableEq

inductive Out where
  | dropped
  /-- connection ends with ConnectionError::Reset -/
  | statelessReset
  /-- frames of packet `pn` are processed -/
  | processed (pn : Nat)
  | retryFollowed
  | versionMismatch
deriving Repr, DecidableEq

/-- `unprotect_header`: is this datagram treated as a stateless reset? -/
def isStatelessReset (p : Pkt) : Bool :=
  decide (p.len ≥ Gen.resetTokenSize + Gen.resetMinLenExtra) && p.endsWithResetToken

def step (c : C) (p : Pkt) : C × Out :=
  let reset := isStatelessReset p
  if !p.headerOk then
    (if reset then (c, .statelessReset) else (c, .dropped))
  else if reset then (c, .statelessReset)
  else match p.kind with
    | .protectedPkt =>
      if !p.authentic then ({ c with authFailures := c.authFailures + 1 }, .dropped)
      else
        let (d', dup) := Dedup.insert c.dedup p.pn
        let c := { c with dedup := d' }
        if dup then (c, .dropped)
        else if c.handshake && p.short then (c, .dropped)
        else if c.handshake && c.server && p.badInitialToken then (c, .dropped)
        else
          let c := if c.closed then c else { c with authed := c.authed + 1 }
          (c, .processed p.pn)
    | .retry =>
      -- unprotected: not counted before validation (see the `unprotected` test in handle_packet)
      if !c.handshake then (c, .dropped)
      else if c.server then (c, .dropped)     -- (a server closes with PROTOCOL_VIOLATION; not a state change we model)
      else if c.authed > 0 || decide (p.retryPayloadLen ≤ 16) || !p.authentic then (c, .dropped)
      else ({ c with authed := c.authed + 1 }, .retryFollowed)
    | .versionNegotiation =>
      if !c.handshake then (c, .dropped)
      else if c.authed > 0 then (c, .dropped)
      else if p.vnListsOurVersion then (c, .dropped)
      else (c, .versionMismatch)

/-- outcomes of a whole delivery sequence -/
def run (c : C) : List Pkt → List (Pkt × Out)
  | [] => []
  | p :: ps => (p, (step c p).2) :: run (step c p).1 ps

def processedPns (os : List (Pkt × Out)) : List Nat :=
  os.filterMap fun (_, o) => match o with | .processed n => some n | _ => none

end QM.Receive

/-
Closed-connection rows (connection/mod.rs `handle_packet` for a connection whose state is Closed, Draining or
Drained, the `State::Closed(_)` / `State::Draining | State::Drained` arms of `process_decrypted_packet`, and the
error tail of `handle_packet`: `self.error = Some(..)`, `self.state = ..`, `self.close = remote == self.path.remote`).
Enlarged state: lifecycle state, pending error, close-owed flag, CONNECTION_CLOSE frames counted.
Whether an unprotected packet (Retry / Version Negotiation) is discarded before its bytes are parsed as frames
is GENERATED from the source (`Gen.closedDiscardsUnprotected`); the shape of the arms is anchored by
`Gen.closedArmShapeChecked`.
-/
namespace QM.Receive.Closed
open QM.Receive

inductive LSt where
  | closed | draining | drained
deriving Repr, DecidableEq

structure CC where
  st : LSt
  /-- `self.error.is_some()`: `poll()` will report ConnectionLost -/
  error : Bool
  /-- `self.close`: a CONNECTION_CLOSE packet is owed -/
  close : Bool
  dedup : Dedup.Dedup
  authFailures : Nat
  /-- `stats.frame_rx.connection_close` -/
  closeFramesRx : Nat
deriving Repr, DecidableEq

structure CPkt where
  kind : Kind
  pn : Nat
  /-- AEAD opens under the keys the connection selects (protected packets) -/
  authentic : Bool
  /-- after a successful AEAD open: reserved header bits are zero and no key-update error -/
  decryptOk : Bool
  /-- the (decrypted, or for unprotected packets raw) payload is empty -/
  payloadEmpty : Bool
  /-- parsing the payload as frames meets a CONNECTION_CLOSE -/
  hasClose : Bool
  /-- the datagram came from the path's address -/
  fromPath : Bool
  /-- recognised as a stateless reset by `unprotect_header` -/
  reset : Bool
deriving Repr, DecidableEq

/-- tail of `handle_packet` when nothing is wrong: a Closed connection owes a CONNECTION_CLOSE to its path -/
def okTail (c : CC) (p : CPkt) : CC :=
  match c.st with
  | .closed => { c with close := p.fromPath }
  | .draining => c
  | .drained => c

/-- a transport error raised in a closed state: dropped (`Gen.closedIgnoresLateErrors`), else the error tail
    `self.error = Some(..)`, `self.state = State::closed(err)`, `self.close = remote == self.path.remote` -/
def errTail (c : CC) (p : CPkt) : CC :=
  if Gen.closedIgnoresLateErrors then okTail c p
  else { c with error := true, st := .closed, close := p.fromPath }

/-- `process_decrypted_packet` in a closed state followed by the tail of `handle_packet` -/
def process (c : CC) (p : CPkt) : CC :=
  match c.st with
  | .closed =>
    if p.payloadEmpty then errTail c p
    else if p.hasClose then { c with st := .draining, closeFramesRx := c.closeFramesRx + 1 }
    else okTail c p
  | .draining => c
  | .drained => c

def step (c : CC) (p : CPkt) : CC :=
  if p.reset then { c with error := true, st := .drained }
  else match p.kind with
    | .protectedPkt =>
      if !p.authentic then { c with authFailures := c.authFailures + 1 }
      else if !p.decryptOk then errTail c p
      else
        let (d', dup) := Dedup.insert c.dedup p.pn
        let c := { c with dedup := d' }
        if dup then c else process c p
    | .retry => if Gen.closedDiscardsUnprotected then c else process c p
    | .versionNegotiation => if Gen.closedDiscardsUnprotected then c else process c p

end QM.Receive.Closed
