import QuinnModel.Gen.C12
import QuinnModel.Gen.SendGate
import QuinnModel.Conn.Sizing
/-!
Skeleton of the send gate of `Connection::poll_transmit` (quinn-proto/src/connection/mod.rs) and of the probe credits
granted by `Connection::on_loss_detection_timeout`, as of `fix: congestion check for application data coalesced behind
an unchecked datagram` and `fix: a probe timeout releases at most two datagrams`.

One iteration of the `while space_idx < spaces.len()` loop that has something to send is an `Offer`: the space, the
`ack_eliciting` estimate (forced to `false` for a closing packet, anchor `sgCloseNotAckElicitingShape`), whether the
coalescing branch is taken (`coalesce && room >= MIN_PACKET_SPACE + tag_len`, anchor `sgNewDatagramBranchShape`), and
the three numbers the congestion test would see at that point (`in_flight.bytes`, `bytes_to_send`, `window()`).  The
test itself is `Gen.congestionBlocked` (generated).  Guards and effects are pinned by the shape anchors of
`Gen/SendGate.lean`:

  order          the spaces are visited in the order Initial, Handshake, Data; `space_idx` only grows (anchors
                 `sgSpaceOrderShape`, `sgSpaceIdxOnlyIncrements`): an iteration for a space below `cur` does not exist
  new datagram   `if ack_eliciting && loss_probes[space] == 0 { if blocked { space_idx += 1; continue } .. }`
                 `next_datagram_size_limit` = `Sizing.nextDatagramLimitAhead` (clamped to INITIAL_MTU for a loss probe
                 and while a later space holds a credit that may be coalesced into this datagram)
                 `datagram_is_loss_probe = loss_probes[space] != 0;  if != 0 { loss_probes[space] -= 1 }`
                 `datagram_congestion_checked = ack_eliciting`
  coalescing     `if ack_eliciting && space == Data && !datagram_congestion_checked && loss_probes[space] == 0 { if blocked { continue } }`
                 `datagram_congestion_checked |= ack_eliciting && space == Data`
                 `if loss_probes[space] != 0 && !datagram_is_loss_probe { loss_probes[space] -= 1; datagram_is_loss_probe = true }`
  probe timeout  all credits := 0; first earlier space with keys and pending data := 1 and `count := max (count-1) 1`;
                 `loss_probes[space] := count`   (`count` = 1 with nothing ack-eliciting in flight, else `Gen.sgPtoProbeCount`)

Not modelled: pacing (`break`), anti-amplification (`break`), `max_datagrams`, the MTU-probe block and
`send_path_challenge` (separate code paths that never consult the window), packet sizes.
-/
namespace QM.SendGate

structure Offer where
  space : Nat
  ae : Bool
  coalesce : Bool
  inFlight : Nat
  bytes : Nat
  window : Nat
  /-- `segment_size` when the iteration runs -/
  segment : Nat := 0

structure St where
  lp0 : Nat
  lp1 : Nat
  lp2 : Nat
  /-- a datagram is being filled (`num_datagrams > 0` in this call) -/
  dgram : Bool
  /-- `datagram_congestion_checked` -/
  checked : Bool
  /-- `datagram_is_loss_probe` -/
  isProbe : Bool
  /-- ghost: a congestion test was evaluated for the current datagram and passed -/
  tested : Bool
  /-- ghost: datagrams charged to a loss probe since the last probe timeout -/
  probeDatagrams : Nat
  /-- the space of the last iteration that built a packet in this call (`space_idx` is at least this) -/
  cur : Nat := 0
  /-- the space that started the current datagram -/
  opener : Nat := 0
  /-- `next_datagram_size_limit` of the current datagram -/
  limit : Nat := 0

def lp (s : St) (i : Nat) : Nat := match i with | 0 => s.lp0 | 1 => s.lp1 | _ => s.lp2

/-- `probe_may_follow`: a space after `i` holds a loss-probe credit -/
def laterCredit (s : St) (i : Nat) : Bool :=
  match i with | 0 => s.lp1 != 0 || s.lp2 != 0 | 1 => s.lp2 != 0 | _ => false

def lpDec (s : St) (i : Nat) : St :=
  match i with | 0 => { s with lp0 := s.lp0 - 1 } | 1 => { s with lp1 := s.lp1 - 1 } | _ => { s with lp2 := s.lp2 - 1 }

/-- what an iteration does: nothing (blocked: `continue` with the next space) or one packet:
    space, ack-eliciting estimate, travels in a datagram charged to a loss probe, a congestion test passed for its datagram -/
inductive Out where
  | blocked
  | pkt (space : Nat) (ae probe tested : Bool)
  deriving DecidableEq, Repr

def step (s : St) (o : Offer) : St × Out :=
  let _ := (Gen.sgNewDatagramBranchShape, Gen.sgNewDatagramGuardShape, Gen.sgCoalesceGuardShape, Gen.sgDatagramStartShape,
            Gen.sgCloseNotAckElicitingShape)
  if !o.coalesce || !s.dgram then
    if o.ae && lp s o.space == 0 && Gen.congestionBlocked o.inFlight o.bytes o.window then (s, .blocked)
    else if lp s o.space == 0 then
      ({ s with dgram := true, checked := o.ae, isProbe := false, tested := o.ae, cur := o.space, opener := o.space,
                limit := (Sizing.nextDatagramLimitAhead 0 (laterCredit s o.space) o.segment).2 }, .pkt o.space o.ae false o.ae)
    else
      ({ lpDec s o.space with dgram := true, checked := o.ae, isProbe := true, tested := false,
                              probeDatagrams := s.probeDatagrams + 1, cur := o.space, opener := o.space,
                              limit := (Sizing.nextDatagramLimitAhead (lp s o.space) (laterCredit s o.space) o.segment).2 },
       .pkt o.space o.ae true false)
  else
    let needs := o.ae && o.space == 2 && !s.checked && lp s o.space == 0
    if needs && Gen.congestionBlocked o.inFlight o.bytes o.window then (s, .blocked)
    else
      let checked' := s.checked || (o.ae && o.space == 2)
      let tested' := s.tested || needs
      if lp s o.space != 0 && !s.isProbe then
        ({ lpDec s o.space with checked := checked', tested := tested', isProbe := true,
                                probeDatagrams := s.probeDatagrams + 1, cur := o.space }, .pkt o.space o.ae true tested')
      else
        ({ s with checked := checked', tested := tested', cur := o.space }, .pkt o.space o.ae s.isProbe tested')

/-- a new call of `poll_transmit`: no datagram yet -/
def newCall (s : St) : St := { s with dgram := false, checked := false, isProbe := false, tested := false, cur := 0 }

/-- one `poll_transmit`: any sequence of iterations; an offer for a space the loop has already left is not an
    iteration of the loop and is skipped -/
def call (s : St) : List Offer → St × List Out
  | [] => (s, [])
  | o :: os => if o.space < s.cur then call s os else let r := step s o; let r2 := call r.1 os; (r2.1, r.2 :: r2.2)

/-- any number of `poll_transmit` calls -/
def calls (s : St) : List (List Offer) → St × List Out
  | [] => (s, [])
  | c :: cs => let r := call (newCall s) c; let r2 := calls r.1 cs; (r2.1, r.2 ++ r2.2)

/-- `on_loss_detection_timeout` in PTO mode: `space` timed out, `nothingInFlight` = `in_flight.ack_eliciting == 0`,
    `earlier` = the first of Initial, Handshake that is below `space`, has keys and pending data -/
def onPto (s : St) (space : Nat) (nothingInFlight : Bool) (earlier : Option Nat) : St :=
  let _ := Gen.sgPtoGrantShape
  let count := if nothingInFlight then 1 else Gen.sgPtoProbeCount
  let z : St := { s with lp0 := 0, lp1 := 0, lp2 := 0, probeDatagrams := 0 }
  let set := fun (t : St) (i n : Nat) => match i with
    | 0 => { t with lp0 := n } | 1 => { t with lp1 := n } | _ => { t with lp2 := n }
  match earlier with
  | some e => set (set z e 1) space (max (count - 1) 1)
  | none => set z space count

end QM.SendGate
