import QuinnModel.Wire.Frame
import QuinnModel.Streams.State
import QuinnModel.Data.CidQueue
import QuinnModel.Data.Datagrams
import QuinnModel.Conn.CidState
import QuinnModel.Conn.AckFrequency
import QuinnModel.Gen.FrameRules
/-
Frame admissibility / error-class table (C03): which transport error, if any, the FIRST offending frame of a
correctly protected packet produces.  Mirrors the frame loops of
  quinn-proto/src/connection/mod.rs  `Connection::process_early_payload` (Initial / Handshake packets),
                                     `Connection::process_payload` (1-RTT packets), `read_crypto`, `on_ack_received`,
and the error-deciding prefix of the handlers they call, REUSING the existing models:
  Streams.State.validateReceiveId / Streams.Recv.ingest / Recv.reset / State.receivedMaxStreams  (streams/state.rs, recv.rs)
  CidQueue.onNewConnectionId (NEW_CONNECTION_ID arm)      CidState.onCidRetirement (RETIRE_CONNECTION_ID)
  AckFrequency.ackFrequencyReceived                       Datagrams.received
The connection state enters only through `ConnFlags`: the facts the checks read, as projected by the guarded probe
`Connection::verif_frame_probe` / `verif_stream_probe` right before the packet is handled.
Every error code comes from `Gen/FrameRules.lean` (T1: extracted from the check's own source text).
0-RTT packets are not modelled (the two extra PROTOCOL_VIOLATION cases of `process_payload` for `is_0rtt`).
-/
namespace QM.FrameRules
open QM QM.Wire QM.Streams

inductive Space | initial | handshake | data
deriving DecidableEq, Repr

/-- `SpaceId as usize` -/
def Space.idx : Space → Nat
  | .initial => 0 | .handshake => 1 | .data => 2

/-- transport error code (`TransportErrorCode`); the TLS-alert range is represented by its base value -/
abbrev Code := Nat

inductive Verdict
  /-- processed, state may change -/
  | ok
  /-- dropped without effect (stale, duplicate, unknown stream that is already closed, unsolicited response) -/
  | ignore
  /-- the connection is closed with one of these codes (one element wherever the model decides it) -/
  | error (codes : List Code)
  /-- either processed or the connection is closed with one of these codes: decided by state outside the model
      (TLS engine, chunk fragmentation of the CRYPTO assembler) -/
  | may (codes : List Code)
  /-- a reused handler model reached its panic outcome -/
  | panic
deriving DecidableEq, Repr

/-- the facts the checks read (see the module comment) -/
structure ConnFlags where
  /-- `spaces[space].next_packet_number` -/
  nextPn : Nat
  /-- `packet_number_filter.prev_skipped_packet_number` -/
  skipped : Option Nat
  /-- `read_crypto`: `expected` as `SpaceId as usize` -/
  cryptoExpected : Nat
  /-- `spaces[space].crypto_stream.bytes_read()` -/
  cryptoRead : Nat
  /-- `config.crypto_buffer_size` -/
  cryptoBuf : Nat
  /-- `streams.recv.get(id)`: 0 no entry, 1 entry without an open `Recv`, 2 open `Recv` -/
  recvKind : Nat
  recvEnd : Nat
  recvFinal : Option Nat
  recvReset : Bool
  recvStopped : Bool
  recvSentMax : Nat
  /-- `streams.send.get(id)`: 0 no entry, 1 / 2 entry -/
  sendKind : Nat
  /-- `streams.next[id.dir()]` -/
  nextLocal : Nat
  /-- `streams.max_remote[id.dir()]` -/
  maxRemote : Nat
  dataRecvd : Nat
  localMaxData : Nat
  streamRecvWindow : Nat
  /-- `rem_cids` with `spaces[Data].pending.retire_cids.len()` -/
  cid : CidQueue.Handler
  localCidLen : Nat
  /-- `local_cid_state.issued` -/
  issued : Nat
  /-- `config.datagram_receive_buffer_size` -/
  dgramWindow : Option Nat
  /-- `ack_frequency.last_ack_frequency_frame` -/
  ackFreqLast : Option Nat
  /-- `path.challenge` -/
  challenge : Option Nat
deriving Repr

/-! ### frame kinds and the RFC 9000 §12.4 table -/

inductive Kind
  | padding | ping | ack | resetStream | stopSending | crypto | newToken | stream | maxData | maxStreamData
  | maxStreams | dataBlocked | streamDataBlocked | streamsBlocked | newConnectionId | retireConnectionId
  | pathChallenge | pathResponse | closeConn | closeApp | handshakeDone | datagram | ackFrequency | immediateAck
deriving DecidableEq, Repr

def kindOf : Frame → Kind
  | .padding => .padding | .ping => .ping | .ack .. => .ack | .resetStream .. => .resetStream
  | .stopSending .. => .stopSending | .crypto .. => .crypto | .newToken _ => .newToken | .stream .. => .stream
  | .maxData _ => .maxData | .maxStreamData .. => .maxStreamData | .maxStreams .. => .maxStreams
  | .dataBlocked _ => .dataBlocked | .streamDataBlocked .. => .streamDataBlocked | .streamsBlocked .. => .streamsBlocked
  | .newConnectionId .. => .newConnectionId | .retireConnectionId _ => .retireConnectionId
  | .pathChallenge _ => .pathChallenge | .pathResponse _ => .pathResponse | .closeConn .. => .closeConn
  | .closeApp .. => .closeApp | .handshakeDone => .handshakeDone | .datagram _ => .datagram
  | .ackFrequency .. => .ackFrequency | .immediateAck => .immediateAck

/-- RFC 9000 §12.4, columns I and H: the frame types that may appear in Initial and Handshake packets -/
def rfcEarly : Kind → Bool
  | .padding | .ping | .ack | .crypto | .closeConn => true
  | _ => false

/-- what `process_early_payload` accepts: the RFC set plus CONNECTION_CLOSE of type 0x1d (`Frame::Close(_)` matches both
    close forms; quinn is laxer than §12.4 here — the connection ends either way) -/
def earlyAccepted (k : Kind) : Bool := rfcEarly k || k == .closeApp

/-! ### pieces -/

def codeOfTErr : TErr → Code
  | .flowControl _ => Gen.frFlowControlError
  | .finalSize _ => Gen.frFinalSizeError
  | .streamLimit => Gen.frStreamLimitError
  | .streamState _ => Gen.frStreamStateError
  | .frameEncoding _ => Gen.frFrameEncodingError

def sideOf (server : Bool) : Side := if server then .server else .client

/-- the part of `StreamsState` the receive-side id validation and `received_max_streams` read -/
def miniState (server : Bool) (fl : ConnFlags) : State :=
  { side := sideOf server, next := ⟨fl.nextLocal, fl.nextLocal⟩, maxRemote := ⟨fl.maxRemote, fl.maxRemote⟩,
    sentMaxRemote := ⟨0, 0⟩, allocatedRemoteCount := ⟨0, 0⟩, maxConcurrentRemoteCount := ⟨0, 0⟩,
    receiveWindow := 0, localMaxData := fl.localMaxData, sentMaxData := 0, sendWindow := 0,
    streamReceiveWindow := fl.streamRecvWindow, dataRecvd := fl.dataRecvd }

/-- the `Recv` half named by the facts (`get_or_insert_recv`: a vacant entry becomes a fresh `Recv`) -/
def recvOf (fl : ConnFlags) : Recv :=
  if fl.recvKind = 2 then
    { state := (match fl.recvReset, fl.recvFinal with
                | true, some n => .resetRecvd n 0
                | true, none => .resetRecvd fl.recvEnd 0
                | false, x => .recv x),
      sentMaxStreamData := fl.recvSentMax, end_ := fl.recvEnd, stopped := fl.recvStopped }
  else Recv.new fl.streamRecvWindow

/-- `StreamsState::received`: id validation, lookup, `is_receiving`, `Recv::ingest` -/
def streamV (server : Bool) (fl : ConnFlags) (id off len : Nat) (fin : Bool) : Verdict :=
  match (miniState server fl).validateReceiveId id with
  | some e => .error [codeOfTErr e]
  | none =>
    if fl.recvKind = 0 then .ignore else
    if !(recvOf fl).isReceiving then .ignore else
    match (recvOf fl).ingest off len fin fl.dataRecvd fl.localMaxData with
    | none => .panic
    | some (.error e) => .error [codeOfTErr e]
    | some (.ok _) => .ok

/-- `StreamsState::received_reset`: id validation, lookup, `Recv::reset` -/
def resetV (server : Bool) (fl : ConnFlags) (id code fo : Nat) : Verdict :=
  match (miniState server fl).validateReceiveId id with
  | some e => .error [codeOfTErr e]
  | none =>
    if fl.recvKind = 0 then .ignore else
    match (recvOf fl).reset code fo fl.dataRecvd fl.localMaxData with
    | none => .panic
    | some (.error e) => .error [codeOfTErr e]
    | some (.ok (false, _)) => .ignore
    | some (.ok (true, _)) => .ok

/-- `StreamsState::received_max_stream_data`: the three checks in source order -/
def maxStreamDataV (server : Bool) (fl : ConnFlags) (id : Nat) : Verdict :=
  if sidInitiator id ≠ sideOf server && sidDir id == .uni then .error [Gen.frMaxsdRecvOnlyCode]
  else if sidInitiator id ≠ sideOf server && decide (sidIndex id ≥ fl.maxRemote) then .error [Gen.frMaxsdLimitCode]
  else if fl.sendKind ≠ 0 then .ok
  else if sidInitiator id = sideOf server && decide (sidIndex id ≥ fl.nextLocal) then .error [Gen.frMaxsdUnopenedCode]
  else .ignore

/-- `Frame::StopSending` arm + `received_stop_sending` -/
def stopSendingV (server : Bool) (fl : ConnFlags) (id : Nat) : Verdict :=
  if sidInitiator id ≠ sideOf server then
    (if sidDir id == .uni then .error [Gen.frStopRecvOnlyCode] else if fl.sendKind ≠ 0 then .ok else .ignore)
  else if sidIndex id ≥ fl.nextLocal then .error [Gen.frStopUnopenedCode]
  else if fl.sendKind ≠ 0 then .ok else .ignore

/-- does one of the acknowledged ranges contain `x`?  (`AckIter`: first `[largest - first, largest]`, then for every
    `(gap, block)`: `largest' = smallest - gap - 2`, `smallest' = largest' - block`; the decoder has validated the chain) -/
def ackCovers (x : Nat) : Nat → List (Nat × Nat) → Bool
  | _, [] => false
  | smallest, (gap, block) :: rest =>
    let l := smallest - gap - 2
    let s := l - block
    (decide (s ≤ x) && decide (x ≤ l)) || ackCovers x s rest

/-- `on_ack_received` up to its last error exit -/
def ackV (sp : Space) (fl : ConnFlags) (largest first : Nat) (blocks : List (Nat × Nat)) : Verdict :=
  if largest ≥ fl.nextPn then .error [Gen.frAckUnsentCode]
  else match fl.skipped with
    | some x =>
      if sp = .data ∧ ((decide (largest - first ≤ x) && decide (x ≤ largest)) || ackCovers x (largest - first) blocks) then
        .error [Gen.frAckSkippedCode]
      else .ok
    | none => .ok

/-- `read_crypto` -/
def cryptoV (sp : Space) (fl : ConnFlags) (off len : Nat) : Verdict :=
  let end_ := off + len
  if sp.idx < fl.cryptoExpected ∧ end_ > fl.cryptoRead then .error [Gen.frCryptoLevelCode]
  else if end_ - fl.cryptoRead > fl.cryptoBuf then .error [Gen.frCryptoBufferCode]
  else if end_ ≤ fl.cryptoRead then .ok
  -- new bytes are buffered and whatever becomes contiguous is handed to the TLS engine
  else .may [Gen.frCryptoGapsCode, Gen.frProtocolViolation, Gen.frCryptoErrorBase]

/-- NEW_CONNECTION_ID arm through the `cidq` handler model -/
def newCidV (fl : ConnFlags) (seq rpt : Nat) (cid tok : Bytes) : Verdict :=
  match (CidQueue.onNewConnectionId fl.cid seq rpt cid tok).2 with
  | .ok => .ok
  | .discarded => .ignore
  | .err c _ => .error [c]
  | .panic => .panic

/-- RETIRE_CONNECTION_ID through the `cidstate` model -/
def retireCidV (fl : ConnFlags) (seq : Nat) : Verdict :=
  match (CidState.onCidRetirement ⟨[], fl.issued, [], 0, 0, fl.localCidLen, none⟩ seq 0).2 with
  | .ok _ => .ok
  | .err c _ => .error [c]

/-- DATAGRAM through the `dgram` model (the admission decision does not depend on what is buffered) -/
def datagramV (fl : ConnFlags) (d : Bytes) : Verdict :=
  match (Datagrams.received Datagrams.init d fl.dgramWindow).2 with
  | .rcvOk _ => .ok
  | .rcvErr .unexpected => .error [Gen.frDgramUnexpectedCode]
  | .rcvErr .oversized => .error [Gen.frDgramOversizedCode]
  | _ => .panic

/-- ACK_FREQUENCY through the `ackfreq` model -/
def ackFrequencyV (fl : ConnFlags) (seq aet req reord : Nat) : Verdict :=
  match (AckFrequency.ackFrequencyReceived ⟨none, 0, 0, fl.ackFreqLast, 0⟩ (0, 0) seq aet req reord).2.2 with
  | .ok true => .ok
  | .ok false => .ignore
  | .err c => .error [c]

/-! ### the table -/

/-- arms shared by both loops (`Padding | Ping`, `Crypto`, `Ack`, `Close`) and the 1-RTT-only arms -/
def dataVerdict (server : Bool) (sp : Space) (fl : ConnFlags) : Frame → Verdict
  | .padding | .ping => .ok
  | .ack largest _ first blocks _ => ackV sp fl largest first blocks
  | .crypto off d => cryptoV sp fl off d.length
  | .closeConn .. | .closeApp .. => .ok
  | .stream id off fin d => streamV server fl id off d.length fin
  | .resetStream id code fo => resetV server fl id code fo
  | .stopSending id _ => stopSendingV server fl id
  | .maxData _ | .dataBlocked _ | .pathChallenge _ | .immediateAck => .ok
  | .maxStreamData id _ => maxStreamDataV server fl id
  | .maxStreams uni count =>
    (match ((miniState server fl).receivedMaxStreams (if uni then .uni else .bi) count).2 with
     | some e => .error [codeOfTErr e]
     | none => .ok)
  | .streamDataBlocked id _ =>
    if sidInitiator id = sideOf server && sidDir id == .uni then .error [Gen.frSdbSendOnlyCode] else .ok
  | .streamsBlocked _ limit => if limit > Gen.maxStreamCount then .error [Gen.frStreamsBlockedCode] else .ok
  | .newConnectionId seq rpt cid tok => newCidV fl seq rpt cid tok
  | .retireConnectionId seq => retireCidV fl seq
  | .pathResponse t => if fl.challenge = some t then .ok else .ignore
  | .newToken token =>
    if server then .error [Gen.frNewTokenServerCode]
    else if token.isEmpty then .error [Gen.frNewTokenEmptyCode] else .ok
  | .handshakeDone => if server then .error [Gen.frHandshakeDoneServerCode] else .ok
  | .datagram d => datagramV fl d
  | .ackFrequency seq aet req reord => ackFrequencyV fl seq aet req reord

/-- `server`: the side that RECEIVES the frame.  Initial / Handshake packets go through `process_early_payload`,
    1-RTT packets through `process_payload`. -/
def verdict (server : Bool) (sp : Space) (fl : ConnFlags) (f : Frame) : Verdict :=
  match sp with
  | .data => dataVerdict server sp fl f
  | _ => if earlyAccepted (kindOf f) then dataVerdict server sp fl f else .error [Gen.frEarlyIllegalCode]

/-- a frame that does not decode (`IterErr`: unexpected end, malformed, unknown frame type) -/
def undecodable : Verdict := .error [Gen.frInvalidFrameCode]

/-! ### codes a frame kind may produce (RFC 9000 §19 / §11, the "any outcome" answer for inexact facts) -/

def kindCodes : Kind → List Code
  | .ack => [Gen.frProtocolViolation]
  | .resetStream | .stream =>
    [Gen.frStreamStateError, Gen.frStreamLimitError, Gen.frFlowControlError, Gen.frFinalSizeError, Gen.frFrameEncodingError]
  | .stopSending | .maxStreamData | .streamDataBlocked => [Gen.frStreamStateError, Gen.frStreamLimitError]
  | .crypto => [Gen.frProtocolViolation, Gen.frCryptoBufferExceeded, Gen.frInternalError, Gen.frCryptoErrorBase]
  | .newToken => [Gen.frProtocolViolation, Gen.frFrameEncodingError]
  | .maxStreams | .streamsBlocked => [Gen.frFrameEncodingError, Gen.frStreamLimitError]
  | .newConnectionId => [Gen.frProtocolViolation, Gen.frConnectionIdLimitError, Gen.frFrameEncodingError]
  | .retireConnectionId | .handshakeDone | .datagram | .ackFrequency => [Gen.frProtocolViolation]
  | _ => []

/-- in Initial / Handshake packets every kind may in addition be a PROTOCOL_VIOLATION -/
def allowedCodes (sp : Space) (k : Kind) : List Code :=
  match sp with
  | .data => kindCodes k
  | _ => Gen.frProtocolViolation :: kindCodes k

/-! ### a packet: the frame loop -/

/-- One step of `for result in Iter { let frame = result?; … match frame { … }? }` over an abstract connection state `σ`:
    `flagsOf` projects the facts, `apply` is the effect of a frame that was not rejected (opaque here).
    Result: the state reached and `none` (loop ran to the end) or the codes of the frame that ended it. -/
def processSeq {σ : Type} (server : Bool) (sp : Space) (flagsOf : σ → Frame → ConnFlags) (apply : σ → Frame → σ) :
    σ → List Frame → σ × Option (List Code)
  | s, [] => (s, none)
  | s, f :: rest =>
    match verdict server sp (flagsOf s f) f with
    | .error cs => (s, some cs)
    | .panic => (s, some [])
    | _ => processSeq server sp flagsOf apply (apply s f) rest

/-! ### outcome of an observed packet (trace validation): exact facts, inexact facts, garbled bytes -/

inductive Item
  /-- facts observed in the state the frame is processed in -/
  | exact (sp : Space) (fl : ConnFlags) (bytes : Bytes)
  /-- an earlier frame of the datagram may have changed the facts: every outcome of the kind is admitted -/
  | inexact (sp : Space) (bytes : Bytes)
  /-- bytes whose parse depends on what follows them: everything is admitted and the sequence ends -/
  | garbled
deriving Repr

/-- every RFC 9000 transport error code and the TLS-alert class -/
def allCodes : List Code :=
  [Gen.frInternalError, Gen.frFlowControlError, Gen.frStreamLimitError, Gen.frStreamStateError, Gen.frFinalSizeError,
   Gen.frFrameEncodingError, Gen.frTransportParameterError, Gen.frConnectionIdLimitError, Gen.frProtocolViolation,
   Gen.frCryptoBufferExceeded, Gen.frKeyUpdateError, Gen.frAeadLimitReached, Gen.frCryptoErrorBase]

/-- verdict of one item; a CONNECTION_CLOSE ends the sequence as well (`stop`) -/
def itemVerdict (server : Bool) : Item → Verdict × Bool
  | .garbled => (.may allCodes, true)
  | .exact sp fl bytes =>
    (match Frame.decodeOne bytes with
     | .error _ => (undecodable, true)
     | .ok (f, _) => (verdict server sp fl f, kindOf f == .closeConn || kindOf f == .closeApp))
  | .inexact sp bytes =>
    (match Frame.decodeOne bytes with
     | .error _ => (undecodable, true)
     | .ok (f, _) => (.may (allowedCodes sp (kindOf f)), kindOf f == .closeConn || kindOf f == .closeApp))

/-- admissible outcomes of the datagram: (error codes that may be observed, may it be processed without error?) -/
def admissible (server : Bool) : List Item → List Code × Bool
  | [] => ([], true)
  | it :: rest =>
    match itemVerdict server it with
    | (.error cs, _) => (cs, false)
    | (.panic, _) => ([], false)
    | (.may cs, stop) =>
      if stop then (cs, true) else let r := admissible server rest; (cs ++ r.1, r.2)
    | (_, stop) => if stop then ([], true) else admissible server rest

end QM.FrameRules
