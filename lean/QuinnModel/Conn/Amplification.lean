import QuinnModel.Gen.Conn
/-
Skeleton model of the anti-amplification accounting of one network path
(quinn-proto/src/connection/paths.rs `PathData::{validated,total_sent,total_recvd,anti_amplification_blocked}`,
 the datagram loop of `Connection::poll_transmit`, crediting in `handle_event`/`handle_first_packet`,
 `on_path_validated`, `migrate`).
The gate predicate and its argument are GENERATED from the Rust source (Gen/Conn.lean).
-/
namespace QM.Amp

structure Path where
  validated : Bool
  sent : Nat
  recvd : Nat
deriving Repr, DecidableEq

inductive Ev where
  /-- a datagram of n bytes arrived from the path's address (`total_recvd += n`) -/
  | recv (n : Nat)
  /-- a datagram of n bytes for this connection arrived from ANOTHER address and did not migrate the
      path: it is not credited to this path -/
  | foreign (n : Nat)
  /-- the address became validated (Handshake packet processed, token, PATH_RESPONSE) -/
  | validate
  /-- one `poll_transmit` call: the datagram loop tries to build datagrams of these sizes in turn,
      each gated; `seg` is the segment size used in the gate (every datagram is at most `seg`) -/
  | poll (seg : Nat) (sizes : List Nat)
  /-- peer migrated: fresh path, unvalidated, credited with the datagram that revealed it -/
  | migrate (n : Nat)
deriving Repr

/-- the datagram loop: `i` datagrams already built in this call; returns the sizes actually emitted -/
def emit (p : Path) (seg : Nat) : Nat → List Nat → List Nat
  | _, [] => []
  | i, s :: rest =>
    if Gen.antiAmpBlocked p.validated p.sent p.recvd (Gen.antiAmpGateArg seg i) then []
    else s :: emit p seg (i+1) rest

def step (p : Path) : Ev → Path
  | .recv n => { p with recvd := p.recvd + n }
  | .foreign _ => p
  | .validate => { p with validated := true }
  | .poll seg sizes => { p with sent := p.sent + (emit p seg 0 sizes).sum }
  | .migrate n => { validated := false, sent := 0, recvd := n }

/-- well-formed event: every datagram of a poll is at most the segment size, which is at most M -/
def Ev.wf (M : Nat) : Ev → Prop
  | .poll seg sizes => seg ≤ M ∧ ∀ s ∈ sizes, s ≤ seg
  | _ => True

def run (p : Path) (evs : List Ev) : Path := evs.foldl step p

end QM.Amp
