import QuinnModel.Gen.Conn
import QuinnModel.Gen.Conn2
/-
Skeleton model of the anti-amplification accounting of one network path
(quinn-proto/src/connection/paths.rs `PathData::{validated,total_sent,total_recvd,anti_amplification_blocked}`,
 the datagram loop of `Connection::poll_transmit`, crediting in `handle_event`/`handle_first_packet`,
 `on_path_validated`, `migrate`).
The gate predicate and its argument are GENERATED from the Rust source (Gen/Conn.lean).
-/
namespace QM.Amp

structure Path where
  validated : Bool
  sent : Nat
  recvd : Nat
deriving Repr, DecidableEq

inductive Ev where
  /-- a datagram of n bytes arrived from the path's address (`total_recvd += n`) -/
  | recv (n : Nat)
  /-- a datagram of n bytes for this connection arrived from ANOTHER address and did not migrate the
      path: it is not credited to this path -/
  | foreign (n : Nat)
  /-- a Handshake-space packet of the peer was processed (RFC 9000 8.1: the peer has read the first flight) -/
  | handshakePacketProcessed
  /-- the connection-creating Initial carried a token this endpoint had issued for the address (Retry / NEW_TOKEN) -/
  | tokenValidated
  /-- a PATH_RESPONSE echoing a PATH_CHALLENGE sent to the path's address was processed (RFC 9000 8.2.3) -/
  | pathResponseMatched
  /-- one `poll_transmit` call: the datagram loop tries to build datagrams of these sizes in turn,
      each gated; `seg` is the segment size used in the gate (every datagram is at most `seg`) -/
  | poll (seg : Nat) (sizes : List Nat)
  /-- peer migrated: fresh path, unvalidated, credited with the datagram that revealed it -/
  | migrate (n : Nat)
deriving Repr

/-- the datagram loop: `i` datagrams already built in this call; returns the sizes actually emitted -/
def emit (p : Path) (seg : Nat) : Nat → List Nat → List Nat
  | _, [] => []
  | i, s :: rest =>
    if Gen.antiAmpBlocked p.validated p.sent p.recvd (Gen.antiAmpGateArg seg i) then []
    else s :: emit p seg (i+1) rest

def step (p : Path) : Ev → Path
  | .recv n => { p with recvd := p.recvd + n }
  | .foreign _ => p
  | .handshakePacketProcessed => { p with validated := true }
  | .tokenValidated => { p with validated := true }
  | .pathResponseMatched => { p with validated := true }
  | .poll seg sizes => { p with sent := p.sent + (emit p seg 0 sizes).sum }
  | .migrate n => { validated := false, sent := 0, recvd := n }

/-- well-formed event: every datagram of a poll is at most the segment size, which is at most M -/
def Ev.wf (M : Nat) : Ev → Prop
  | .poll seg sizes => seg ≤ M ∧ ∀ s ∈ sizes, s ≤ seg
  | _ => True

def run (p : Path) (evs : List Ev) : Path := evs.foldl step p

/-- the causes of address validation the property lists -/
def Ev.isCause : Ev → Bool
  | .handshakePacketProcessed => true
  | .tokenValidated => true
  | .pathResponseMatched => true
  | _ => false

/-- What ONE received datagram may do to the flag, from facts the harness derives from the PEER's transmit record
    (trace operations `amp rx` / `amp foreign`): `hs` a Handshake-space packet the peer built is in the datagram,
    `pr` a PATH_RESPONSE in it echoes a PATH_CHALLENGE sent to the path's address. `some b` = the flag must be `b`
    afterwards; `none` = a cause is present and the receiver may or may not have used it (the property lets a server
    treat the address as validated, it does not oblige it: a duplicate, an older challenge, a datagram from another
    address, a Handshake packet protected with keys of an earlier incarnation of the receiver). -/
def rxVerdict (validated hs pr : Bool) : Option Bool :=
  if validated then some true
  else if hs || pr then none
  else some false

/-- the events one received datagram stands for -/
def rxEvents (hs pr : Bool) : List Ev :=
  (if hs then [Ev.handshakePacketProcessed] else []) ++ (if pr then [Ev.pathResponseMatched] else [])

end QM.Amp

/-
Off-path PATH_RESPONSE (connection/mod.rs `process_payload`: `path_responses.push(number, token, remote, packet_len)`
for a PATH_CHALLENGE from ANY source address; `poll_transmit`: `pop_off_path`, one datagram to that address outside
the gated loop and outside `total_sent`). The padding rule is GENERATED: `Gen.offPathPadFactor` = N when the datagram
is expanded to `min(MIN_INITIAL_SIZE, N * size of the packet that carried the challenge)`, 0 when it is always
expanded to MIN_INITIAL_SIZE.
-/
namespace QM.Amp.OffPath

/-- size of the datagram that carries the response; `unpadded` = header + frame + tag -/
def respSize (unpadded pktLen : Nat) : Nat :=
  if Gen.offPathPadFactor = 0 then max unpadded Gen.libMinInitialSize
  else max unpadded (min Gen.libMinInitialSize (Gen.offPathPadFactor * pktLen))

/-- the simulator's ledger of one off-path address -/
structure L where
  sent : Nat
  recvd : Nat
deriving Repr, DecidableEq

/-- a datagram of `dgram` bytes from the address carried a 1-RTT packet of `pkt` bytes (header + plaintext
    payload, as `process_payload` measures it) with a PATH_CHALLENGE; the response, `unpadded` bytes before
    padding, is sent -/
structure Ev where
  dgram : Nat
  pkt : Nat
  unpadded : Nat
deriving Repr

def step (l : L) (e : Ev) : L := { sent := l.sent + respSize e.unpadded e.pkt, recvd := l.recvd + e.dgram }

def run (l : L) (evs : List Ev) : L := evs.foldl step l

/-- what every real exchange satisfies: the packet is part of its datagram; the unpadded response
    (1 + remote CID ≤ 20 + packet number ≤ 4 + frame 9 + tag 16 ≤ 50 bytes) is at most three times the datagram
    that carried the challenge (≥ 1 + 1 + 9 + 16 = 27 bytes) -/
def Ev.wf (e : Ev) : Prop := e.pkt ≤ e.dgram ∧ e.unpadded ≤ 3 * e.dgram

/-- sizes as the packet layout fixes them -/
theorem unpadded_le_3x (rcid pnLen lcid pnLen' extra : Nat) (hr : rcid ≤ 20) (hp : pnLen ≤ 4) (hp' : 1 ≤ pnLen') :
    1 + rcid + pnLen + 9 + 16 ≤ 3 * (1 + lcid + pnLen' + 9 + extra + 16) := by omega

end QM.Amp.OffPath
