import QuinnModel.Endpoint.TokenCache
import QuinnModel.Gen.TokFlow
/-
Address-validation tokens on the CLIENT side at connection level: one application (`Endpoint::connect` calls over
time), its `TokenStore` (the model of `TokenMemoryCache`, any capacity) and its connection attempts.

What a connection does with tokens (quinn-proto/src/connection/mod.rs, packet_builder.rs), event by event:

* `connect name`          `Connection::new` → `ConnectionSide::from(SideArgs::Client{..})`:
                          `token: token_store.take(&server_name).unwrap_or_default()` — the only `take`;
* `sendInitial i`         `PacketBuilder::new`, `SpaceId::Initial`: the header's token field is a clone of the
                          connection's current token (every Initial, retransmissions and the CONNECTION_CLOSE of a
                          closing attempt included: the model lets any attempt send at any time);
* `retry i tok`           Retry arm of `handle_packet`: `*token = packet.payload…split_to(token_len)`;
* `newToken i tok`        `Frame::NewToken` arm: `token_store.insert(server_name, token)` — the only `insert`;
* `initialKeysDiscarded i` `discard_space(Initial)`: `*token = Bytes::new()`;
* `ended i how`           idle / handshake timeout, refusal, version negotiation, local close, peer close, stateless
                          reset, drop of the connection object: the store is not touched and the token not changed.

That these are ALL the places is pinned by the T1 anchors `Gen.tokenStoreSitesShape` and
`Gen.clientTokenWritersShape` (tools/gen.d/tokflow.py): another `token_store` use anywhere under
`quinn-proto/src/connection/` (say an `insert` in the `Timer::Idle` arm), another constructor of
`ConnectionSide::Client` or another assignment to its `token` breaks them, and with them this module.

Empty token = `none`.  Events naming an attempt that does not exist change nothing.  `none` = a panic of the cache.
-/
namespace QM.TokenFlow

/-- `ConnectionSide::Client { token, server_name, .. }` -/
structure Attempt (α : Type) where
  name : String
  token : Option α
deriving Repr, DecidableEq

/-- the ways an attempt can end; none of them is given access to the store -/
inductive End where
  | idleTimeout | handshakeTimeout | refused | versionMismatch | closedLocally | closedByPeer | statelessReset | dropped
deriving Repr, DecidableEq

inductive Ev (α : Type) where
  | connect (name : String)
  | sendInitial (i : Nat)
  | retry (i : Nat) (tok : α)
  | newToken (i : Nat) (tok : α)
  | initialKeysDiscarded (i : Nat)
  | ended (i : Nat) (how : End)
deriving Repr

structure St (α : Type) where
  cache : TokenCache.State α
  /-- attempt `i` = `attempts[i]` -/
  attempts : List (Attempt α)
  /-- (attempt, token field) of every Initial packet sent with a non-empty token, in order -/
  wire : List (Nat × α)
deriving Repr

def init (maxNames maxTokens : Nat) : St α := ⟨TokenCache.init maxNames maxTokens, [], []⟩

/-- `*token = t` on attempt `i` -/
def setToken (l : List (Attempt α)) (i : Nat) (t : Option α) : List (Attempt α) :=
  match l[i]? with
  | some a => l.set i { a with token := t }
  | none => l

def step (s : St α) : Ev α → Option (St α)
  | .connect n =>
    match TokenCache.take s.cache n with
    | none => none
    | some (c, o) => some { s with cache := c, attempts := s.attempts ++ [⟨n, o⟩] }
  | .sendInitial i =>
    match s.attempts[i]? with
    | some ⟨_, some t⟩ => some { s with wire := s.wire ++ [(i, t)] }
    | _ => some s
  | .retry i tok => some { s with attempts := setToken s.attempts i (some tok) }
  | .newToken i tok =>
    match s.attempts[i]? with
    | some a =>
      match TokenCache.store s.cache a.name tok with
      | none => none
      | some c => some { s with cache := c }
    | none => some s
  | .initialKeysDiscarded i => some { s with attempts := setToken s.attempts i none }
  | .ended _ _ => some s

def run (s : St α) : List (Ev α) → Option (St α)
  | [] => some s
  | e :: es =>
    match step s e with
    | none => none
    | some s' => run s' es

/-- the tokens servers handed to this client, in order: NEW_TOKEN frames and Retry packets -/
def issued : List (Ev α) → List α
  | [] => []
  | .retry _ t :: es => t :: issued es
  | .newToken _ t :: es => t :: issued es
  | _ :: es => issued es


end QM.TokenFlow
