import QuinnModel.Gen.Term
import QuinnModel.Conn.Lifecycle
/-
The durations of connection termination as quinn computes them (factors and the negotiation function are regenerated
from `reset_idle_timeout`, `set_close_timer`, `negotiate_max_idle_timeout`); the lifecycle skeleton
(Conn/Lifecycle.lean) takes them as the `idle` / `pto3` arguments of its events.
-/
namespace QM.Life

/-- `reset_idle_timeout`: `max(timeout, K * pto)` -/
def idlePeriod (timeout pto : Nat) : Nat := max timeout (Gen.idlePtoFactor * pto)

/-- `set_close_timer`: `K * pto(highest_space)` -/
def closePeriod (pto : Nat) : Nat := Gen.closePtoFactor * pto

/-- the idle timeout a connection runs with once both sets of transport parameters are known -/
def negotiatedIdle (localMs peerMs : Option Nat) : Option Nat := Gen.negotiateMaxIdleTimeout localMs peerMs

end QM.Life
