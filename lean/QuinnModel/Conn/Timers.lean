import QuinnModel.Gen.Conn
/-
Model of quinn-proto/src/connection/timer.rs `TimerTable` (set/get/stop/next_timeout/is_expired) with
instants as Nat, and of the time-translation of a table.
-/
namespace QM.Timers

/-- one optional deadline per `Timer::VALUES` entry -/
abbrev Table := List (Option Nat)

def empty : Table := List.replicate Gen.timerCount none

def set (t : Table) (i x : Nat) : Table := t.set i (some x)
def stop (t : Table) (i : Nat) : Table := t.set i none
def get (t : Table) (i : Nat) : Option Nat := (t[i]?).join

def optMin : Option Nat → Option Nat → Option Nat
  | none, b => b
  | a, none => a
  | some a, some b => some (Nat.min a b)

/-- `next_timeout`: the minimum of the set deadlines -/
def nextTimeout (t : Table) : Option Nat := t.foldr optMin none

/-- `is_expired(timer, after)` -/
def isExpired (t : Table) (i now : Nat) : Bool :=
  match get t i with
  | some x => decide (x ≤ now)
  | none => false

/-- translate every deadline by `d` -/
def shift (d : Nat) (t : Table) : Table := t.map (Option.map (· + d))

/-- the indices whose timers fire at `now`, in `Timer::VALUES` order (what `handle_timeout` iterates) -/
def expired (t : Table) (now : Nat) : List Nat :=
  (List.range t.length).filter (fun i => isExpired t i now)

end QM.Timers
