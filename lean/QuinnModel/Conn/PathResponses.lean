import QuinnModel.Util
import QuinnModel.Gen.C03Consts
/-
Model of quinn-proto/src/connection/paths.rs `PathResponses` (no panic sites; bounded by MAX_PATH_RESPONSES).
A remote address is a Nat.
-/
namespace QM.PathResponses
open QM

structure PathResponse where
  packet : Nat
  token : Nat
  remote : Nat
deriving DecidableEq, Repr

abbrev State := List PathResponse

/-- `*existing = response` for the first entry with the same remote, if its packet number is not newer -/
def updateFirst (resp : PathResponse) : State → State
  | [] => []
  | x :: t => if x.remote = resp.remote then (if Gen.pathRespUpdate x.packet resp.packet then resp :: t else x :: t)
              else x :: updateFirst resp t

/-- `PathResponses::push` -/
def push (s : State) (packet token remote : Nat) : State :=
  let response : PathResponse := ⟨packet, token, remote⟩
  if s.any (fun x => x.remote = remote) then updateFirst response s
  else if Gen.pathRespHasRoom s.length then s ++ [response]
  else s

/-- `PathResponses::pop_off_path` -/
def popOffPath (s : State) (remote : Nat) : State × Option (Nat × Nat) :=
  match s.getLast? with
  | none => (s, none)
  | some response => if response.remote = remote then (s, none) else (s.dropLast, some (response.token, response.remote))

/-- `PathResponses::pop_on_path` -/
def popOnPath (s : State) (remote : Nat) : State × Option Nat :=
  match s.getLast? with
  | none => (s, none)
  | some response => if response.remote ≠ remote then (s, none) else (s.dropLast, some response.token)

/-- `PathResponses::is_empty` -/
def isEmpty (s : State) : Bool := s.isEmpty

end QM.PathResponses
