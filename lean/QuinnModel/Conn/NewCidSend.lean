import QuinnModel.Gen.NewCid
/-!
Transmission of NEW_CONNECTION_ID frames (connection/mod.rs `handle_event(NewIdentifiers)`, `Timer::PushNewCid`,
the NEW_CONNECTION_ID loop of `populate_packet`, loss of a packet carrying such frames) together with the part
of `CidState` that decides the Retire Prior To field (`issued`, `retire_seq`).  Core Lean only.

* `issue n`     : `NewIdentifiers` with `n` fresh CIDs: sequence numbers `issued .. issued+n-1` are queued in
                  `spaces[Data].pending.new_cids` (`CidState::new_cids`: `issued += n`).
* `expire r`    : `Timer::PushNewCid` / `CidState::on_cid_timeout` moves `retire_seq` forward to the sequence after
                  the batch whose lifetime ended: any value `retire_seq ≤ r ≤ issued` (which one depends on time
                  stamps and on the peer's RETIRE_CONNECTION_ID frames, both arbitrary here); other values leave the
                  state unchanged.
* `send`        : one iteration of the loop in `populate_packet`: pops a queued CID, emits the frame
                  `(sequence, Gen.newCidRetirePriorTo retire_seq sequence)`, remembers the CID in the packet's
                  retransmits.
* `lost k`      : the packet holding the `k`-th CID in flight is declared lost: the CID is queued again
                  (`pending |= retransmits`).
* `acked k`     : that packet is acknowledged: the CID is forgotten.
-/
namespace QM.NewCidSend

structure St where
  issued : Nat
  retireSeq : Nat
  pending : List Nat
  inflight : List Nat
  /-- every frame put on the wire so far: (Sequence Number, Retire Prior To) -/
  frames : List (Nat × Nat)
deriving Repr, DecidableEq

/-- `Connection::new`: the handshake CID (sequence 0, plus the preferred-address CID if any) is issued without
    a frame. -/
def init (issued : Nat) : St := ⟨issued, 0, [], [], []⟩

inductive Op where
  | issue (n : Nat)
  | expire (r : Nat)
  | send
  | lost (k : Nat)
  | acked (k : Nat)
deriving Repr, DecidableEq

def step (s : St) : Op → St
  | .issue n => { s with issued := s.issued + n, pending := s.pending ++ (List.range n).map (s.issued + ·) }
  | .expire r => if s.retireSeq ≤ r ∧ r ≤ s.issued then { s with retireSeq := r } else s
  | .send =>
    match s.pending with
    | [] => s
    | q :: rest =>
      { s with pending := rest, inflight := s.inflight ++ [q],
               frames := s.frames ++ [(q, Gen.newCidRetirePriorTo s.retireSeq q)] }
  | .lost k =>
    match s.inflight[k]? with
    | none => s
    | some q => { s with inflight := s.inflight.eraseIdx k, pending := s.pending ++ [q] }
  | .acked k => { s with inflight := s.inflight.eraseIdx k }

def run (s : St) : List Op → St
  | [] => s
  | o :: os => run (step s o) os

/-- what the unrepaired code put into the field (`retire_prior_to: self.local_cid_state.retire_prior_to()`) -/
def stepOld (s : St) : Op → St
  | .send =>
    match s.pending with
    | [] => s
    | q :: rest =>
      { s with pending := rest, inflight := s.inflight ++ [q], frames := s.frames ++ [(q, s.retireSeq)] }
  | o => step s o

def runOld (s : St) : List Op → St
  | [] => s
  | o :: os => runOld (stepOld s o) os

end QM.NewCidSend
