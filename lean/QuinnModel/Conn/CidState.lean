import QuinnModel.Util
import QuinnModel.Gen.C03Consts
/-
Model of quinn-proto/src/connection/cid_state.rs `CidState` (local connection IDs).
`Instant`/`Duration` are Nat nanoseconds (`now.checked_add(lifetime)` never fails for the admitted inputs < 2^62);
`FxHashSet<u64>` is a duplicate-free list; `(a..b).any(|seq| set.contains(&seq))` is `∃ x ∈ set, a ≤ x < b`.
Panic sites: `debug_assert!(new_cid_seq > last.sequence)` in `track_lifetime`, `self.issued += ids.len()`
and `seq.sequence + 1` (u64 overflow, debug build).  `on_cid_retirement` itself has none.
-/
namespace QM.CidState
open QM

def U64 : Nat := 2^64

structure CidTimestamp where
  sequence : Nat
  timestamp : Nat
deriving DecidableEq, Repr

structure State where
  retireTimestamp : List CidTimestamp
  issued : Nat
  activeSeq : List Nat
  prevRetireSeq : Nat
  retireSeq : Nat
  cidLen : Nat
  cidLifetime : Option Nat
deriving DecidableEq, Repr

/-- `FxHashSet::insert` -/
def setInsert (s : List Nat) (x : Nat) : List Nat := if x ∈ s then s else s ++ [x]

/-- `FxHashSet::remove` -/
def setRemove (s : List Nat) (x : Nat) : List Nat := s.filter (· ≠ x)

/-- `CidState::track_lifetime` (none = the `debug_assert!` fires) -/
def trackLifetime (s : State) (newCidSeq now : Nat) : Option State :=
  match s.cidLifetime with
  | none => some s
  | some lifetime =>
    let expireAt := now + lifetime
    match s.retireTimestamp.getLast? with
    | some last =>
      if expireAt = last.timestamp then
        if newCidSeq > last.sequence then
          some { s with retireTimestamp := s.retireTimestamp.dropLast ++ [⟨newCidSeq, last.timestamp⟩] }
        else none
      else some { s with retireTimestamp := s.retireTimestamp ++ [⟨newCidSeq, expireAt⟩] }
    | none => some { s with retireTimestamp := s.retireTimestamp ++ [⟨newCidSeq, expireAt⟩] }

def trackAll (s : State) (now : Nat) : List Nat → Option State
  | [] => some s
  | seq :: rest => match trackLifetime s seq now with
    | none => none
    | some s' => trackAll s' now rest

/-- `CidState::new` -/
def new (cidLen : Nat) (cidLifetime : Option Nat) (now issued : Nat) : Option State :=
  trackAll ⟨[], issued, List.range issued, 0, 0, cidLen, cidLifetime⟩ now (List.range issued)

/-- `CidState::next_timeout` -/
def nextTimeout (s : State) : Option Nat := s.retireTimestamp.head?.map (·.timestamp)

/-- `(lo..hi).any(|seq| self.active_seq.contains(&seq))` -/
def anyActive (s : State) (lo hi : Nat) : Bool := s.activeSeq.any (fun x => decide (lo ≤ x) && decide (x < hi))

/-- `CidState::on_cid_timeout` (none = `sequence + 1` overflows) -/
def onCidTimeout (s : State) : Option (State × Bool) :=
  let unretiredIdsFound := anyActive s s.prevRetireSeq s.retireSeq
  let current := s.retireSeq
  match s.retireTimestamp with
  | [] =>
    let s1 := if !unretiredIdsFound then { s with prevRetireSeq := s.retireSeq } else s
    some (s1, anyActive s1 current s1.retireSeq)
  | front :: rest =>
    if front.sequence + 1 ≥ U64 then none else
    let s0 := { s with retireTimestamp := rest }
    let s1 := if !unretiredIdsFound then { s0 with prevRetireSeq := s.retireSeq, retireSeq := front.sequence + 1 } else s0
    some (s1, anyActive s1 current s1.retireSeq)

/-- `CidState::new_cids` with the sequence numbers of `ids` (none = panic) -/
def newCids (s : State) (ids : List Nat) (now : Nat) : Option State :=
  match ids.getLast? with
  | none => some s
  | some last =>
    if s.issued + ids.length ≥ U64 then none else
    trackLifetime { s with issued := s.issued + ids.length, activeSeq := ids.foldl setInsert s.activeSeq } last now

inductive RetireOut where
  | ok (allowMore : Bool)
  | err (code : Nat) (site : Nat)
deriving DecidableEq, Repr

/-- `CidState::on_cid_retirement` -/
def onCidRetirement (s : State) (sequence limit : Nat) : State × RetireOut :=
  if s.cidLen = 0 then (s, .err Gen.retireNotInUseCode 0) else
  if Gen.retireUnissued sequence s.issued then (s, .err Gen.retireUnissuedCode 1) else
  let a := setRemove s.activeSeq sequence
  ({ s with activeSeq := a }, .ok (Gen.retireAllowMore limit a.length))

/-- `CidState::retire_prior_to` -/
def retirePriorTo (s : State) : Nat := s.retireSeq

/-! test-only helpers of the Rust (`#[cfg(test)]`, not reachable from a peer, not compiled into the hook build) -/

/-- `CidState::active_seq` (min, max) with the `u64::MAX`/`u64::MIN` defaults -/
def activeSeqMinMax (s : State) : Nat × Nat :=
  (s.activeSeq.foldl (fun m n => if n < m then n else m) (U64 - 1), s.activeSeq.foldl (fun m n => if n > m then n else m) 0)

/-- `CidState::assign_retire_seq` (none = `max().unwrap()`, the `debug_assert!` or `checked_sub(..).unwrap()` panics) -/
def assignRetireSeq (s : State) (v : Nat) : Option (State × Nat) :=
  match s.activeSeq.max? with
  | none => none
  | some m =>
    if m + 1 ≥ U64 then none else
    if ¬ (v ≤ m + 1) then none else
    if v < s.retireSeq then none else
    some ({ s with retireSeq := v }, v - s.retireSeq)

end QM.CidState
