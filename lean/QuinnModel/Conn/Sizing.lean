import QuinnModel.Gen.DgramMtud
/-!
How much room `Connection::poll_transmit` gives the next datagram of a batch (`next_datagram_size_limit`):

    let next_datagram_size_limit = match self.spaces[space_id].loss_probes {
        0 => segment_size,
        _ => { self.spaces[space_id].loss_probes -= 1; cmp::min(segment_size, usize::from(INITIAL_MTU)) }
    };
    buf_capacity += next_datagram_size_limit;

`segment_size` is the MTU estimate (or the first datagram's size in a GSO batch).  The statement shape — in particular
that the clamp does not depend on the packet space — is pinned by the T1 anchor `Gen.lossProbeClampShapeChecked`;
`INITIAL_MTU` is `Gen.initialMtu`.
-/
namespace QM.Sizing

/-- (new `loss_probes` credit of the space, size limit of the datagram being started) -/
def nextDatagramLimit (lossProbes segmentSize : Nat) : Nat × Nat :=
  let _ := Gen.lossProbeClampShapeChecked
  match lossProbes with
  | 0 => (0, segmentSize)
  | n + 1 => (n, min segmentSize Gen.initialMtu)

end QM.Sizing
