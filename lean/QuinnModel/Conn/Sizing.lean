import QuinnModel.Gen.DgramMtud
import QuinnModel.Gen.SendGate
/-!
How much room `Connection::poll_transmit` gives the next datagram of a batch (`next_datagram_size_limit`):

    let probe_may_follow = spaces[space_idx + 1..].iter().any(|&id| self.spaces[id].loss_probes != 0);
    let next_datagram_size_limit = match self.spaces[space_id].loss_probes {
        0 if !probe_may_follow => segment_size,
        0 => cmp::min(segment_size, usize::from(INITIAL_MTU)),      // a probe of a later space may be coalesced into it
        _ => { self.spaces[space_id].loss_probes -= 1; cmp::min(segment_size, usize::from(INITIAL_MTU)) }
    };
    buf_capacity += next_datagram_size_limit;

`segment_size` is the MTU estimate (or the first datagram's size in a GSO batch).  The statement shape — in particular
that the clamp does not depend on the packet space — is pinned by the T1 anchor `Gen.lossProbeClampShapeChecked`;
`INITIAL_MTU` is `Gen.initialMtu`.
-/
namespace QM.Sizing

/-- (new `loss_probes` credit of the space, size limit of the datagram being started); `probeMayFollow` = a later
    packet number space holds a loss-probe credit -/
def nextDatagramLimitAhead (lossProbes : Nat) (probeMayFollow : Bool) (segmentSize : Nat) : Nat × Nat :=
  let _ := Gen.lossProbeClampShapeChecked
  match lossProbes with
  | 0 => (0, if probeMayFollow then min segmentSize Gen.initialMtu else segmentSize)
  | n + 1 => (n, min segmentSize Gen.initialMtu)

/-- the same when no later space holds a credit -/
def nextDatagramLimit (lossProbes segmentSize : Nat) : Nat × Nat :=
  match lossProbes with
  | 0 => (0, segmentSize)
  | n + 1 => (n, min segmentSize Gen.initialMtu)

theorem nextDatagramLimit_eq (l seg : Nat) : nextDatagramLimit l seg = nextDatagramLimitAhead l false seg := by
  cases l <;> rfl

end QM.Sizing

/-!
Capacity and padding arithmetic of one datagram (`poll_transmit` + `PacketBuilder::{new,pad_to,finish}`), shape-anchored
in `Gen/SendGate.lean` (`sgMaxSizeShape`, `sgPadToShape`, `sgFinishPadShape`, `sgPadInitialShape`, `sgPadPathFramesShape`,
`sgPadLastShape`):

    buf_capacity += next_datagram_size_limit;  datagram_start = buf.len();          // = old buf_capacity when aligned
    max_size = buf_capacity - tag_len;                                               // PacketBuilder::new
    pad_to(n):   min_size = max(min_size, datagram_start + n - tag_len)              // does NOT look at max_size
    finish:      payload end = max(buf.len(), min_size); datagram end = payload end + tag_len

`payloadEnd` is where the frame writers stopped (an input: the writers are not modelled).
-/
namespace QM.Sizing

structure Dgram where
  /-- `datagram_start` -/
  start : Nat
  /-- `next_datagram_size_limit` -/
  limit : Nat
  tagLen : Nat
  /-- `buf.len()` after the last packet's frames were written (absolute position) -/
  payloadEnd : Nat
  /-- `min_size` of the last packet before any `pad_to` (header protection sample etc.) -/
  minSize : Nat
  /-- `pad_datagram`: `pad_to(MIN_INITIAL_SIZE)` is applied to the last packet -/
  pad : Bool

/-- `builder.max_size` of the last packet -/
def maxSize (d : Dgram) : Nat :=
  let _ := Gen.sgMaxSizeShape
  d.start + d.limit - d.tagLen

/-- `min_size` after the optional `pad_to(MIN_INITIAL_SIZE)` -/
def paddedMin (d : Dgram) : Nat :=
  let _ := (Gen.sgPadToShape, Gen.sgPadLastShape)
  if d.pad then max d.minSize (d.start + Gen.sgMinInitialSize - d.tagLen) else d.minSize

/-- length of the finished datagram -/
def finishedLen (d : Dgram) : Nat :=
  let _ := Gen.sgFinishPadShape
  max d.payloadEnd (paddedMin d) + d.tagLen - d.start

/-- `pad_datagram` as `poll_transmit` computes it for a datagram whose packets are described by the flags -/
def padDatagram (hasInitial isClient initialAckEliciting requiresPadding : Bool) : Bool :=
  let _ := (Gen.sgPadInitialShape, Gen.sgPadPathFramesShape)
  (hasInitial && (isClient || initialAckEliciting)) || requiresPadding

end QM.Sizing
