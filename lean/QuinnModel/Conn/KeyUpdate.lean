import QuinnModel.Data.Dedup
import QuinnModel.Gen.KeyUpd
/-
Model of the key-phase logic of the 1-RTT receive pipeline (C04, RFC 9001 section 6):
  packet_crypto.rs  `decrypt_packet_body` (key selection: key-phase bit vs. `conn_key_phase`, `prev_crypto` with
                    `end_packet`, `next_crypto`; AEAD; reserved bits; `outgoing_key_update_acked`; KEY_UPDATE_ERROR arms)
  connection/mod.rs `Connection::{decrypt_packet, update_keys, force_key_update, set_key_discard_timer}`, the
                    `Timer::KeyDiscard` / `Timer::Close` arms of `handle_timeout`, the parts of `handle_packet` around
                    them (failure counter and AEAD_LIMIT_REACHED, duplicate filter, `on_packet_authenticated`, error tail),
                    `poll_transmit` clearing `update_unacked`, `PacketBuilder::new` starting the routine key update.

Conventions. A key is identified by its GENERATION (0 = the 1-RTT keys of the handshake, g+1 = what the g-th
`Session::next_1rtt_keys` call returns; `sess` is the generation the next call returns).  AEAD is ideal: a packet
authenticates under exactly the generation it was sealed with (`sealGen = none`: forged / corrupted).  Every `unwrap` /
`expect` of the mirrored code is an explicit `panic` outcome.  Time is in microseconds; `pto` is `Connection::pto(Data)`,
constant because the component never delivers an ACK frame.  Not modelled: 0-RTT keys (`zero_rtt_crypto` is None on a
client that holds 1-RTT keys; on a server it shares `Timer::KeyDiscard`), packet-number expansion (the component sends
4-byte numbers below 2^30: `expand` is the identity there, Conn/RxPn.lean covers it), frames other than PING.
Guards are the T1 translations `Gen.ku*`; statement order is pinned by the `Gen.*ShapeChecked` anchors.
-/
namespace QM.KeyUpdate
open QM

/-- `PrevCrypto` -/
structure Prev where
  gen : Nat
  /-- (packet number, receipt time) -/
  endPacket : Option (Nat × Nat)
  unacked : Bool
deriving Repr, DecidableEq

inductive Life where
  | est | closed | drained
deriving Repr, DecidableEq

inductive Err where
  | keyUpdateError | protocolViolation | aeadLimitReached
deriving Repr, DecidableEq

structure State where
  /-- `Connection::key_phase` -/
  phase : Bool := false
  /-- `spaces[Data].crypto` (generation of its packet keys) -/
  cur : Option Nat := some 0
  prev : Option Prev := none
  /-- `next_crypto` -/
  next : Option Nat := some 1
  sess : Nat := 2
  /-- `key_phase_size` (the component starts with the announced phase size instead of a random one) -/
  phaseSize : Nat := 6
  /-- `spaces[Data].sent_with_keys` -/
  swk : Nat := 0
  /-- `spaces[Data].next_packet_number` (the component disables the random skipping of packet numbers) -/
  nextPn : Nat := 0
  /-- `spaces[Data].largest_acked_packet` -/
  largestAcked : Option Nat := none
  /-- `key_phase_first_pn`: lowest packet number that can have been sent in the current key phase, once a key update
      has taken place -/
  firstPn : Option Nat := none
  /-- GHOST (not in the code, not printed): every 1-RTT packet sent, as (packet number, generation of its keys) -/
  sentLog : List (Nat × Nat) := []
  rxPacket : Nat := 0
  dedup : Dedup.Dedup := Dedup.init
  authed : Nat := 0
  fail : Nat := 0
  /-- deadline of `Timer::KeyDiscard` -/
  kd : Option Nat := none
  /-- deadline of `Timer::Close` -/
  closeT : Option Nat := none
  life : Life := .est
  err : Option Err := none
  now : Nat := 0
  -- environment (announced by `env`, checked by the executor against the real values)
  pto : Nat := 325000
  /-- `PacketKey::integrity_limit` -/
  limit : Nat := 12
  /-- `PacketKey::confidentiality_limit` of every generation -/
  confLimit : Nat := Gen.keyUpdateMargin + 6
deriving Repr, DecidableEq

def init : State := {}

/-- a received short-header packet -/
structure Pkt where
  pn : Nat
  /-- key phase bit -/
  bit : Bool
  /-- generation it was sealed with; `none` = authenticates under no key -/
  sealGen : Option Nat
  /-- reserved header bits set -/
  rsv : Bool := false
deriving Repr, DecidableEq

inductive Sel where
  | cur | prev | next
deriving Repr, DecidableEq

/-- the `let crypto = if … else if … else if let Some(prev) = … else { crypto_update = true; … }` chain -/
def select (s : State) (p : Pkt) : Sel :=
  let _ := Gen.decryptBodyShapeChecked
  if Gen.kuCurrentSelected p.bit s.phase true then .cur
  else match s.prev with
    | some pv =>
      match pv.endPacket with
      | none => .prev
      | some (e, _) => if Gen.kuBelowEndPacket p.pn e then .prev else .next
    | none => .next

/-- generation of the selected key; `none` = the `unwrap()` of that arm hits `None` -/
def selectedGen (s : State) : Sel → Option Nat
  | .cur => s.cur
  | .prev => s.prev.map (·.gen)
  | .next => s.next

def prevUnacked (s : State) : Bool :=
  match s.prev with
  | some pv => pv.unacked
  | none => false

inductive Body where
  | ok (number : Nat) (acked incoming : Bool)
  | drop
  | err (e : Err)
  | panic
deriving Repr, DecidableEq

/-- `packet_crypto::decrypt_packet_body` for a short-header packet -/
def decryptBody (s : State) (p : Pkt) : Body :=
  let sel := select s p
  match selectedGen s sel with
  | none => .panic
  | some g =>
    if p.sealGen ≠ some g then .drop
    else if p.rsv then .err .protocolViolation
    else
      let acked := match s.prev with
        | some pv => Gen.kuOutgoingAcked pv.endPacket.isNone p.bit s.phase
        | none => false
      if sel = .next ∧ Gen.kuUpdateInvalid p.pn s.rxPacket (prevUnacked s) = true then .err .keyUpdateError
      else .ok p.pn acked (decide (sel = .next))

/-- `set_key_discard_timer` (no 0-RTT keys); `none` = one of its two `expect`s fails -/
def setKeyDiscardTimer (s : State) : Option State :=
  let _ := Gen.keyDiscardShapeChecked
  match s.prev with
  | none => none
  | some pv =>
    match pv.endPacket with
    | none => none
    | some (_, t) => some { s with kd := some (t + s.pto * Gen.keyDiscardPtoFactor) }

/-- `update_keys`; `none` = an `unwrap` fails -/
def updateKeys (s : State) (endPacket : Option (Nat × Nat)) (remote : Bool) : Option State :=
  let _ := Gen.updateKeysShapeChecked
  match s.cur, s.next with
  | some c, some n =>
    some { s with
      phaseSize := s.confLimit - Gen.keyUpdateMargin
      cur := some n
      next := some s.sess
      sess := s.sess + 1
      swk := 0
      prev := some ⟨c, endPacket, remote⟩
      phase := !s.phase
      firstPn := some s.nextPn }
  | _, _ => none

inductive Dec where
  | ok (s : State) (number : Nat)
  | drop
  | err (e : Err)
  | panic
deriving Repr, DecidableEq

/-- `Connection::decrypt_packet` -/
def decryptPacket (s : State) (p : Pkt) : Dec :=
  let _ := Gen.decryptPacketShapeChecked
  match decryptBody s p with
  | .panic => .panic
  | .drop => .drop
  | .err e => .err e
  | .ok n acked incoming =>
    let s1 : Option State :=
      if acked then
        match s.prev with
        | some pv => setKeyDiscardTimer { s with prev := some { pv with endPacket := some (n, s.now) } }
        | none => some s
      else some s
    match s1 with
    | none => .panic
    | some s1 =>
      if incoming then
        match updateKeys s1 (some (n, s1.now)) true with
        | none => .panic
        | some s2 =>
          match setKeyDiscardTimer s2 with
          | none => .panic
          | some s3 => .ok s3 n
      else .ok s1 n

/-- what `rx` reports: did the packet open under the selected key, were its frames processed -/
inductive RxOut where
  | res (opened processed : Bool)
  | panic
deriving Repr, DecidableEq

/-- the `Err(None)` arm of `handle_packet` and the error tail for AEAD_LIMIT_REACHED -/
def countFailure (s : State) : State :=
  let s1 := { s with fail := s.fail + 1 }
  if Gen.kuIntegrityLimitExceeded s1.fail s.limit ∧ s.life = .est then
    { s1 with err := some .aeadLimitReached, life := .drained, kd := none, closeT := none }
  else s1

/-- `Connection::handle_packet` for a short-header packet from the current path -/
def handlePacket (s : State) (p : Pkt) : State × RxOut :=
  let _ := Gen.rxPacketAdvanceShapeChecked
  match decryptPacket s p with
  | .panic => (s, .panic)
  | .err e =>
    if s.life ≠ .est then (s, .res true false)
    else ({ s with err := some e, life := .closed, kd := none,
                   closeT := some (s.now + Gen.closeTimerPtoFactor * s.pto) }, .res true false)
  | .drop =>
    match s.cur with
    | none => (s, .panic)
    | some _ => (countFailure s, .res false false)
  | .ok s1 n =>
    let (d, dup) := Dedup.insert s1.dedup n
    let s2 := { s1 with dedup := d }
    if dup then (s2, .res true false)
    else
      let s3 := if s2.life = .est then
          { s2 with authed := s2.authed + 1, rxPacket := if n ≥ s2.rxPacket then n else s2.rxPacket }
        else s2
      (s3, .res true (decide (s3.life ≠ .drained)))

/-- the acknowledgement guard of `force_key_update` (RFC 9001 6.1): a key update has taken place and no packet that can
    have been sent in the current key phase is acknowledged.  (The refusal also calls `ping()`, which is invisible here:
    `send` pings anyway.) -/
def unconfirmed (s : State) : Bool :=
  match s.firstPn with
  | some first =>
    match s.largestAcked with
    | none => true
    | some pn => Gen.kuAckedBelowPhase pn first
  | none => false

/-- `Connection::force_key_update` (the handshake of the component's connection is confirmed: Handshake keys discarded) -/
def forceKeyUpdate (s : State) : Option State :=
  let _ := Gen.forceKeyUpdateShapeChecked
  if s.life ≠ .est then some s
  else if s.prev.isSome then some s
  else if unconfirmed s then some s
  else updateKeys s none false

/-- `if let Some(ref mut prev) = self.prev_crypto { prev.update_unacked = false; }` -/
def clearUnacked (s : State) : State :=
  match s.prev with
  | some pv => { s with prev := some { pv with unacked := false } }
  | none => s

/-- `ping` + `poll_transmit` of an established connection that is never congestion limited: one 1-RTT packet.
    Returns the state and (key phase bit, generation) the packet is sent with. -/
def send (s : State) : Option (State × Bool × Nat) :=
  let _ := Gen.unackedClearedOnSendShapeChecked
  let s1 := clearUnacked s
  let s2 := if Gen.kuRoutineUpdateDue s1.swk s1.phaseSize then forceKeyUpdate s1 else some s1
  match s2 with
  | none => none
  | some s2 =>
    match s2.cur with
    | none => none
    | some g => some ({ s2 with swk := s2.swk + 1, nextPn := s2.nextPn + 1,
                                sentLog := (s2.nextPn, g) :: s2.sentLog }, s2.phase, g)

/-- `Timer::Close` arm of `handle_timeout` -/
def closeArm (s : State) : State :=
  match s.closeT with
  | some t => if t ≤ s.now then { s with closeT := none, life := .drained } else s
  | none => s

/-- `Timer::KeyDiscard` arm of `handle_timeout` -/
def keyDiscardArm (s : State) : State :=
  match s.kd with
  | some t => if t ≤ s.now then { s with kd := none, prev := none } else s
  | none => s

/-- `handle_timeout(now)`: the Close and KeyDiscard arms -/
def timeout (s : State) : State := keyDiscardArm (closeArm s)

/-- an ACK frame of the peer acknowledges our packet `pn` (only its effect on `largest_acked_packet`); `none` = not a
    packet we sent (quinn answers such an ACK with PROTOCOL_VIOLATION before touching anything: outside this component) -/
def ackd (s : State) (pn : Nat) : Option State :=
  if pn < s.nextPn then
    some { s with largestAcked := some (match s.largestAcked with | some a => if a ≥ pn then a else pn | none => pn) }
  else none

inductive Op where
  | rx (p : Pkt)
  | ackd (pn : Nat)
  | update
  | send
  | tick (us : Nat)
  | timeout
deriving Repr, DecidableEq

/-- one request; `none` = the real code panics -/
def step (s : State) : Op → Option State
  | .rx p => match handlePacket s p with
    | (_, .panic) => none
    | (s', _) => some s'
  | .ackd pn => match ackd s pn with
    | some s' => some s'
    | none => some s        -- not a packet we sent: the request is refused (`bad-op`), nothing happens
  | .update => forceKeyUpdate s
  | .send => if s.life ≠ .est then some s else (send s).map (·.1)
  | .tick us => some { s with now := s.now + us }
  | .timeout => some (timeout s)

def run : State → List Op → Option State
  | s, [] => some s
  | s, o :: os => match step s o with
    | none => none
    | some s' => run s' os

/-- packet numbers whose frames were processed along a run (in order) -/
def processed : State → List Op → List Nat
  | _, [] => []
  | s, o :: os =>
    match step s o with
    | none => []
    | some s' =>
      match o with
      | .rx p => if (handlePacket s p).2 = .res true true then p.pn :: processed s' os else processed s' os
      | _ => processed s' os

/-- generations whose receive keys are installed -/
def installed (s : State) : List Nat :=
  s.cur.toList ++ (s.prev.map (·.gen)).toList ++ s.next.toList

end QM.KeyUpdate
