import QuinnModel.Util
import QuinnModel.Gen.C03Consts
/-
Model of quinn-proto/src/connection/ack_frequency.rs `AckFrequencyState`.
`Duration` = Nat nanoseconds.  Panic sites: `Ord::clamp` (`assert!(min <= max)`) in `candidate_max_ack_delay`
(reached from `should_send_ack_frequency` and from `populate_packet`; proved unreachable since the fix of DESIGN §7 F1),
`assert!(next <= VarInt::MAX)` in `next_sequence_number`.  The f32 comparison of `should_send_ack_frequency` is an opaque parameter `fdec`
of the model (DESIGN §3: floats are inputs); the driver instantiates it with `rttErrorExceeds` (IEEE binary32,
same operations as the Rust).
-/
namespace QM.AckFrequency
open QM

structure State where
  /-- `in_flight_ack_frequency_frame: Option<(u64, Duration)>` -/
  inFlight : Option (Nat × Nat)
  nextSeq : Nat
  peerMaxAckDelay : Nat
  lastFrame : Option Nat
  maxAckDelay : Nat
deriving DecidableEq, Repr

/-- what the executor keeps next to the state: local config, peer parameters, `PendingAcks` thresholds -/
structure Env where
  /-- `AckFrequencyConfig::max_ack_delay` (ns) -/
  cfgMaxAckDelay : Option Nat
  /-- `TransportParameters::min_ack_delay` (µs) -/
  peerMinAckDelay : Option Nat
  /-- `PendingAcks::{ack_eliciting_threshold, reordering_threshold}` -/
  thresholds : Nat × Nat
deriving DecidableEq, Repr

def varIntMax : Nat := 2^62 - 1

/-- `AckFrequencyState::new` -/
def new (defaultMaxAckDelay : Nat) : State := ⟨none, 0, defaultMaxAckDelay, none, defaultMaxAckDelay⟩

/-- `Ord::clamp` (none = `assert!(min <= max)` fails) -/
def clamp (x lo hi : Nat) : Option Nat :=
  if lo > hi then none else some (if x < lo then lo else if x > hi then hi else x)

/-- `Duration::from_micros(peer_params.min_ack_delay.map_or(0, |x| x.into()))` in ns -/
def minAckDelayNs (peerMin : Option Nat) : Nat :=
  (match peerMin with | none => 0 | some x => x) * 1000

/-- `AckFrequencyState::candidate_max_ack_delay` (none = the `assert!(min <= max)` of `Ord::clamp`; unreachable since the
    upper bound is `rtt.max(MIN_AUTOMATIC_ACK_DELAY).max(min_ack_delay)`: `Props.C03.candidate_max_ack_delay_no_panic`) -/
def candidateMaxAckDelay (s : State) (rtt : Nat) (cfg peerMin : Option Nat) : Option Nat :=
  let minAckDelay := minAckDelayNs peerMin
  let upper := Gen.candidateUpper rtt minAckDelay
  clamp (match cfg with | some d => d | none => s.peerMaxAckDelay) minAckDelay upper

/-- `AckFrequencyState::max_ack_delay_for_pto` -/
def maxAckDelayForPto (s : State) : Nat :=
  match s.inFlight with
  | some (_, d) => Nat.max s.peerMaxAckDelay d
  | none => s.peerMaxAckDelay

/-- `AckFrequencyState::next_sequence_number` (none = the `assert!`) -/
def nextSequenceNumber (s : State) : Option (State × Nat) :=
  if s.nextSeq > varIntMax then none else some ({ s with nextSeq := s.nextSeq + 1 }, s.nextSeq)

/-- `Duration::as_secs_f32` -/
def asSecsF32 (ns : Nat) : Float32 :=
  Float32.ofNat (ns / 1000000000) + Float32.ofNat (ns % 1000000000) / Float32.ofNat 1000000000

/-- `((desired.as_secs_f32() / current.as_secs_f32()) - 1.0).abs() > MAX_RTT_ERROR` -/
def rttErrorExceeds (desired current : Nat) : Bool :=
  ((asSecsF32 desired / asSecsF32 current) - 1.0).abs > Gen.maxRttError

/-- `AckFrequencyState::should_send_ack_frequency` (none = panic inside `candidate_max_ack_delay`) -/
def shouldSendAckFrequency (fdec : Nat → Nat → Bool) (s : State) (rtt : Nat) (cfg peerMin : Option Nat) : Option Bool :=
  if s.nextSeq = 0 then some true else
  let current := match s.inFlight with
    | some (_, pending) => pending
    | none => s.peerMaxAckDelay
  match candidateMaxAckDelay s rtt cfg peerMin with
  | none => none
  | some desired => some (fdec desired current)

/-- `AckFrequencyState::ack_frequency_sent` -/
def ackFrequencySent (s : State) (pn d : Nat) : State := { s with inFlight := some (pn, d) }

/-- `AckFrequencyState::on_acked` -/
def onAcked (s : State) (pn : Nat) : State :=
  match s.inFlight with
  | some (number, d) => if number = pn then { s with inFlight := none, peerMaxAckDelay := d } else s
  | none => s

inductive RecvOut where
  | ok (processed : Bool)
  | err (code : Nat)
deriving DecidableEq, Repr

/-- `AckFrequencyState::ack_frequency_received` (+ `PendingAcks::set_ack_frequency_params`) -/
def ackFrequencyReceived (s : State) (thr : Nat × Nat) (seq aet req reord : Nat) : State × (Nat × Nat) × RecvOut :=
  if (match s.lastFrame with | some h => decide (seq ≤ h) | none => false) then (s, thr, .ok false) else
  let s1 := { s with lastFrame := some seq }
  let maxAckDelay := req * 1000
  if maxAckDelay < Gen.timerGranularityNs then (s1, thr, .err Gen.ackFreqTooSmallCode) else
  ({ s1 with maxAckDelay := maxAckDelay }, (aet, reord), .ok true)

/-- `TransportParameters::read` validation of the two ack-delay parameters, then `Connection::set_peer_params`
    (`peer_max_ack_delay = Duration::from_micros(max_ack_delay * 1000)`); none = TRANSPORT_PARAMETER_ERROR -/
def setPeerParams (s : State) (e : Env) (maxAckDelayMs : Nat) (minAckDelayUs : Option Nat) : Option (State × Env) :=
  if Gen.tpAckDelayRejected (match minAckDelayUs with | some m => m | none => 0) maxAckDelayMs then none else
  some ({ s with peerMaxAckDelay := maxAckDelayMs * 1000 * 1000 }, { e with peerMinAckDelay := minAckDelayUs })

end QM.AckFrequency
