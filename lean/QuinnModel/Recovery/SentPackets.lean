import QuinnModel.Util
import QuinnModel.Gen.C12
/-
Model of quinn-proto/src/connection/sent_packets.rs `SentPackets` (ring buffer with holes) and of the
parts of quinn-proto/src/connection/spaces.rs `PacketSpace::{sent,take}` that touch it
(`unacked_non_ack_eliciting_tail`, `largest_ack_eliciting_sent`).

A Rust panic (debug_assert!, unwrap, checked arithmetic of a debug build) is the outcome `R.panic`; the
state returned next to it is the state at the moment of the panic (the harness keeps the object after
`catch_unwind`).
-/
namespace QM.SentPackets

/-- the fields of `SentPacket` the accounting looks at; `tag` is the identity of the packet (the executor
    stores the packet number it was inserted under in `largest_acked`) -/
structure Pkt where
  tag : Nat
  size : Nat      -- u16
  ae : Bool       -- ack_eliciting
  gen : Nat       -- path_generation
deriving Repr, DecidableEq, Inhabited

/-- result of a call that can panic -/
inductive R (α : Type) where
  | ok : α → R α
  | panic : R α
deriving Repr, DecidableEq

structure Ring where
  offset : Nat := 0
  slots : List (Option Pkt) := []
  inFlight : Nat := 0
deriving Repr, DecidableEq

def U64MAX : Nat := 2^64 - 1

/-- `SentPackets::insert` -/
def insert (r : Ring) (pn : Nat) (v : Pkt) : Ring × R Unit :=
  let inc := if v.size ≠ 0 then 1 else 0
  if r.slots.isEmpty then
    -- self.offset = pn; index = 0; resize(0); push_back
    ({ offset := pn, slots := [some v], inFlight := r.inFlight + inc }, .ok ())
  else if pn < r.offset + r.slots.length then
    (r, .panic)                                  -- debug_assert!(pn >= offset + len)
  else
    let index := pn - r.offset
    ({ r with slots := r.slots ++ List.replicate (index - r.slots.length) none ++ [some v],
              inFlight := r.inFlight + inc }, .ok ())

/-- `while let Some(None) = self.slots.front() { pop_front(); offset += 1 }` -/
def reclaim : Nat → List (Option Pkt) → Nat × List (Option Pkt)
  | off, none :: t => reclaim (off + 1) t
  | off, l => (off, l)

/-- `SentPackets::remove` -/
def remove (r : Ring) (pn : Nat) : Ring × R (Option Pkt) :=
  if pn < r.offset then (r, .ok none) else      -- checked_sub(..)?
  let index := pn - r.offset
  match r.slots[index]? with
  | some (some v) =>
    let slots := r.slots.set index none         -- get_mut(index)?.take()?
    if v.size ≠ 0 ∧ r.inFlight = 0 then
      ({ r with slots := slots }, .panic)       -- self.in_flight -= 1
    else
      let inf := if v.size ≠ 0 then r.inFlight - 1 else r.inFlight
      let (off, sl) := reclaim r.offset slots
      ({ offset := off, slots := sl, inFlight := inf }, .ok (some v))
  | _ => (r, .ok none)

/-- `SentPackets::get` -/
def get (r : Ring) (pn : Nat) : Option Pkt :=
  if pn < r.offset then none else
  match r.slots[pn - r.offset]? with
  | some (some v) => some v
  | _ => none

/-- `SentPackets::has_in_flight` -/
def hasInFlight (r : Ring) : Bool := r.inFlight ≠ 0

inductive Bound where
  | incl (n : Nat)
  | excl (n : Nat)
  | unb
deriving Repr, DecidableEq

def satAdd1 (n : Nat) : Nat := if n ≥ U64MAX then U64MAX else n + 1

def pick (i : Nat) (off : Nat) (slots : List (Option Pkt)) : Option (Nat × Pkt) :=
  match slots[i]? with
  | some (some v) => some (off + i, v)
  | _ => none

/-- `SentPackets::range` (collected) -/
def range (r : Ring) (lo hi : Bound) : R (List (Nat × Pkt)) :=
  let end_ := r.offset + r.slots.length
  let lo' := Nat.max (match lo with | .incl n => n | .excl n => satAdd1 n | .unb => r.offset) r.offset
  let hi' := Nat.min (match hi with | .incl n => satAdd1 n | .excl n => n | .unb => end_) end_
  let start := lo' - r.offset
  let stop := Nat.max (hi' - r.offset) start
  if start < stop ∧ r.slots.length < stop then .panic      -- self.slots[i]
  else .ok ((List.range' start (stop - start)).filterMap (fun i => pick i r.offset r.slots))

/-- `values_mut` / `into_values`: present entries in slot order -/
def values (r : Ring) : List Pkt := r.slots.filterMap id

/-! ### `PacketSpace` as far as `sent`/`take` go -/

structure Space where
  ring : Ring := {}
  tail : Nat := 0            -- unacked_non_ack_eliciting_tail
  largestAe : Nat := 0       -- largest_ack_eliciting_sent
deriving Repr, DecidableEq

/-- `PacketSpace::take` -/
def Space.take (s : Space) (pn : Nat) : Space × R (Option Pkt) :=
  match remove s.ring pn with
  | (ring, .panic) => ({ s with ring := ring }, .panic)
  | (ring, .ok none) => ({ s with ring := ring }, .ok none)
  | (ring, .ok (some v)) =>
    if !v.ae && decide (pn > s.largestAe) then
      if s.tail = 0 then ({ s with ring := ring }, .panic)       -- checked_sub(1).unwrap()
      else ({ s with ring := ring, tail := s.tail - 1 }, .ok (some v))
    else ({ s with ring := ring }, .ok (some v))

def Space.ins (s : Space) (pn : Nat) (v : Pkt) (fg : Option Pkt) : Space × R (Option Pkt) :=
  match insert s.ring pn v with
  | (ring, .panic) => ({ s with ring := ring }, .panic)
  | (ring, .ok _) => ({ s with ring := ring }, .ok fg)

/-- `PacketSpace::sent`; returns the packet to forget, if any -/
def Space.sent (s : Space) (pn : Nat) (v : Pkt) : Space × R (Option Pkt) :=
  if v.ae then
    Space.ins { s with tail := 0, largestAe := pn } pn v none
  else if s.tail > Gen.maxUnackedNonAckElicitingTail then
    match range s.ring (.excl s.largestAe) .unb with
    | .panic => (s, .panic)
    | .ok [] => (s, .panic)                                       -- .next().unwrap()
    | .ok ((opn, _) :: _) =>
      match remove s.ring opn with
      | (ring, .panic) => ({ s with ring := ring }, .panic)
      | (ring, .ok none) => ({ s with ring := ring }, .panic)     -- .remove(..).unwrap()
      | (ring, .ok (some p)) =>
        if p.ae then ({ s with ring := ring }, .panic)            -- debug_assert!(!packet.ack_eliciting)
        else Space.ins { s with ring := ring } pn v (some p)
  else
    Space.ins { s with tail := s.tail + 1 } pn v none

end QM.SentPackets
