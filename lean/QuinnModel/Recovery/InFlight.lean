import QuinnModel.Recovery.SentPackets
/-
Model of quinn-proto/src/connection/paths.rs `InFlight::{insert,remove}`, `PathData::{sent,remove_in_flight}`
and of the accounting glue of quinn-proto/src/connection/mod.rs around them: one path, the three packet
number spaces.  Operations = the ways a sent packet is resolved:
  sent (PacketBuilder::finish_and_track -> PathData::sent), ack (on_ack_received -> take + on_packet_acked ->
  remove_in_flight), lost (detect_lost_packets -> take + remove_in_flight), discard (discard_space / Retry /
  0-RTT rejection: mem::take(sent_packets) + remove_in_flight of every packet), and the forgotten
  non-ack-eliciting tail inside `PacketSpace::sent`.
-/
namespace QM.InFlight
open QM.SentPackets

structure Counters where
  bytes : Nat := 0
  ae : Nat := 0
deriving Repr, DecidableEq

def aeN (v : Pkt) : Nat := if v.ae then 1 else 0

/-- `InFlight::insert` (u64 `+=` of a debug build) -/
def Counters.insert (c : Counters) (v : Pkt) : Counters × R Unit :=
  if c.bytes + v.size ≥ 2^64 then (c, .panic)
  else
    let c1 := { c with bytes := c.bytes + v.size }
    if c1.ae + aeN v ≥ 2^64 then (c1, .panic)
    else ({ c1 with ae := c1.ae + aeN v }, .ok ())

/-- `InFlight::remove` (u64 `-=` of a debug build) -/
def Counters.remove (c : Counters) (v : Pkt) : Counters × R Unit :=
  if c.bytes < v.size then (c, .panic)
  else
    let c1 := { c with bytes := c.bytes - v.size }
    if c1.ae < aeN v then (c1, .panic)
    else ({ c1 with ae := c1.ae - aeN v }, .ok ())

inductive Sp where
  | initial | handshake | data
deriving Repr, DecidableEq

structure State where
  s0 : Space := {}
  s1 : Space := {}
  s2 : Space := {}
  inFlight : Counters := {}
  gen : Nat := 0                 -- PathData::generation
deriving Repr, DecidableEq

def State.space (st : State) : Sp → Space
  | .initial => st.s0
  | .handshake => st.s1
  | .data => st.s2

def State.setSpace (st : State) (i : Sp) (x : Space) : State :=
  match i with
  | .initial => { st with s0 := x }
  | .handshake => { st with s1 := x }
  | .data => { st with s2 := x }

/-- `PathData::remove_in_flight` -/
def State.removeInFlight (st : State) (v : Pkt) : State × R Bool :=
  if v.gen ≠ st.gen then (st, .ok false)
  else match st.inFlight.remove v with
    | (c, .panic) => ({ st with inFlight := c }, .panic)
    | (c, .ok _) => ({ st with inFlight := c }, .ok true)

/-- `PathData::sent`: result = the forgotten packet, if any -/
def State.sent (st : State) (i : Sp) (pn : Nat) (v : Pkt) : State × R (Option Pkt) :=
  match st.inFlight.insert v with
  | (c, .panic) => ({ st with inFlight := c }, .panic)
  | (c, .ok _) =>
    let st := { st with inFlight := c }
    match (st.space i).sent pn v with
    | (sp, .panic) => (st.setSpace i sp, .panic)
    | (sp, .ok none) => (st.setSpace i sp, .ok none)
    | (sp, .ok (some fg)) =>
      match (st.setSpace i sp).removeInFlight fg with
      | (st', .panic) => (st', .panic)
      | (st', .ok _) => (st', .ok (some fg))

/-- `space.take(pn)` then `remove_in_flight(&info)` (ack and loss paths);
    result = packet and whether it was on this path -/
def State.resolve (st : State) (i : Sp) (pn : Nat) : State × R (Option (Pkt × Bool)) :=
  match (st.space i).take pn with
  | (sp, .panic) => (st.setSpace i sp, .panic)
  | (sp, .ok none) => (st.setSpace i sp, .ok none)
  | (sp, .ok (some v)) =>
    match (st.setSpace i sp).removeInFlight v with
    | (st', .panic) => (st', .panic)
    | (st', .ok b) => (st', .ok (some (v, b)))

/-- `for packet in sent_packets.into_values() { self.remove_in_flight(&packet) }` -/
def State.removeAll (st : State) : List Pkt → State × R Unit
  | [] => (st, .ok ())
  | v :: t =>
    match st.removeInFlight v with
    | (st', .panic) => (st', .panic)
    | (st', .ok _) => st'.removeAll t

/-- `mem::take(&mut space.sent_packets)` + the loop above; result = the abandoned packets -/
def State.discard (st : State) (i : Sp) : State × R (List Pkt) :=
  let sp := st.space i
  let vs := values sp.ring
  match (st.setSpace i { sp with ring := {} }).removeAll vs with
  | (st', .panic) => (st', .panic)
  | (st', .ok _) => (st', .ok vs)

/-- several `resolve`s in a row (one ACK frame / one loss detection pass); stops at a panic -/
def State.resolveMany (st : State) (i : Sp) : List Nat → State × R (List (Option (Pkt × Bool)))
  | [] => (st, .ok [])
  | pn :: t =>
    match st.resolve i pn with
    | (st', .panic) => (st', .panic)
    | (st', .ok x) =>
      match st'.resolveMany i t with
      | (st'', .panic) => (st'', .panic)
      | (st'', .ok xs) => (st'', .ok (x :: xs))

/-- `n` consecutive non-ack-eliciting packets `start, start+1, …` of `size` bytes;
    result = (number forgotten, bytes forgotten, sum of forgotten tags) -/
def State.burst (st : State) (i : Sp) (size gen : Nat) : Nat → Nat → (Nat × Nat × Nat) → State × R (Nat × Nat × Nat)
  | 0, _, acc => (st, .ok acc)
  | n + 1, pn, (k, b, t) =>
    match st.sent i pn ⟨pn, size, false, gen⟩ with
    | (st', .panic) => (st', .panic)
    | (st', .ok none) => st'.burst i size gen n (pn + 1) (k, b, t)
    | (st', .ok (some fg)) => st'.burst i size gen n (pn + 1) (k + 1, b + fg.size, t + fg.tag)

end QM.InFlight
