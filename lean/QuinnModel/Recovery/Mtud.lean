import QuinnModel.Util
import QuinnModel.Gen.DgramMtud
/-
Model of quinn-proto/src/connection/mtud.rs (complete): `MtuDiscovery`, `EnabledMtuDiscovery`, `Phase`,
`SearchState`, `BlackHoleDetector`.  Same branches, same arithmetic, same order of effects.
Every comparison / arithmetic expression is the generated translation of the Rust text (`Gen.mtud*`, T1).
Sizes are `u16` and packet numbers `u64` in the Rust; the front end (Drv/Mtud.lean) only admits values of
those widths and every stored size is a min/max/midpoint/decrement of stored sizes, so no cast truncates.
`Instant` is `Nat` (nanoseconds from an arbitrary origin).
Panics are explicit: `Out.panic`, with the state exactly as the Rust leaves it when unwinding.
Not modelled: overflow of `lost_probe_count: usize` (needs 2^64 calls) and of `Instant + Duration`.
-/
namespace QM.Mtud
open QM

/-- `MtuDiscoveryConfig` (times in ns) -/
structure Config where
  interval : Nat
  upperBound : Nat
  minimumChange : Nat
  blackHoleCooldown : Nat
deriving Repr, DecidableEq

/-- `MtuDiscoveryConfig::default()` -/
def Config.default : Config :=
  ⟨Gen.mtudDefaultInterval, Gen.mtudDefaultUpperBound, Gen.mtudDefaultMinimumChange, Gen.mtudDefaultCooldown⟩

/-- a configuration built through the public setters (`upper_bound` clamps to `MAX_UDP_PAYLOAD`) -/
def Config.make (interval upperBound minimumChange cooldown : Nat) : Config :=
  ⟨interval, Gen.mtudCfgUpperBound upperBound, minimumChange, cooldown⟩

structure SearchState where
  lowerBound : Nat
  upperBound : Nat
  minimumChange : Nat
  lastProbedMtu : Nat
  inFlightProbe : Option Nat
  lostProbeCount : Nat
deriving Repr, DecidableEq

inductive Phase where
  | initial
  | searching (s : SearchState)
  | complete (nextActivation : Nat)
deriving Repr, DecidableEq

/-- `EnabledMtuDiscovery` -/
structure Enabled where
  phase : Phase
  peerMax : Nat
  config : Config
deriving Repr, DecidableEq

/-- `CurrentLossBurst` -/
structure CurBurst where
  smallest : Nat
  latest : Nat
deriving Repr, DecidableEq

/-- `BlackHoleDetector`; a `LossBurst` is its `smallest_packet_size` -/
structure Detector where
  bursts : List Nat
  current : Option CurBurst
  largestPostLoss : Nat
  ackedMtu : Nat
  minMtu : Nat
deriving Repr, DecidableEq

/-- `MtuDiscovery` (`peerMax`: the peer's max_udp_payload_size remembered outside the optional discovery state) -/
structure State where
  currentMtu : Nat
  state : Option Enabled
  det : Detector
  peerMax : Nat
deriving Repr, DecidableEq

inductive Out where
  | unit
  | bool (b : Bool)
  | probe (size : Option Nat)
  | panic
deriving Repr, DecidableEq

/-! ### SearchState -/

/-- `Ord::clamp` (`none` = `assert!(min <= max)` fails) -/
def clamp (x lo hi : Nat) : Option Nat :=
  if lo > hi then none else some (if x < lo then lo else if x > hi then hi else x)

/-- `SearchState::new` (`none` = the `clamp` assertion) -/
def SearchState.new (lowerBound peerMax : Nat) (config : Config) : Option SearchState :=
  let lowerBound := Gen.mtudSearchLower lowerBound peerMax
  match clamp config.upperBound lowerBound peerMax with
  | none => none
  | some upperBound =>
    some { inFlightProbe := none, lostProbeCount := 0, lowerBound := lowerBound, upperBound := upperBound,
           minimumChange := config.minimumChange, lastProbedMtu := lowerBound }

/-- second half of `SearchState::next_mtu_to_probe` (after the bound was moved): midpoint, stopping rule -/
def SearchState.pick (s : SearchState) : SearchState × Option Nat :=
  let nextMtu := Gen.mtudMidpoint s.lowerBound s.upperBound
  if Gen.mtudStop nextMtu s.lastProbedMtu s.minimumChange then
    if Gen.mtudProbeUpper s.upperBound s.lastProbedMtu s.minimumChange then (s, some s.upperBound)
    else (s, none)
  else (s, some nextMtu)

/-- `SearchState::next_mtu_to_probe`; `none` = panic (`debug_assert_eq!` or `last_probed_mtu - 1` underflow) -/
def SearchState.nextMtuToProbe (s : SearchState) (lastProbeSucceeded : Bool) : Option (SearchState × Option Nat) :=
  if s.inFlightProbe.isSome then none
  else if lastProbeSucceeded then some (SearchState.pick { s with lowerBound := s.lastProbedMtu })
  else if s.lastProbedMtu = 0 then none
  else some (SearchState.pick { s with upperBound := Gen.mtudUpperAfterLoss s.lastProbedMtu })

/-! ### EnabledMtuDiscovery -/

/-- `EnabledMtuDiscovery::new` -/
def Enabled.new (config : Config) : Enabled := ⟨.initial, Gen.maxUdpPayload, config⟩

/-- result of `EnabledMtuDiscovery::poll_transmit`: the state as left behind, and the returned value
    (`none` = panic) -/
abbrev PollR := Enabled × Option (Option Nat)

/-- second block of `poll_transmit` (`if let Phase::Searching(state) = &mut self.phase`) -/
def Enabled.pollSearching (e : Enabled) (s : SearchState) (now nextPn : Nat) : PollR :=
  if s.inFlightProbe.isSome then ({ e with phase := .searching s }, some none)
  else if Gen.mtudRetransmit s.lostProbeCount then
    ({ e with phase := .searching { s with inFlightProbe := some nextPn } }, some (some s.lastProbedMtu))
  else
    let succ := Gen.mtudLastProbeSucceeded s.lostProbeCount
    let s := if !succ then { s with lostProbeCount := 0, inFlightProbe := none } else s
    match s.nextMtuToProbe succ with
    | none => ({ e with phase := .searching s }, none)
    | some (s', some p) =>
      ({ e with phase := .searching { s' with inFlightProbe := some nextPn, lastProbedMtu := p } }, some (some p))
    | some (_, none) => ({ e with phase := .complete (now + e.config.interval) }, some none)

/-- `EnabledMtuDiscovery::poll_transmit` -/
def Enabled.pollTransmit (e : Enabled) (now currentMtu nextPn : Nat) : PollR :=
  match e.phase with
  | .initial =>
    match SearchState.new currentMtu e.peerMax e.config with
    | none => (e, none)
    | some s => e.pollSearching s now nextPn
  | .complete t =>
    if Gen.mtudNotYet now t then (e, some none)
    else match SearchState.new currentMtu e.peerMax e.config with
      | none => (e, none)
      | some s => e.pollSearching s now nextPn
  | .searching s => e.pollSearching s now nextPn

/-- `EnabledMtuDiscovery::on_probe_acked` -/
def Enabled.onProbeAcked (e : Enabled) (pn : Nat) : Option (Enabled × Nat) :=
  match e.phase with
  | .searching s =>
    if s.inFlightProbe = some pn then
      some ({ e with phase := .searching { s with inFlightProbe := none, lostProbeCount := 0 } }, s.lastProbedMtu)
    else none
  | _ => none

/-- `EnabledMtuDiscovery::on_probe_lost` -/
def Enabled.onProbeLost (e : Enabled) : Enabled :=
  match e.phase with
  | .searching s => { e with phase := .searching { s with inFlightProbe := none, lostProbeCount := s.lostProbeCount + 1 } }
  | _ => e

/-- `EnabledMtuDiscovery::on_black_hole_detected` -/
def Enabled.onBlackHoleDetected (e : Enabled) (now : Nat) : Enabled :=
  { e with phase := .complete (now + e.config.blackHoleCooldown) }

/-! ### BlackHoleDetector -/

/-- `BlackHoleDetector::new` -/
def Detector.new (minMtu : Nat) : Detector := ⟨[], none, 0, minMtu, minMtu⟩

def Detector.onProbeAcked (d : Detector) (pn len : Nat) : Detector :=
  { d with bursts := [], ackedMtu := len, largestPostLoss := pn }

def Detector.onNonProbeAcked (d : Detector) (pn len : Nat) : Detector :=
  if Gen.mtudAckedNoop len d.ackedMtu then d
  else { d with ackedMtu := len, largestPostLoss := pn, bursts := d.bursts.filter (fun b => Gen.mtudBurstStays b len) }

/-- the key of `Iterator::min_by_key` -/
def minOf : List Nat → Option Nat
  | [] => none
  | x :: xs => match minOf xs with
    | none => some x
    | some m => some (if x ≤ m then x else m)

/-- assign through the reference returned by `min_by_key` (the FIRST minimal element) -/
def replaceFirst (m new : Nat) : List Nat → List Nat
  | [] => []
  | x :: xs => if x = m then new :: xs else x :: replaceFirst m new xs

/-- `BlackHoleDetector::finish_loss_burst` -/
def Detector.finishLossBurst (d : Detector) : Detector :=
  match d.current with
  | none => d
  | some burst =>
    let d := { d with current := none }
    if Gen.mtudBenign burst.smallest burst.latest d.minMtu d.largestPostLoss d.ackedMtu then d
    else
      let d := if Gen.mtudInvalidates burst.latest d.largestPostLoss then { d with ackedMtu := d.minMtu } else d
      if Gen.mtudHasRoom d.bursts.length then { d with bursts := d.bursts ++ [burst.smallest] }
      else match minOf d.bursts with
        | none => d
        | some m => if Gen.mtudReplaces m burst.smallest then { d with bursts := replaceFirst m burst.smallest d.bursts } else d

/-- `BlackHoleDetector::on_non_probe_lost`; `none` = `pn - latest_non_probe` underflows (state untouched) -/
def Detector.onNonProbeLost (d : Detector) (pn len : Nat) : Option Detector :=
  match d.current with
  | none => some { d with current := some ⟨len, pn⟩ }
  | some cur =>
    if pn < cur.latest then none
    else
      let d := if Gen.mtudEndsBurst pn cur.latest then d.finishLossBurst else d
      some { d with current := some ⟨match d.current with
                                     | none => len
                                     | some prev => Gen.mtudMergeSmallest prev.smallest len, pn⟩ }

/-- `BlackHoleDetector::black_hole_detected` -/
def Detector.blackHoleDetected (d : Detector) : Detector × Bool :=
  let d := d.finishLossBurst
  if Gen.mtudNoBlackHole d.bursts.length then (d, false) else ({ d with bursts := [] }, true)

/-! ### MtuDiscovery -/

/-- `MtuDiscovery::with_state` -/
def withState (currentMtu minMtu : Nat) (state : Option Enabled) : State :=
  ⟨currentMtu, state, Detector.new minMtu, Gen.mtudInitialPeerMax⟩

/-- `MtuDiscovery::disabled` -/
def disabled (plpmtu minMtu : Nat) : State := withState plpmtu minMtu none

/-- `MtuDiscovery::on_peer_max_udp_payload_size_received` (the `debug_assert!` fires after `current_mtu` and the
    remembered limit were updated) -/
def onPeerMax (s : State) (peerMax : Nat) : State × Out :=
  let s := { s with currentMtu := Gen.mtudPeerClamp s.currentMtu peerMax, peerMax := peerMax }
  match s.state with
  | none => (s, .unit)
  | some e =>
    match e.phase with
    | .searching _ => (s, .panic)
    | _ => ({ s with state := some { e with peerMax := peerMax } }, .unit)

/-- `MtuDiscovery::new` (`none` = the `debug_assert!`) -/
def new (initialPlpmtu minMtu : Nat) (peerMax : Option Nat) (config : Config) : Option State :=
  if !Gen.mtudNewOk initialPlpmtu minMtu then none else
  let s := withState initialPlpmtu minMtu (some (Enabled.new config))
  match peerMax with
  | none => some s
  | some p => some (onPeerMax s p).1

/-- `MtuDiscovery::reset` -/
def reset (s : State) (currentMtu minMtu : Nat) : State :=
  let s := { s with currentMtu := currentMtu }
  let s := match s.state with
    | none => { s with currentMtu := Gen.mtudResetClamp s.currentMtu s.peerMax }
    | some st => (onPeerMax { s with state := some (Enabled.new st.config) } st.peerMax).1
  { s with det := Detector.new minMtu }

/-- `MtuDiscovery::poll_transmit` -/
def pollTransmit (s : State) (now nextPn : Nat) : State × Out :=
  match s.state with
  | none => (s, .probe none)
  | some e =>
    match e.pollTransmit now s.currentMtu nextPn with
    | (e', some r) => ({ s with state := some e' }, .probe r)
    | (e', none) => ({ s with state := some e' }, .panic)

/-- `MtuDiscovery::on_acked` (`isData` = `space == SpaceId::Data`) -/
def onAcked (s : State) (isData : Bool) (pn len : Nat) : State × Out :=
  if !isData then (s, .bool false) else
  match s.state.bind (fun e => e.onProbeAcked pn) with
  | some (e', newMtu) =>
    ({ s with currentMtu := newMtu, state := some e', det := s.det.onProbeAcked pn len }, .bool true)
  | none => ({ s with det := s.det.onNonProbeAcked pn len }, .bool false)

/-- `MtuDiscovery::in_flight_mtu_probe` -/
def inFlightMtuProbe (s : State) : Option Nat :=
  match s.state with
  | some { phase := .searching st, .. } => st.inFlightProbe
  | _ => none

/-- `MtuDiscovery::on_probe_lost` -/
def onProbeLost (s : State) : State := { s with state := s.state.map Enabled.onProbeLost }

/-- `MtuDiscovery::on_non_probe_lost` -/
def onNonProbeLost (s : State) (pn len : Nat) : State × Out :=
  match s.det.onNonProbeLost pn len with
  | none => (s, .panic)
  | some d => ({ s with det := d }, .unit)

/-- `MtuDiscovery::black_hole_detected` -/
def blackHoleDetected (s : State) (now : Nat) : State × Out :=
  match s.det.blackHoleDetected with
  | (d, false) => ({ s with det := d }, .bool false)
  | (d, true) =>
    ({ s with currentMtu := Gen.mtudBlackHoleMtu s.currentMtu d.minMtu,
              state := s.state.map (fun e => e.onBlackHoleDetected now), det := d }, .bool true)

/-! ### Operations on an existing `MtuDiscovery` (what `Connection` / `PathData` call) -/

inductive Op where
  | poll (now nextPn : Nat)
  | acked (isData : Bool) (pn len : Nat)
  | probeLost
  | nonProbeLost (pn len : Nat)
  | blackHole (now : Nat)
  | peerMax (v : Nat)
  | reset (currentMtu minMtu : Nat)
deriving Repr, DecidableEq

def step (s : State) : Op → State × Out
  | .poll now pn => pollTransmit s now pn
  | .acked d pn len => onAcked s d pn len
  | .probeLost => (onProbeLost s, .unit)
  | .nonProbeLost pn len => onNonProbeLost s pn len
  | .blackHole now => blackHoleDetected s now
  | .peerMax v => onPeerMax s v
  | .reset c m => (reset s c m, .unit)

end QM.Mtud
