import QuinnModel.Gen.C12
/-
Skeleton of the congestion gate of `Connection::poll_transmit` (quinn-proto/src/connection/mod.rs):

    if ack_eliciting && self.spaces[space_id].loss_probes == 0 {
        let bytes_to_send = segment_size as u64 + untracked_bytes;        // untracked_bytes <= segment_size
        if self.path.in_flight.bytes + bytes_to_send >= self.path.congestion.window() { … continue }

The test itself (`Gen.congestionBlocked`) is generated from the source on every run.
-/
namespace QM.Gate

/-- may the next ack-eliciting, non-probe datagram be started? -/
def admitted (inFlight bytesToSend window : Nat) : Bool := !Gen.congestionBlocked inFlight bytesToSend window

/-- the gate decision for one datagram: `exempt` = not ack-eliciting, or a loss probe is pending
    (`loss_probes != 0`); MTU probes, path-validation and closing packets take other code paths -/
def mayStart (exempt : Bool) (inFlight bytesToSend window : Nat) : Bool :=
  exempt || admitted inFlight bytesToSend window

end QM.Gate
