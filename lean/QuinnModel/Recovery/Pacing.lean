import QuinnModel.Gen.Conn
/-!
The tail of `Pacer::delay` (quinn-proto/src/connection/pacing.rs): once the tokens do not cover the bytes to send,
the pacer computes how long the missing tokens take to accrue and asks to be called again then.

    let unscaled_delay = smoothed_rtt.checked_mul((bytes_to_send.max(self.capacity) - self.tokens) as _)
        .unwrap_or(Duration::MAX) / window;
    let delay = (unscaled_delay / 5) * 4;
    if delay.is_zero() { return None; }
    Some(now + delay)

Durations are nanoseconds (`Nat`); `Duration / u32` and `Duration * u32` are exact integer operations on nanoseconds
(floor division).  The statement shape is pinned by the T1 anchor `Gen.pacingTailShapeChecked`.
-/
namespace QM.Pacing

/-- `(unscaled_delay / 5) * 4` with `unscaled_delay = rtt * deficit / window` (ns); `none` models `Duration::MAX`
    saturation of `checked_mul`, which is far from zero -/
def delayNs (rtt deficit window : Nat) : Nat := ((rtt * deficit) / window / 5) * 4

/-- what the tail returns: `none` (send now) or the instant to be called again -/
def tail (now rtt deficit window : Nat) : Option Nat :=
  let _ := Gen.pacingTailShapeChecked
  let d := delayNs rtt deficit window
  if d = 0 then none else some (now + d)

/-- the tail as it was before the repair (kept to state what the repair removed) -/
def tailOld (now rtt deficit window : Nat) : Option Nat := some (now + delayNs rtt deficit window)

end QM.Pacing
