import QuinnModel.Util
import QuinnModel.Gen.C12
/-
Models of the built-in congestion controllers behind `congestion::Controller`:
quinn-proto/src/congestion/{new_reno.rs,cubic.rs,bbr/mod.rs}.

NewReno is modelled exactly (its one float operation, `(window as f32 * 0.5) as u64`, is exact integer
arithmetic: round-to-nearest-even to 24 bits, then halve).  For Cubic and BBR every float-derived quantity is
an explicit *observed input* of the step (`CubicObs`, `BbrObs`); only the integer skeleton around it is
modelled (clamps, floors, recovery / ssthresh bookkeeping).  Times are nanoseconds.
A `+=`/`-=` that overflows u64 in a debug build is the outcome `panic`; the state returned next to it is the
state at that moment.
-/
namespace QM.Controllers

def U64 : Nat := 2^64
def U64MAX : Nat := 2^64 - 1

def satAdd (a b : Nat) : Nat := if a + b > U64MAX then U64MAX else a + b

/-! ### NewReno -/

structure Reno where
  mtu : Nat
  window : Nat
  ssthresh : Nat := U64MAX
  rst : Nat := 0              -- recovery_start_time
  bytesAcked : Nat := 0
deriving Repr, DecidableEq

/-- `NewReno::new` with a configured `initial_window` (window expression generated from the source) -/
def Reno.newWith (initialWindow mtu : Nat) : Reno := { mtu := mtu, window := Gen.newRenoInitialWindow initialWindow mtu }

def Reno.new (mtu : Nat) : Reno := Reno.newWith Gen.newRenoDefaultInitialWindow mtu

def Reno.minimumWindow (c : Reno) : Nat := Gen.newRenoMinWindowFactor * c.mtu

/-- `x as f32` for a u64, as the exact integer value of the nearest (ties-to-even) binary32 -/
def f32OfU64 (w : Nat) : Nat :=
  if w < 2^24 then w else
  let e := Nat.log2 w + 1 - 24
  let q := w >>> e
  let rem := w % 2^e
  let half := 2^(e - 1)
  let up := if rem > half ∨ (rem = half ∧ q % 2 = 1) then 1 else 0
  (q + up) * 2^e

/-- `(window as f32 * loss_reduction_factor) as u64` with the default factor 0.5 -/
def Reno.reduced (w : Nat) : Nat := f32OfU64 w / Gen.newRenoLossDivisor

/-- `NewReno::on_ack`; `true` = panicked -/
def Reno.onAck (c : Reno) (sent bytes : Nat) (appLimited : Bool) : Reno × Bool :=
  if appLimited || decide (sent ≤ c.rst) then (c, false) else
  if c.window < c.ssthresh then
    if c.window + bytes ≥ U64 then (c, true) else          -- self.window += bytes
    let c1 := { c with window := c.window + bytes }
    if c1.window ≥ c1.ssthresh then ({ c1 with bytesAcked := c1.window - c1.ssthresh }, false)
    else (c1, false)
  else
    if c.bytesAcked + bytes ≥ U64 then (c, true) else      -- self.bytes_acked += bytes
    let c1 := { c with bytesAcked := c.bytesAcked + bytes }
    if c1.bytesAcked ≥ c1.window then
      let c2 := { c1 with bytesAcked := c1.bytesAcked - c1.window }
      if c2.window + c2.mtu ≥ U64 then (c2, true)          -- self.window += self.current_mtu
      else ({ c2 with window := c2.window + c2.mtu }, false)
    else (c1, false)

/-- `NewReno::on_congestion_event` -/
def Reno.onCongestionEvent (c : Reno) (now sent : Nat) (persistent : Bool) : Reno :=
  if sent ≤ c.rst then c else
  let c1 := { c with rst := now, window := Reno.reduced c.window }
  let c2 := { c1 with window := Nat.max c1.window c1.minimumWindow }
  let c3 := { c2 with ssthresh := c2.window }
  if persistent then { c3 with window := c3.minimumWindow } else c3

/-- `NewReno::on_mtu_update` (second statement generated from the source) -/
def Reno.onMtuUpdate (c : Reno) (mtu : Nat) : Reno :=
  let c1 := { c with mtu := mtu }
  { c1 with window := Gen.newRenoMtuWindow c1.window c1.minimumWindow }

/-! ### Cubic -/

structure CubicCore where
  window : Nat
  ssthresh : Nat := U64MAX
  cwndInc : Nat := 0
  rst : Option Nat := none      -- recovery_start_time
deriving Repr, DecidableEq

structure Cubic where
  mtu : Nat
  st : CubicCore
  pre : Option CubicCore := none     -- pre_congestion_state
deriving Repr, DecidableEq

/-- `Cubic::new` with a configured `initial_window` (window expression generated from the source) -/
def Cubic.newWith (initialWindow mtu : Nat) : Cubic :=
  { mtu := mtu, st := { window := Gen.cubicInitialWindow initialWindow mtu } }

def Cubic.new (mtu : Nat) : Cubic := Cubic.newWith Gen.cubicDefaultInitialWindow mtu

def Cubic.minimumWindow (c : Cubic) : Nat := Gen.cubicMinWindowFactor * c.mtu

/-- float-derived values of one `Cubic::on_ack` in congestion avoidance -/
structure CubicAckObs where
  lt : Bool         -- w_cubic < w_est
  wEst : Nat        -- w_est as u64
  wCubic : Nat      -- w_cubic as u64
  inc : Option Nat  -- cubic_inc as u64 (computed only in the concave/convex branch)

def inRecovery (rst : Option Nat) (sent : Nat) : Bool :=
  match rst with
  | some t => decide (sent ≤ t)
  | none => false

inductive Out where
  | ok | panic | badObs
deriving Repr, DecidableEq

/-- the new `cubic_cwnd` of the congestion-avoidance branch -/
def cubicCwnd (cw : Nat) (o : CubicAckObs) : Option Nat :=
  if o.lt then some (Nat.max cw o.wEst)                    -- TCP friendly region
  else if cw < o.wCubic then                               -- concave / convex region
    match o.inc with
    | some i => some (satAdd cw i)
    | none => none
  else some cw

/-- congestion-avoidance branch of `Cubic::on_ack`, after `recovery_start_time` was initialised -/
def Cubic.caUpdate (c1 : Cubic) (obs : Option CubicAckObs) : Cubic × Out :=
  match obs with
  | none => (c1, .badObs)
  | some o =>
    match cubicCwnd c1.st.window o with
    | none => (c1, .badObs)
    | some cc =>
      let c2 : Cubic := { c1 with st := { c1.st with cwndInc := satAdd c1.st.cwndInc (cc - c1.st.window) } }
      if c2.st.cwndInc ≥ c2.mtu then
        if c2.st.window + c2.mtu ≥ U64 then (c2, .panic)             -- self.state.window += self.current_mtu
        else ({ c2 with st := { c2.st with window := c2.st.window + c2.mtu, cwndInc := c2.st.cwndInc - c2.mtu } }, .ok)
      else (c2, .ok)

/-- `Cubic::on_ack` -/
def Cubic.onAck (c : Cubic) (now sent bytes : Nat) (appLimited : Bool) (obs : Option CubicAckObs) : Cubic × Out :=
  if appLimited || inRecovery c.st.rst sent then (c, .ok) else
  if c.st.window < c.st.ssthresh then
    if c.st.window + bytes ≥ U64 then (c, .panic)                      -- self.state.window += bytes
    else ({ c with st := { c.st with window := c.st.window + bytes } }, .ok)
  else
    let c1 : Cubic := match c.st.rst with
      | some _ => c
      | none => { c with st := { c.st with rst := some now } }
    c1.caUpdate obs

/-- float-derived values of one `Cubic::on_congestion_event` -/
structure CubicCongObs where
  red : Nat           -- (window * BETA_CUBIC) as u64
  cinc : Nat          -- (cwnd_inc as f64 * BETA_CUBIC) as u64
  red2 : Option Nat   -- (new window as f64 * BETA_CUBIC) as u64, persistent congestion only

/-- `Cubic::on_congestion_event` -/
def Cubic.onCongestionEvent (c : Cubic) (now sent : Nat) (persistent ecn : Bool) (obs : Option CubicCongObs) :
    Cubic × Out :=
  if inRecovery c.st.rst sent then (c, .ok) else
  match obs with
  | none => (c, .badObs)
  | some o =>
    let c1 : Cubic := if !ecn then { c with pre := some c.st } else c
    let ss := Nat.max o.red c1.minimumWindow
    let c2 : Cubic := { c1 with st := { c1.st with rst := some now, ssthresh := ss, window := ss, cwndInc := o.cinc } }
    if persistent then
      match o.red2 with
      | none => (c2, .badObs)
      | some r2 =>
        ({ c2 with st := { c2.st with rst := none, ssthresh := Nat.max r2 c2.minimumWindow, cwndInc := 0,
                                       window := c2.minimumWindow } }, .ok)
    else (c2, .ok)

/-- `Cubic::on_spurious_congestion_event` -/
def Cubic.onSpurious (c : Cubic) : Cubic :=
  match c.pre with
  | some prior =>
    let c1 := { c with pre := none }
    if c1.st.window < prior.window then { c1 with st := prior } else c1
  | none => c

/-- `Cubic::on_mtu_update` -/
def Cubic.onMtuUpdate (c : Cubic) (mtu : Nat) : Cubic :=
  let c1 := { c with mtu := mtu }
  { c1 with st := { c1.st with window := Gen.cubicMtuWindow c1.st.window c1.minimumWindow } }

/-! ### BBR: the window-relevant skeleton -/

inductive Mode where
  | startup | drain | probeBw | probeRtt
deriving Repr, DecidableEq

inductive Recovery where
  | notInRecovery | conservation | growth
deriving Repr, DecidableEq

def Recovery.inRecovery : Recovery → Bool
  | .notInRecovery => false
  | _ => true

structure Bbr where
  mtu : Nat
  initialWindow : Nat := Gen.bbrDefaultInitialWindow       -- config.initial_window
  mode : Mode := .startup
  full : Bool := false                 -- is_at_full_bandwidth
  recovery : Recovery := .notInRecovery
  recoveryWindow : Nat := 0
  cwnd : Nat
  minCwnd : Nat
  initCwnd : Nat
  lostBytes : Nat := 0                 -- loss_state.lost_bytes
  maxAcked : Nat := 0
  maxSent : Nat := 0
  endRecoveryAt : Nat := 0
  roundEnd : Nat := 0                  -- current_round_trip_end_packet_number
  roundCount : Nat := 0
  ackedBytes : Nat := 0
deriving Repr, DecidableEq

def calculateMinWindow (mtu : Nat) : Nat := Gen.bbrMinWindowFactor * mtu

/-- `Bbr::new` with a configured `initial_window` (`cwnd`, `init_cwnd`, `min_cwnd` generated from the source) -/
def Bbr.newWith (initialWindow mtu : Nat) : Bbr :=
  { mtu := mtu, initialWindow := initialWindow, cwnd := Gen.bbrInitialCwnd initialWindow mtu,
    minCwnd := Gen.bbrInitialMinCwnd initialWindow mtu, initCwnd := Gen.bbrInitialInitCwnd initialWindow mtu }

def Bbr.new (mtu : Nat) : Bbr := Bbr.newWith Gen.bbrDefaultInitialWindow mtu

/-- `Bbr::on_sent` (bandwidth sampler opaque) -/
def Bbr.onSent (c : Bbr) (pn : Nat) : Bbr := { c with maxSent := pn }

/-- `Bbr::on_ack` (bandwidth sampler and min_rtt opaque) -/
def Bbr.onAck (c : Bbr) (bytes : Nat) : Bbr × Out :=
  if c.ackedBytes + bytes ≥ U64 then (c, .panic) else ({ c with ackedBytes := c.ackedBytes + bytes }, .ok)

/-- `Bbr::on_congestion_event` -/
def Bbr.onCongestionEvent (c : Bbr) (lost : Nat) : Bbr × Out :=
  if c.lostBytes + lost ≥ U64 then (c, .panic) else ({ c with lostBytes := c.lostBytes + lost }, .ok)

/-- observed values of one `Bbr::on_end_acks`: the bandwidth sampler's byte count, the state of the mode
    machine after it ran, and the float-derived target window of `calculate_cwnd` -/
structure BbrEndObs where
  bytesAcked : Nat
  mode : Mode
  full : Bool
  tw : Option Nat        -- target_window (absent in PROBE_RTT)
  gainLt : Option Bool   -- cwnd_gain < target_window as f32

/-- `Bbr::update_recovery_state` -/
def Bbr.updateRecoveryState (c : Bbr) (isRoundStart : Bool) : Bbr :=
  let c1 := if c.lostBytes ≠ 0 then { c with endRecoveryAt := c.maxSent } else c
  match c1.recovery with
  | .notInRecovery =>
    if c1.lostBytes ≠ 0 then { c1 with recovery := .conservation, recoveryWindow := 0, roundEnd := c1.maxSent }
    else c1
  | _ =>
    let c2 := if c1.recovery = .conservation ∧ isRoundStart then { c1 with recovery := .growth } else c1
    if c2.lostBytes = 0 ∧ c2.maxAcked > c2.endRecoveryAt then { c2 with recovery := .notInRecovery } else c2

/-- `Bbr::calculate_cwnd` given the observed target window -/
def Bbr.calculateCwnd (c : Bbr) (bytesAcked : Nat) (tw : Option Nat) (gainLt : Option Bool) : Bbr × Out :=
  if c.mode = .probeRtt then (c, .ok) else
  match tw, gainLt with
  | some tw, some glt =>
    let r : Option Nat :=
      if c.full then
        if c.cwnd + bytesAcked ≥ U64 then none else some (Nat.min tw (c.cwnd + bytesAcked))
      else if glt || decide (c.ackedBytes < c.initCwnd) then
        if c.cwnd + bytesAcked ≥ U64 then none else some (c.cwnd + bytesAcked)
      else some c.cwnd
    match r with
    | none => (c, .panic)
    | some w => ({ c with cwnd := if w < c.minCwnd then c.minCwnd else w }, .ok)
  | _, _ => (c, .badObs)

/-- `Bbr::calculate_recovery_window` -/
def Bbr.calculateRecoveryWindow (c : Bbr) (bytesAcked bytesLost inFlight : Nat) : Bbr × Out :=
  if !c.recovery.inRecovery then (c, .ok) else
  if inFlight + bytesAcked ≥ U64 then (c, .panic) else
  if c.recoveryWindow = 0 then
    ({ c with recoveryWindow := Nat.max c.minCwnd (inFlight + bytesAcked) }, .ok)
  else
    let rw1 := if c.recoveryWindow ≥ bytesLost then c.recoveryWindow - bytesLost else c.mtu
    if c.recovery = .growth ∧ rw1 + bytesAcked ≥ U64 then (c, .panic) else
    let rw2 := if c.recovery = .growth then rw1 + bytesAcked else rw1
    ({ c with recoveryWindow := Nat.max (Nat.max rw2 (inFlight + bytesAcked)) c.minCwnd }, .ok)

/-- head of `Bbr::on_end_acks`: largest acked, round detection; returns `is_round_start` -/
def Bbr.startRound (c : Bbr) (largest : Option Nat) (bytesAcked : Nat) : Bbr × Bool :=
  let c1 := match largest with
    | some l => { c with maxAcked := l }
    | none => c
  let isRoundStart := decide (bytesAcked > 0) && decide (c1.maxAcked > c1.roundEnd)
  (if isRoundStart then { c1 with roundEnd := c1.maxSent, roundCount := c1.roundCount + 1 } else c1, isRoundStart)

/-- tail of `Bbr::on_end_acks`: calculate_cwnd, calculate_recovery_window, loss_state.reset() -/
def Bbr.recalc (c4 : Bbr) (bytesAcked inFlight : Nat) (tw : Option Nat) (gainLt : Option Bool) : Bbr × Out :=
  match c4.calculateCwnd bytesAcked tw gainLt with
  | (c5, .ok) =>
    match c5.calculateRecoveryWindow bytesAcked c5.lostBytes inFlight with
    | (c6, .ok) => ({ c6 with lostBytes := 0 }, .ok)
    | (c6, out) => (c6, out)
  | (c5, out) => (c5, out)

/-- `Bbr::on_end_acks` -/
def Bbr.onEndAcks (c : Bbr) (inFlight : Nat) (largest : Option Nat) (o : BbrEndObs) : Bbr × Out :=
  let c2 := (c.startRound largest o.bytesAcked).1
  let c3 := c2.updateRecoveryState (c.startRound largest o.bytesAcked).2
  -- update_gain_cycle_phase / check_if_full_bw_reached / maybe_exit_startup_or_drain /
  -- maybe_enter_or_exit_probe_rtt / calculate_pacing_rate: observed
  Bbr.recalc { c3 with mode := o.mode, full := o.full } o.bytesAcked inFlight o.tw o.gainLt

/-- `Bbr::on_mtu_update` (new `init_cwnd`, `cwnd` and `recovery_window` generated from the source) -/
def Bbr.onMtuUpdate (c : Bbr) (mtu : Nat) : Bbr :=
  let c1 := { c with mtu := mtu, minCwnd := calculateMinWindow mtu }
  let c2 := { c1 with initCwnd := Gen.bbrMtuInitCwnd c1.initialWindow c1.minCwnd }
  let c3 := { c2 with cwnd := Gen.bbrMtuCwnd c2.cwnd c2.minCwnd }
  { c3 with recoveryWindow := Gen.bbrMtuRecoveryWindow c3.recoveryWindow c3.minCwnd }

/-- `Bbr::window`; `tc` = the float-derived `cwnd` of `get_target_cwnd(0.75)` (needed in PROBE_RTT only) -/
def Bbr.window (c : Bbr) (tc : Option Nat) : Option Nat :=
  if c.mode = .probeRtt then
    match tc with
    | some t => some (if t = 0 then c.initCwnd else Nat.max t c.minCwnd)
    | none => none
  else if c.recovery.inRecovery ∧ c.mode ≠ .startup then some (Nat.min c.cwnd c.recoveryWindow)
  else some c.cwnd

/-! ### one controller behind the trait -/

inductive Ctl where
  | reno (c : Reno)
  | cubic (c : Cubic)
  | bbr (c : Bbr)
deriving Repr, DecidableEq

end QM.Controllers
