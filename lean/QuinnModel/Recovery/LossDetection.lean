import QuinnModel.Gen.C12
/-
The loss decision of `Connection::detect_lost_packets` (quinn-proto/src/connection/mod.rs): which tracked
packets below the largest acknowledged one are declared lost (packet threshold, time threshold).  The
expressions themselves (`packet_too_old`, the `||` decision, the candidate range, `loss_delay`) are generated
from the source; `rtt.mul_f32(time_threshold)` is float-derived and therefore an opaque input (`scaledRtt`).
Persistent congestion, MTU-probe special casing and `loss_time` are not modelled.
-/
namespace QM.LossDetection

/-- `cmp::max(rtt.mul_f32(self.config.time_threshold), TIMER_GRANULARITY)` in ns -/
def lossDelay (scaledRtt : Nat) : Nat := Gen.lossDelayOf scaledRtt Gen.c12TimerGranularityNs

/-- is the tracked packet `p = (number, time_sent)` declared lost? -/
def declaredLost (now largestAcked packetThreshold delay : Nat) (p : Nat × Nat) : Bool :=
  Gen.lossCandidate p.1 largestAcked &&
    Gen.lossDecision (Gen.packetTooOld now p.2 delay) largestAcked p.1 packetThreshold

/-- `lost_packets` of one `detect_lost_packets` call -/
def detect (tracked : List (Nat × Nat)) (now largestAcked packetThreshold scaledRtt : Nat) : List Nat :=
  (tracked.filter (declaredLost now largestAcked packetThreshold (lossDelay scaledRtt))).map (·.1)

/-! ### sender on an abstract loss-free in-order path -/

/-- what the sender sees: it sends a packet; an ACK frame arrives whose largest acknowledged is `k` — on a
    loss-free in-order path the peer holds a prefix of what was sent, so the frame acknowledges every packet
    `≤ k` that is still tracked; the loss timer fires.  `scaledRtt` = the float-derived `rtt * time_threshold`
    at that moment (arbitrary). -/
inductive Ev where
  | send (t pn : Nat)
  | ack (t k scaledRtt : Nat)
  | timer (t scaledRtt : Nat)

structure S where
  tracked : List (Nat × Nat) := []       -- (packet number, time sent)
  largest : Option Nat := none           -- largest_acked_packet
  next : Nat := 0                        -- next_packet_number
  lost : List Nat := []                  -- everything ever declared lost

def step (thr : Nat) (s : S) : Ev → S
  | .send t pn => { s with tracked := s.tracked ++ [(pn, t)], next := pn + 1 }
  | .ack t k scaledRtt =>
    let largest := match s.largest with
      | some l => Nat.max l k
      | none => k
    let tracked := s.tracked.filter (fun p => decide (p.1 > k))       -- newly acked packets leave first
    { s with largest := some largest, tracked := tracked,
             lost := s.lost ++ detect tracked t largest thr scaledRtt }
  | .timer t scaledRtt =>
    match s.largest with
    | none => s
    | some l => { s with lost := s.lost ++ detect s.tracked t l thr scaledRtt }

def run (thr : Nat) (s : S) (evs : List Ev) : S := evs.foldl (step thr) s

/-- the sender's own guarantees: packet numbers increase; an ACK for an unsent packet is a protocol
    violation that closes the connection (`on_ack_received`: "unsent packet acked") -/
def wf (s : S) : Ev → Prop
  | .send _ pn => s.next ≤ pn
  | .ack _ k _ => k < s.next
  | .timer _ _ => True

def WF (thr : Nat) : S → List Ev → Prop
  | _, [] => True
  | s, e :: t => wf s e ∧ WF thr (step thr s e) t

end QM.LossDetection
