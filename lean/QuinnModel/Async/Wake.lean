import QuinnModel.Gen.C18
/-
The locked wake protocol of the `quinn` crate (C18), as an abstract state machine.   (model; core Lean only)

Rust (quinn/src): `connection.rs` `State::{wake, terminate, close}`, `forward_app_events`, the accept / open /
datagram / closed futures; `recv_stream.rs` `poll_read_generic`, `Drop`; `send_stream.rs` `execute_poll`,
`stopped`, `Drop`; `endpoint.rs` `Accept`, `wait_idle`, `handle_events`.

All shared state sits behind ONE mutex, so every step below is atomic:
* an application poll of task `t` on condition `c` = lock; check `c` (or the connection error); if it fails,
  register `t`'s waker for `c` (map insert into `blocked_readers` / `blocked_writers`, or a tokio `Notified`
  created/polled while the lock is held) and return Pending;
* a driver step = lock; apply protocol events (conditions in `up` become true, those in `down` false); then wake
  AND REMOVE every waker registered for each condition that became true (`wake_stream`, `notify_waiters`);
* `terminate` (connection lost / closed) sets the error, wakes and removes every registration;
* dropping a pending future removes its `Notified` registration; a registration in a per-stream waker map
  (`slot` conditions: `blocked_readers`, `blocked_writers`) survives the future and is removed when the stream
  handle is dropped (`Drop for RecvStream/SendStream`) or by the next wake of that stream.
Conditions and tasks are natural numbers; a task awaits one operation at a time. A condition may become false
again (another reader consumed the data, credit was used up).

Tie to the code: the shape anchors of `Gen/C18.lean` (regenerated from the source text on every run) and the
`asyncsim` harness; there is no line-by-line differential execution of this model.
-/
namespace QM.Wake

abbrev Task := Nat
abbrev Cond := Nat

/-- the shape anchors this model relies on (a missing anchor makes `Gen/C18.lean`, hence this file, fail to build) -/
def anchors : List Nat :=
  [Gen.c18ReadRegistersUnderLock, Gen.c18ResetRegistersUnderLock, Gen.c18WriteRegistersUnderLock,
   Gen.c18StoppedRegistersUnderLock, Gen.c18OpenRegistersUnderLock, Gen.c18AcceptRegistersUnderLock,
   Gen.c18ReadDatagramRegistersUnderLock, Gen.c18SendDatagramRegistersUnderLock, Gen.c18ClosedRegistersUnderLock,
   Gen.c18ConfirmedRegistersUnderLock, Gen.c18EndpointAcceptRegistersUnderLock, Gen.c18WaitIdleRegistersUnderLock,
   Gen.c18WakeHelpersRemove, Gen.c18ForwardAppEventsWakes, Gen.c18TerminateWakesAll,
   Gen.c18CloseTerminatesAndWakesDriver, Gen.c18DriverRegistersItself, Gen.c18EndpointDriverWakes,
   Gen.c18RecvDropRemovesRegistration, Gen.c18SendDropRemovesRegistration, Gen.c18LastHandleCloses]

structure St where
  /-- which conditions hold (data readable, credit available, stream stopped, …) -/
  holds : Cond → Bool := fun _ => false
  /-- connection error set (`State::error`): every poll completes -/
  dead : Bool := false
  /-- registered wakers: (condition, task) -/
  regs : List (Cond × Task) := []
  /-- the task's last poll returned Pending on this condition and its future is still alive -/
  waiting : Task → Option Cond := fun _ => none
  /-- the task's waker was invoked since its last poll -/
  woken : Task → Bool := fun _ => false
  /-- slot registrations left behind by a dropped future whose stream handle is still alive -/
  left : Task → Cond → Bool := fun _ _ => false

inductive Ev where
  /-- task `t` polls an operation on condition `c`; a successful poll with `consume` uses the condition up -/
  | poll (t : Task) (c : Cond) (consume : Bool)
  /-- the connection / endpoint driver applies protocol events -/
  | drive (up down : List Cond)
  /-- task `t` drops its pending future -/
  | dropFut (t : Task)
  /-- task `t` drops the stream handle of slot condition `c` -/
  | dropHandle (t : Task) (c : Cond)
  /-- `State::terminate` -/
  | terminate

def upd {α : Type} (f : Nat → α) (k : Nat) (v : α) : Nat → α := fun x => if x = k then v else f x

def St.reg (s : St) (c : Cond) (t : Task) : Bool := s.regs.contains (c, t)

/-- `wake_stream` / `notify_waiters` for one condition: wake and remove every registered waker -/
def St.wakeCond (s : St) (c : Cond) : St :=
  { s with
    woken := fun t => s.woken t || s.reg c t
    regs := s.regs.filter (fun r => r.1 != c)
    left := fun t c' => if c' = c then false else s.left t c' }

def St.wakeConds (s : St) : List Cond → St
  | [] => s
  | c :: cs => (s.wakeCond c).wakeConds cs

/-- the future of `t` goes away: a `Notified` deregisters itself, a waker-map slot stays behind -/
def St.dropFut (slot : Cond → Bool) (s : St) (t : Task) : St :=
  match s.waiting t with
  | none => s
  | some c =>
    if slot c then
      { s with waiting := upd s.waiting t none, left := fun t' c' => if t' = t ∧ c' = c then s.reg c t else s.left t' c' }
    else
      { s with waiting := upd s.waiting t none, regs := s.regs.filter (fun r => r != (c, t)) }

/-- one atomic application poll; returns whether it completed -/
def St.poll (slot : Cond → Bool) (s0 : St) (t : Task) (c : Cond) (consume : Bool) : St × Bool :=
  -- polling a different operation means the previous future is gone
  let s := if s0.waiting t = some c then s0 else s0.dropFut slot t
  if s.dead || s.holds c then
    ({ s with waiting := upd s.waiting t none, woken := upd s.woken t false,
              holds := if consume && !s.dead then upd s.holds c false else s.holds }, true)
  else
    ({ s with regs := if s.reg c t then s.regs else (c, t) :: s.regs,
              left := fun t' c' => if t' = t ∧ c' = c then false else s.left t' c',
              waiting := upd s.waiting t (some c), woken := upd s.woken t false }, false)

def St.drive (s : St) (up down : List Cond) : St :=
  let s1 := { s with holds := fun c => if up.contains c then true else if down.contains c then false else s.holds c }
  s1.wakeConds up

def St.dropHandle (s : St) (t : Task) (c : Cond) : St :=
  { s with regs := s.regs.filter (fun r => r != (c, t)),
           left := fun t' c' => if t' = t ∧ c' = c then false else s.left t' c',
           waiting := if s.waiting t = some c then upd s.waiting t none else s.waiting }

def St.terminate (s : St) : St :=
  { s with dead := true, woken := fun t => s.woken t || s.regs.any (fun r => r.2 == t), regs := [],
           left := fun _ _ => false }

def step (slot : Cond → Bool) (s : St) : Ev → St
  | .poll t c consume => (s.poll slot t c consume).1
  | .drive up down => s.drive up down
  | .dropFut t => s.dropFut slot t
  | .dropHandle t c => s.dropHandle t c
  | .terminate => s.terminate

def run (slot : Cond → Bool) (s : St) : List Ev → St
  | [] => s
  | e :: es => run slot (step slot s e) es

def init : St := {}

end QM.Wake
