import QuinnModel.Gen.C18
/-
The locked wake protocol of the `quinn` crate (C18), as an abstract state machine.   (model; core Lean only)

Rust (quinn/src): `connection.rs` `State::{wake, terminate, close}`, `forward_app_events`, the accept / open /
datagram / closed futures; `recv_stream.rs` `poll_read_generic`, `Drop`; `send_stream.rs` `execute_poll`,
`stopped`, `Drop`; `endpoint.rs` `Accept`, `wait_idle`, `handle_events`.

All shared state sits behind ONE mutex, so every step below is atomic:
* an application poll of task `t` on condition `c` = lock; check `c` (or the connection error); if it fails,
  register `t`'s waker for `c` (map insert into `blocked_readers` / `blocked_writers`, or a tokio `Notified`
  created/polled while the lock is held) and return Pending;
* a driver step = lock; apply protocol events (conditions in `up` become true, those in `down` false); then wake
  AND REMOVE every waker registered for each condition that became true (`wake_stream`, `notify_waiters`);
* `terminate` (connection lost / closed) sets the error, wakes and removes every registration;
* dropping a pending future removes its `Notified` registration; a registration in a per-stream waker map
  (`slot` conditions: `blocked_readers`, `blocked_writers`) survives the future and is removed when the stream
  handle is dropped (`Drop for RecvStream/SendStream`) or by the next wake of that stream.
Conditions and tasks are natural numbers; a task awaits one operation at a time. A condition may become false
again (another reader consumed the data, credit was used up).

Three places where the wake-up is NOT made by the driver applying a protocol event — each is modelled with the
behaviour READ FROM THE SOURCE (a 0/1 constant of `Gen/C18.lean`), so that the theorems over all interleavings
only go through for a source that wakes there:
* `appSet c`: an APPLICATION call makes a condition hold: `SendStream::reset` completes the `stopped()` futures of
  its stream (the peer can no longer stop it or read it to completion; quinn-proto reports nothing when the
  RESET_STREAM is acknowledged). `Gen.c18ResetNotifiesStopped`: `reset` sets the flag the `stopped` futures test
  under the lock AND notifies-and-removes the stream's `stopped` entry;
* endpoint scope (`EpEv`, conditions `incoming` = `Endpoint::accept`, `idle` = `Endpoint::wait_idle`): the
  endpoint driver future ends (fatal socket error) and `Drop for EndpointDriver` sets `driver_lost` and clears the
  connection table — from then on every endpoint-level poll completes — and notifies the Notify objects
  `Gen.c18EndpointDriverDropNotifies{Incoming,Idle}`;
* `dropRejected c`: a handle of a REJECTED 0-RTT stream is dropped; its stream id (= waker-map slot `c`) is in use
  again by a stream opened after the handshake, whose task may be registered there. `Gen.c18RejectedDropKeepsWaker`:
  `Drop for SendStream` / `Drop for RecvStream` test the rejection BEFORE touching `blocked_writers/readers`.

Tie to the code: the shape anchors of `Gen/C18.lean` (regenerated from the source text on every run) and the
`asyncsim` harness; there is no line-by-line differential execution of this model.
-/
namespace QM.Wake

abbrev Task := Nat
abbrev Cond := Nat

/-- the shape anchors this model relies on (a missing anchor makes `Gen/C18.lean`, hence this file, fail to build) -/
def anchors : List Nat :=
  [Gen.c18ReadRegistersUnderLock, Gen.c18ResetRegistersUnderLock, Gen.c18WriteRegistersUnderLock,
   Gen.c18StoppedRegistersUnderLock, Gen.c18OpenRegistersUnderLock, Gen.c18AcceptRegistersUnderLock,
   Gen.c18ReadDatagramRegistersUnderLock, Gen.c18SendDatagramRegistersUnderLock, Gen.c18ClosedRegistersUnderLock,
   Gen.c18ConfirmedRegistersUnderLock, Gen.c18EndpointAcceptRegistersUnderLock, Gen.c18WaitIdleRegistersUnderLock,
   Gen.c18WakeHelpersRemove, Gen.c18ForwardAppEventsWakes, Gen.c18TerminateWakesAll,
   Gen.c18CloseTerminatesAndWakesDriver, Gen.c18DriverRegistersItself, Gen.c18EndpointDriverWakes,
   Gen.c18RecvDropRemovesRegistration, Gen.c18SendDropRemovesRegistration, Gen.c18LastHandleCloses,
   Gen.c18ConnDriverIoErrorTerminates, Gen.c18RejectedHandleOpsReport]

structure St where
  /-- which conditions hold (data readable, credit available, stream stopped, …) -/
  holds : Cond → Bool := fun _ => false
  /-- connection error set (`State::error`): every poll completes -/
  dead : Bool := false
  /-- registered wakers: (condition, task) -/
  regs : List (Cond × Task) := []
  /-- the task's last poll returned Pending on this condition and its future is still alive -/
  waiting : Task → Option Cond := fun _ => none
  /-- the task's waker was invoked since its last poll -/
  woken : Task → Bool := fun _ => false
  /-- slot registrations left behind by a dropped future whose stream handle is still alive -/
  left : Task → Cond → Bool := fun _ _ => false

inductive Ev where
  /-- task `t` polls an operation on condition `c`; a successful poll with `consume` uses the condition up -/
  | poll (t : Task) (c : Cond) (consume : Bool)
  /-- the connection / endpoint driver applies protocol events -/
  | drive (up down : List Cond)
  /-- task `t` drops its pending future -/
  | dropFut (t : Task)
  /-- task `t` drops the stream handle of slot condition `c` -/
  | dropHandle (t : Task) (c : Cond)
  /-- `State::terminate` -/
  | terminate
  /-- an application call (`SendStream::reset`) makes condition `c` (`stopped` of that stream) hold -/
  | appSet (c : Cond)
  /-- the handle of a rejected 0-RTT stream whose id is waker-map slot `c` is dropped -/
  | dropRejected (c : Cond)

def upd {α : Type} (f : Nat → α) (k : Nat) (v : α) : Nat → α := fun x => if x = k then v else f x

def St.reg (s : St) (c : Cond) (t : Task) : Bool := s.regs.contains (c, t)

/-- `wake_stream` / `notify_waiters` for one condition: wake and remove every registered waker -/
def St.wakeCond (s : St) (c : Cond) : St :=
  { s with
    woken := fun t => s.woken t || s.reg c t
    regs := s.regs.filter (fun r => r.1 != c)
    left := fun t c' => if c' = c then false else s.left t c' }

def St.wakeConds (s : St) : List Cond → St
  | [] => s
  | c :: cs => (s.wakeCond c).wakeConds cs

/-- the future of `t` goes away: a `Notified` deregisters itself, a waker-map slot stays behind -/
def St.dropFut (slot : Cond → Bool) (s : St) (t : Task) : St :=
  match s.waiting t with
  | none => s
  | some c =>
    if slot c then
      { s with waiting := upd s.waiting t none, left := fun t' c' => if t' = t ∧ c' = c then s.reg c t else s.left t' c' }
    else
      { s with waiting := upd s.waiting t none, regs := s.regs.filter (fun r => r != (c, t)) }

/-- one atomic application poll; returns whether it completed -/
def St.poll (slot : Cond → Bool) (s0 : St) (t : Task) (c : Cond) (consume : Bool) : St × Bool :=
  -- polling a different operation means the previous future is gone
  let s := if s0.waiting t = some c then s0 else s0.dropFut slot t
  if s.dead || s.holds c then
    ({ s with waiting := upd s.waiting t none, woken := upd s.woken t false,
              holds := if consume && !s.dead then upd s.holds c false else s.holds }, true)
  else
    ({ s with regs := if s.reg c t then s.regs else (c, t) :: s.regs,
              left := fun t' c' => if t' = t ∧ c' = c then false else s.left t' c',
              waiting := upd s.waiting t (some c), woken := upd s.woken t false }, false)

def St.drive (s : St) (up down : List Cond) : St :=
  let s1 := { s with holds := fun c => if up.contains c then true else if down.contains c then false else s.holds c }
  s1.wakeConds up

def St.dropHandle (s : St) (t : Task) (c : Cond) : St :=
  { s with regs := s.regs.filter (fun r => r != (c, t)),
           left := fun t' c' => if t' = t ∧ c' = c then false else s.left t' c',
           waiting := if s.waiting t = some c then upd s.waiting t none else s.waiting }

def St.terminate (s : St) : St :=
  { s with dead := true, woken := fun t => s.woken t || s.regs.any (fun r => r.2 == t), regs := [],
           left := fun _ _ => false }

/-- `SendStream::reset`: the condition holds from now on; the waiters are woken and removed in the same locked
    step iff the source does so -/
def St.appSet (s : St) (c : Cond) : St :=
  if Gen.c18ResetNotifiesStopped = 1 then s.drive [c] [] else { s with holds := upd s.holds c true }

/-- `Drop` of a rejected 0-RTT stream handle: leaves the slot alone iff the source tests the rejection first;
    otherwise it removes whatever waker is registered for that stream id, without waking it -/
def St.dropRejected (s : St) (c : Cond) : St :=
  if Gen.c18RejectedDropKeepsWaker = 1 then s else { s with regs := s.regs.filter (fun r => r.1 != c) }

def step (slot : Cond → Bool) (s : St) : Ev → St
  | .poll t c consume => (s.poll slot t c consume).1
  | .drive up down => s.drive up down
  | .dropFut t => s.dropFut slot t
  | .dropHandle t c => s.dropHandle t c
  | .terminate => s.terminate
  | .appSet c => s.appSet c
  | .dropRejected c => s.dropRejected c

def run (slot : Cond → Bool) (s : St) : List Ev → St
  | [] => s
  | e :: es => run slot (step slot s e) es

def init : St := {}

/-! ### endpoint scope: `Endpoint::accept` / `Endpoint::wait_idle` and the loss of the endpoint driver -/

inductive EpCond where
  /-- `endpoint::Shared::incoming` (`Accept::poll`) -/
  | incoming
  /-- `endpoint::Shared::idle` (`Endpoint::wait_idle`) -/
  | idle
  deriving DecidableEq, Repr

def EpCond.code : EpCond → Cond
  | .incoming => 0
  | .idle => 1

/-- the Notify objects `Drop for EndpointDriver` notifies, as read from the source -/
def epDriverDropNotifies : List Cond :=
  (if Gen.c18EndpointDriverDropNotifiesIncoming = 1 then [EpCond.incoming.code] else []) ++
  (if Gen.c18EndpointDriverDropNotifiesIdle = 1 then [EpCond.idle.code] else [])

/-- the driver is gone: `driver_lost := true` and `senders.clear()` make every later endpoint-level poll complete
    (`dead`); only the waiters of the notified objects are woken (and removed) -/
def St.lose (s : St) (ns : List Cond) : St := { s.wakeConds ns with dead := true }

inductive EpEv where
  | poll (t : Task) (c : EpCond) (consume : Bool)
  /-- the endpoint driver applies events: a connection attempt arrived / the last connection drained / … -/
  | drive (up down : List EpCond)
  | dropFut (t : Task)
  /-- the endpoint driver future ends with an I/O error and is dropped -/
  | driverLost

def noSlot : Cond → Bool := fun _ => false

def epStep (s : St) : EpEv → St
  | .poll t c consume => (s.poll noSlot t c.code consume).1
  | .drive up down => s.drive (up.map EpCond.code) (down.map EpCond.code)
  | .dropFut t => s.dropFut noSlot t
  | .driverLost => s.lose epDriverDropNotifies

def epRun (s : St) : List EpEv → St
  | [] => s
  | e :: es => epRun (epStep s e) es

end QM.Wake
