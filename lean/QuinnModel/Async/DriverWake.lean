import QuinnModel.Gen.C18DrvWake
/-
The DRIVER-wake rule of the `quinn` crate (C18), as a protocol.   (model; core Lean only)

Rust (quinn/src): `connection.rs` `ConnectionDriver::poll`, `State::{drive_transmit, wake, close}`, `send_datagram`,
`SendDatagram::poll`, `set_*`, `poll_accept`; `recv_stream.rs` `stop`, `received_reset`, `poll_read_generic`, `Drop`;
`send_stream.rs` `execute_poll`, `finish`, `reset`, `Drop`.

The async layer never transmits by itself. Frames queued in the protocol state machine (`proto::Connection`) leave
only when the connection driver task runs `poll_transmit`; a driver that has nothing to do stores its waker in
`State::driver` and sleeps. An operation of the PEER that is parked on a condition this side has to announce (a
parked `open_uni` waits for MAX_STREAMS, a parked `read` for STREAM/RESET_STREAM, …) completes "as soon as its
condition holds" (C18) only if every application-side call that queues frames also wakes the driver: among all
interleavings there is the one in which nothing else ever happens on the connection.

* `Op` — the application-side entry points that call into quinn-proto: one per `State::wake()` call site of the
  three files (their number is read from the source, `sites_accounted`), plus the entry points without one.
* `wakes op r u1 u2` — the guard the wake of that site sits under, READ FROM THE SOURCE (Gen/C18DrvWake.lean): a
  function of `r`, the fact about the preceding proto call the site may depend on (returned Ok / Some /
  `ShouldTransmit::should_transmit()`), and of whatever other atoms the source puts in front of the wake.
* `mayQueue op r` — the quinn-proto API contract: can the call have queued frames, given `r`? (`Err(ClosedStream)`
  and `Blocked` change nothing; `Chunks::finalize()` returns `ShouldTransmit`, which IS "frames were queued";
  `received_reset` discards the stream — and frees its stream-count credit — exactly when it returns `Ok(Some(_))`.)
* the state machine: frames pending or not; the driver runnable or asleep; `armed` = the driver left frames behind
  only because the socket / pacer / congestion controller said "wait" and registered for that source's wake-up.
  Events: an application call (any op, any atom values, queueing or not — but only if `mayQueue`), a driver poll
  (only when runnable; outcomes as in `ConnectionDriver::poll`: everything sent and the waker stored; `keep_going`
  — budget spent or a timer fired, frames may remain, the driver wakes itself; blocked — waker left with the
  source), an external wake (timer, datagram, socket writable, endpoint event).
The model is parametric in the wake table `W` so that the theorems can also say what a WRONG table does.
Tie to the code: Gen/C18DrvWake.lean (regenerated on every run) and the per-call / end-to-end driver-wake oracles
of `asyncsim` (harness/src/asyncsim/drvwake.rs, harness/src/asyncsim/qev.rs), which observe the real `State::driver` and `poll_transmit`
readiness through read-only hooks.
-/
namespace QM.DriverWake

inductive Op where
  -- recv_stream.rs
  | recvStop | receivedReset | read | recvDrop
  -- send_stream.rs
  | write | finish | reset | sendDropFinish | sendDropReset
  -- connection.rs
  | sendDatagram | sendDatagramWait | setMaxUni | setMaxBi | setSendWindow | setReceiveWindow | accept | close
  -- entry points without a wake site (they queue nothing): open_uni/open_bi, read_datagram, stopped, set_priority
  | openStream | readDatagram | stopped | setPriority
  deriving DecidableEq, Repr

def Op.all : List Op :=
  [.recvStop, .receivedReset, .read, .recvDrop, .write, .finish, .reset, .sendDropFinish, .sendDropReset,
   .sendDatagram, .sendDatagramWait, .setMaxUni, .setMaxBi, .setSendWindow, .setReceiveWindow, .accept, .close,
   .openStream, .readDatagram, .stopped, .setPriority]

/-- which source file holds the wake site of the op (0 = recv_stream.rs, 1 = send_stream.rs, 2 = connection.rs) -/
def Op.file : Op → Option Nat
  | .recvStop | .receivedReset | .read | .recvDrop => some 0
  | .write | .finish | .reset | .sendDropFinish | .sendDropReset => some 1
  | .sendDatagram | .sendDatagramWait | .setMaxUni | .setMaxBi | .setSendWindow | .setReceiveWindow | .accept
  | .close => some 2
  | .openStream | .readDatagram | .stopped | .setPriority => none

def sitesIn (f : Nat) : Nat := (Op.all.filter (fun o => o.file == some f)).length

/-- the guard of the `State::wake()` call of each site, as read from the source -/
def wakes : Op → Bool → Bool → Bool → Bool
  | .recvStop => Gen.c18dwRecvStop
  | .receivedReset => Gen.c18dwReceivedReset
  | .read => Gen.c18dwRead
  | .recvDrop => Gen.c18dwRecvDrop
  | .write => Gen.c18dwWrite
  | .finish => Gen.c18dwFinish
  | .reset => Gen.c18dwReset
  | .sendDropFinish => Gen.c18dwSendDropFinish
  | .sendDropReset => Gen.c18dwSendDropReset
  | .sendDatagram => Gen.c18dwSendDatagram
  | .sendDatagramWait => Gen.c18dwSendDatagramWait
  | .setMaxUni => Gen.c18dwSetMaxConcurrentUniStreams
  | .setMaxBi => Gen.c18dwSetMaxConcurrentBiStreams
  | .setSendWindow => Gen.c18dwSetSendWindow
  | .setReceiveWindow => Gen.c18dwSetReceiveWindow
  | .accept => Gen.c18dwAccept
  | .close => Gen.c18dwClose
  | .openStream | .readDatagram | .stopped | .setPriority => fun _ _ _ => false

/-- quinn-proto API contract: given the fact `r` about the proto call, can the call have queued frames? -/
def mayQueue : Op → Bool → Bool
  | .recvStop, r | .receivedReset, r | .read, r => r
  | .recvDrop, _ => true
  | .write, r | .finish, r | .reset, r | .sendDropFinish, r | .sendDropReset, r => r
  | .sendDatagram, r | .sendDatagramWait, r => r
  | .setMaxUni, _ | .setMaxBi, _ | .setReceiveWindow, _ => true
  -- (their wake is harmless but not owed: `Streams::accept` only moves `next_reported_remote` — stream credit is
  -- issued when a stream is FREED —, `set_send_window` only stores the limit; neither queues a frame. asyncsim's
  -- per-call oracle agrees: removing either wake creates no transmit work behind a sleeping driver)
  | .setSendWindow, _ | .accept, _ => false
  | .close, _ => true
  | .openStream, _ | .readDatagram, _ | .stopped, _ | .setPriority, _ => false

inductive Drv where
  | asleep | runnable
  deriving DecidableEq, Repr

structure St where
  /-- `poll_transmit` has something to send -/
  pending : Bool := false
  /-- a freshly spawned driver task is runnable -/
  drv : Drv := .runnable
  /-- the sleeping driver is registered with the source (socket, pacing timer, loss detection) that made it stop -/
  armed : Bool := false
  deriving DecidableEq, Repr

inductive PollOut where
  /-- `poll_transmit` returned None with nothing held back: `conn.driver = Some(waker)` -/
  | drained
  /-- `keep_going`: the transmit budget was spent or a timer fired; the driver wakes itself -/
  | keepGoing (left : Bool)
  /-- the socket returned Pending (`buffered_transmit`), or pacing / congestion control held the frames back -/
  | blocked
  deriving DecidableEq, Repr

inductive Ev where
  /-- an application-side call of `op` whose proto call had outcome `r`, with the other atoms of its wake guard at
      `u1`, `u2`; `queued` = it queued frames (possible only when the contract allows) -/
  | app (op : Op) (r u1 u2 : Bool) (queued : Bool)
  | driverPoll (out : PollOut)
  /-- timer, incoming datagram, socket writable, endpoint event: the driver task is woken -/
  | ext
  deriving DecidableEq, Repr

def step (W : Op → Bool → Bool → Bool → Bool) (s : St) : Ev → St
  | .app op r u1 u2 queued =>
    let s1 := { s with pending := s.pending || (queued && mayQueue op r) }
    -- `State::wake`: take the stored waker, if any, and wake it
    if W op r u1 u2 then { s1 with drv := .runnable } else s1
  | .driverPoll out =>
    match s.drv with
    | .asleep => s
    | .runnable =>
      match out with
      | .drained => { pending := false, drv := .asleep, armed := false }
      | .keepGoing left => { pending := left, drv := .runnable, armed := false }
      | .blocked => { s with drv := .asleep, armed := true }
  | .ext => { s with drv := .runnable }

def run (W : Op → Bool → Bool → Bool → Bool) (s : St) : List Ev → St
  | [] => s
  | e :: es => run W (step W s e) es

def init : St := {}

/-- the safety property: a sleeping driver with frames pending has a wake-up coming -/
def Safe (s : St) : Prop := s.drv = .asleep → s.pending = true → s.armed = true

/-- the table of a source that skips the wake of `read` unless a further condition holds
    (e.g. "the read consumed something") -/
def wakesGuardedRead : Op → Bool → Bool → Bool → Bool
  | .read => fun r u1 _ => r && u1
  | op => wakes op

/-- … and the interleaving on which it loses frames: the driver drains and sleeps; a read that consumed nothing
    (`u1 = false`) observes the peer's reset, quinn-proto frees the stream and queues MAX_STREAMS
    (`should_transmit`), nobody wakes the driver -/
def guardedReadTrace : List Ev := [.driverPoll .drained, .app .read true false false true]

end QM.DriverWake
