import QuinnModel.Gen.C18Life
import QuinnModel.Async.Wake
/-
End-of-life rules of the `quinn` crate (C18): two small state machines.   (model; core Lean only)

1. ENDPOINT CLOSE AND THE CONNECTION SET (quinn/src/endpoint.rs `ConnectionSet`, `Endpoint::close`,
   `ConnectionSet::insert`, `State::handle_events`). The endpoint tells a connection to close by putting
   `ConnectionEvent::Close` into that connection's channel; the connection driver, when it next runs, takes it out
   (`process_conn_events`) and calls `State::close` = `terminate` + wake (anchor `c18ConnCloseEventCloses`, and
   `c18CloseTerminatesAndWakesDriver` of Gen/C18). `Endpoint::close` reaches the channels registered AT THAT
   MOMENT. Connections can be registered afterwards: `Accept::poll` hands out attempts that were queued before the
   close, and an `Incoming` the application already holds stays valid (`c18AcceptHandsOutQueuedAfterClose`); both
   reach `ConnectionSet::insert`, the only place where a sender is registered (`c18InsertIsTheOnlyRegistration`).
   What `insert` and `close` do is READ FROM THE SOURCE (0/1 constants of Gen/C18Life.lean), so the theorem over
   all orders of insert / close / drained only goes through for a source that tells late connections too.
   Handles are natural numbers and may be used again after `drained` (slab indices): a re-insert is a new channel.

2. PER-ID WAKER TABLE WITH ID REUSE (quinn/src/connection.rs `blocked_readers` / `blocked_writers`, keyed by
   `StreamId` only; quinn/src/{recv,send}_stream.rs `Drop`, `RecvStream::stop`). A 0-RTT rejection starts a new
   GENERATION of streams: ids are handed out again from 0 while the application may still hold handles of the old
   generation. Each registration carries (ghost) the generation of the handle that made it. A handle of an old
   generation never registers (every operation tests `check_0rtt` first: anchor `c18RejectedHandleOpsReport` of
   Gen/C18). The rejection drains the table (`c18RejectionDrainsWakerTables`); a handle's drop / stop removes the
   entry under its id unless the handle is stale and the source returns before the `remove`
   (`c18StaleDropKeepsTable`, `c18StaleStopKeepsTable`). Theorem: over all interleavings, dropping or stopping a
   handle of generation `g` never removes (without waking it) a registration made by a handle of another generation.
-/
namespace QM.Life

/-! ### 1. endpoint close -/

structure Ep where
  /-- `ConnectionSet::close` is set -/
  closed : Bool := false
  /-- keys of `ConnectionSet::senders` -/
  senders : List Nat := []
  /-- a `ConnectionEvent::Close` has been put into the (current) channel of connection `h` -/
  told : Nat → Bool := fun _ => false

inductive EpEv where
  /-- `ConnectionSet::insert` (from `connect_with`, `Incoming::accept` / `accept_with` / `.await`) -/
  | insert (h : Nat)
  /-- `Endpoint::close` -/
  | close
  /-- `handle_events`: `EndpointEvent::drained` of `h` -/
  | drained (h : Nat)

def Ep.step (s : Ep) : EpEv → Ep
  | .insert h =>
    { s with senders := h :: s.senders.filter (fun x => x != h),
             told := fun x => if x = h then (s.closed && Gen.c18InsertAfterCloseSendsClose == 1) else s.told x }
  | .close =>
    { s with closed := true,
             told := fun x => s.told x || (Gen.c18EndpointCloseTellsAll == 1 && s.senders.contains x) }
  | .drained h => { s with senders := s.senders.filter (fun x => x != h) }

def Ep.run (s : Ep) : List EpEv → Ep
  | [] => s
  | e :: es => (s.step e).run es

def Ep.init : Ep := {}

/-- the connection driver's next poll: a Close event in its channel is taken out and executed as `State::close`
    (`terminate` of the wake model) iff the source does so -/
def connPoll (slot : Wake.Cond → Bool) (told : Bool) (s : Wake.St) : Wake.St :=
  if told && Gen.c18ConnCloseEventCloses == 1 then Wake.step slot s .terminate else s

/-! ### 2. waker table keyed by id, ids reused across generations -/

abbrev Id := Nat
abbrev Gn := Nat
abbrev Tk := Nat

structure Tab where
  /-- the current generation (number of rejections so far: 0 or 1 in quinn, any number here) -/
  cur : Gn := 0
  /-- `blocked_readers` (or `blocked_writers`): id ↦ (generation of the registering handle, task) -/
  tab : Id → Option (Gn × Tk) := fun _ => none

inductive TabEv where
  /-- a poll through a handle of generation `g` on stream `id` returns Pending for task `t`. A stale handle
      (`g ≠ cur`) reports `ZeroRttRejected` instead and registers nothing -/
  | poll (id : Id) (g : Gn) (t : Tk)
  /-- `wake_stream(id, …)`: remove (and wake) -/
  | wake (id : Id)
  /-- 0-RTT rejected: stream numbering restarts; `wake_all` drains the table iff the source does so -/
  | reject
  /-- `Drop` of the handle of stream `id` of generation `g` -/
  | drop (id : Id) (g : Gn)
  /-- `RecvStream::stop` through the handle of stream `id` of generation `g` -/
  | stop (id : Id) (g : Gn)

def Tab.remove (s : Tab) (id : Id) : Tab := { s with tab := fun x => if x = id then none else s.tab x }

def Tab.step (s : Tab) : TabEv → Tab
  | .poll id g t => if g = s.cur then { s with tab := fun x => if x = id then some (g, t) else s.tab x } else s
  | .wake id => s.remove id
  | .reject =>
    if Gen.c18RejectionDrainsWakerTables = 1 then { cur := s.cur + 1, tab := fun _ => none }
    else { s with cur := s.cur + 1 }
  | .drop id g => if g < s.cur ∧ Gen.c18StaleDropKeepsTable = 1 then s else s.remove id
  | .stop id g => if g < s.cur ∧ Gen.c18StaleStopKeepsTable = 1 then s else s.remove id

def Tab.run (s : Tab) : List TabEv → Tab
  | [] => s
  | e :: es => (s.step e).run es

def Tab.init : Tab := {}

end QM.Life
