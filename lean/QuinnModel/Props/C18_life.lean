import QuinnModel.Lemmas.Life
/-
C18 — "every pending operation … completes as soon as its condition holds or the connection or endpoint closes
… closing or dropping handles in any order performs a clean teardown": END-OF-LIFE RULES.   (property theorems only)
Model: QuinnModel/Async/Life.lean — (1) the endpoint's connection set under all orders of `ConnectionSet::insert`
(connect / Incoming accepted), `Endpoint::close` and `drained`, with what `insert` and `close` do read from the
source (Gen/C18Life.lean); (2) a waker table keyed by stream id whose ids are reused after a 0-RTT rejection,
registrations tagged with the generation of the registering handle, with what the rejection, `Drop` and
`RecvStream::stop` do to the table read from the source. Behaviour of the real code: asyncsim families `eol`
(oracles `c18-connection-alive-after-endpoint-close`, `c18-wait-idle-hangs`) and `stale` (`c18-lost-wakeup`).
-/
namespace QM.Props.C18_life
open QM QM.Life

/-- all orders of insert / close / drained: once `Endpoint::close` has run, EVERY connection in the endpoint's
    connection set — registered before the close or after it (an attempt that was queued, or held by the
    application, and accepted later) — has a Close event in its channel -/
theorem closed_endpoint_tells_every_connection (evs : List EpEv) (h : Nat)
    (hc : (Ep.init.run evs).closed = true) (hm : h ∈ (Ep.init.run evs).senders) :
    (Ep.init.run evs).told h = true :=
  ep_told_lem evs h hc hm

/-- the close is permanent: whatever happens after `Endpoint::close`, the endpoint stays closed (so the theorem
    above applies to every later state) -/
theorem endpoint_stays_closed (evs evs' : List EpEv) :
    ((Ep.init.run evs).step .close |>.run evs').closed = true :=
  closed_run evs' _ (by simp [Ep.step])

/-- a connection that was told: its driver's next poll executes `State::close` = `terminate` of the wake model,
    which leaves no registration, marks the connection lost and has woken every task that was Pending
    (so `closed()`, the handshake future and every other operation on it complete) -/
theorem told_connection_terminates (slot : Wake.Cond → Bool) (evs : List Wake.Ev) :
    (connPoll slot true (Wake.run slot Wake.init evs)).regs = [] ∧
    (connPoll slot true (Wake.run slot Wake.init evs)).dead = true ∧
    ∀ t c, (Wake.run slot Wake.init evs).waiting t = some c →
      (connPoll slot true (Wake.run slot Wake.init evs)).woken t = true := by
  rw [connPoll_told]; exact Wake.terminate_lem slot evs

/-- waker table keyed by stream id, ids reused across generations, all interleavings of polls, wakes,
    rejections, drops and stops: dropping (or stopping through) a handle of generation `g` leaves a registration
    that a handle of ANOTHER generation made under the same id exactly where it is -/
theorem drop_removes_only_own_generation (evs : List TabEv) (id : Id) (g g' : Gn) (t : Tk)
    (hg : g ≤ (Tab.init.run evs).cur) (hr : (Tab.init.run evs).tab id = some (g', t)) (hne : g ≠ g') :
    ((Tab.init.run evs).step (.drop id g)).tab id = some (g', t) ∧
    ((Tab.init.run evs).step (.stop id g)).tab id = some (g', t) :=
  drop_other_gen_lem evs id g g' t hg hr hne

/-- … and a drop or stop never touches the entry of another id -/
theorem drop_touches_only_its_id (s : Tab) (id id' : Id) (g : Gn) (hne : id' ≠ id) :
    (s.step (.drop id g)).tab id' = s.tab id' ∧ (s.step (.stop id g)).tab id' = s.tab id' :=
  drop_elsewhere_lem s id id' g hne

/-- every registration in the table was made by a handle of the CURRENT generation: the rejection drains the table
    and stale handles never register -/
theorem registrations_are_current_generation (evs : List TabEv) (id : Id) (g : Gn) (t : Tk)
    (hr : (Tab.init.run evs).tab id = some (g, t)) : g = (Tab.init.run evs).cur :=
  tab_reach evs id g t hr

/-! ### non-vacuity -/

/-- attempt 1 accepted before the close, attempt 2 queued at the close and accepted afterwards, attempt 1 drained -/
def epHist : List EpEv := [.insert 1, .close, .insert 2, .drained 1]
example : (Ep.init.run epHist).closed = true ∧ (Ep.init.run epHist).senders = [2] ∧
    (Ep.init.run epHist).told 2 = true := by decide
/-- before the close nobody is told -/
example : (Ep.init.run [.insert 1]).told 1 = false ∧ (Ep.init.run [.insert 1]).closed = false := by decide
/-- a reader parked on the connection that is told -/
example : (connPoll (fun _ => true) true (Wake.run (fun _ => true) Wake.init [.poll 7 0 true])).woken 7 = true ∧
    (Wake.run (fun _ => true) Wake.init [.poll 7 0 true]).waiting 7 = some 0 := by decide
/-- early stream 0 (generation 0) read by task 5; rejection; new stream 0 (generation 1) read by task 6; the stale
    generation-0 handle is stopped and dropped: task 6's registration stays; its own handle's drop removes it -/
def tabHist : List TabEv := [.poll 0 0 5, .reject, .poll 0 0 5, .poll 0 1 6]
example : (Tab.init.run tabHist).cur = 1 ∧ (Tab.init.run tabHist).tab 0 = some (1, 6) ∧
    ((Tab.init.run tabHist).step (.drop 0 0)).tab 0 = some (1, 6) ∧
    ((Tab.init.run tabHist).step (.stop 0 0)).tab 0 = some (1, 6) ∧
    ((Tab.init.run tabHist).step (.drop 0 1)).tab 0 = none := by decide

end QM.Props.C18_life
