import QuinnModel.Lemmas.ReceiveClosed
/-
C04 — closed-connection rows: a connection that is closed, draining or drained is changed only by packets
protected with its keys (and by the stateless reset the property admits).   (property theorems only)
Model: `Receive.Closed.step` (Conn/Receive.lean), enlarged state = lifecycle state, pending error (what `poll()`
reports), close-owed flag, duplicate filter, failure counter, CONNECTION_CLOSE frames counted.
`Gen.closedDiscardsUnprotected` is regenerated from `handle_packet` on every run.
-/
namespace QM.Props.C04_closed
open QM QM.Receive QM.Receive.Closed

/-- a Retry or Version Negotiation packet (no packet protection: anyone who knows a CID can make one, with ANY
    payload — empty, bytes that parse as CONNECTION_CLOSE, a valid Retry integrity tag) addressed to a closed,
    draining or drained connection changes nothing at all -/
theorem unprotected_packet_no_effect_when_closed (c : CC) (p : CPkt) (hk : p.kind ≠ .protectedPkt)
    (hr : p.reset = false) : step c p = c :=
  unprotected_no_effect c p hk hr

/-- a forged / corrupted / cross-connection protected packet changes the failure counter only -/
theorem forged_no_effect_when_closed (c : CC) (p : CPkt) (hk : p.kind = .protectedPkt) (ha : p.authentic = false)
    (hr : p.reset = false) : step c p = { c with authFailures := c.authFailures + 1 } :=
  forged_protected_counts_only c p hk ha hr

/-- converse form: whatever changes the lifecycle state, the reason `poll()` will report, the close-owed flag or the
    CONNECTION_CLOSE counter of a closed connection is a stateless reset or an authentic protected packet -/
theorem closed_state_changes_only_by_authentic (c : CC) (p : CPkt)
    (h : (step c p).st ≠ c.st ∨ (step c p).error ≠ c.error ∨ (step c p).close ≠ c.close ∨
         (step c p).closeFramesRx ≠ c.closeFramesRx) :
    p.reset = true ∨ (p.kind = .protectedPkt ∧ p.authentic = true) :=
  change_needs_authentic c p h

-- non-vacuity: the inputs of SD-4 on a locally closed connection (no error pending, close already sent)
example : step ⟨.closed, false, false, Dedup.init, 0, 0⟩
    ⟨.versionNegotiation, 0, false, false, true, false, true, false⟩ = ⟨.closed, false, false, Dedup.init, 0, 0⟩ := by decide
example : step ⟨.closed, false, false, Dedup.init, 0, 0⟩
    ⟨.retry, 0, true, true, false, true, true, false⟩ = ⟨.closed, false, false, Dedup.init, 0, 0⟩ := by decide
-- the rows are not trivial: an AUTHENTIC packet with a CONNECTION_CLOSE moves Closed to Draining, any other authentic
-- packet from the path makes a Closed connection owe its CONNECTION_CLOSE again
example : (step ⟨.closed, false, false, Dedup.init, 0, 0⟩ ⟨.protectedPkt, 7, true, true, false, true, true, false⟩).st = .draining := by decide
example : (step ⟨.closed, false, false, Dedup.init, 0, 0⟩ ⟨.protectedPkt, 7, true, true, false, false, true, false⟩).close = true := by decide

end QM.Props.C04_closed
