import QuinnModel.Lemmas.IndexTuple
/-
C09 — Datagrams reach the right connection; connections are isolated.   (property theorems only)

Subject: the model of the endpoint's routing state (`QuinnModel/Endpoint/Index.lean`): the five tables of
`ConnectionIndex`, `ConnectionMeta`, the two slabs, and the `Endpoint` calls that maintain them.  A history
is any list of calls `Op` = connect (TLS ok / TLS error) | first Initial of an incoming connection |
accept (ok / stale / CIDs exhausted / authentication failure / first packet rejected) | refuse | ignore |
NeedIdentifiers n | RetireConnectionId seq | ResetToken (remote, token) | Drained, with the connection IDs
drawn by `new_cid` as explicit inputs; `run` is `none` where the real call panics.  Every theorem
quantifies over ALL histories, CID lengths and both preferred-address settings.

Two statements are false of the code as it is; each is kept at full strength with a counterexample proved
from a concrete history and a `_partial` theorem that excludes exactly the offending family:
 * F5: `ConnectionIndex::remove` deletes the address-tuple entries by address without checking that they
   belong to the drained handle (`routing_counterexample`, `routing_partial`);
 * `Endpoint::connect` registers the new local CID before the fallible TLS `start_session(..)?`; on error
   the CID stays registered for a handle that does not exist (`routing_sound_counterexample`,
   `routing_sound_partial`).
-/
namespace QM.Props.C09
open QM QM.Index

/-- zero-length CIDs: a live connection that no other live connection conflicts with (same tuple / same
    remote, see `Conflict`) is registered under its address tuple -/
def TupleOwnerRouted (s : State) : Prop :=
  s.cidLen = 0 → ∀ h m, s.conns.get h = some m →
    (∀ h' m', s.conns.get h' = some m' → h' ≠ h → ¬ Conflict m m' ∧ ¬ Conflict m' m) →
    (m.side = .server → alookup m.addresses s.index.inRemotes = some h) ∧
    (m.side = .client → alookup m.addresses.remote s.index.outRemotes = some h)

/-- invariant `Routing`: every key of every table maps to a live handle that owns it, every CID issued
    and not retired by a live connection (and every initial DCID) maps to it (`Sound`), and with
    zero-length CIDs the sole claimant of an address tuple is registered under it -/
structure Routing (s : State) : Prop where
  sound : Sound s
  tuple : TupleOwnerRouted s

/-! ### the routing invariant -/

def routing_statement : Prop :=
  ∀ (cidLen : Nat) (pref : Bool) (ops : List Op) (s : State), run cidLen pref ops = some s → Routing s

def tupleA : FourTuple := ⟨⟨167772161, 5000⟩, some 3232235777⟩

/-- F5 witness (zero-length CIDs): a client reconnects from the same address tuple while its first
    connection is still draining; when the first connection is drained the second one loses its routing
    entry.  Replayed on the real endpoint from `corpus/cindex/F5.ops`. -/
def F5_witness : List Op :=
  [.first tupleA [0xd1, 0xd1, 0xd1, 0xd1, 0xd1, 0xd1, 0xd1, 0xd1] [], .accept 0 .ok [],
   .first tupleA [0xd2, 0xd2, 0xd2, 0xd2, 0xd2, 0xd2, 0xd2, 0xd2] [], .accept 0 .ok [],
   .event 0 [] .drained]

def F5_meta : Meta := ⟨[0xd2, 0xd2, 0xd2, 0xd2, 0xd2, 0xd2, 0xd2, 0xd2], 1, [(0, [])], tupleA, .server, none⟩

def F5_final : State :=
  { cidLen := 0, prefAddr := false,
    index := { idsInitial := [([0xd2, 0xd2, 0xd2, 0xd2, 0xd2, 0xd2, 0xd2, 0xd2], .connection 1)] },
    conns := ⟨[.vacant 2, .occupied F5_meta], 0⟩,
    incoming := ⟨[.vacant 1], 0⟩ }

theorem F5_witness_run : run 0 false F5_witness = some F5_final := by decide

/-- the routing invariant is FALSE of the code as it is (F5): after the witness history connection 1 is
    the only live connection, owns `tupleA`, and no table routes `tupleA` to it -/
theorem routing_counterexample : ¬ routing_statement := by
  intro hst
  have hr := (hst 0 false F5_witness F5_final F5_witness_run).tuple
  have h1 := hr rfl 1 F5_meta (by decide : F5_final.conns.get 1 = some F5_meta) (by
    intro h' m' hg hne
    exfalso
    match h', hne, hg with
    | 0, _, hg => simp [F5_final, Slab.get] at hg
    | (n + 2), _, hg => simp [F5_final, Slab.get] at hg)
  have := h1.1 rfl
  simp [F5_final, F5_meta, tupleA] at this

/-- the history never calls `connect` with a TLS layer that rejects the session, and never adds a
    connection that conflicts with a live one (`AddsDisjoint`: for zero-length CIDs the new connection's
    tuple is not the tuple of a live incoming connection / its remote is not the remote of a live outgoing
    connection, and vice versa); this is the exact side condition -/
def Admissible (cidLen : Nat) (pref : Bool) (ops : List Op) : Prop :=
  Along NoFailedConnect (init cidLen pref) ops ∧ Along AddsDisjoint (init cidLen pref) ops

/-- `Routing` holds after every history in which no two conflicting connections are live at the same time
    and no `connect` fails in TLS -/
theorem routing_partial (cidLen : Nat) (pref : Bool) (ops : List Op) (s : State)
    (hadm : Admissible cidLen pref ops) (hr : run cidLen pref ops = some s) : Routing s :=
  ⟨sound_run hadm.1 hr, fun h0 h m g _ => (tinv_run hadm.2 hr).complete h0 h m g⟩

def routing_sound_statement : Prop :=
  ∀ (cidLen : Nat) (pref : Bool) (ops : List Op) (s : State), run cidLen pref ops = some s → Sound s

/-- connect-leak witness: `connect` fails in TLS after `new_cid` registered the local CID -/
def leak_witness : List Op := [.connect ⟨167772161, 4433⟩ [1, 1, 1, 1, 1, 1, 1, 1] false [[0xaa, 0, 0, 1]]]

def leak_final : State :=
  { cidLen := 4, prefAddr := false, index := { ids := [([0xaa, 0, 0, 1], 0)] } }

theorem leak_witness_run : run 4 false leak_witness = some leak_final := by decide

/-- `Sound` is FALSE of the code as it is: after a failed `connect` the CID table maps a CID to a handle
    that is not live (and that the next connection will be given) -/
theorem routing_sound_counterexample : ¬ routing_sound_statement := by
  intro hst
  have hs := hst 4 false leak_witness leak_final leak_witness_run
  obtain ⟨m, q, hg, _⟩ := hs.ids_sound [0xaa, 0, 0, 1] 0 (by decide)
  simp [leak_final, Slab.get, Slab.empty] at hg

/-- every key in every table maps to a live handle that owns it, every issued unretired CID and every
    initial DCID maps to its connection — for ALL histories without a TLS-failed `connect`, including those
    in which connections share address tuples -/
theorem routing_sound_partial (cidLen : Nat) (pref : Bool) (ops : List Op) (s : State)
    (hok : Along NoFailedConnect (init cidLen pref) ops) (hr : run cidLen pref ops = some s) : Sound s :=
  sound_run hok hr

/-! ### routing decisions -/

/-- `route_correct`: a datagram is handed to connection `h` only if `h` is live and the datagram is
    addressed to it: it carries one of `h`'s unretired CIDs, or is an Initial/0-RTT for `h`'s initial DCID,
    or has an empty DCID and comes from `h`'s address tuple, or ends in the reset token `h`'s peer
    currently uses, from that peer's address -/
theorem route_correct (cidLen : Nat) (pref : Bool) (ops : List Op) (s : State)
    (hok : Along NoFailedConnect (init cidLen pref) ops) (hr : run cidLen pref ops = some s)
    (a : FourTuple) (d : Dgram) (h : Nat) (hroute : route s a d = some (.connection h)) :
    ∃ m, s.conns.get h = some m ∧ Owns m a d :=
  route_conn_owns (sound_run hok hr) hroute

/-- a datagram is buffered for a pending attempt only if it is an Initial/0-RTT with that attempt's DCID -/
theorem route_incoming_correct (cidLen : Nat) (pref : Bool) (ops : List Op) (s : State)
    (hok : Along NoFailedConnect (init cidLen pref) ops) (hr : run cidLen pref ops = some s)
    (a : FourTuple) (d : Dgram) (i : Nat) (hroute : route s a d = some (.incoming i)) :
    d.initialOr0rtt = true ∧ ∃ p, s.incoming.get i = some p ∧ p.dcid = d.dstCid :=
  route_incoming_pending (sound_run hok hr) hroute

/-- every CID issued to and not retired by a live connection routes to it, from any address, in any
    packet type, with any payload (rotation, retirement in any order, migration) -/
theorem issued_cid_routes (cidLen : Nat) (pref : Bool) (ops : List Op) (s : State)
    (hok : Along NoFailedConnect (init cidLen pref) ops) (hr : run cidLen pref ops = some s)
    (h q : Nat) (m : Meta) (c : Cid) (hm : s.conns.get h = some m) (hq : alookup q m.locCids = some c)
    (hne : c ≠ []) (a : FourTuple) (k : Bool) (data : Bytes) :
    route s a ⟨k, c, data⟩ = some (.connection h) :=
  route_issued_cid (sound_run hok hr) hm hq hne a k data

/-- zero-length CIDs, admissible histories: a short-header datagram from a live incoming connection's
    tuple reaches it -/
theorem tuple_routes_partial (pref : Bool) (ops : List Op) (s : State)
    (hadm : Admissible 0 pref ops) (hr : run 0 pref ops = some s)
    (h : Nat) (m : Meta) (hm : s.conns.get h = some m) (hside : m.side = .server) (data : Bytes) :
    route s m.addresses ⟨false, [], data⟩ = some (.connection h) := by
  have hc : s.cidLen = 0 := cidLen_run hr
  have := ((tinv_run hadm.2 hr).complete hc h m hm).1 hside
  unfold route Index.get
  simp [this]

/-- fresh CIDs only: `new_cid` never hands out a CID that is registered -/
theorem new_cid_unique (s s1 : State) (ch : Nat) (cands c1 : List Cid) (id : Cid)
    (h : newCid s ch cands = some (id, s1, c1)) (hne : id ≠ []) : alookup id s.index.ids = none := by
  rcases newCid_spec h with ⟨rfl, -, -⟩ | ⟨-, -, hn, -⟩
  · exact absurd rfl hne
  · exact hn

/-! ### draining and slot reuse -/

/-- `no_stale`: after `Drained(ch)` the slot is vacant and no table mentions `ch` -/
theorem no_stale (cidLen : Nat) (pref : Bool) (ops : List Op) (s s' : State) (ch : Nat)
    (hok : Along NoFailedConnect (init cidLen pref) ops) (hr : run cidLen pref ops = some s)
    (hd : evDrained s ch = some s') : s'.conns.get ch = none ∧ ¬ Mentions s' ch :=
  ⟨(drained_vacates hd).1, no_stale_after_drained (sound_run hok hr) hd⟩

/-- `Drained` never trips the `debug_assert!` in `remove_initial` -/
theorem drained_never_panics (cidLen : Nat) (pref : Bool) (ops : List Op) (s : State) (ch : Nat)
    (hok : Along NoFailedConnect (init cidLen pref) ops) (hr : run cidLen pref ops = some s) :
    evDrained s ch ≠ none :=
  drained_ne_none (sound_run hok hr)

/-- `slot_reuse_safe`: when a live connection's slot `ch` is drained the slot becomes the next one handed
    out, nothing in any table points at it, and whatever later history follows (new connections reusing the
    slot, rotation, more drains) a datagram is handed to `ch` only if it is addressed to the occupant of
    `ch` at that time (never because of anything the previous occupant owned) -/
theorem slot_reuse_safe (cidLen : Nat) (pref : Bool) (ops1 ops2 : List Op) (s1 s2 s : State) (ch : Nat)
    (mOld : Meta) (hok1 : Along NoFailedConnect (init cidLen pref) ops1)
    (hr1 : run cidLen pref ops1 = some s1) (hlive : s1.conns.get ch = some mOld)
    (hd : evDrained s1 ch = some s2)
    (hok2 : Along NoFailedConnect s2 ops2) (hr2 : runFrom s2 ops2 = some s) :
    (s2.conns.get ch = none ∧ ¬ Mentions s2 ch ∧ s2.conns.vacantKey = ch) ∧
    ∀ a d, route s a d = some (.connection ch) → ∃ m, s.conns.get ch = some m ∧ Owns m a d := by
  have hs1 := sound_run hok1 hr1
  have hs2 := sound_drained hs1 hd
  exact ⟨⟨(drained_vacates hd).1, no_stale_after_drained hs1 hd, (drained_vacates hd).2 mOld hlive⟩,
    fun a d hroute => route_conn_owns (sound_runFrom hs2 hok2 hr2) hroute⟩

/-- the reset-token table maps only tokens that a live connection's peer currently uses -/
theorem reset_tokens_current (cidLen : Nat) (pref : Bool) (ops : List Op) (s : State)
    (hok : Along NoFailedConnect (init cidLen pref) ops) (hr : run cidLen pref ops = some s)
    (remote : Addr) (token : Token) (h : Nat) (hk : alookup (remote, token) s.index.tokens = some h) :
    ∃ m, s.conns.get h = some m ∧ m.resetToken = some (remote, token) :=
  (sound_run hok hr).tok_sound _ _ hk

/-! ### non-vacuity: concrete histories that meet the hypotheses and exercise the tables -/

def tupleB : FourTuple := ⟨⟨167772162, 5000⟩, none⟩
def remoteC : Addr := ⟨3232235781, 4433⟩
def cid (n : Nat) : Cid := [0xc0, 0, 0, 0, 0, 0, 0, n]
def tok : Token := [0, 1, 2, 3, 4, 5, 6, 7, 8, 9, 10, 11, 12, 13, 14, 15]

/-- 8-byte CIDs with a preferred-address CID: an incoming and an outgoing connection, rotation (a colliding
    candidate is skipped), retirement, a reset token, `Drained`, and a new connection reusing slot 0 -/
def history8 : List Op :=
  [.first tupleA [0xd1, 0xd1, 0xd1, 0xd1, 0xd1, 0xd1, 0xd1, 0xd1] [], .accept 0 .ok [cid 1, cid 2],
   .connect remoteC [9, 9, 9, 9, 9, 9, 9, 9] true [cid 1, cid 3],
   .event 0 [cid 3, cid 4, cid 5] (.needIdentifiers 2), .event 0 [cid 6] (.retireConnectionId 0 true),
   .event 1 [] (.resetToken remoteC tok), .event 0 [] .drained,
   .first tupleB [0xd2, 0xd2, 0xd2, 0xd2, 0xd2, 0xd2, 0xd2, 0xd2] [], .accept 0 .ok [cid 7, cid 8]]

example : Admissible 8 true history8 :=
  ⟨along_noFailed _ (by decide) _, along_addsDisjoint_of_cidLen (by decide)⟩

example : ∃ s, run 8 true history8 = some s ∧
    -- slot 0 was reused; its new occupant gets its own CIDs and the reset token reaches connection 1 ...
    route s tupleB ⟨false, cid 7, []⟩ = some (.connection 0) ∧
    route s tupleA ⟨false, cid 3, []⟩ = some (.connection 1) ∧
    route s ⟨remoteC, none⟩ ⟨false, cid 99, 0x40 :: tok⟩ = some (.connection 1) ∧
    -- ... and nothing the previous occupant of slot 0 owned (CIDs 1, 2, 4, 5, 6, its initial DCID) routes
    route s tupleA ⟨false, cid 4, []⟩ = none ∧ route s tupleA ⟨false, cid 1, []⟩ = none ∧
    route s tupleA ⟨true, [0xd1, 0xd1, 0xd1, 0xd1, 0xd1, 0xd1, 0xd1, 0xd1], []⟩ = none := by
  refine ⟨_, rfl, ?_⟩
  decide

/-- zero-length CIDs, two incoming connections from different tuples and an outgoing one: admissible -/
def history0 : List Op :=
  [.first tupleA [0xd1, 0xd1, 0xd1, 0xd1, 0xd1, 0xd1, 0xd1, 0xd1] [], .accept 0 .ok [],
   .first tupleB [0xd2, 0xd2, 0xd2, 0xd2, 0xd2, 0xd2, 0xd2, 0xd2] [], .accept 0 .ok []]

def history0_m0 : Meta := ⟨[0xd1, 0xd1, 0xd1, 0xd1, 0xd1, 0xd1, 0xd1, 0xd1], 1, [(0, [])], tupleA, .server, none⟩

def history0_s1 : State :=
  { cidLen := 0, prefAddr := false,
    index := { idsInitial := [([0xd1, 0xd1, 0xd1, 0xd1, 0xd1, 0xd1, 0xd1, 0xd1], .incoming 0)] },
    incoming := ⟨[.occupied ⟨tupleA, [0xd1, 0xd1, 0xd1, 0xd1, 0xd1, 0xd1, 0xd1, 0xd1]⟩], 1⟩ }

def history0_s2 : State :=
  { cidLen := 0, prefAddr := false,
    index := { idsInitial := [([0xd1, 0xd1, 0xd1, 0xd1, 0xd1, 0xd1, 0xd1, 0xd1], .connection 0)],
               inRemotes := [(tupleA, 0)] },
    conns := ⟨[.occupied history0_m0], 1⟩, incoming := ⟨[.vacant 1], 0⟩ }

def history0_s3 : State :=
  { cidLen := 0, prefAddr := false,
    index := { idsInitial := [([0xd2, 0xd2, 0xd2, 0xd2, 0xd2, 0xd2, 0xd2, 0xd2], .incoming 0),
                              ([0xd1, 0xd1, 0xd1, 0xd1, 0xd1, 0xd1, 0xd1, 0xd1], .connection 0)],
               inRemotes := [(tupleA, 0)] },
    conns := ⟨[.occupied history0_m0], 1⟩,
    incoming := ⟨[.occupied ⟨tupleB, [0xd2, 0xd2, 0xd2, 0xd2, 0xd2, 0xd2, 0xd2, 0xd2]⟩], 1⟩ }

example : Admissible 0 false history0 := by
  refine ⟨along_noFailed _ (by decide) _, ?_⟩
  refine along_cons (s' := history0_s1) (by decide) trivial ?_
  refine along_cons (s' := history0_s2) (by decide) ?_ ?_
  · intro _ p _ h m hg; simp [history0_s1, Slab.get, Slab.empty] at hg
  refine along_cons (s' := history0_s3) (by decide) trivial ?_
  refine ⟨?_, by split <;> trivial⟩
  intro _ p hp h m hg
  have hp' : p = ⟨tupleB, [0xd2, 0xd2, 0xd2, 0xd2, 0xd2, 0xd2, 0xd2, 0xd2]⟩ := by
    simp [history0_s3, Slab.get] at hp; exact hp.symm
  subst hp'
  match h, hg with
  | 0, hg =>
    have : m = history0_m0 := by simp [history0_s3, Slab.get] at hg; exact hg.symm
    subst this
    decide
  | n + 1, hg => simp [history0_s3, Slab.get] at hg

example : ∃ s, run 0 false history0 = some s ∧
    route s tupleA ⟨false, [], [0x40, 1, 2]⟩ = some (.connection 0) ∧
    route s tupleB ⟨false, [], [0x40, 1, 2]⟩ = some (.connection 1) := by
  refine ⟨_, rfl, ?_⟩
  decide

-- the same two connections on ONE tuple (the F5 history before the drain) are not admissible, and after
-- `Drained 0` the survivor is unreachable:
example : route F5_final tupleA ⟨false, [], [0x40, 1, 2]⟩ = none := by decide

end QM.Props.C09
