import QuinnModel.Lemmas.IndexStable
/-
C09 — Datagrams reach the right connection; connections are isolated.   (property theorems only)

Subject: the model of the endpoint's routing state (`QuinnModel/Endpoint/Index.lean`): the five tables of
`ConnectionIndex`, `ConnectionMeta`, the two slabs, and the `Endpoint` calls that maintain them.  A history
is any list of calls `Op` = connect (TLS ok / TLS error) | first Initial of an incoming connection |
accept (ok / stale / CIDs exhausted / authentication failure / first packet rejected) | refuse | ignore |
NeedIdentifiers n | RetireConnectionId seq | ResetToken (remote, token) | Drained, with the connection IDs
drawn by `new_cid` as explicit inputs; `run` is `none` where the real call panics.  Every theorem
quantifies over ALL histories, CID lengths and both preferred-address settings.

The model follows the code after two repairs (`fix:` commits): `ConnectionIndex::remove` drops an
address-tuple entry only if it still belongs to the connection being removed (F5), and `Endpoint::connect`
unregisters the local CID when the TLS `start_session` fails.  With them every statement below holds without
side condition, except the two about zero-length CIDs that are inherently limited by "one hash-map slot per
address tuple": when a newer connection is established on a tuple that a live connection already uses, the
newer one takes the slot (`insert_conn` overwrites) — that is stated exactly (`tuple_routes_until_superseded`),
and `routing_tuples` assumes it does not happen (`UniqueTupleKeys`).
-/
namespace QM.Props.C09
open QM QM.Index

/-! ### the routing invariant -/

/-- `Routing`: after ANY history every key of every table maps to a live handle that owns it, every CID
    issued and not retired by a live connection and every initial DCID (of a live incoming connection or a
    pending attempt) maps to it, sequence numbers and CIDs of a connection correspond one to one, and the
    reset-token table holds only tokens a live connection's peer currently uses (`Sound`) -/
theorem routing (cidLen : Nat) (pref : Bool) (ops : List Op) (s : State)
    (hr : run cidLen pref ops = some s) : Sound s :=
  sound_run hr

/-- no history adds a connection whose tuple-table key (incoming: the 4-tuple, outgoing: the remote) is in
    use by a live connection of the same side; vacuous unless the endpoint uses zero-length CIDs.  For
    outgoing connections this is the documented caller contract ("at most one client connection with
    zero-length local CIDs may be established per remote"); for incoming ones it is the peer's behaviour -/
def UniqueTupleKeys (cidLen : Nat) (pref : Bool) (ops : List Op) : Prop :=
  Along AddsDisjoint (init cidLen pref) ops

/-- zero-length CIDs: as long as tuple keys are not shared, every live connection is registered under its
    address tuple (incoming) / remote (outgoing) -/
theorem routing_tuples (pref : Bool) (ops : List Op) (s : State)
    (hu : UniqueTupleKeys 0 pref ops) (hr : run 0 pref ops = some s) : TupleComplete s :=
  (tinv_run hu hr).complete (cidLen_run hr)

/-! ### routing decisions -/

/-- `route_correct`: a datagram is handed to connection `h` only if `h` is live and the datagram is
    addressed to it: it carries one of `h`'s unretired CIDs, or is an Initial/0-RTT for `h`'s initial DCID,
    or has an empty DCID and comes from `h`'s address tuple, or ends in the reset token `h`'s peer
    currently uses, from that peer's address -/
theorem route_correct (cidLen : Nat) (pref : Bool) (ops : List Op) (s : State)
    (hr : run cidLen pref ops = some s)
    (a : FourTuple) (d : Dgram) (h : Nat) (hroute : route s a d = some (.connection h)) :
    ∃ m, s.conns.get h = some m ∧ Owns m a d :=
  route_conn_owns (sound_run hr) hroute

/-- a datagram is buffered for a pending attempt only if it is an Initial/0-RTT with that attempt's DCID -/
theorem route_incoming_correct (cidLen : Nat) (pref : Bool) (ops : List Op) (s : State)
    (hr : run cidLen pref ops = some s)
    (a : FourTuple) (d : Dgram) (i : Nat) (hroute : route s a d = some (.incoming i)) :
    d.initialOr0rtt = true ∧ ∃ p, s.incoming.get i = some p ∧ p.dcid = d.dstCid :=
  route_incoming_pending (sound_run hr) hroute

/-- every CID issued to and not retired by a live connection routes to it, from any address, in any
    packet type, with any payload (rotation, retirement in any order, migration) -/
theorem issued_cid_routes (cidLen : Nat) (pref : Bool) (ops : List Op) (s : State)
    (hr : run cidLen pref ops = some s)
    (h q : Nat) (m : Meta) (c : Cid) (hm : s.conns.get h = some m) (hq : alookup q m.locCids = some c)
    (hne : c ≠ []) (a : FourTuple) (k : Bool) (data : Bytes) :
    route s a ⟨k, c, data⟩ = some (.connection h) :=
  route_issued_cid (sound_run hr) hm hq hne a k data

/-- zero-length CIDs: an accepted connection receives the short-header datagrams from its address tuple
    from the moment it is accepted, through ANY later history, until it drains or a newer incoming
    connection is accepted on the same tuple (`KeepsIn`) — in particular whatever other connections,
    including ones on the same remote, are drained meanwhile (F5) -/
theorem tuple_routes_until_superseded (pref : Bool) (ops1 ops2 : List Op) (s1 s2 s : State)
    (idx ch : Nat) (p : Pending) (mode : AcceptMode) (cands : List Cid) (data : Bytes)
    (hr1 : run 0 pref ops1 = some s1) (hp : s1.incoming.get idx = some p)
    (hacc : accept s1 idx mode cands = some (s2, .ok ch))
    (hk : Along (KeepsIn p.addresses ch) s2 ops2) (hr2 : runFrom s2 ops2 = some s) :
    route s p.addresses ⟨false, [], data⟩ = some (.connection ch) := by
  have hs1 := sound_run hr1
  obtain ⟨p', hp', -, -, hreg⟩ := accept_lookups hs1 hacc
  rw [hp] at hp'; cases hp'
  have hl := hreg (cidLen_run hr1) ch rfl
  have := in_entry_stable (sound_accept hs1 hacc) hl hk hr2
  unfold route Index.get
  simp [this]

/-- the same for an outgoing connection and its remote (`KeepsOut`: not drained, no newer `connect` to the
    same remote); the entry is what `get` consults once no incoming connection claims the datagram -/
theorem remote_entry_until_superseded (pref : Bool) (ops1 ops2 : List Op) (s1 s2 s : State)
    (remote : Addr) (initCid : Cid) (tls : Bool) (cands : List Cid) (ch : Nat)
    (hr1 : run 0 pref ops1 = some s1)
    (hcon : connect s1 remote initCid tls cands = some (s2, .ok ch))
    (hk : Along (KeepsOut remote ch) s2 ops2) (hr2 : runFrom s2 ops2 = some s) :
    alookup remote s.index.outRemotes = some ch := by
  have hs1 := sound_run hr1
  have hl := (connect_lookups hcon).2.2 (cidLen_run hr1) ch rfl
  exact out_entry_stable (sound_connect hs1 hcon) hl hk hr2

/-- zero-length CIDs, unshared tuple keys: a datagram from a live incoming connection's tuple reaches it -/
theorem tuple_routes (pref : Bool) (ops : List Op) (s : State)
    (hu : UniqueTupleKeys 0 pref ops) (hr : run 0 pref ops = some s)
    (h : Nat) (m : Meta) (hm : s.conns.get h = some m) (hside : m.side = .server) (data : Bytes) :
    route s m.addresses ⟨false, [], data⟩ = some (.connection h) := by
  have := (routing_tuples pref ops s hu hr h m hm).1 hside
  unfold route Index.get
  simp [this]

/-- fresh CIDs only: `new_cid` never hands out a CID that is registered -/
theorem new_cid_unique (s s1 : State) (ch : Nat) (cands c1 : List Cid) (id : Cid)
    (h : newCid s ch cands = some (id, s1, c1)) (hne : id ≠ []) : alookup id s.index.ids = none := by
  rcases newCid_spec h with ⟨rfl, -, -⟩ | ⟨-, -, hn, -⟩
  · exact absurd rfl hne
  · exact hn

/-- a `connect` that fails (CIDs exhausted, bad remote address, TLS error) leaves no trace in any table -/
theorem failed_connect_leaves_no_trace (s s' : State)
    (remote : Addr) (initCid : Cid) (tls : Bool) (cands : List Cid) (res : ConnectResult)
    (hc : connect s remote initCid tls cands = some (s', res)) (hfail : ∀ ch, res ≠ .ok ch) :
    s'.conns = s.conns ∧ ∀ h, Mentions s' h → Mentions s h :=
  connect_failed_same hc hfail

/-! ### draining, isolation and slot reuse -/

/-- `no_stale`: after `Drained(ch)` the slot is vacant and no table mentions `ch` -/
theorem no_stale (cidLen : Nat) (pref : Bool) (ops : List Op) (s s' : State) (ch : Nat)
    (hr : run cidLen pref ops = some s)
    (hd : evDrained s ch = some s') : s'.conns.get ch = none ∧ ¬ Mentions s' ch :=
  ⟨(drained_vacates hd).1, no_stale_after_drained (sound_run hr) hd⟩

/-- isolation: `Drained(ch)` leaves every routing entry of every OTHER handle exactly as it was — address
    tuples, remotes, (non-empty) CIDs, initial DCIDs of connections and of pending attempts -/
theorem drained_isolation (cidLen : Nat) (pref : Bool) (ops : List Op) (s s' : State) (ch : Nat)
    (hr : run cidLen pref ops = some s) (hd : evDrained s ch = some s') :
    (∀ a h', alookup a s.index.inRemotes = some h' → h' ≠ ch → alookup a s'.index.inRemotes = some h') ∧
    (∀ r h', alookup r s.index.outRemotes = some h' → h' ≠ ch → alookup r s'.index.outRemotes = some h') ∧
    (∀ c h', c ≠ [] → alookup c s.index.ids = some h' → h' ≠ ch → alookup c s'.index.ids = some h') ∧
    (∀ d h', alookup d s.index.idsInitial = some (.connection h') → h' ≠ ch →
      alookup d s'.index.idsInitial = some (.connection h')) ∧
    (∀ d i, alookup d s.index.idsInitial = some (.incoming i) →
      alookup d s'.index.idsInitial = some (.incoming i)) := by
  obtain ⟨d1, d2, d3, d4, d5, -, -⟩ := drained_lookups (sound_run hr) hd
  exact ⟨d1, d2, d3, d4, d5⟩

/-- `Drained` never trips the `debug_assert!` in `remove_initial` -/
theorem drained_never_panics (cidLen : Nat) (pref : Bool) (ops : List Op) (s : State) (ch : Nat)
    (hr : run cidLen pref ops = some s) :
    evDrained s ch ≠ none :=
  drained_ne_none (sound_run hr)

/-- `slot_reuse_safe`: when a live connection's slot `ch` is drained the slot becomes the next one handed
    out, nothing in any table points at it, and whatever later history follows (new connections reusing the
    slot, rotation, more drains) a datagram is handed to `ch` only if it is addressed to the occupant of
    `ch` at that time (never because of anything the previous occupant owned) -/
theorem slot_reuse_safe (cidLen : Nat) (pref : Bool) (ops1 ops2 : List Op) (s1 s2 s : State) (ch : Nat)
    (mOld : Meta)
    (hr1 : run cidLen pref ops1 = some s1) (hlive : s1.conns.get ch = some mOld)
    (hd : evDrained s1 ch = some s2)
    (hr2 : runFrom s2 ops2 = some s) :
    (s2.conns.get ch = none ∧ ¬ Mentions s2 ch ∧ s2.conns.vacantKey = ch) ∧
    ∀ a d, route s a d = some (.connection ch) → ∃ m, s.conns.get ch = some m ∧ Owns m a d := by
  have hs1 := sound_run hr1
  have hs2 := sound_drained hs1 hd
  exact ⟨⟨(drained_vacates hd).1, no_stale_after_drained hs1 hd, (drained_vacates hd).2 mOld hlive⟩,
    fun a d hroute => route_conn_owns (sound_runFrom hs2 hr2) hroute⟩

/-- the reset-token table maps only tokens that a live connection's peer currently uses -/
theorem reset_tokens_current (cidLen : Nat) (pref : Bool) (ops : List Op) (s : State)
    (hr : run cidLen pref ops = some s)
    (remote : Addr) (token : Token) (h : Nat) (hk : alookup (remote, token) s.index.tokens = some h) :
    ∃ m, s.conns.get h = some m ∧ m.resetToken = some (remote, token) :=
  (sound_run hr).tok_sound _ _ hk

/-! ### the two repaired defects: their witness histories now behave -/

def tupleA : FourTuple := ⟨⟨167772161, 5000⟩, some 3232235777⟩

/-- F5 witness (zero-length CIDs; `corpus/cindex/F5.ops`): a client reconnects from the same address tuple
    while its first connection is still draining, then the first connection is drained -/
def F5_witness : List Op :=
  [.first tupleA [0xd1, 0xd1, 0xd1, 0xd1, 0xd1, 0xd1, 0xd1, 0xd1] [], .accept 0 .ok [],
   .first tupleA [0xd2, 0xd2, 0xd2, 0xd2, 0xd2, 0xd2, 0xd2, 0xd2] [], .accept 0 .ok [],
   .event 0 [] .drained]

-- the second connection keeps its routing entry (before the repair: `none`)
example : ∃ s, run 0 false F5_witness = some s ∧
    route s tupleA ⟨false, [], [0x40, 1, 2]⟩ = some (.connection 1) ∧ s.conns.get 0 = none := by
  refine ⟨_, rfl, ?_⟩
  decide

/-- connect-leak witness (`corpus/cindex/connect-leak.ops`): `connect` fails in TLS after `new_cid` -/
def leak_witness : List Op := [.connect ⟨167772161, 4433⟩ [1, 1, 1, 1, 1, 1, 1, 1] false [[0xaa, 0, 0, 1]]]

-- nothing stays registered (before the repair: `ids = [([0xaa, 0, 0, 1], 0)]`)
example : run 4 false leak_witness = some (init 4 false) := by decide

/-! ### non-vacuity: concrete histories that meet the hypotheses and exercise the tables -/

def tupleB : FourTuple := ⟨⟨167772162, 5000⟩, none⟩
def remoteC : Addr := ⟨3232235781, 4433⟩
def cid (n : Nat) : Cid := [0xc0, 0, 0, 0, 0, 0, 0, n]
def tok : Token := [0, 1, 2, 3, 4, 5, 6, 7, 8, 9, 10, 11, 12, 13, 14, 15]

/-- 8-byte CIDs with a preferred-address CID: an incoming and an outgoing connection, rotation (a colliding
    candidate is skipped), retirement, a reset token, `Drained`, and a new connection reusing slot 0 -/
def history8 : List Op :=
  [.first tupleA [0xd1, 0xd1, 0xd1, 0xd1, 0xd1, 0xd1, 0xd1, 0xd1] [], .accept 0 .ok [cid 1, cid 2],
   .connect remoteC [9, 9, 9, 9, 9, 9, 9, 9] true [cid 1, cid 3],
   .event 0 [cid 3, cid 4, cid 5] (.needIdentifiers 2), .event 0 [cid 6] (.retireConnectionId 0 true),
   .event 1 [] (.resetToken remoteC tok), .event 0 [] .drained,
   .first tupleB [0xd2, 0xd2, 0xd2, 0xd2, 0xd2, 0xd2, 0xd2, 0xd2] [], .accept 0 .ok [cid 7, cid 8]]

example : UniqueTupleKeys 8 true history8 := along_addsDisjoint_of_cidLen (by decide)

example : ∃ s, run 8 true history8 = some s ∧
    -- slot 0 was reused; its new occupant gets its own CIDs and the reset token reaches connection 1 ...
    route s tupleB ⟨false, cid 7, []⟩ = some (.connection 0) ∧
    route s tupleA ⟨false, cid 3, []⟩ = some (.connection 1) ∧
    route s ⟨remoteC, none⟩ ⟨false, cid 99, 0x40 :: tok⟩ = some (.connection 1) ∧
    -- ... and nothing the previous occupant of slot 0 owned (CIDs 1, 2, 4, 5, 6, its initial DCID) routes
    route s tupleA ⟨false, cid 4, []⟩ = none ∧ route s tupleA ⟨false, cid 1, []⟩ = none ∧
    route s tupleA ⟨true, [0xd1, 0xd1, 0xd1, 0xd1, 0xd1, 0xd1, 0xd1, 0xd1], []⟩ = none := by
  refine ⟨_, rfl, ?_⟩
  decide

/-- zero-length CIDs, two incoming connections from different tuples and an outgoing one: admissible -/
def history0 : List Op :=
  [.first tupleA [0xd1, 0xd1, 0xd1, 0xd1, 0xd1, 0xd1, 0xd1, 0xd1] [], .accept 0 .ok [],
   .first tupleB [0xd2, 0xd2, 0xd2, 0xd2, 0xd2, 0xd2, 0xd2, 0xd2] [], .accept 0 .ok []]

def history0_m0 : Meta := ⟨[0xd1, 0xd1, 0xd1, 0xd1, 0xd1, 0xd1, 0xd1, 0xd1], 1, [(0, [])], tupleA, .server, none⟩

def history0_s1 : State :=
  { cidLen := 0, prefAddr := false,
    index := { idsInitial := [([0xd1, 0xd1, 0xd1, 0xd1, 0xd1, 0xd1, 0xd1, 0xd1], .incoming 0)] },
    incoming := ⟨[.occupied ⟨tupleA, [0xd1, 0xd1, 0xd1, 0xd1, 0xd1, 0xd1, 0xd1, 0xd1]⟩], 1⟩ }

def history0_s2 : State :=
  { cidLen := 0, prefAddr := false,
    index := { idsInitial := [([0xd1, 0xd1, 0xd1, 0xd1, 0xd1, 0xd1, 0xd1, 0xd1], .connection 0)],
               inRemotes := [(tupleA, 0)] },
    conns := ⟨[.occupied history0_m0], 1⟩, incoming := ⟨[.vacant 1], 0⟩ }

def history0_s3 : State :=
  { cidLen := 0, prefAddr := false,
    index := { idsInitial := [([0xd2, 0xd2, 0xd2, 0xd2, 0xd2, 0xd2, 0xd2, 0xd2], .incoming 0),
                              ([0xd1, 0xd1, 0xd1, 0xd1, 0xd1, 0xd1, 0xd1, 0xd1], .connection 0)],
               inRemotes := [(tupleA, 0)] },
    conns := ⟨[.occupied history0_m0], 1⟩,
    incoming := ⟨[.occupied ⟨tupleB, [0xd2, 0xd2, 0xd2, 0xd2, 0xd2, 0xd2, 0xd2, 0xd2]⟩], 1⟩ }

example : UniqueTupleKeys 0 false history0 := by
  refine along_cons (s' := history0_s1) (by decide) trivial ?_
  refine along_cons (s' := history0_s2) (by decide) ?_ ?_
  · intro _ p _ h m hg; simp [history0_s1, Slab.get, Slab.empty] at hg
  refine along_cons (s' := history0_s3) (by decide) trivial ?_
  refine ⟨?_, by split <;> trivial⟩
  intro _ p hp h m hg
  have hp' : p = ⟨tupleB, [0xd2, 0xd2, 0xd2, 0xd2, 0xd2, 0xd2, 0xd2, 0xd2]⟩ := by
    simp [history0_s3, Slab.get] at hp; exact hp.symm
  subst hp'
  match h, hg with
  | 0, hg =>
    have : m = history0_m0 := by simp [history0_s3, Slab.get] at hg; exact hg.symm
    subst this
    decide
  | n + 1, hg => simp [history0_s3, Slab.get] at hg

example : ∃ s, run 0 false history0 = some s ∧
    route s tupleA ⟨false, [], [0x40, 1, 2]⟩ = some (.connection 0) ∧
    route s tupleB ⟨false, [], [0x40, 1, 2]⟩ = some (.connection 1) := by
  refine ⟨_, rfl, ?_⟩
  decide

-- `tuple_routes_until_superseded` applies to the F5 history itself: connection 1 is accepted on the tuple of
-- the live connection 0 (so the tuple keys are NOT unique), then 0 is drained; 1 keeps receiving
def F5_s3 : State :=
  { cidLen := 0, prefAddr := false,
    index := { idsInitial := [([0xd2, 0xd2, 0xd2, 0xd2, 0xd2, 0xd2, 0xd2, 0xd2], .incoming 0),
                              ([0xd1, 0xd1, 0xd1, 0xd1, 0xd1, 0xd1, 0xd1, 0xd1], .connection 0)],
               inRemotes := [(tupleA, 0)] },
    conns := ⟨[.occupied history0_m0], 1⟩,
    incoming := ⟨[.occupied ⟨tupleA, [0xd2, 0xd2, 0xd2, 0xd2, 0xd2, 0xd2, 0xd2, 0xd2]⟩], 1⟩ }

example : ∃ s2 s, run 0 false (F5_witness.take 3) = some F5_s3 ∧
    accept F5_s3 0 .ok [] = some (s2, .ok 1) ∧
    Along (KeepsIn tupleA 1) s2 [.event 0 [] .drained] ∧ runFrom s2 [.event 0 [] .drained] = some s := by
  refine ⟨_, _, by decide, rfl, ⟨by simp [KeepsIn], by split <;> trivial⟩, rfl⟩

end QM.Props.C09
