import QuinnModel.Lemmas.EndToEndMain
import QuinnModel.Lemmas.EndToEndFinalSize
/-
C01 — Stream data is delivered reliably, in order and exactly once: END TO END.   (property theorems only)

`Streams/EndToEnd.lean` composes, for one stream, the component models that the micro-differentials `sbuf`, `asm`
and `streams` tie to the code: sender = `SendBuffer` with the frames in flight under the `Send` state machine
(`write` with any chunking and any flow-control limit, `finish`, `reset(code)`, STOP_SENDING, `poll_transmit` with
any room and the copy loop of `write_stream_frames`, acknowledgement / loss of any frame in flight in any order);
network = every STREAM / RESET_STREAM frame ever transmitted may be delivered at any time, any number of times, in
any order, or never; receiver = `Recv::ingest` / `Recv::reset` / `Recv::stop` and the end-of-stream test of
`Chunks::next` over the `Assembler` (ordered and unordered reads with any `max_length` and any allowed chunk
boundaries, the switch to unordered mode, `clear`). A run is ANY list of such events from the initial state
(`run (St.init maxData window) evs = some s`; no bound on its length); `s.sys.w` is the ghost list of all bytes the
sending application wrote, `s.asm.chunks` every chunk a read returned, `s.asm.out` the concatenation of the ordered
reads, `s.net` every frame ever transmitted.
-/
namespace QM.Props.C01_e2e
open QM QM.RangeSet QM.E2E
open QM.Assembler (delivered)

/-- "the bytes the receiving application obtains are exactly the bytes the sending application wrote at those
    offsets": every chunk any read ever returned equals the written bytes at its offset (and lies inside what was
    written); "ordered reads yield a gap-free prefix of the written byte sequence": the concatenation of all
    ordered reads is a prefix of the written sequence; "unordered reads yield non-overlapping chunks": all
    chunks are pairwise disjoint -/
theorem delivered_is_written (maxData window : Nat) (evs : List Ev) (s : St)
    (h : run (St.init maxData window) evs = some s) :
    (∀ c ∈ s.asm.chunks, c.2.2 = (s.sys.w.drop c.2.1).take c.2.2.length ∧
      (c.2.2 ≠ [] → c.2.1 + c.2.2.length ≤ s.sys.w.length)) ∧
    s.asm.out <+: s.sys.w ∧
    (delivered s.asm).Pairwise Assembler.disj :=
  ⟨chunk_written (reach_inv h), out_prefix (reach_inv h), (reach_inv h).R.asmX.px⟩

/-- "no byte is ever … duplicated": no stream offset is handed to the application twice, whatever the network
    duplicates or the sender retransmits, ordered and unordered reads mixed, across the mode switch -/
theorem no_duplicate_delivery (maxData window : Nat) (evs : List Ev) (s : St)
    (h : run (St.init maxData window) evs = some s)
    (c d : Bool × Nat × Bytes) (x : Nat) (hcd : List.Sublist [c, d] s.asm.chunks)
    (hc : c.2.1 ≤ x ∧ x < c.2.1 + c.2.2.length) (hd : d.2.1 ≤ x ∧ x < d.2.1 + d.2.2.length) : False := by
  have hp := (reach_inv h).R.asmX.px
  have hsub : List.Sublist [Assembler.rangeOf c, Assembler.rangeOf d] (delivered s.asm) := by
    have := hcd.map Assembler.rangeOf
    simpa [Assembler.delivered] using this
  have h2 := hp.sublist hsub
  simp only [List.pairwise_cons, List.mem_cons, List.mem_nil_iff, or_false, forall_eq] at h2
  exact h2.1 x ⟨hc.1, hc.2, hd.1, hd.2⟩

/-- "End-of-stream is reported only after every byte written before finish() has been delivered": if a read
    reported end-of-stream then `finish()` was called, after exactly the bytes in `w`, and every offset below
    that final size was handed to the application (with the written content, by `delivered_is_written`); a
    reader that only made ordered reads has obtained exactly `w` -/
theorem fin_only_after_all (maxData window : Nat) (evs : List Ev) (s : St)
    (h : run (St.init maxData window) evs = some s) (he : s.eos = true) :
    s.finishedAt = some s.sys.w.length ∧ (∀ x, x < s.sys.w.length → mem x (delivered s.asm)) ∧
    (s.asm.a.unordered = false → s.asm.out = s.sys.w) :=
  eos_all (reach_inv h) he

/-- "a reset is reported with the sender's error code" -/
theorem reset_code_is_senders (maxData window : Nat) (evs : List Ev) (s : St)
    (h : run (St.init maxData window) evs = some s) (c : Nat) (hr : s.sawReset = some c) :
    s.appReset = some c :=
  (reach_inv h).R.saw_ok c hr

/-- every frame the sender ever emits — first transmission or retransmission after any pattern of loss and
    partial acknowledgement — carries exactly the written bytes at its offset and nothing beyond what was
    written; a FIN is sent only after `finish()` and at offset = total written; a RESET_STREAM carries the
    application's code and final size = total written -/
theorem frames_within_written (maxData window : Nat) (evs : List Ev) (s : St)
    (h : run (St.init maxData window) evs = some s) (f : Frame) (hf : f ∈ s.net) :
    match f with
    | .stream off bytes fin =>
      bytes = (s.sys.w.drop off).take bytes.length ∧ off + bytes.length ≤ s.sys.w.length ∧
      (fin = true → s.finishedAt = some s.sys.w.length ∧ off + bytes.length = s.sys.w.length)
    | .reset code fs => s.appReset = some code ∧ fs = s.sys.w.length :=
  frames_ok (reach_inv h) f hf

/-- "no byte is ever lost" (the safety half of "reliably"): at all times every written byte is acknowledged, or
    queued for retransmission, or in flight, or not yet sent — no loss report, partial acknowledgement or
    re-chunking forgets it; a byte counts as acknowledged only if the receiver was handed a frame containing it;
    a byte queued for (re)transmission keeps the stream pending (`Send::is_pending`); and while the stream is
    finished, not reset, and its FIN unacknowledged, the FIN is queued (and the stream pending) or in flight -/
theorem nothing_forgotten (maxData window : Nat) (evs : List Ev) (s : St)
    (h : run (St.init maxData window) evs = some s) :
    (∀ x, x < s.sys.w.length →
      (SendBuffer.acked s.sys.sb x ∨ mem x s.sys.sb.retransmits ∨ mem x s.sys.F ∨ s.sys.sb.unsent ≤ x) ∧
      (SendBuffer.acked s.sys.sb x → ∃ off bytes fin, Frame.stream off bytes fin ∈ s.got ∧
        off ≤ x ∧ x < off + bytes.length) ∧
      (mem x s.sys.sb.retransmits ∨ s.sys.sb.unsent ≤ x → s.half.isPending = true)) ∧
    (s.live = true → s.half.state = .dataSent false →
      (s.half.finPending = true ∧ s.half.isPending = true) ∨ ∃ t ∈ s.T, t.2.2 = true) :=
  forgotten_none (reach_inv h)

/-- whatever the network does, a frame of the honest sender never meets a final-size conflict at the receiver:
    `Recv::ingest` does not answer it with FINAL_SIZE_ERROR, nor does `Recv::reset` -/
theorem honest_frames_no_final_size_error (maxData window : Nat) (evs : List Ev) (s : St)
    (h : run (St.init maxData window) evs = some s) (f : Frame) (hf : f ∈ s.net) (received md : Nat) :
    match f with
    | .stream off bytes fin => s.rv.ingest off bytes.length fin received md ≠ some (.error (.finalSize ""))
    | .reset code fs => ∀ reason, s.rv.reset code fs received md ≠ some (.error (.finalSize reason)) := by
  have hk := no_final_size_conflict (reach_inv h) f hf
  cases f with
  | stream off bytes fin =>
    simp only at hk ⊢
    intro hi
    rcases Streams.ingest_cases hi with ⟨_, he⟩ | ⟨_, hc, _⟩ | ⟨_, _, _, he⟩ | ⟨_, _, _, _, _, he, _⟩
    · cases he
    · exact hk hc
    · cases he
    · cases he
  | reset code fs =>
    simp only at hk ⊢
    intro reason hi
    rcases Streams.reset_cases hi with ⟨fo, h1, h2, _⟩ | ⟨h1, h2, _⟩ | ⟨_, _, he⟩ | ⟨_, _, _, hr⟩
    · unfold Streams.Recv.resetSizeErr at hk; rw [h1] at hk; simp [h2] at hk
    · unfold Streams.Recv.resetSizeErr at hk; rw [h1] at hk; simp [h2] at hk
    · cases he
    · rcases hr with ⟨_, _, _, he⟩ | ⟨_, _, he⟩ <;> cases he

/-- the `Recv` fin/reset logic over ALL frame sequences (any peer): once the final size of a stream is known
    (FIN or RESET_STREAM accepted) no later STREAM / RESET_STREAM frame or `stop` changes it, the high-water mark
    `end` never decreases and never passes the final size -/
theorem final_size_monotone (window : Nat) (ops1 ops2 : List RecvOp) :
    let r1 := ops1.foldl rstep (Streams.Recv.new window)
    let r2 := ops2.foldl rstep r1
    (∀ fo, r1.finalOffset = some fo → r2.finalOffset = some fo) ∧ r1.end_ ≤ r2.end_ ∧
    (∀ fo, r2.finalOffset = some fo → r2.end_ ≤ fo) := by
  intro r1 r2
  have h1 := (rrun_final ops1 _ (finLe_new window)).2.2
  exact rrun_final ops2 r1 h1

/-! ### non-vacuity -/

/-- 15 bytes written in two calls; the first frame (0..12) is lost and, after `finish()`, retransmitted in two
    pieces (0..8, 8..12); the FIN travels with 12..15. The receiver gets the frames out of order and duplicated
    (including the "lost" one), reads 2 bytes in order, switches to unordered reads, and is told end-of-stream
    once all 15 bytes were handed out; the acknowledgements retire the stream -/
def demo : List Ev :=
  [.write [10, 11, 12, 13, 14, 15, 16, 17, 18, 19, 20, 21] 100, .transmit 21, .write [22, 23, 24] 100,
   .lose 0 12 false, .finish, .transmit 16, .transmit 40, .transmit 40,
   .deliver (.stream 12 [22, 23, 24] true) 0 1000 3 false,
   .deliver (.stream 0 [10, 11, 12, 13, 14, 15, 16, 17, 18, 19, 20, 21] false) 3 1000 12 false,
   .read 2 true (.chunk 0 2),
   .deliver (.stream 8 [18, 19, 20, 21] false) 15 1000 4 false,
   .deliver (.stream 0 [10, 11, 12, 13, 14, 15, 16, 17] false) 15 1000 8 false,
   .deliver (.stream 12 [22, 23, 24] true) 15 1000 3 false,
   .read 100 false (.chunk 2 10), .read 1 false (.chunk 12 1), .read 100 false (.chunk 13 2),
   .read 100 false .none,
   .ack 12 15 true, .ack 0 8 false, .ack 8 12 false]

example : (run (St.init 1000 1000) demo).map (fun s => (s.net.length, s.asm.out, s.eos)) =
    some (4, [10, 11], true) := by decide
example : (run (St.init 1000 1000) demo).map (fun s => s.asm.chunks) =
    some [(false, 13, [23, 24]), (false, 12, [22]), (false, 2, [12, 13, 14, 15, 16, 17, 18, 19, 20, 21]),
      (true, 0, [10, 11])] := by decide
example : (run (St.init 1000 1000) demo).map (fun s => (s.finishedAt, s.live, s.sys.F)) =
    some (some 15, false, []) := by decide

/-- reset: 3 bytes written, one frame delivered, reset(9); RESET_STREAM delivered twice; the reader sees code 9 -/
def demoReset : List Ev :=
  [.write [1, 2, 3] 100, .transmit 30, .deliver (.stream 0 [1, 2, 3] false) 0 1000 3 false,
   .reset 9, .transmitReset, .deliver (.reset 9 3) 3 1000 0 false, .deliver (.reset 9 3) 3 1000 0 false,
   .read 10 true .none, .ackReset]

example : (run (St.init 1000 1000) demoReset).map (fun s => (s.sawReset, s.appReset, s.eos, s.live, s.rlive)) =
    some (some 9, some 9, false, false, false) := by decide

example : ((([RecvOp.stream 0 5 false 0 100, .stream 5 2 true 5 100, .stream 0 9 false 7 100, .reset 1 8 7 100,
    .stream 2 3 false 7 100, .stop]).foldl rstep (Streams.Recv.new 50)).finalOffset,
    (([RecvOp.stream 0 5 false 0 100, .stream 5 2 true 5 100, .stream 0 9 false 7 100, .reset 1 8 7 100,
    .stream 2 3 false 7 100, .stop]).foldl rstep (Streams.Recv.new 50)).end_) = (some 7, 7) := by decide

end QM.Props.C01_e2e
