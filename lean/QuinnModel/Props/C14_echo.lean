import QuinnModel.Lemmas.CidEcho
/-
C14 (second half) — "a client ... completes the handshake only if the server's transport parameters echo the
connection IDs actually used"; quantifier "all single-field corruptions ... of the CID-echo transport
parameters".   (property theorems only; proofs in Lemmas/CidEcho.lean)

`accept side c tp` is `Connection::handle_peer_params` returning `Ok` (its guard is the generated
`Gen.cidEchoReject`, re-translated from connection/mod.rs on every check); `c : Cids` are the three CIDs the
connection recorded, `tp : EchoTP` the three parameters received.  `Client` / `Client.step` is the client's CID
bookkeeping (`Connection::new`, Retry / Initial / Handshake arms of `process_decrypted_packet`; the Retry
discard test is the generated `Gen.retryDiscarded`); `honestEcho` is what `Endpoint::accept` puts into the
parameters.  All statements quantify over ALL connection IDs (arbitrary byte lists) and ALL event histories.
-/
namespace QM.Props.C14_echo
open QM QM.CidEcho

/-- Acceptance ⇔ `initial_source_connection_id` is the SCID recorded for the peer and — on a client —
    `original_destination_connection_id` is the DCID of the first Initial and `retry_source_connection_id`
    is exactly the recorded Retry SCID (both absent, or equal). -/
theorem echo_accept_iff (side : Side) (c : Cids) (tp : EchoTP) :
    accept side c tp = true ↔
      tp.initialSrc = some c.origRem ∧
      (side = .client → tp.originalDst = some c.initialDst ∧ tp.retrySrc = c.retrySrc) :=
  accept_iff side c tp

/-- The property's quantifier: starting from accepted parameters, changing any ONE parameter that this side
    authenticates to any different value — another CID, dropping it, adding it — is rejected. -/
theorem single_field_corruption_rejected (side : Side) (c : Cids) (tp : EchoTP) (f : Field) (v : Option Cid)
    (h : accept side c tp = true) (hc : checkedBy side f = true) (hv : v ≠ tp.get f) :
    accept side c (tp.set f v) = false :=
  corruption_rejected side c tp f v h hc hv

/-- ... and the same for the other half of the comparison: had the connection recorded a different CID in
    any one of the places it compares (the peer's first SCID on both sides; first DCID and Retry SCID on a
    client), the same parameters are rejected. -/
theorem single_recorded_cid_corruption_rejected (side : Side) (c : Cids) (tp : EchoTP)
    (h : accept side c tp = true) :
    (∀ v, v ≠ c.origRem → accept side { c with origRem := v } tp = false) ∧
    (side = .client → (∀ v, v ≠ c.initialDst → accept side { c with initialDst := v } tp = false) ∧
                       (∀ v, v ≠ c.retrySrc → accept side { c with retrySrc := v } tp = false)) := by
  refine ⟨fun v hv => recorded_origRem_corruption_rejected side c tp v h hv, ?_⟩
  rintro rfl
  exact ⟨fun v hv => recorded_initialDst_corruption_rejected c tp v h hv,
         fun v hv => recorded_retrySrc_corruption_rejected c tp v h hv⟩

/-- Every honest exchange is accepted at both ends: whatever the first DCID, the client's SCID, the server's
    SCID, with or without a Retry (any Retry SCID, any non-empty token), and whatever reaches the client after
    the server's first Initial (genuine packets, injected Initials/Handshake packets with any SCID, late or
    forged Retries): the client accepts the honest server's parameters and the server the client's. -/
theorem honest_exchange_accepted (x : Exchange) :
    accept .client ((Client.connect x.d0).run x.clientEvents).cids (honestEcho x.serverView) = true ∧
    accept .server (serverCids x.serverView) (clientTP x.c) = true :=
  ⟨honest_client_accepts x, honest_server_accepts x⟩

/-- A client follows a Retry iff no server packet was authenticated before, the integrity tag verifies and the
    token is not empty; a Retry that is not followed changes nothing. -/
theorem retry_followed_iff (s : Client) (scid : Cid) (v : Bool) (n : Nat) :
    (s.followsRetry v n = true ↔ s.authed = 0 ∧ v = true ∧ 0 < n) ∧
    (s.followsRetry v n = false → s.step (.retry scid v n) = s) := by
  refine ⟨followsRetry_iff s v n, fun h => step_retry_discarded s scid v n ?_⟩
  intro hc
  rw [(followsRetry_iff s v n).mpr hc] at h
  exact Bool.noConfusion h

/-- Forged Retry (the integrity tag needs no secret): if the client followed a Retry with SCID `r'`, then —
    whatever arrives afterwards — every set of parameters whose `retry_source_connection_id` is not exactly
    `r'` is rejected; in particular those of a server that sent no Retry (`none`) or another one.
    Symmetrically: if the client followed no Retry (none with a valid tag and a token ever arrived), parameters
    announcing a Retry are rejected. -/
theorem forged_retry_detected :
    (∀ (s : Client) (r' : Cid) (n : Nat) (evs : List Event) (tp : EchoTP), s.authed = 0 → tp.retrySrc ≠ some r' →
        accept .client ((s.step (.retry r' true (n + 1))).run evs).cids tp = false) ∧
    (∀ (d0 : Cid) (evs : List Event) (tp : EchoTP) (r : Cid),
        (∀ scid n, Event.retry scid true (n + 1) ∉ evs) → tp.retrySrc = some r →
        accept .client ((Client.connect d0).run evs).cids tp = false) :=
  ⟨fun s r' n evs tp h0 h => forged_retry_rejected s h0 r' n evs tp h,
   fun d0 evs tp r hno h => missed_retry_rejected d0 evs hno tp r h⟩

/-- What a server checks and what it does not (exactly as the code): a server accepts iff
    `initial_source_connection_id` equals the SCID of the client's first packet; the other two parameters and
    its own `initial_dst_cid` / `retry_src_cid` do not influence the decision.  (A client must not send them
    at all: `TransportParameters::read` rejects them on a server while decoding — shape anchor
    `Gen.tpServerOnlyShape`, component `tparams`.) -/
theorem server_ignores_client_only_fields (c : Cids) (tp : EchoTP) :
    (accept .server c tp = true ↔ tp.initialSrc = some c.origRem) ∧
    (∀ f v, checkedBy .server f = false → accept .server c (tp.set f v) = accept .server c tp) ∧
    (∀ d r, accept .server { c with initialDst := d, retrySrc := r } tp = accept .server c tp) :=
  ⟨server_accept_iff c tp, fun f v hf => server_ignores_tp c tp f v hf, fun d r => server_ignores_recorded c tp d r⟩

/-- "echo the connection IDs actually used", over histories: after ANY sequence of events, accepted parameters
    name the DCID of the client's first Initial, the SCID of the Retry the client followed (or none), and the
    SCID recorded from the server's first Initial — which, once recorded, is the DCID of everything the client
    sends and the only SCID it accepts Initial/Handshake packets from. -/
theorem accepted_echo_names_used_cids (d0 : Cid) (evs : List Event) (tp : EchoTP)
    (h : accept .client ((Client.connect d0).run evs).cids tp = true) :
    tp.originalDst = some d0 ∧ tp.retrySrc = ((Client.connect d0).run evs).retrySrc ∧
    tp.initialSrc = some ((Client.connect d0).run evs).origRem ∧
    (((Client.connect d0).run evs).remCidSet = true →
      ((Client.connect d0).run evs).origRem = ((Client.connect d0).run evs).active ∧
      ((Client.connect d0).run evs).remHandshake = ((Client.connect d0).run evs).active) :=
  accepted_names_used d0 evs tp h

/-- After the server's first Initial nothing that arrives changes the recorded CIDs; packets with another SCID
    are discarded unprocessed. -/
theorem cids_fixed_after_first_server_initial (s : Client) (evs : List Event)
    (hs : s.remCidSet = true) (ha : 0 < s.authed) :
    (s.run evs).cids = s.cids ∧ (s.run evs).active = s.active ∧
    (∀ scid, scid ≠ s.remHandshake →
      (s.step (.serverInitial scid)).processed = s.processed ∧ (s.step (.laterServerPacket scid)).processed = s.processed) :=
  ⟨(run_frozen s evs hs ha).1, (run_frozen s evs hs ha).2.1, fun scid hne => mismatched_scid_discarded s scid hs hne⟩

/-! ### non-vacuity -/

-- accepted, with and without Retry, 20-byte / empty CIDs; each single-field corruption rejected
example : accept .client ⟨[1, 2], List.replicate 20 255, none⟩ ⟨some [1, 2], some (List.replicate 20 255), none⟩ = true := by decide
example : accept .client ⟨[], [9], some [7]⟩ ⟨some [], some [9], some [7]⟩ = true := by decide
example : accept .client ⟨[], [9], some [7]⟩ ⟨some [], some [9], none⟩ = false := by decide
example : accept .client ⟨[], [9], none⟩ ⟨some [], some [9], some []⟩ = false := by decide
example : accept .client ⟨[1], [9], none⟩ ⟨some [1], none, none⟩ = false := by decide
example : accept .client ⟨[1], [9], none⟩ ⟨some [1, 0], some [9], none⟩ = false := by decide
example : accept .server ⟨[1], [9], none⟩ ⟨some [1], none, none⟩ = true := by decide
example : accept .server ⟨[1], [9], none⟩ ⟨some [1], some [3], some [4]⟩ = true := by decide
example : accept .server ⟨[1], [9], none⟩ ⟨none, none, none⟩ = false := by decide
example : checkedBy .client .retrySrc = true ∧ checkedBy .server .retrySrc = false := by decide

/-- an honest exchange with Retry, followed by hostile traffic -/
def sampleExchange : Exchange :=
  { d0 := [1, 2, 3, 4, 5, 6, 7, 8], c := [0xc], retry := some ([0xaa, 0xbb], 4), s := [0x51],
    post := [.retry [0xee] true 9, .serverInitial [0x66], .laterServerPacket [0x51], .laterServerPacket [0x67], .unauthenticated] }

example : ((Client.connect sampleExchange.d0).run sampleExchange.clientEvents) =
    { initialDst := [1, 2, 3, 4, 5, 6, 7, 8], origRem := [0x51], remHandshake := [0x51], retrySrc := some [0xaa, 0xbb],
      active := [0x51], remCidSet := true, authed := 5, processed := 2 } := by decide
example : honestEcho sampleExchange.serverView = ⟨some [0x51], some [1, 2, 3, 4, 5, 6, 7, 8], some [0xaa, 0xbb]⟩ := by decide
example : sampleExchange.serverView.dcid = [0xaa, 0xbb] := by decide

-- a forged Retry followed by the client; the honest server (which sent none) echoes `none`: rejected
example : accept .client (((Client.connect [1]).step (.retry [0xee] true 3)).run [.serverInitial [5]]).cids
    (honestEcho { dcid := [0xee], clientScid := [0xc], retryToken := none, locCid := [5] }) = false := by decide
-- the Retry test: tag, token, earlier server packet
example : (Client.connect [1]).followsRetry true 1 = true ∧ (Client.connect [1]).followsRetry false 1 = false ∧
    (Client.connect [1]).followsRetry true 0 = false ∧
    ((Client.connect [1]).step (.laterServerPacket [2])).followsRetry true 1 = false := by decide

end QM.Props.C14_echo
