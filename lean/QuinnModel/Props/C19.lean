import QuinnModel.Lemmas.Udp
import QuinnModel.Lemmas.UdpSend
/-
C19 — The UDP layer preserves boundaries, payload and metadata.   (property theorems only; PARTIAL)
Proved: the arithmetic the Rust code is responsible for.  Assumed (validated on loopback sockets by the
harness, not provable here): the kernel's GSO/GRO contract `wireDatagrams` and that it reports the stride.
-/
namespace QM.Props.C19
open QM QM.Udp

/-- a coalesced receive batch (every datagram `stride` bytes, the last 1..stride) is split back into exactly
    the original datagrams by the stride loop, for every batch and stride (also stride ≥ total length) -/
theorem stride_split_inverse {α : Type} (stride : Nat) (hs : 0 < stride) (segs : List (List α)) (h : WF stride segs) :
    splitByStride stride segs.flatten.length segs.flatten = segs :=
  split_concat stride hs segs segs.flatten.length h (Nat.le_refl _)

/-- under the kernel contract, what is sent with segmentation offload and received coalesced with the same
    stride is split back into the datagrams that were put on the wire -/
theorem gso_then_split_roundtrip {α : Type} (seg : Nat) (hs : 0 < seg) (contents : List α) (hc : contents ≠ []) :
    (wireDatagrams contents (some seg)).flatten = contents ∧ WF seg (wireDatagrams contents (some seg)) :=
  wire_wf seg hs contents hc

/-- the number of datagrams of a segmented transmit is ceil(len / seg), all of size seg except the last -/
theorem segments_count {α : Type} (seg : Nat) (hs : 0 < seg) (contents : List α) (hc : contents ≠ []) :
    (wireDatagrams contents (some seg)).length = (contents.length + seg - 1) / seg :=
  wire_count seg hs contents hc

/-- `effective_segment_size` is None exactly when one datagram suffices -/
theorem effective_segment_size_spec (seg : Option Nat) (len : Nat) :
    effectiveSegmentSize seg len = none ↔ (seg = none ∨ ∃ s, seg = some s ∧ len ≤ s) :=
  effective_none_iff seg len

/-- the segmentation decision at full strength: offload with segment size `s` is requested exactly when
    the transmit gives `s` and `s < len` (i.e. whenever there is more than one datagram, including one
    full segment plus a short last one) -/
theorem effective_segment_size_some_iff (seg : Option Nat) (len s : Nat) :
    effectiveSegmentSize seg len = some s ↔ (seg = some s ∧ s < len) :=
  effective_some_iff seg len s

/-- for EVERY (len, segment size): under the kernel contract what `effective_segment_size` makes the
    kernel put on the wire is exactly the datagrams the transmit describes (`contents.chunks(s)`: full
    segments and a possibly shorter last one — never merged), their concatenation is the contents, and
    the receiver-side stride split of the (coalesced) received buffer is the inverse: it returns those
    datagrams again -/
theorem segmentation_decision_roundtrip {α : Type} (s : Nat) (hs : 0 < s) (contents : List α) (hc : contents ≠ []) :
    wireDatagrams contents (effectiveSegmentSize (some s) contents.length)
        = splitByStride s contents.length contents
    ∧ (wireDatagrams contents (effectiveSegmentSize (some s) contents.length)).flatten = contents
    ∧ splitByStride (recvStride (effectiveSegmentSize (some s) contents.length) contents.length)
        contents.length contents
        = wireDatagrams contents (effectiveSegmentSize (some s) contents.length) :=
  segmentation_roundtrip s hs contents hc

/-- Linux send path, any kernel behaviour: when `send` returns Ok every datagram the transmit describes
    was accepted by the kernel, in order, with its own boundaries (never silently dropped: the
    alternative is an error return, which `try_send` reports and `UdpSocketState::send` logs) -/
theorem send_ok_delivers_all (k : Kernel) (t : Tx) (hv : t.valid) (fuel : Nat) (st : SockSt) (calls : Nat)
    (h : (send k t fuel st calls).ret = none) : (send k t fuel st calls).wire = described t :=
  send_ok k t hv fuel st calls h

/-- "when an offload is unsupported the layer degrades to plain sends without losing, merging or
    truncating datagrams": on a kernel path that answers EIO|EINVAL to every UDP_SEGMENT message a batch is
    re-sent datagram by datagram — `send` returns Ok, exactly the described datagrams are on the wire,
    each still carries the ECN codepoint, `sendmsg_einval` is not entered, offload is halted -/
theorem gso_refused_degrades_to_plain_sends (k : Kernel) (hk : refusesGso k) (t : Tx) (hv : t.valid)
    (fuel : Nat) (st : SockSt) (calls : Nat) :
    (send k t (fuel + 2) st calls).ret = none
    ∧ (send k t (fuel + 2) st calls).wire = described t
    ∧ (send k t (fuel + 2) st calls).st.einval = st.einval
    ∧ (st.einval = false → (send k t (fuel + 2) st calls).ecnOk = true)
    ∧ ((effectiveSegmentSize t.seg t.len).isSome = true → (send k t (fuel + 2) st calls).st.maxGso ≤ 1) :=
  send_refusesGso k hk t hv fuel st calls

/-- the GSO fallback never disables ECN for later sends: unless the kernel answers EIO|EINVAL to a message
    WITHOUT UDP_SEGMENT, no `send` call enters the `sendmsg_einval` mode (IP_TOS omitted on IPv4) -/
theorem gso_fallback_keeps_ecn (k : Kernel) (hk : ∀ m n, m.segs = none → k m n ≠ .refused) (t : Tx)
    (fuel : Nat) (st : SockSt) (calls : Nat) : (send k t fuel st calls).st.einval = st.einval :=
  send_einval k hk t fuel st calls

/-- the degradation clause as a statement about a send function; it holds for the repaired code ... -/
theorem send_degrades_statement : degrades_statement send := send_degrades

/-- ... and was FALSE for the code before the repair (audit SD-11): the refused batch `oldSendWitness`
    (3 x 100 bytes, IPv4) was retried with UDP_SEGMENT still attached, dropped, and left the socket in the
    `sendmsg_einval` mode -/
theorem old_send_counterexample : ¬ degrades_statement sendOld := sendOld_not_degrades

/-- for every combination of options the control messages `prepare_msg` encodes fit the control buffer, so
    `Encoder::push` never hits its assertion (finite table, all combinations) -/
theorem cmsg_fits : ∀ o ∈ allOpts, controlLen o ≤ Gen.cmsgLen :=
  cmsg_fits_all

theorem allOpts_complete (o : SendOpts) : o ∈ allOpts := allOpts_mem o

/-- receive side: for every combination of the control messages the kernel attaches to a (possibly
    GRO-coalesced) received message under the socket options quinn-udp enables, they fit the control buffer,
    so nothing (ECN, destination address, stride) is lost to truncation -/
theorem recv_cmsg_fits : ∀ o ∈ allRecvOpts, recvControlLen o ≤ Gen.cmsgLen :=
  recv_cmsg_fits_all

theorem allRecvOpts_complete (o : RecvOpts) : o ∈ allRecvOpts := allRecvOpts_mem o

-- non-vacuity
example : splitByStride 3 8 [1,2,3,4,5,6,7,8] = [[1,2,3],[4,5,6],[7,8]] := by decide
example : WF 3 [[1,2,3],[4,5,6],[7,8]] := by simp [WF]
example : controlLen ⟨false, false, true, some false⟩ = 88 := by decide
example : effectiveSegmentSize (some 1200) 1201 = some 1200 ∧ effectiveSegmentSize (some 1200) 1200 = none := by decide
example : wireDatagrams [1,2,3,4,5] (effectiveSegmentSize (some 3) 5) = [[1,2,3],[4,5]] := by decide
example : (send gsoRefusingKernel ⟨true, some 100, 250⟩ 8 ⟨64, false⟩ 0) = ⟨⟨1, false⟩, 4, [100, 100, 50], true, none⟩ := by decide
example : refusesGso gsoRefusingKernel ∧ Tx.valid ⟨true, some 100, 250⟩ :=
  ⟨gsoRefusingKernel_refusesGso, by decide, by intro s hs; cases hs; decide⟩
example : sendOld gsoRefusingKernel oldSendWitness 8 ⟨64, false⟩ 0 = ⟨⟨1, true⟩, 2, [], true, some .refused⟩ := oldSendWitness_run
example : recvControlLen ⟨false, true, true⟩ = 120 ∧ recvControlLen ⟨true, true, true⟩ = 112 := by decide

end QM.Props.C19
