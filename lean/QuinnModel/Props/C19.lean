import QuinnModel.Lemmas.Udp
/-
C19 — The UDP layer preserves boundaries, payload and metadata.   (property theorems only; PARTIAL)
Proved: the arithmetic the Rust code is responsible for.  Assumed (validated on loopback sockets by the
harness, not provable here): the kernel's GSO/GRO contract `wireDatagrams` and that it reports the stride.
-/
namespace QM.Props.C19
open QM QM.Udp

/-- a coalesced receive batch (every datagram `stride` bytes, the last 1..stride) is split back into exactly
    the original datagrams by the stride loop, for every batch and stride (also stride ≥ total length) -/
theorem stride_split_inverse {α : Type} (stride : Nat) (hs : 0 < stride) (segs : List (List α)) (h : WF stride segs) :
    splitByStride stride segs.flatten.length segs.flatten = segs :=
  split_concat stride hs segs segs.flatten.length h (Nat.le_refl _)

/-- under the kernel contract, what is sent with segmentation offload and received coalesced with the same
    stride is split back into the datagrams that were put on the wire -/
theorem gso_then_split_roundtrip {α : Type} (seg : Nat) (hs : 0 < seg) (contents : List α) (hc : contents ≠ []) :
    (wireDatagrams contents (some seg)).flatten = contents ∧ WF seg (wireDatagrams contents (some seg)) :=
  wire_wf seg hs contents hc

/-- the number of datagrams of a segmented transmit is ceil(len / seg), all of size seg except the last -/
theorem segments_count {α : Type} (seg : Nat) (hs : 0 < seg) (contents : List α) (hc : contents ≠ []) :
    (wireDatagrams contents (some seg)).length = (contents.length + seg - 1) / seg :=
  wire_count seg hs contents hc

/-- `effective_segment_size` is None exactly when one datagram suffices -/
theorem effective_segment_size_spec (seg : Option Nat) (len : Nat) :
    effectiveSegmentSize seg len = none ↔ (seg = none ∨ ∃ s, seg = some s ∧ len ≤ s) :=
  effective_none_iff seg len

/-- for every combination of options the control messages `prepare_msg` encodes fit the control buffer, so
    `Encoder::push` never hits its assertion (finite table, all combinations) -/
theorem cmsg_fits : ∀ o ∈ allOpts, controlLen o ≤ Gen.cmsgLen :=
  cmsg_fits_all

theorem allOpts_complete (o : SendOpts) : o ∈ allOpts := allOpts_mem o

/-- receive side: for every combination of the control messages the kernel attaches to a (possibly
    GRO-coalesced) received message under the socket options quinn-udp enables, they fit the control buffer,
    so nothing (ECN, destination address, stride) is lost to truncation -/
theorem recv_cmsg_fits : ∀ o ∈ allRecvOpts, recvControlLen o ≤ Gen.cmsgLen :=
  recv_cmsg_fits_all

theorem allRecvOpts_complete (o : RecvOpts) : o ∈ allRecvOpts := allRecvOpts_mem o

-- non-vacuity
example : splitByStride 3 8 [1,2,3,4,5,6,7,8] = [[1,2,3],[4,5,6],[7,8]] := by decide
example : WF 3 [[1,2,3],[4,5,6],[7,8]] := by simp [WF]
example : controlLen ⟨false, false, true, some false⟩ = 88 := by decide
example : recvControlLen ⟨false, true, true⟩ = 120 ∧ recvControlLen ⟨true, true, true⟩ = 112 := by decide

end QM.Props.C19
