import QuinnModel.Lemmas.VarInt
import QuinnModel.Lemmas.PacketNumber
/-
C10 — Wire encodings round-trip and decoders are total.   (property theorems only)
Every decoder in the model is a total Lean function returning Option; the theorems below give the
round trips and the "never reads past the buffer" bounds.
-/
namespace QM.Props.C10
open QM

/-- varint: decoding an encoding (followed by anything) yields the value and exactly the rest -/
theorem varint_roundtrip (x : Nat) (r : Bytes) (h : x < 2^62) :
    ∃ e, VarInt.encode x = some e ∧ VarInt.decode (e ++ r) = some (x, r) :=
  VarInt.decode_encode x r h

/-- varint: `size` is the length of the encoding -/
theorem varint_size (x : Nat) (h : x < 2^62) :
    ∃ e s, VarInt.encode x = some e ∧ VarInt.size x = some s ∧ e.length = s :=
  VarInt.size_eq_encode_length x h

/-- varint decoder on arbitrary bytes: value < 2^62, consumes ≥ 1 byte, remainder is a suffix -/
theorem varint_decode_total (bs : Bytes) (h : VarInt.WF bs) (v : Nat) (r : Bytes)
    (hd : VarInt.decode bs = some (v, r)) : v < 2^62 ∧ r.length < bs.length ∧ ∃ pre, bs = pre ++ r :=
  VarInt.decode_sound bs h v r hd

/-- a truncated packet number decodes to the number that was sent for every receiver state inside
    the protocol's window (all four lengths) -/
theorem pn_expand_correct (len n expected : Nat) (hl : len = 1 ∨ len = 2 ∨ len = 3 ∨ len = 4)
    (hn : n < 2^62) (hlo : expected < n + PacketNumber.winOf len / 2)
    (hhi : n ≤ expected + PacketNumber.winOf len / 2) :
    PacketNumber.expand (len, n % PacketNumber.winOf len) expected = some n :=
  PacketNumber.expand_window len n expected hl hn hlo hhi

/-- the sender's length choice always suffices for a receiver between largest-acked and n -/
theorem pn_new_sufficient (n la r : Nat) (hn : n < 2^62) (h1 : la ≤ r) (h2 : r < n)
    (hr : (n - la) * 2 < 2^32) :
    ∃ p, PacketNumber.new n la = some p ∧ (p.1 = 1 ∨ p.1 = 2 ∨ p.1 = 3 ∨ p.1 = 4) ∧
      PacketNumber.expand (p.1, p.2 % PacketNumber.winOf p.1) (r + 1) = some n :=
  PacketNumber.new_sufficient n la r hn h1 h2 hr

/-- packet-number bytes: decode ∘ encode keeps the low `len` bytes and consumes exactly `len` -/
theorem pn_wire_roundtrip (p : Nat × Nat) (r : Bytes) :
    PacketNumber.decode p.1 (PacketNumber.encode p ++ r) = some ((p.1, p.2 % 256 ^ p.1), r) :=
  PacketNumber.decode_encode p r

-- non-vacuity: concrete instances meeting the hypotheses
example : VarInt.decode ([0x7b, 0xbd] ++ [1,2]) = some (15293, [1,2]) := by decide
example : (300 : Nat) < 2^62 ∧ 200 < 300 + PacketNumber.winOf 1 / 2 ∧ 300 ≤ 200 + PacketNumber.winOf 1 / 2 := by
  simp [PacketNumber.winOf]
example : PacketNumber.expand (1, 300 % 256) 200 = some 300 := by decide

end QM.Props.C10
