import QuinnModel.Lemmas.StreamsC05Facts
/-
C05 — A sender never exceeds the limits its peer advertised.   (property theorems only)

`Reach c h s`: `s` is reachable from `StreamsState::new(c)` by the history `h` (operations with their
results, newest first): any interleaving of application calls, peer frames, acknowledgements,
losses, transmissions, window changes; `set_params` wherever it is admissible (`ParamsOk`: always as
the first operation). Peer limits are ghost maxima of the values that actually arrived
(`peerMaxData`, `peerStreamLimit`, `peerMaxStreams`); `totalAccepted h` is the number of bytes `write`
accepted = the sum over all streams of the highest offset.
-/
namespace QM.Props.C05
open QM QM.Streams

/-- on every stream the highest offset never exceeds the stream limit, which never exceeds the largest
    limit the peer conveyed for that stream -/
theorem snd_stream_limit {c : Config} {h : Hist} {s : State} (r : Reach c h s) (id : Nat) (x : Send)
    (hx : s.send.find? id = some (some x)) :
    x.pending.offset ≤ x.maxData ∧ x.maxData ≤ peerStreamLimit c.side id h :=
  (reach_inv r).stream id x.credit (by simp only [State.vw, State.cv, hx])

/-- the sum of the highest offsets (= all bytes ever accepted = `data_sent`) never exceeds the largest
    connection limit conveyed, and `max_data` is exactly that largest value -/
theorem snd_conn_limit {c : Config} {h : Hist} {s : State} (r : Reach c h s) :
    s.dataSent = totalAccepted h ∧ totalAccepted h ≤ peerMaxData h ∧ s.maxData = peerMaxData h := by
  have i := reach_inv r
  have h1 : s.dataSent = totalAccepted h := i.sent
  have h2 : s.maxData = peerMaxData h := i.maxData
  have h3 : s.dataSent ≤ s.maxData := i.sent_le
  exact ⟨h1, by omega, h2⟩

/-- streams opened per direction never exceed the largest stream-count limit conveyed -/
theorem snd_stream_count {c : Config} {h : Hist} {s : State} (r : Reach c h s) (d : Dir) :
    s.next.get d ≤ peerMaxStreams d h ∧ s.max.get d = peerMaxStreams d h := by
  have i := reach_inv r
  have h1 : s.next.get d ≤ s.max.get d := i.next_le d
  have h2 : s.max.get d = peerMaxStreams d h := i.max d
  exact ⟨by omega, h2⟩

/-- `write` on an open, unstopped stream of an open connection returns `Blocked` exactly when the
    credit (as the code computes it: min of connection credit, send-window room and stream credit) is
    zero, and otherwise accepts exactly `min(n, credit)` bytes -/
theorem write_accepts_min {s s' s1 : State} {id n : Nat} {x : Send} {r : Except WriteErr Nat}
    (h : s.write id n = some (s', r)) (hg : s.getOrInsertSend id = some (x, s1))
    (hc : s.connClosed = false) (hw : x.isWritable = true) (hs : x.stopReason = none) :
    r = if s.writeCredit x = 0 then .error .blocked else .ok (Nat.min n (s.writeCredit x)) :=
  write_decision h hg hc hw hs

/-- `open` returns nothing exactly while no stream credit remains (or the connection is closed) -/
theorem open_none_iff {s s' : State} {d : Dir} {r : Option Nat} (h : s.open_ d = some (s', r)) :
    r = none ↔ (s.connClosed = true ∨ s.max.get d ≤ s.next.get d) :=
  Streams.open_none_iff h

/-- new writes never take `unacked_data` past the configured send window -/
theorem snd_window {s s' : State} {id n k : Nat} (h : s.write id n = some (s', .ok k)) :
    s'.unackedData = s.unackedData + k ∧ k ≤ s.sendWindow - s.unackedData :=
  write_send_window h

/-- loss, retransmission, (re)transmission and acknowledgement consume no credit: connection
    accounting and every surviving stream's offset and limit are unchanged -/
theorem retransmit_not_counted {s s' : State} {o : Op} {out : Out} (h : step s o = some (s', out))
    (ho : (match o with
      | .lost .. | .transmit .. | .ack .. | .rstAck _ | .rtx0 => true
      | _ => false) = true) :
    s'.dataSent = s.dataSent ∧ s'.maxData = s.maxData ∧
    ∀ id x', s'.send.find? id = some (some x') →
      (∃ x, s.send.find? id = some (some x) ∧ x'.pending.offset = x.pending.offset ∧ x'.maxData = x.maxData) ∨
      x'.pending.offset = 0 := by
  have f : Frame s s' := by
    apply frame_step h <;> (cases o <;> simp [Op.isCredit, Op.isGhost, Op.isRestart] at ho ⊢)
  have hc := f.v.core
  refine ⟨congrArg Core.dataSent hc, congrArg Core.maxData hc, ?_⟩
  intro id x' hx'
  rcases f.v.rel id x'.credit (by simp only [State.vw, State.cv, hx']) with hh | hh
  · left
    simp only [State.vw, State.cv] at hh
    split at hh
    · rename_i x hx
      simp only [Option.some.injEq, Send.credit, Prod.mk.injEq] at hh
      exact ⟨x, hx, hh.1.symm, hh.2.symm⟩
    · simp at hh
  · right; simp only [Send.credit, Prod.mk.injEq] at hh; exact hh.1

/-- `reset` returns the stream's unacknowledged bytes to the send window -/
theorem reset_restores_window {s s' : State} {id code : Nat} (h : s.reset id code = some (s', true)) :
    ∃ x s1 u, s.getOrInsertSend id = some (x, s1) ∧ x.pending.unacked = some u ∧
      s'.unackedData + u = s.unackedData :=
  Streams.reset_restores_window h

/-! ### 0-RTT rejection: limits must restart from the newly negotiated values -/

/-- after `zero_rtt_rejected` + `set_params p` the connection-level credit is the new one and no
    unacknowledged data is accounted (as on a fresh connection) -/
def rejected_limits_are_new_statement : Prop :=
  ∀ (s s1 : State) (h : Hist) (c : Config) (p : Params),
    Reach c h s → s.zeroRttRejected = some s1 →
    (s1.setParams p).maxData = p.initialMaxData ∧ (s1.setParams p).unackedData = 0

/-- what the code does instead: `max_data` keeps the larger remembered value and `unacked_data`
    keeps counting the bytes written in the rejected 0-RTT phase -/
theorem rejected_limits_are_new_partial {s s1 : State} (p : Params)
    (h : s.zeroRttRejected = some s1) :
    (s1.setParams p).maxData = Nat.max s.maxData p.initialMaxData ∧
    (s1.setParams p).unackedData = s.unackedData ∧
    (s1.setParams p).dataSent = 0 ∧ (s1.setParams p).next = ⟨0, 0⟩ ∧
    (s1.setParams p).max = ⟨p.initialMaxStreamsBidi, p.initialMaxStreamsUni⟩ :=
  rejected_then_params p h

/-- F10: the remembered limit survives the rejection, and a write beyond the new limit is accepted -/
theorem rejected_max_data_counterexample :
    (runOps State.initial [] F10_ops).map (fun r => (r.1.maxData, r.1.dataSent, peerMaxDataSince r.2)) =
      some (1000000, 10000, 2000) := by decide

/-- F11: `unacked_data` is not reset -/
theorem rejected_unacked_counterexample :
    (runOps State.initial [] F11_ops).map (fun r => (r.1.unackedData, r.1.dataSent)) = some (13, 0) := by
  decide

theorem rejected_limits_are_new_counterexample : ¬ rejected_limits_are_new_statement := by
  intro hst
  -- the state after `new; params(remembered 1 000 000)`
  have r := reach_start ⟨.client, 0, 0, 1000000, 1000000, 1000000⟩
    ⟨100000, 100000, 100000, 10, 10, 1000000⟩ (by decide)
  have := (hst _ ((State.zeroRttRejected _).get (by decide)) _ _ ⟨100000, 100000, 100000, 10, 10, 2000⟩ r
    (Option.some_get _).symm).1
  revert this
  decide

-- non-vacuity: a reachable state with data written, a finished stream and credit consumed
example : ∃ s h, Reach ⟨.client, 2, 2, 1000, 1000, 1000⟩ h s ∧ s.dataSent = 250 ∧ peerMaxData h = 400 := by
  have r := reach_start ⟨.client, 2, 2, 1000, 1000, 1000⟩ ⟨100, 200, 300, 4, 5, 100⟩ (by decide)
  have r2 := reach_run' r [.open_ .bi, .write 0 150, .maxData 400, .write 0 150, .finish 0, .transmit 1200 true]
    (by decide) (by decide)
  exact ⟨_, _, r2, by decide, by decide⟩

end QM.Props.C05
