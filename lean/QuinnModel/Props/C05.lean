import QuinnModel.Lemmas.StreamsC05Facts
/-
C05 — A sender never exceeds the limits its peer advertised.   (property theorems only)

`Reach c h s`: `s` is reachable from `StreamsState::new(c)` by the history `h` (operations with their
results, newest first): any interleaving of application calls, peer frames, acknowledgements,
losses, transmissions, window changes; `set_params` wherever it is admissible (`ParamsOk`: always as
the first operation); and the 0-RTT rejection (`Reach.rejected`) after early operations, followed by
`set_params` with arbitrary — also smaller — newly negotiated limits. Peer limits are ghost maxima of the values that actually arrived
(`peerMaxData`, `peerStreamLimit`, `peerMaxStreams`); `totalAccepted h` is the number of bytes `write`
accepted = the sum over all streams of the highest offset.
-/
namespace QM.Props.C05
open QM QM.Streams

/-- on every stream the highest offset never exceeds the stream limit, which never exceeds the largest
    limit the peer conveyed for that stream -/
theorem snd_stream_limit {c : Config} {h : Hist} {s : State} (r : Reach c h s) (id : Nat) (x : Send)
    (hx : s.send.find? id = some (some x)) :
    x.pending.offset ≤ x.maxData ∧ x.maxData ≤ peerStreamLimit c.side id h :=
  (reach_inv r).stream id x.credit (by simp only [State.vw, State.cv, hx])

/-- the sum of the highest offsets (= all bytes ever accepted = `data_sent`) never exceeds the largest
    connection limit conveyed, and `max_data` is exactly that largest value -/
theorem snd_conn_limit {c : Config} {h : Hist} {s : State} (r : Reach c h s) :
    s.dataSent = totalAccepted h ∧ totalAccepted h ≤ peerMaxData h ∧ s.maxData = peerMaxData h := by
  have i := reach_inv r
  have h1 : s.dataSent = totalAccepted h := i.sent
  have h2 : s.maxData = peerMaxData h := i.maxData
  have h3 : s.dataSent ≤ s.maxData := i.sent_le
  exact ⟨h1, by omega, h2⟩

/-- streams opened per direction never exceed the largest stream-count limit conveyed -/
theorem snd_stream_count {c : Config} {h : Hist} {s : State} (r : Reach c h s) (d : Dir) :
    s.next.get d ≤ peerMaxStreams d h ∧ s.max.get d = peerMaxStreams d h := by
  have i := reach_inv r
  have h1 : s.next.get d ≤ s.max.get d := i.next_le d
  have h2 : s.max.get d = peerMaxStreams d h := i.max d
  exact ⟨by omega, h2⟩

/-- `write` on an open, unstopped stream of an open connection returns `Blocked` exactly when the
    credit (as the code computes it: min of connection credit, send-window room and stream credit) is
    zero, and otherwise accepts exactly `min(n, credit)` bytes -/
theorem write_accepts_min {s s' s1 : State} {id n : Nat} {x : Send} {r : Except WriteErr Nat}
    (h : s.write id n = some (s', r)) (hg : s.getOrInsertSend id = some (x, s1))
    (hc : s.connClosed = false) (hw : x.isWritable = true) (hs : x.stopReason = none) :
    r = if s.writeCredit x = 0 then .error .blocked else .ok (Nat.min n (s.writeCredit x)) :=
  write_decision h hg hc hw hs

/-- `open` returns nothing exactly while no stream credit remains (or the connection is closed) -/
theorem open_none_iff {s s' : State} {d : Dir} {r : Option Nat} (h : s.open_ d = some (s', r)) :
    r = none ↔ (s.connClosed = true ∨ s.max.get d ≤ s.next.get d) :=
  Streams.open_none_iff h

/-- new writes never take `unacked_data` past the configured send window -/
theorem snd_window {s s' : State} {id n k : Nat} (h : s.write id n = some (s', .ok k)) :
    s'.unackedData = s.unackedData + k ∧ k ≤ s.sendWindow - s.unackedData :=
  write_send_window h

/-- loss, retransmission, (re)transmission and acknowledgement consume no credit: connection
    accounting and every surviving stream's offset and limit are unchanged -/
theorem retransmit_not_counted {s s' : State} {o : Op} {out : Out} (h : step s o = some (s', out))
    (ho : (match o with
      | .lost .. | .transmit .. | .ack .. | .rstAck _ | .rtx0 => true
      | _ => false) = true) :
    s'.dataSent = s.dataSent ∧ s'.maxData = s.maxData ∧
    ∀ id x', s'.send.find? id = some (some x') →
      (∃ x, s.send.find? id = some (some x) ∧ x'.pending.offset = x.pending.offset ∧ x'.maxData = x.maxData) ∨
      x'.pending.offset = 0 := by
  have f : Frame s s' := by
    apply frame_step h <;> (cases o <;> simp [Op.isCredit, Op.isGhost, Op.isRestart] at ho ⊢)
  have hc := f.v.core
  refine ⟨congrArg Core.dataSent hc, congrArg Core.maxData hc, ?_⟩
  intro id x' hx'
  rcases f.v.rel id x'.credit (by simp only [State.vw, State.cv, hx']) with hh | hh
  · left
    simp only [State.vw, State.cv] at hh
    split at hh
    · rename_i x hx
      simp only [Option.some.injEq, Send.credit, Prod.mk.injEq] at hh
      exact ⟨x, hx, hh.1.symm, hh.2.symm⟩
    · simp at hh
  · right; simp only [Send.credit, Prod.mk.injEq] at hh; exact hh.1

/-- `reset` returns the stream's unacknowledged bytes to the send window -/
theorem reset_restores_window {s s' : State} {id code : Nat} (h : s.reset id code = some (s', true)) :
    ∃ x s1 u, s.getOrInsertSend id = some (x, s1) ∧ x.pending.unacked = some u ∧
      s'.unackedData + u = s.unackedData :=
  Streams.reset_restores_window h

/-! ### 0-RTT rejection: limits restart from the newly negotiated values

All theorems above hold for histories that contain a rejection (`Reach.rejected`: early operations,
then `zero_rtt_rejected` + `set_params p` with ANY `p`, in particular smaller limits than the
remembered ones): the ghost maxima restart at the rejection, so "conveyed" then means conveyed by
the new parameters or by frames received afterwards. -/

/-- after `zero_rtt_rejected` + `set_params p` the connection-level credit is exactly the newly
    negotiated one, nothing counts as sent or unacknowledged, and stream numbering restarts -/
theorem rejected_limits_are_new {s s1 : State} (p : Params) (h : s.zeroRttRejected = some s1) :
    (s1.setParams p).maxData = p.initialMaxData ∧ (s1.setParams p).unackedData = 0 ∧
    (s1.setParams p).dataSent = 0 ∧ (s1.setParams p).next = ⟨0, 0⟩ ∧
    (s1.setParams p).max = ⟨p.initialMaxStreamsBidi, p.initialMaxStreamsUni⟩ := by
  obtain ⟨z1, z2, z3, z4, _⟩ := zeroRttRejected_scalars h
  simp only [State.setParams, State.receivedMaxData, z1, z2, z3, z4, natMax_eq, Nat.zero_max, and_self]

/-- after a rejection only the new limit counts: as long as no MAX_DATA frame arrives, everything
    written since stays within the newly negotiated `initial_max_data`, whatever was remembered -/
theorem rejected_then_bounded {c : Config} {h h' : Hist} {s' : State} {p : Params}
    (r' : Reach c (h' ++ (.params p, .ok) :: (.rejected, .ok) :: h) s')
    (hno : ∀ e ∈ h', (match e.1 with | .maxData _ | .params _ | .rejected => false | _ => true) = true) :
    s'.dataSent ≤ p.initialMaxData := by
  have i := (snd_conn_limit r')
  have hp : peerMaxData (h' ++ (.params p, .ok) :: (.rejected, .ok) :: h) = p.initialMaxData := by
    clear i r'
    induction h' with
    | nil => simp [peerMaxData, natMax_eq]
    | cons e t ih =>
      obtain ⟨o, out⟩ := e
      have ho := hno (o, out) (List.mem_cons_self ..)
      have iht := ih (fun e he' => hno e (List.mem_cons_of_mem _ he'))
      cases o <;> simp at ho <;> simpa [peerMaxData] using iht
  omega

-- non-vacuity: a reachable state with data written, a finished stream and credit consumed
example : ∃ s h, Reach ⟨.client, 2, 2, 1000, 1000, 1000⟩ h s ∧ s.dataSent = 250 ∧ peerMaxData h = 400 := by
  have r := reach_start ⟨.client, 2, 2, 1000, 1000, 1000⟩ ⟨100, 200, 300, 4, 5, 100⟩ (by decide)
  have r2 := reach_run' r [.open_ .bi, .write 0 150, .maxData 400, .write 0 150, .finish 0, .transmit 1200 true]
    (by decide) (by decide)
  exact ⟨_, _, r2, by decide, by decide⟩

-- non-vacuity: the former F10/F11 history — remembered max_data 1 000 000, 13 bytes written in 0-RTT,
-- rejected, newly negotiated max_data 2 000 — is a reachable history, and a 10 000 byte write is cut to 2 000
example : ∃ s h, Reach ⟨.client, 0, 0, 1000000, 1000000, 1000000⟩ h s ∧ s.maxData = 2000 ∧
    s.dataSent = 2000 ∧ s.unackedData = 2000 ∧ peerMaxData h = 2000 := by
  have r := reach_start ⟨.client, 0, 0, 1000000, 1000000, 1000000⟩ ⟨100000, 100000, 100000, 10, 10, 1000000⟩ (by decide)
  have r1 := reach_run' r [.open_ .bi, .write 0 13] (by decide) (by decide)
  have r2 := Reach.rejected (p := ⟨100000, 100000, 100000, 10, 10, 2000⟩) r1 (by decide)
    (Option.some_get (by decide)).symm
  have r3 := reach_run' r2 [.open_ .bi, .write 0 10000] (by decide) (by decide)
  exact ⟨_, _, r3, by decide, by decide, by decide, by decide⟩

end QM.Props.C05
