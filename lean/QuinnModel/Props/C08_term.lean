import QuinnModel.Lemmas.Termination
/-
C08 — termination clauses not covered by Props/C08.lean: the negotiated idle timeout and the idle / closing periods
against the RFC text (`QuinnModel/Spec/Idle.lean`, written from RFC 9000 10.1 / 10.2 / 18.2 only; the functions and
factors on quinn's side are regenerated from the source), the three-PTO deadline for closes that are NOT local
(peer close, protocol error), and "the reason is reported at least once".
-/
namespace QM.Props.C08_term
open QM QM.Life

/-- the idle timeout quinn negotiates is the RFC's: the minimum of the two advertised non-zero values, the only
    one advertised, or none -/
theorem negotiated_idle_is_rfc (localMs peerMs : Option Nat) :
    Life.negotiatedIdle localMs peerMs = Spec.negotiatedIdle localMs peerMs :=
  negotiated_eq_spec localMs peerMs

/-- both endpoints compute the same value -/
theorem negotiated_idle_symmetric (a b : Option Nat) : Life.negotiatedIdle a b = Life.negotiatedIdle b a := by
  rw [negotiated_eq_spec, negotiated_eq_spec]
  rcases a with _ | (_ | a) <;> rcases b with _ | (_ | b) <;> simp [Spec.negotiatedIdle, Spec.advertised, Nat.min_comm]

/-- the idle period is the negotiated timeout raised to at least three probe timeouts: never shorter than the
    negotiated timeout ("no earlier than"), never longer than the larger of the two ("no later than") -/
theorem idle_period_is_rfc (timeout pto : Nat) :
    Life.idlePeriod timeout pto = max timeout (3 * pto) ∧ timeout ≤ Life.idlePeriod timeout pto := by
  rw [idlePeriod_eq_spec]
  exact ⟨rfl, Nat.le_max_left _ _⟩

/-- a connection whose idle timer was restarted at `now` does not time out before `now + negotiated timeout` -/
theorem idle_timeout_not_before_negotiated (l : L) (ho : l.st.isClosed = false) (now timeout pto t : Nat)
    (ht : t < now + timeout) :
    fireIdle (step l (.authed now (Life.idlePeriod timeout pto))) t = step l (.authed now (Life.idlePeriod timeout pto)) := by
  have hle := (idle_period_is_rfc timeout pto).2
  refine fireIdle_before _ (now + Life.idlePeriod timeout pto) t ?_ (by omega)
  simp [step, ho]

/-- the closing period is three probe timeouts -/
theorem closing_period_is_3pto (pto : Nat) : Life.closePeriod pto = 3 * pto := by
  rw [closePeriod_eq_spec]; rfl

/-- peer-initiated close: once the peer's CONNECTION_CLOSE is processed at `now`, whatever happens next the close
    timer stays at `now + 3·PTO` until the connection is drained … -/
theorem peer_close_deadline_kept (l : L) (hi : Inv l) (ho : l.st.isClosed = false) (now pto : Nat) (evs : List Ev)
    (hw : WD (step l (.peerClose now (Life.closePeriod pto))) evs) :
    Closing (now + 3 * pto) (run (step l (.peerClose now (Life.closePeriod pto))) evs) := by
  rw [closing_period_is_3pto] at *
  have hd : l.st = .drained → (Ev.peerClose now (3 * pto)).isPacket = false := by
    intro h; rw [h] at ho; simp [St.isClosed] at ho
  exact run_closing _ evs _ (step_inv l _ hi hd) hw (closing_after_peer_event l ho hi _ now (3 * pto) (Or.inl rfl))

/-- … the same for a close frame in an Initial/Handshake packet … -/
theorem peer_close_early_deadline_kept (l : L) (hi : Inv l) (ho : l.st.isClosed = false) (now pto : Nat) (evs : List Ev)
    (hw : WD (step l (.peerCloseEarly now (Life.closePeriod pto))) evs) :
    Closing (now + 3 * pto) (run (step l (.peerCloseEarly now (Life.closePeriod pto))) evs) := by
  rw [closing_period_is_3pto] at *
  have hd : l.st = .drained → (Ev.peerCloseEarly now (3 * pto)).isPacket = false := by
    intro h; rw [h] at ho; simp [St.isClosed] at ho
  exact run_closing _ evs _ (step_inv l _ hi hd) hw (closing_after_peer_event l ho hi _ now (3 * pto) (Or.inr (Or.inl rfl)))

/-- … and for a protocol error (or any other error of packet processing) on an open connection -/
theorem pkt_err_deadline_kept (l : L) (hi : Inv l) (ho : l.st.isClosed = false) (k : PktErr) (sp : Bool) (now pto : Nat)
    (evs : List Ev) (hw : WD (step l (.pktErr k now (Life.closePeriod pto) sp)) evs) :
    Closing (now + 3 * pto) (run (step l (.pktErr k now (Life.closePeriod pto) sp)) evs) := by
  rw [closing_period_is_3pto] at *
  have hd : l.st = .drained → (Ev.pktErr k now (3 * pto) sp).isPacket = false := by
    intro h; rw [h] at ho; simp [St.isClosed] at ho
  exact run_closing _ evs _ (step_inv l _ hi hd) hw (closing_after_peer_event l ho hi _ now (3 * pto) (Or.inr (Or.inr ⟨k, sp, rfl⟩)))

/-- (with `Props.C08.drained_within_3pto`: servicing the timers at or after that deadline drains it) -/
theorem peer_close_drained_within_3pto (l : L) (hi : Inv l) (ho : l.st.isClosed = false) (now pto t : Nat)
    (ht : now + 3 * pto ≤ t) (hw : WD (step l (.peerClose now (Life.closePeriod pto))) []) :
    (step (step l (.peerClose now (Life.closePeriod pto))) (.timeout t)).st = .drained := by
  have h := peer_close_deadline_kept l hi ho now pto [] hw
  have hd : l.st = .drained → (Ev.peerClose now (Life.closePeriod pto)).isPacket = false := by
    intro h; rw [h] at ho; simp [St.isClosed] at ho
  exact timeout_drains _ t _ (step_inv l _ hi hd) h ht

/-- "reports the reason … at least once": over every well-driven history, a connection that is drained and was never
    closed by its own application has had ConnectionLost delivered, or has it pending for the next poll -/
theorem drained_implies_reported (evs : List Ev) (hw : WD init evs)
    (hd : (run init evs).st = .drained) (hl : (run init evs).localClose = false) :
    1 ≤ (run init evs).lost + b2n (run init evs).error :=
  run_reported evs init init_inv hw init_reported (by rw [hd]; rfl) hl

/-- … and polling delivers it: afterwards exactly the count is at least one and nothing is pending -/
theorem drained_then_poll_delivers (evs : List Ev) (hw : WD init evs)
    (hd : (run init evs).st = .drained) (hl : (run init evs).localClose = false) :
    1 ≤ (step (run init evs) .poll).lost ∧ (step (run init evs) .poll).error = false := by
  have h := drained_implies_reported evs hw hd hl
  cases he : (run init evs).error <;> simp_all [step, b2n]

-- non-vacuity
example : Life.negotiatedIdle (some 30000) (some 2000) = some 2000 := by decide
example : Life.negotiatedIdle none (some 0) = none := by decide
example : Life.negotiatedIdle (some 0) (some 300) = some 300 := by decide
example : Life.idlePeriod 300 250 = 750 := by decide
example : (run init [.established, .authed 5 1000, .timeout 1005]).st = .drained
    ∧ (run init [.established, .authed 5 1000, .timeout 1005]).localClose = false := by decide
example : WD init [.established, .authed 5 1000, .timeout 1005] := by
  simp [WD, step, init, St.isClosed, stopTimers, fireIdle, fireClose, Ev.isPacket]
example : Closing (10 + 3 * 7) (run (step (step init .established) (.peerClose 10 (Life.closePeriod 7))) [.pollTransmit, .poll]) := by
  simp [Closing, run, step, init, St.isClosed, stopTimers, afterPacket, closePeriod, Gen.closePtoFactor]

end QM.Props.C08_term
