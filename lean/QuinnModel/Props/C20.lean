import QuinnModel.Lemmas.Timers
import QuinnModel.Recovery.Pacing
import QuinnModel.Gen.Entropy
/-
C20 — The protocol core is deterministic and driven only by its inputs.   (property theorems only; PARTIAL)
A Lean model is a function of its inputs, so determinism of the MODEL is vacuous; what is proved here are the
algebraic facts the property names — time-translation equivariance of everything modelled that reads or
writes instants, spurious timeout calls being no-ops, one timeout call settling the modelled timers, a
drained connection being silent.  Absence of hidden inputs in the Rust (clock, entropy) is not a theorem about
behaviour: it is checked (a) STATICALLY: the T1 plugin `tools/gen.d/entropy.py` lists every construct of
quinn-proto's production code that reads a clock, OS entropy, the environment, a thread, or iterates a randomly
keyed std HashMap/HashSet (`Gen.hiddenInputs`), and `hidden_inputs_are_the_allowlisted_ones` pins that list to
the committed, individually justified allowlist (configuration constructors, pluggable CID generators, the
default TimeSource, qlog, lookup-only hash maps); (b) differentially by the simulator (`determ`: replay, shifted
replay, spurious calls; `determcc`: the controller-visible state of every congestion controller across replays).
-/
namespace QM.Props.C20
open QM

/-- timer table: shifting every deadline and `now` by `d` shifts `next_timeout` by `d` … -/
theorem timer_next_shift (d : Nat) (t : Timers.Table) :
    Timers.nextTimeout (Timers.shift d t) = (Timers.nextTimeout t).map (· + d) :=
  Timers.nextTimeout_shift d t

/-- … fires exactly the same timers … -/
theorem timer_expired_shift (d : Nat) (t : Timers.Table) (now : Nat) :
    Timers.expired (Timers.shift d t) (now + d) = Timers.expired t now :=
  Timers.expired_shift d t now

/-- … and `set` commutes with the shift -/
theorem timer_set_shift (d : Nat) (t : Timers.Table) (i x : Nat) :
    Timers.set (Timers.shift d t) i (x + d) = Timers.shift d (Timers.set t i x) :=
  Timers.set_shift d t i x

/-- lifecycle (close / idle timers, every event carrying an instant): shifting every supplied instant by a
    constant shifts every stored instant by the same constant and changes nothing else, over whole histories -/
theorem lifecycle_shift_equivariant (d : Nat) (evs : List Life.Ev) (l : Life.L) :
    Life.run (Life.shiftL d l) (evs.map (Life.shiftEv d)) = Life.shiftL d (Life.run l evs) :=
  Life.run_shift d evs l

/-- an extra `handle_timeout` before any deadline is a no-op (timer table: nothing fires) -/
theorem spurious_timeout_fires_nothing (t : Timers.Table) (now : Nat)
    (h : ∀ i x, Timers.get t i = some x → now < x) : Timers.expired t now = [] :=
  Timers.expired_nil_of_future t now h

/-- … and leaves the lifecycle state untouched -/
theorem spurious_timeout_noop (l : Life.L) (now : Nat)
    (hc : ∀ t, l.closeTimer = some t → now < t) (hi : ∀ t, l.idleTimer = some t → now < t) :
    Life.step l (.timeout now) = l :=
  Life.timeout_noop l now hc hi

/-- servicing the timeout once at `now` leaves every modelled deadline strictly in the future -/
theorem timeout_settles (l : Life.L) (now : Nat) :
    (∀ t, (Life.step l (.timeout now)).closeTimer = some t → now < t) ∧
    (∀ t, (Life.step l (.timeout now)).idleTimer = some t → now < t) :=
  Life.timeout_settles l now

/-- the pacer never asks to be called again at the instant it was called: a wake-up it returns lies strictly
    in the future, for every RTT, token deficit and window (so the Pacing timer cannot re-arm at `now`) -/
theorem pacing_wakeup_strictly_future (now rtt deficit window t : Nat)
    (h : Pacing.tail now rtt deficit window = some t) : now < t := by
  unfold Pacing.tail at h
  simp only at h
  split at h
  · simp at h
  · rename_i hd
    simp only [Option.some.injEq] at h
    omega

/-- … and it is translation equivariant in `now` -/
theorem pacing_shift_equivariant (d now rtt deficit window : Nat) :
    Pacing.tail (now + d) rtt deficit window = (Pacing.tail now rtt deficit window).map (· + d) := by
  unfold Pacing.tail
  simp only
  split
  · simp
  · simp only [Option.map_some, Option.some.injEq]; omega

/-- what the repair (fix ecb8a58) removed: before it, a small RTT made the pacer return `now` itself — with
    smoothed RTT 45.2 µs, one missing token and a window of 12000 bytes the delay rounds to 0 ns -/
theorem pacing_old_tail_could_return_now : Pacing.tailOld 5046188 45200 1 12000 = some 5046188 := by decide

/-- the constructs of quinn-proto's production code that read a clock, OS entropy, the environment or a thread,
    or expose the order of a randomly keyed hash table, are EXACTLY the allowlisted ones (each justified in
    `tools/gen.d/entropy.py`: none is reachable from `Connection` / `Endpoint` methods once the configuration
    objects are built with explicit seeds, keys, CID generator and TimeSource) -/
theorem hidden_inputs_are_the_allowlisted_ones : Gen.hiddenInputs = Gen.hiddenInputsAllowed := by decide

/-- the files that contain such a construct at all: configuration, pluggable CID generators, token stores, the
    endpoint constructor, and BBR's public stand-alone constructor — no file of the connection state machine
    (`quinn-proto/src/connection/**`), no frame / packet / transport-parameter / token codec -/
theorem hidden_input_files :
    (Gen.hiddenInputs.map (·.1)).eraseDups =
      ["quinn-proto/src/bloom_token_log.rs", "quinn-proto/src/cid_generator.rs", "quinn-proto/src/config/mod.rs",
       "quinn-proto/src/config/transport.rs", "quinn-proto/src/congestion/bbr/mod.rs", "quinn-proto/src/endpoint.rs",
       "quinn-proto/src/token_memory_cache.rs"] := by decide

/-- the only construct inside a congestion controller is the public constructor `Bbr::new`, which connections do
    not reach: `PathData::new` / `PathData::reset` build controllers with `ControllerFactory::build_seeded` and a
    value drawn from `Connection.rng` (T1 anchor `Gen.bbrSeededShapeChecked`) -/
theorem controllers_seeded_from_the_connection_rng :
    Gen.hiddenInputs.filter (fun x => x.1 == "quinn-proto/src/congestion/bbr/mod.rs")
      = [("quinn-proto/src/congestion/bbr/mod.rs", "Bbr::new", "rand::rng(")]
    ∧ Gen.bbrSeededShapeChecked = 1 := by decide

-- non-vacuity
example : Gen.hiddenInputs.length = 13 := by decide
example : Pacing.tail 1000 1000000 600 12000 = some 41000 := by decide
example : Pacing.tail 5046188 45200 1 12000 = none := by decide
example : Timers.nextTimeout (Timers.set (Timers.set Timers.empty 1 500) 2 300) = some 300 := by decide
example : Timers.expired (Timers.set (Timers.set Timers.empty 1 500) 2 300) 400 = [2] := by decide
example : Life.run (Life.shiftL 7 Life.init) ([.established, .authed 5 100, .close 10 30, .timeout 40].map (Life.shiftEv 7))
    = Life.shiftL 7 (Life.run Life.init [.established, .authed 5 100, .close 10 30, .timeout 40]) := by decide

end QM.Props.C20
