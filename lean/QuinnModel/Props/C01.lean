import QuinnModel.Lemmas.SendBuffer
import QuinnModel.Lemmas.Assembler
/-
C01 — Stream data is delivered reliably, in order and exactly once.   (property theorems only)

Sender side: `SendBuffer` with the multiset `F` of frames in flight and the ghost stream `w` of written
bytes; runs = all lists of calls in which a frame is acknowledged / declared lost only while in flight.
Receiver side: `Assembler` under the hypothesis that every inserted frame carries the bytes of the
ground stream `g` at its offset; runs = all lists of calls with any allowed choice of chunk boundaries.
The exactly-once theorem needed two repairs of assembler.rs (former findings A1, A2: `defragment` now
starts at the read index in ordered mode, `insert` ignores empty frames); it now holds in full.
One statement is false of the code as a component (the unguarded 0-RTT reset): it is kept as
`…_statement` and refuted by `…_counterexample`; `sbuf_partition` carries the guard.
-/
namespace QM.Props.C01
open QM QM.RangeSet

section sender
open QM.SendBuffer

/-- DESIGN 5.1 partition: every written offset is in exactly one of
    acked / queued for retransmission / in flight / unsent -/
theorem sbuf_partition (ops : List Op) (s : Sys) (h : run Sys.init ops = some s)
    (x : Nat) (hx : x < s.sb.offset) :
    (acked s.sb x ∨ mem x s.sb.retransmits ∨ mem x s.F ∨ s.sb.unsent ≤ x) ∧
    ¬ (acked s.sb x ∧ mem x s.sb.retransmits) ∧ ¬ (acked s.sb x ∧ mem x s.F) ∧
    ¬ (acked s.sb x ∧ s.sb.unsent ≤ x) ∧ ¬ (mem x s.sb.retransmits ∧ mem x s.F) ∧
    ¬ (mem x s.sb.retransmits ∧ s.sb.unsent ≤ x) ∧ ¬ (mem x s.F ∧ s.sb.unsent ≤ x) :=
  partition s (run_inv ops _ _ inv_init h) x hx

/-- frames in flight never overlap each other -/
theorem sbuf_inflight_disjoint (ops : List Op) (s : Sys) (h : run Sys.init ops = some s) :
    s.F.Pairwise disj :=
  (run_inv ops _ _ inv_init h).dFF

/-- `poll_transmit` returns a range of buffered, written, not yet acknowledged data, and makes
    progress whenever something is pending (the caller always offers at least 17 bytes) -/
theorem sbuf_poll_within (ops : List Op) (s : Sys) (h : run Sys.init ops = some s)
    (n : Nat) (sb : SendBuffer) (r : Nat × Nat) (enc : Bool)
    (hp : pollTransmit s.sb n = some (sb, r, enc)) :
    base s.sb ≤ r.1 ∧ r.1 ≤ r.2 ∧ r.2 ≤ s.sb.offset ∧ (∀ x, r.1 ≤ x → x < r.2 → ¬ acked s.sb x) ∧
    (17 ≤ n → hasUnsentData s.sb = true → r.1 < r.2) :=
  poll_spec s (run_inv ops _ _ inv_init h) n sb r enc hp

/-- `get(a..b)` returns a non-empty prefix of exactly the bytes written at `a..` -/
theorem sbuf_get_correct (ops : List Op) (s : Sys) (h : run Sys.init ops = some s)
    (a b : Nat) (h1 : base s.sb ≤ a) (h2 : a < b) (h3 : a < s.sb.offset) :
    ∃ k, 0 < k ∧ k ≤ b - a ∧ get s.sb a b = some ((s.w.drop a).take k) :=
  get_spec s (run_inv ops _ _ inv_init h) a b h1 h2 h3

/-- the copy loop of `write_stream_frames` terminates within `len` iterations for every frame in
    flight (in particular the one just polled) and copies exactly the written bytes -/
theorem write_stream_frames_copy_terminates (ops : List Op) (s : Sys) (h : run Sys.init ops = some s)
    (r : Nat × Nat) (hr : r ∈ s.F) :
    copyLoop s.sb (r.2 - r.1) r.1 r.2 = some ((s.w.drop r.1).take (r.2 - r.1)) := by
  have hi := run_inv ops _ _ inv_init h
  have hb := hi.boundF r hr
  have hu := hi.unsent_le
  by_cases hne : r.1 < r.2
  · exact copyLoop_spec s hi r.2 (by omega) (r.2 - r.1) r.1 (hb.2.2 hne) hb.1 (Nat.le_refl _)
  · have : r.1 = r.2 := by omega
    rw [this, Nat.sub_self]; simp [copyLoop]

/-- `is_fully_acked` exactly when every written byte is acknowledged -/
theorem sbuf_fully_acked_iff (ops : List Op) (s : Sys) (h : run Sys.init ops = some s) :
    isFullyAcked s.sb = true ↔ ∀ x, x < s.sb.offset → acked s.sb x :=
  fully_acked_iff s (run_inv ops _ _ inv_init h)

/-- `ack` discards only acknowledged bytes: what the buffer holds is exactly the written stream from
    the first offset not discarded, and every discarded offset lies in an acknowledged frame
    (more generally "acked" = covered by a frame that was acknowledged) -/
theorem sbuf_ack_discards_only_acked (ops : List Op) (s : Sys) (h : run Sys.init ops = some s) :
    s.sb.segs.flatten = s.w.drop (base s.sb) ∧ (∀ x, acked s.sb x ↔ mem x s.ackd) :=
  ⟨(run_inv ops _ _ inv_init h).segs, (run_inv ops _ _ inv_init h).ackedIff⟩

/-- the calls `Connection` makes on a stream's buffer never panic: acknowledging or losing a frame in
    flight, `unacked()`, and `poll_transmit` offered at least 16 bytes while offsets stay below 2^62 -/
theorem sbuf_calls_never_panic (ops : List Op) (s : Sys) (h : run Sys.init ops = some s) :
    (∀ r ∈ s.F, (∃ sb, ack s.sb r.1 r.2 = some sb) ∧ (∃ sb, retransmit s.sb r.1 r.2 = some sb)) ∧
    (∃ n, unacked s.sb = some n ∧ n ≤ s.sb.unackedLen) ∧
    (∀ n, 16 ≤ n → s.sb.offset < 2^62 → ∃ sb r enc, pollTransmit s.sb n = some (sb, r, enc)) :=
  ⟨fun r hr => ack_lose_total s (run_inv ops _ _ inv_init h) r hr,
   unacked_total s (run_inv ops _ _ inv_init h),
   fun n hn ho => poll_total s (run_inv ops _ _ inv_init h) n hn ho⟩

/-- full statement with `retransmit_all_for_0rtt` allowed at any time -/
def sbuf_partition_unguarded_statement : Prop :=
  ∀ (ops : List Op) (s : Sys), runU Sys.init ops = some s →
    ∀ x, x < s.sb.offset → ¬ (acked s.sb x ∧ s.sb.unsent ≤ x)

/-- false: a 0-RTT reset after an acknowledgement marks acknowledged data as unsent. (`Connection`
    cannot do this: 0-RTT packets are neither acknowledged nor declared lost before the rejection is
    known. `sbuf_partition` carries exactly that guard.) -/
theorem sbuf_partition_unguarded_counterexample : ¬ sbuf_partition_unguarded_statement := by
  intro hst
  have he := zeroRttOps_eval
  cases hr : runU Sys.init zeroRttOps with
  | none => rw [hr] at he; cases he
  | some s =>
    rw [hr] at he
    simp only [Option.map_some, Option.some.injEq, Prod.mk.injEq] at he
    obtain ⟨h1, h2, h3⟩ := he
    apply hst zeroRttOps s hr 8 (by omega)
    refine ⟨Or.inr ⟨(8, 10), by rw [h1]; exact List.mem_cons_self, by decide, by decide⟩, by omega⟩

-- non-vacuity: write 13 bytes in two segments, send two frames, lose the first, acknowledge the second
example : ∃ s, run Sys.init [.write [1, 2, 3, 4, 5], .write [6, 7, 8, 9, 10, 11, 12, 13], .poll 19, .poll 19,
    .lose (0, 11), .ack (11, 13), .poll 17] = some s ∧ s.F = [(0, 9)] ∧ s.sb.retransmits = [(9, 11)]
    ∧ s.sb.acks = [(11, 13)] ∧ get s.sb 3 9 = some [4, 5] := ⟨_, rfl, rfl, rfl, rfl, rfl⟩

end sender

section receiver
open QM.Assembler

/-- ordered mode: the concatenation of all ordered reads is the ground stream from offset 0 — a
    gap-free prefix, nothing lost, duplicated, reordered or altered — and its length is `bytes_read` -/
theorem asm_ordered_prefix (g : Nat → Nat) (ops : List Op) (s : Sys)
    (hc : ∀ op ∈ ops, op.consistent g) (h : run Sys.init ops = some s) :
    s.out = stream g 0 s.out.length ∧ (s.a.unordered = false → s.out.length = s.a.bytesRead) :=
  ⟨(run_invO g ops _ _ (invO_init g) hc h).out_eq, (run_invO g ops _ _ (invO_init g) hc h).out_len⟩

/-- every chunk returned by any read (ordered or unordered) equals the ground stream at its offset -/
theorem asm_chunk_content (g : Nat → Nat) (ops : List Op) (s : Sys)
    (hc : ∀ op ∈ ops, op.consistent g) (h : run Sys.init ops = some s) :
    ∀ c ∈ s.chunks, c.2.2 = stream g c.2.1 c.2.2.length :=
  (run_invO g ops _ _ (invO_init g) hc h).content

/-- ordered mode: a byte that arrived (since the last `clear`) at or after the read index is still
    buffered -/
theorem asm_no_loss (g : Nat → Nat) (ops : List Op) (s : Sys)
    (hc : ∀ op ∈ ops, op.consistent g) (h : run Sys.init ops = some s) (hu : s.a.unordered = false) :
    ∀ x, mem x s.ins → s.a.bytesRead ≤ x → mem x s.a.cov :=
  (run_invO g ops _ _ (invO_init g) hc h).noloss hu

/-- an ordered read after an unordered one is refused and changes nothing -/
theorem asm_illegal_ordered_after_unordered (s : Sys) (hu : s.a.unordered = true)
    (max : Nat) (obs : Obs) :
    (ensureOrdering s.a true).2 = false ∧ step s (.read max true obs) = some s :=
  illegal_ordered s hu max obs

/-- exactly once: on every run — any interleaving of insert (including empty and FIN-only frames,
    duplicates, overlaps, any order), ordered and unordered reads with any chunking, the switch from
    ordered to unordered mode, clear — no offset is handed to the application twice: all returned
    chunks, ordered and unordered, before and after the switch, are pairwise disjoint -/
theorem asm_exactly_once (g : Nat → Nat) (ops : List Op) (s : Sys)
    (hc : ∀ op ∈ ops, op.consistent g) (h : run Sys.init ops = some s) :
    (delivered s).Pairwise disj :=
  (run_inv g ops _ _ (invO_init g) invX_init hc h).2.px

/-- the application never obtains more bytes than the highest offset received, so the subtraction
    `self.end - self.bytes_read` in `Assembler::insert` cannot underflow, and `insert` of a frame with
    `len ≤ allocation_size`, `offset + len < 2^64` never panics (it did after a re-delivery, A1) -/
theorem asm_insert_never_panics (g : Nat → Nat) (ops : List Op) (s : Sys)
    (hc : ∀ op ∈ ops, op.consistent g) (h : run Sys.init ops = some s) :
    s.a.bytesRead ≤ s.a.end_ ∧
    ∀ (off : Nat) (bytes : Bytes) (alloc : Nat) (tm : Bool), bytes = stream g off bytes.length →
      bytes.length ≤ alloc → off + bytes.length < 2^64 → (insert s.a off bytes alloc tm).2 ≠ .panic :=
  ⟨bytesRead_le_end g ops s hc h,
   fun off bytes alloc tm hb h1 h2 =>
     insert_no_panic g s (run_inv g ops _ _ (invO_init g) invX_init hc h).1
       (run_inv g ops _ _ (invO_init g) invX_init hc h).2 (bytesRead_le_end g ops s hc h)
       off bytes alloc tm hb h1 h2⟩

-- non-vacuity: out-of-order, overlapping frames; ordered reads, then the switch, then unordered reads,
-- an empty frame in unordered mode far from received data, a late overlapping retransmission
example : (run Sys.init
    [.insert 3 (stream gId 3 3) 3 false, .insert 0 (stream gId 0 4) 4 false,
     .read 2 true (.chunk 0 2), .read 100 true (.chunk 2 2),
     .insert 8 (stream gId 8 2) 40000 false, .insert 1 (stream gId 1 2) 2 false, .read 1 false (.chunk 4 1),
     .insert 20 [] 0 false, .insert 4 (stream gId 4 6) 6 false, .read 100 false (.chunk 5 1),
     .read 100 false (.chunk 6 2), .read 100 false (.chunk 8 2), .insert 7 (stream gId 7 16) 16 false,
     .read 100 false (.chunk 10 13),
     .read 5 true (.chunk 23 1)]).map (fun s => (s.out, delivered s, s.a.recvd))
    = some ([0, 1, 2, 3], [(10, 23), (8, 10), (6, 8), (5, 6), (4, 5), (2, 4), (0, 2)], [(0, 23)]) := by decide

-- regression: the two call sequences that used to re-deliver data
example : (run Sys.init formerA1).map delivered = some [(0, 10)] := formerA1_delivered
example : (run Sys.init formerA2).map delivered = some [(15, 25), (25, 30)] := formerA2_delivered

end receiver

end QM.Props.C01
