import QuinnModel.Lemmas.InFlight
import QuinnModel.Lemmas.Controllers
import QuinnModel.Lemmas.Gate
import QuinnModel.Lemmas.LossDetection
/-
C12 — Sending respects the congestion window; loss accounting balances.   (property theorems only)

Part 1: `SentPackets` is a finite map; every packet handed to `PathData::sent` is resolved
exactly once (acknowledged, lost, or abandoned = discarded with its space / forgotten non-ack-eliciting
tail) and the path's in-flight counters are exactly the totals over the packets still tracked.
Part 2: the built-in controllers never report a window below two datagrams, from construction on, for all
call histories and all values of the float-derived quantities (F7 repaired in bbr/mod.rs).
Part 3: what the congestion test of `poll_transmit` guarantees.
Part 4: the packet- and time-threshold loss decision of `detect_lost_packets` declares nothing lost on a loss-free
in-order path, and tolerates reordering within its thresholds.
-/
namespace QM.Props.C12
open QM QM.SentPackets QM.InFlight

/-! ## the ring buffer is a finite map -/

/-- every operation of the ring commutes with the abstraction `abs : Ring → (pn ↦ packet)`:
    `insert` = map update, `get` = lookup, `remove` = lookup + erase -/
theorem sent_packets_refines_map (r : Ring) (pn : Nat) (v : Pkt) :
    ((insert r pn v).2 = .ok () → ∀ q, abs (insert r pn v).1 q = if q = pn then some v else abs r q) ∧
    get r pn = abs r pn ∧
    ((remove r pn).2 ≠ .panic →
      (remove r pn).2 = .ok (abs r pn) ∧ ∀ q, abs (remove r pn).1 q = if q = pn then none else abs r q) :=
  ⟨abs_insert r pn v, get_eq_abs r pn, abs_remove r pn⟩

/-- the `in_flight` counter of the ring is the number of tracked packets with `size != 0`, for every ring
    reachable by inserts and removes, and `remove` never underflows it -/
theorem ring_in_flight_counter (r : Ring) (hw : RingWF r) (pn : Nat) (v : Pkt) :
    (remove r pn).2 ≠ .panic ∧ RingWF (remove r pn).1 ∧
    ((insert r pn v).2 = .ok () → RingWF (insert r pn v).1) ∧
    (hasInFlight r = true ↔ ∃ e ∈ entries r, e.2.size ≠ 0) :=
  ⟨remove_no_panic r pn hw, ringWF_remove r pn hw, ringWF_insert r pn v hw, hasInFlight_iff r hw⟩

/-- iteration = the entries of the map inside the bounds, in ascending packet-number order; it never
    indexes out of bounds.  (`entries` lists exactly the map, strictly ascending.) -/
theorem range_is_ascending_filter (r : Ring) (lo hi : Bound) (hlo : lo.small) (hhi : hi.small) :
    range r lo hi = .ok ((entries r).filter (fun e => lo.lowerOk e.1 && hi.upperOk e.1)) ∧
    (entries r).Pairwise (fun a b => a.1 < b.1) ∧
    (∀ q w, (q, w) ∈ entries r ↔ abs r q = some w) ∧
    values r = (entries r).map (·.2) :=
  ⟨range_eq_filter r lo hi hlo hhi, entries_sorted r, fun q w => (abs_eq_some_iff r q w).symm, values_eq r⟩

/-- `remove` then `get` = none -/
theorem remove_then_get_none (r : Ring) (pn : Nat) (h : (remove r pn).2 ≠ .panic) :
    get (remove r pn).1 pn = none :=
  remove_then_get_none' r pn h

/-- reclaiming leading vacant slots does not change the contents -/
theorem front_reclamation_preserves_contents (off : Nat) (slots : List (Option Pkt)) (pn : Nat) :
    absSlots (reclaim off slots).1 (reclaim off slots).2 pn = absSlots off slots pn :=
  absSlots_reclaim off slots pn

/-! ## loss accounting over ALL histories of {sent, ack, lost, discard} (forgetting happens inside sent) -/

/-- ledger: for every way `f` of weighing packets, what was sent = acked + lost + abandoned + still tracked,
    after ANY history that did not panic (no assumption on the caller) -/
theorem ledger_balances (ops : List Op) (hp : ((G.run {} ops).lg.panicked = false)) (f : Sp → Pkt → Nat) :
    ltot f (G.run {} ops).lg.sent = ltot f (G.run {} ops).lg.acked + ltot f (G.run {} ops).lg.lost
      + ltot f (G.run {} ops).lg.abandoned + ltot f (outstanding (G.run {} ops).st) :=
  ledger_balances' ops hp f

/-- conservation: bytes_sent_tracked = acked + lost + abandoned + in_flight.bytes, and the same for the
    ack-eliciting count, after any non-panicking history in which sent packets carry the path's generation -/
theorem conservation (ops : List Op) (hg : GenDisc {} ops) (hp : (G.run {} ops).lg.panicked = false) :
    ltot szF (G.run {} ops).lg.sent = ltot szF (G.run {} ops).lg.acked + ltot szF (G.run {} ops).lg.lost
        + ltot szF (G.run {} ops).lg.abandoned + (G.run {} ops).st.inFlight.bytes ∧
    ltot aeF (G.run {} ops).lg.sent = ltot aeF (G.run {} ops).lg.acked + ltot aeF (G.run {} ops).lg.lost
        + ltot aeF (G.run {} ops).lg.abandoned + (G.run {} ops).st.inFlight.ae :=
  conservation' ops hg hp

/-- counters never underflow (and no `unwrap`/`debug_assert` of the accounting code fails): a history that
    respects the caller discipline `Disc` never panics.  `Disc` excludes exactly: foreign path generations,
    non-increasing or ≥ 2^62 packet numbers, more than 2^64 bytes/packets ever sent, and a
    non-ack-eliciting packet sent in a space that was emptied by `mem::take` while its
    non-ack-eliciting-tail counter was above the limit (the counter is not reset there; see NOTES). -/
theorem counters_never_underflow (ops : List Op) (hd : Disciplined {} {} ops) :
    (G.run {} ops).lg.panicked = false :=
  no_panic' ops hd

/-- each packet is resolved exactly once: packets handed to `sent` are pairwise distinct, and each of them
    is in exactly one of acked / lost / abandoned / still tracked -/
theorem each_packet_resolved_once (ops : List Op) (hd : Disciplined {} {} ops) (k : Sp × Pkt) :
    (G.run {} ops).lg.sent.Nodup ∧
    (G.run {} ops).lg.acked.count k + (G.run {} ops).lg.lost.count k + (G.run {} ops).lg.abandoned.count k
      + (outstanding (G.run {} ops).st).count k = (G.run {} ops).lg.sent.count k ∧
    (G.run {} ops).lg.sent.count k ≤ 1 :=
  resolved_once' ops hd k

/-- bytes in flight return to zero when everything has been resolved -/
theorem in_flight_zero_when_all_resolved (ops : List Op) (hg : GenDisc {} ops)
    (hp : (G.run {} ops).lg.panicked = false) (hall : outstanding (G.run {} ops).st = []) :
    (G.run {} ops).st.inFlight.bytes = 0 ∧ (G.run {} ops).st.inFlight.ae = 0 :=
  zero_when_resolved' ops hg hp hall

-- non-vacuity: a disciplined history with a skipped number, a hole, front reclamation, a loss and a discard
def sampleOps : List Op :=
  [.sent .data 0 1200 true 0, .sent .data 1 40 false 0, .sent .data 3 1200 true 0, .sent .initial 0 1200 true 0,
   .ack .data 1, .lost .data 0, .ack .data 1, .discard .initial, .sent .data 4 0 false 0]

example : Disciplined {} {} sampleOps := by
  simp only [sampleOps, Disciplined, Disc, G.step]
  decide

example : (G.run {} sampleOps).st.inFlight = ⟨1200, 1⟩ ∧ (G.run {} sampleOps).lg.panicked = false
    ∧ (G.run {} sampleOps).lg.abandoned.length = 1 ∧ (G.run {} sampleOps).st.s2.ring.offset = 3 := by decide

example : range { offset := 5, slots := [some ⟨5, 10, true, 0⟩, none, some ⟨7, 0, false, 0⟩], inFlight := 1 }
    (.excl 5) .unb = .ok [(7, ⟨7, 0, false, 0⟩)] := by decide


/-! ## window floors of the built-in controllers (all call histories, all float-derived inputs) -/
section controllers
open QM.Controllers

/-- NewReno: `window ≥ minimum_window = 2·current_mtu` after every trait call, given it held initially -/
theorem newreno_floor (ops : List RenoOp) (c : Reno) (h : 2 * c.mtu ≤ c.window) :
    2 * (c.run ops).mtu ≤ (c.run ops).window :=
  reno_run_floor ops c h

/-- Cubic: the same, for ALL values of the opaque float-derived inputs carried by the ops
    (`w_cubic`, `w_est`, `cubic_inc`, the β-reductions) -/
theorem cubic_floor (ops : List CubicOp) (c : Cubic) (h : 2 * c.mtu ≤ c.st.window) :
    2 * (c.run ops).mtu ≤ (c.run ops).st.window :=
  cubic_run_floor ops c h

/-- the initial hypothesis holds unconditionally: the constructors start at
    `max(configured initial window, minimum window)`, for EVERY configured window and EVERY initial MTU -/
theorem floor_initial_hypothesis_witness (initialWindow mtu : Nat) :
    2 * (Reno.newWith initialWindow mtu).mtu ≤ (Reno.newWith initialWindow mtu).window ∧
    2 * (Cubic.newWith initialWindow mtu).mtu ≤ (Cubic.newWith initialWindow mtu).st.window ∧
    (Bbr.newWith initialWindow mtu).Inv :=
  ⟨reno_newWith_floor initialWindow mtu, cubic_newWith_floor initialWindow mtu, bbr_newWith_inv initialWindow mtu⟩

/-- NewReno / Cubic from construction: for every configured window, initial MTU and call history -/
theorem newreno_cubic_floor_from_new (initialWindow mtu : Nat) (ro : List RenoOp) (co : List CubicOp) :
    2 * ((Reno.newWith initialWindow mtu).run ro).mtu ≤ ((Reno.newWith initialWindow mtu).run ro).window ∧
    2 * ((Cubic.newWith initialWindow mtu).run co).mtu ≤ ((Cubic.newWith initialWindow mtu).run co).st.window :=
  ⟨reno_run_floor ro _ (reno_newWith_floor initialWindow mtu), cubic_run_floor co _ (cubic_newWith_floor initialWindow mtu)⟩

/-- BBR (after the F7 repair: `on_mtu_update` raises `recovery_window` with `min_cwnd`): `window()` is at
    least two datagrams after every call history (no call ending in an overflow panic), for every configured
    initial window, every initial MTU, every MTU change and ALL values of the opaque float-derived inputs
    (`tc`, target windows, the mode machine) -/
theorem bbr_floor (initialWindow mtu0 : Nat) (ops : List BbrOp) (c : Bbr) (tc : Option Nat) (w : Nat)
    (hr : (Bbr.newWith initialWindow mtu0).run ops = some c) (hw : c.window tc = some w) : 2 * c.mtu ≤ w :=
  bbr_floor' initialWindow mtu0 ops c tc w hr hw

-- non-vacuity
example : (Reno.new 1200).run [.ack 5 1200 false, .cong 10 7 false false 1200, .mtu 9000, .cong 20 15 true false 9000]
    = { mtu := 9000, window := 18000, ssthresh := 18000, rst := 20, bytesAcked := 0 } := by decide
example : ((Cubic.new 1200).run [.cong 10 7 false false 1200 (some ⟨8400, 0, none⟩),
      .ack 20 15 1200 false (some ⟨false, 0, 9000, some 85⟩), .mtu 9000, .spurious]).st.window = 18000 := by decide
example : (Reno.new 9000).window = 18000 ∧ (Cubic.new 65535).st.window = 131070 ∧ (Bbr.new 65535).cwnd = 262140 := by decide
-- the former F7 history now ends in recovery, PROBE_BW, with recovery_window = 36000 and window() = 36000 ≥ 18000
example : ((Bbr.new 1200).run f7Witness).bind (fun c => c.window none) = some 36000 := f7_window

end controllers

/-! ## the congestion test of `poll_transmit` -/
section gate
open QM.Gate

/-- the generated test admits a datagram iff `in_flight + bytes_to_send < window`; hence after an admitted
    datagram of any final size `≤ bytes_to_send` the bytes in flight are still strictly below the window
    (the window may be *reached* by less than one datagram only through packets exempt from the test), and a
    refused datagram would have reached or exceeded it -/
theorem cc_gate (inFlight bytesToSend window size : Nat) (hs : size ≤ bytesToSend) :
    (admitted inFlight bytesToSend window = true ↔ inFlight + bytesToSend < window) ∧
    (admitted inFlight bytesToSend window = true → inFlight + size < window) ∧
    (admitted inFlight bytesToSend window = false → window ≤ inFlight + bytesToSend) :=
  ⟨admitted_iff _ _ _, (gate_guarantee _ _ _ _ hs).1, (gate_guarantee _ _ _ _ hs).2⟩

/-- any burst of gate-admitted datagrams (each finally tracked with at most the size the gate assumed) ends
    strictly below the window, for a window that does not shrink meanwhile -/
theorem cc_gate_burst (window : Nat) (sizes : List (Nat × Nat)) (inFlight : Nat)
    (hall : ∀ p ∈ sizes, p.1 ≤ p.2) (final : Nat)
    (hf : sizes.foldl (fun (acc : Option Nat) p =>
        match acc with
        | some f => if admitted f p.2 window then some (f + p.1) else none
        | none => none) (some inFlight) = some final) (hne : sizes ≠ []) : final < window :=
  admitted_run window sizes inFlight hall final hf hne

example : admitted 10558 1442 12000 = false ∧ admitted 10557 1442 12000 = true := by decide

end gate


/-! ## the loss decision of `detect_lost_packets` (generated expressions; `rtt·time_threshold` opaque) -/
section loss
open QM.LossDetection

/-- the decision, spelled out: a tracked packet is declared lost iff it is below the largest acknowledged
    packet and (it was sent at least `loss_delay` ago, or at least `packet_threshold` newer numbers are
    acknowledged); `loss_delay ≥ TIMER_GRANULARITY` whatever the float-derived `rtt·time_threshold` is -/
theorem loss_decision (now largest thr scaledRtt : Nat) (p : Nat × Nat) :
    (declaredLost now largest thr (lossDelay scaledRtt) p = true ↔
      p.1 < largest ∧ (lossDelay scaledRtt ≤ now - p.2 ∨ p.1 + thr ≤ largest)) ∧
    Gen.c12TimerGranularityNs ≤ lossDelay scaledRtt ∧ scaledRtt ≤ lossDelay scaledRtt :=
  ⟨declaredLost_iff now largest thr (lossDelay scaledRtt) p, lossDelay_ge scaledRtt⟩

/-- reordering by fewer than `packet_threshold` packets and less than `loss_delay` never causes a loss
    declaration -/
theorem reordering_within_thresholds_tolerated (now largest thr delay : Nat) (p : Nat × Nat)
    (hp : largest < p.1 + thr) (ht : now - p.2 < delay) : declaredLost now largest thr delay p = false :=
  not_lost_within_thresholds now largest thr delay p hp ht

/-- on a loss-free in-order path (every ACK frame acknowledges a prefix of what was sent) no packet is ever
    declared lost: for ALL send/ack/loss-timer schedules, all packet thresholds, all timestamps (so in
    particular any constant delay) and all values of the float-derived `rtt·time_threshold` -/
theorem no_spurious_loss (thr : Nat) (evs : List Ev) (hw : WF thr {} evs) : (run thr {} evs).lost = [] :=
  (run_inv thr evs {} inv_init hw).nolost

-- non-vacuity: delayed cumulative ACKs, a stale ACK, timers long after; and a reordered ACK that DOES declare
-- a loss (outside the hypothesis: it skips packet 0 — here modelled by tracking 0 again after the ack)
example : WF 3 {} [.send 0 0, .send 5 1, .send 9 2, .ack 100 1 50, .send 120 4, .timer 5000000000 1, .ack 130 4 0, .ack 131 2 7] := by
  simp only [WF, wf, step]; decide
example : detect [(0, 0), (5, 10)] 2000000 3 3 0 = [0] ∧ detect [(0, 0), (5, 10)] 999999 2 3 0 = [] := by decide
example : Gen.defaultPacketThreshold = 3 ∧ Gen.c12TimerGranularityNs = 1000000 := by decide

end loss

end QM.Props.C12
