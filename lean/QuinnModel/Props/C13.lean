import QuinnModel.Lemmas.Mtud
import QuinnModel.Conn.Sizing
/-
C13 — Datagrams never exceed the validated path MTU or peer limits.   (property theorems only)
Core: the MTU discovery state machine (`MtuDiscovery`, mtud.rs) that owns `current_mtu` and emits the probes.

`s0` is any `MtuDiscovery` as constructed by `new` (not panicking) or `disabled` (`Start s0`), with ANY arguments;
`exec s0 ops` is the state after ANY sequence of calls (poll_transmit / on_acked / on_probe_lost /
on_non_probe_lost / black_hole_detected / on_peer_max_udp_payload_size_received / reset, any arguments);
a panic ends a run.  Theorems without further hypotheses hold for every such run.  Where the code relies on its
caller or on the configuration this is an explicit hypothesis:
  `okRun Contract`  — `on_probe_lost` is called only while a probe is in flight (Connection::detect_lost_packets);
  `3 ≤ minimum_change` — see the counterexamples at the end for 0, 1 and 2 (default: 20).
The model follows the code after `fix: black hole detection never raises the MTU estimate above the peer limit`
and `fix: reset re-applies the peer limit when MTU discovery is disabled` (both findings of this check).
-/
namespace QM.Props.C13
open QM QM.Mtud

/-- every probe size returned by `poll_transmit` is at most the peer's max_udp_payload_size as stored by the
    component (`MAX_UDP_PAYLOAD` before the transport parameters arrive).  No assumptions. -/
theorem probe_le_peer_max (s0 : State) (h0 : Start s0) (ops : List Op) (now pn p : Nat)
    (h : (step (exec s0 ops) (.poll now pn)).2 = .probe (some p)) :
    ∃ e, (exec s0 ops).state = some e ∧ p ≤ e.peerMax :=
  poll_probe_le_peer _ (exec_ginv s0 (start_ginv s0 h0) ops) now pn p h

/-- with `minimum_change ≥ 3` and the caller contract: `poll_transmit` never panics, and every probe is strictly
    larger than `current_mtu`, at most the configured upper bound and at most the peer limit; it is emitted
    only when no probe is in flight and is then the probe in flight -/
theorem probe_bounds (s0 : State) (h0 : Start s0) (h3 : ∀ cfg, configOf s0 = some cfg → 3 ≤ cfg.minimumChange)
    (ops : List Op) (hc : okRun Contract s0 ops) (now pn : Nat) :
    (step (exec s0 ops) (.poll now pn)).2 ≠ .panic
    ∧ ∀ p, (step (exec s0 ops) (.poll now pn)).2 = .probe (some p) →
        ∃ e, (exec s0 ops).state = some e ∧ (exec s0 ops).currentMtu < p ∧ p ≤ e.config.upperBound ∧ p ≤ e.peerMax
          ∧ inFlightMtuProbe (exec s0 ops) = none
          ∧ inFlightMtuProbe (step (exec s0 ops) (.poll now pn)).1 = some pn :=
  poll_ok _ (exec_sinv s0 (start_sinv s0 h0 h3) ops hc) now pn

/-- at most one probe in flight: a caller that remembers the last emitted probe and forgets it on a probe result
    (ack of it, `on_probe_lost`, `reset`, detected black hole) always agrees with the component's in-flight slot
    (packet number and size), and a probe is only ever emitted while nothing is outstanding.  No assumptions. -/
theorem one_probe_in_flight (s0 : State) (h0 : Start s0) (ops : List Op) :
    ghost none (trace s0 ops) = slot (exec s0 ops)
    ∧ (slot (exec s0 ops)).map (·.1) = inFlightMtuProbe (exec s0 ops)
    ∧ ∀ now pn p, (step (exec s0 ops) (.poll now pn)).2 = .probe (some p) →
        ghost none (trace s0 ops) = none ∧ slot (step (exec s0 ops) (.poll now pn)).1 = some (pn, p) := by
  have hg : ghost none (trace s0 ops) = slot (exec s0 ops) := by
    have := ghost_trace ops s0; rwa [start_slot s0 h0] at this
  refine ⟨hg, slot_inflight _, fun now pn p h => ?_⟩
  rw [hg]; exact probe_only_when_idle _ now pn p h

/-- `current_mtu` changes only by: the ack (in the Data space) of the in-flight probe — to exactly the size of
    that probe; a peer limit — down to that limit; a detected black hole — down to `min_mtu`; or `reset`.
    No assumptions. -/
theorem mtu_changes_only_by (s0 : State) (ops : List Op) (op : Op)
    (hne : (step (exec s0 ops) op).1.currentMtu ≠ (exec s0 ops).currentMtu) :
    (∃ pn len e st, op = .acked true pn len ∧ (exec s0 ops).state = some e ∧ e.phase = .searching st
        ∧ st.inFlightProbe = some pn ∧ slot (exec s0 ops) = some (pn, st.lastProbedMtu)
        ∧ (step (exec s0 ops) op).1.currentMtu = st.lastProbedMtu ∧ (step (exec s0 ops) op).2 = .bool true)
    ∨ (∃ v, op = .peerMax v ∧ (step (exec s0 ops) op).1.currentMtu = v ∧ v < (exec s0 ops).currentMtu)
    ∨ (∃ now, op = .blackHole now ∧ (step (exec s0 ops) op).2 = .bool true
        ∧ (step (exec s0 ops) op).1.currentMtu = (exec s0 ops).det.minMtu
        ∧ (exec s0 ops).det.minMtu < (exec s0 ops).currentMtu)
    ∨ (∃ c m, op = .reset c m) := by
  rcases mtu_change (exec s0 ops) op hne with ⟨pn, len, e, st, h1, h2, h3, h4, h5, h6⟩ | h | h | h
  · left; exact ⟨pn, len, e, st, h1, h2, h3, h4, by simp [slot, h2, slotE, h3, h4], h5, h6⟩
  · right; left; exact h
  · right; right; left; exact h
  · right; right; right; exact h

/-- `current_mtu` rises only after a probe of exactly that size was acknowledged (or by `reset`, which restores the
    configured initial MTU clamped by the peer limit) — no assumptions; and with `minimum_change ≥ 3` and the
    contract the ack of the in-flight probe always raises it -/
theorem mtu_rises_only_on_probe_ack (s0 : State) (h0 : Start s0)
    (h3 : ∀ cfg, configOf s0 = some cfg → 3 ≤ cfg.minimumChange) (ops : List Op) (hc : okRun Contract s0 ops) (op : Op) :
    ((exec s0 ops).currentMtu < (step (exec s0 ops) op).1.currentMtu →
        (∃ pn len p, op = .acked true pn len ∧ slot (exec s0 ops) = some (pn, p) ∧ (step (exec s0 ops) op).1.currentMtu = p)
        ∨ (∃ c m, op = .reset c m))
    ∧ (∀ pn len p, op = .acked true pn len → slot (exec s0 ops) = some (pn, p) →
        (step (exec s0 ops) op).2 = .bool true ∧ (step (exec s0 ops) op).1.currentMtu = p ∧ (exec s0 ops).currentMtu < p) := by
  have hi := exec_sinv s0 (start_sinv s0 h0 h3) ops hc
  generalize exec s0 ops = s at hi ⊢
  refine ⟨fun hlt => ?_, fun pn len p hop hslot => ?_⟩
  · rcases mtu_change s op (by omega) with ⟨pn, len, e, st, h1, h2, h3', h4, h5, _⟩ | ⟨v, _, h2, h3'⟩ | ⟨now, _, _, h3', h4⟩ | h
    · left; exact ⟨pn, len, st.lastProbedMtu, h1, by simp [slot, h2, slotE, h3', h4], h5⟩
    · omega
    · omega
    · right; exact h
  · subst hop
    cases hst : s.state with
    | none => simp [slot, hst] at hslot
    | some e =>
      cases hph : e.phase with
      | initial => simp [slot, hst, slotE, hph] at hslot
      | complete t => simp [slot, hst, slotE, hph] at hslot
      | searching st =>
        simp only [slot, hst, slotE, hph, Option.map_eq_some_iff, Prod.mk.injEq] at hslot
        obtain ⟨q, hq, hq1, hq2⟩ := hslot
        subst hq1; subst hq2
        rcases step_acked_cases s true q len with ⟨h, _⟩ | ⟨_, hno, _⟩ | ⟨_, e', st', he', hph', _, h⟩
        · cases h
        · exact absurd hq (hno e st hst hph)
        · rw [hst] at he'; cases he'; rw [hph] at hph'; cases hph'
          rw [h]; exact ⟨rfl, rfl, acked_raises s hi e st q hst hph hq⟩

/-- with `minimum_change ≥ 3` and the contract `current_mtu` falls only by a peer limit (to exactly that limit),
    a detected black hole (to `min_mtu`) or `reset` — never through the search itself -/
theorem mtu_falls_only_by (s0 : State) (h0 : Start s0)
    (h3 : ∀ cfg, configOf s0 = some cfg → 3 ≤ cfg.minimumChange) (ops : List Op) (hc : okRun Contract s0 ops) (op : Op)
    (hlt : (step (exec s0 ops) op).1.currentMtu < (exec s0 ops).currentMtu) :
    (∃ v, op = .peerMax v ∧ (step (exec s0 ops) op).1.currentMtu = v)
    ∨ (∃ now, op = .blackHole now ∧ (step (exec s0 ops) op).2 = .bool true
        ∧ (step (exec s0 ops) op).1.currentMtu = (exec s0 ops).det.minMtu)
    ∨ (∃ c m, op = .reset c m) := by
  have hi := exec_sinv s0 (start_sinv s0 h0 h3) ops hc
  rcases mtu_change (exec s0 ops) op (by omega) with ⟨pn, len, e, st, _, h2, h3', h4, h5, _⟩ | ⟨v, h1, h2, _⟩ | ⟨now, h1, h2, h3', _⟩ | h
  · have := acked_raises _ hi e st pn h2 h3' h4; omega
  · left; exact ⟨v, h1, h2⟩
  · right; left; exact ⟨now, h1, h2, h3'⟩
  · right; right; exact h

/-- floor, in the property's form: the estimate never FALLS below the smaller of the configured minimum and the
    peer's max_udp_payload_size — whenever a call lowers `current_mtu`, the new value is at least
    `min(min_mtu, peer limit)` of the resulting state.  Needs `minimum_change ≥ 3`, the contract, and `reset(c, m)`
    called with `m ≤ c` (what `PathData::reset` passes). -/
theorem mtu_never_falls_below_floor (s0 : State) (h0 : Start s0)
    (h3 : ∀ cfg, configOf s0 = some cfg → 3 ≤ cfg.minimumChange) (ops : List Op) (hc : okRun Contract s0 ops) (op : Op)
    (hr : ResetContract (exec s0 ops) op)
    (hlt : (step (exec s0 ops) op).1.currentMtu < (exec s0 ops).currentMtu) :
    Nat.min (step (exec s0 ops) op).1.det.minMtu (step (exec s0 ops) op).1.peerMax ≤ (step (exec s0 ops) op).1.currentMtu :=
  fall_not_below_floor _ op (exec_sinv s0 (start_sinv s0 h0 h3) ops hc) hr hlt

/-- floor as a state invariant: `current_mtu ≥ min(min_mtu, peer max_udp_payload_size)` in every reachable state,
    enabled or disabled, under the same assumptions and if a later peer limit is never larger than an earlier one
    (with a larger second limit the floor itself would rise above an estimate the first limit had clamped) -/
theorem mtu_floor (s0 : State) (h0 : StartOk s0) (h3 : ∀ cfg, configOf s0 = some cfg → 3 ≤ cfg.minimumChange)
    (ops : List Op) (hc : okRun FloorRun s0 ops) :
    Nat.min (exec s0 ops).det.minMtu (exec s0 ops).peerMax ≤ (exec s0 ops).currentMtu :=
  exec_floor s0 (start_sinv s0 h0.start h3) (start_floor s0 h0) ops hc

/-- ceiling, unconditional: `current_mtu` never exceeds the peer's max_udp_payload_size (as last received;
    `MAX_UDP_PAYLOAD` = 65527 before that) — for ANY calls, with discovery enabled or disabled, including black-hole
    fallback and `reset` … -/
theorem mtu_le_peer_max (s0 : State) (h0 : Start s0) (hi : s0.currentMtu ≤ Gen.maxUdpPayload) (ops : List Op) :
    (exec s0 ops).currentMtu ≤ (exec s0 ops).peerMax :=
  exec_ceil s0 (start_ginv s0 h0) (start_ceil s0 h0 hi) ops

/-- … and even for an (impossible) initial MTU above 65527 from the moment the peer's limit has been received -/
theorem mtu_le_peer_max_once_received (s0 : State) (h0 : Start s0) (ops1 : List Op) (v : Nat)
    (hp : (step (exec s0 ops1) (.peerMax v)).2 ≠ .panic) (ops2 : List Op) :
    (exec (step (exec s0 ops1) (.peerMax v)).1 ops2).currentMtu ≤ (exec (step (exec s0 ops1) (.peerMax v)).1 ops2).peerMax :=
  exec_ceil _ (step_ginv _ _ (exec_ginv s0 (start_ginv s0 h0) ops1) hp) (peerMax_ceil _ v) ops2

/-- the remembered limit is exactly what was received last (or the default) -/
theorem peer_max_is_last_received (s : State) (v : Nat) : (step s (.peerMax v)).1.peerMax = v := by
  simp only [step]
  rcases peerMax_cases s v with ⟨_, h⟩ | ⟨_, _, _, _, h⟩ | ⟨_, _, _, h⟩ <;> rw [h]

/-- the binary search terminates: within one search (`searchOf` before and after the call) no call increases
    `measure`, every probe result (ack of the in-flight probe, loss of it) strictly decreases it, and a poll with
    nothing in flight emits a probe or ends the search.  A search therefore sees at most
    `measure ≤ 4 * (upper_bound − lower_bound) + 3` probe results.  Needs `minimum_change ≥ 3` and the contract. -/
theorem search_terminates (s0 : State) (h0 : Start s0) (h3 : ∀ cfg, configOf s0 = some cfg → 3 ≤ cfg.minimumChange)
    (ops : List Op) (hc : okRun Contract s0 ops) :
    (∀ op st st', Contract (exec s0 ops) op → (step (exec s0 ops) op).2 ≠ .panic →
        searchOf (exec s0 ops) = some st → searchOf (step (exec s0 ops) op).1 = some st' →
        measure st' ≤ measure st ∧ (isProbeResult op (step (exec s0 ops) op).2 = true → measure st' < measure st))
    ∧ (∀ now pn st, searchOf (exec s0 ops) = some st → st.inFlightProbe = none →
        (∃ p, (step (exec s0 ops) (.poll now pn)).2 = .probe (some p))
        ∨ ((step (exec s0 ops) (.poll now pn)).2 = .probe none ∧ searchOf (step (exec s0 ops) (.poll now pn)).1 = none)) := by
  have hi := exec_sinv s0 (start_sinv s0 h0 h3) ops hc
  exact ⟨fun op st st' hco hp h h' => measure_step _ op hi hco hp st st' h h',
    fun now pn st h hfl => poll_progress _ hi now pn st h hfl⟩

/-- a detected black hole lowers `current_mtu` to `min_mtu` (never raises it: `min(current_mtu, min_mtu)`), keeps the
    peer limit, clears the burst table and suspends the search until `now + black_hole_cooldown`; it is detected
    exactly when, after closing the current loss burst, more than `BLACK_HOLE_THRESHOLD` bursts are suspicious.
    No assumptions. -/
theorem black_hole_resets_to_min (s : State) (now : Nat) :
    ((step s (.blackHole now)).2 = .bool true ↔ Gen.mtudBlackHoleThreshold < s.det.finishLossBurst.bursts.length)
    ∧ ((step s (.blackHole now)).2 = .bool true →
        (step s (.blackHole now)).1.currentMtu = Nat.min s.currentMtu s.det.minMtu
        ∧ (step s (.blackHole now)).1.peerMax = s.peerMax
        ∧ (step s (.blackHole now)).1.det.minMtu = s.det.minMtu
        ∧ (step s (.blackHole now)).1.det.bursts = []
        ∧ (step s (.blackHole now)).1.det.current = none
        ∧ (∀ e, s.state = some e →
            (step s (.blackHole now)).1.state = some { e with phase := .complete (now + e.config.blackHoleCooldown) })
        ∧ (s.state = none → (step s (.blackHole now)).1.state = none)) := by
  refine ⟨black_hole_iff s now, fun h => ?_⟩
  obtain ⟨h1, h2, h3, h4, h5, h6, h7, _⟩ := black_hole_effects s now h
  exact ⟨h1, h2, h3, h4, h5, h6, h7⟩

/-- in every state that satisfies floor and ceiling (all reachable states under `mtu_floor` / `mtu_le_peer_max`) that
    fallback value is exactly the smaller of `min_mtu` and the peer's max_udp_payload_size -/
theorem black_hole_falls_to_min_of_limits (s : State) (hc : s.currentMtu ≤ s.peerMax)
    (hf : Nat.min s.det.minMtu s.peerMax ≤ s.currentMtu) :
    Nat.min s.currentMtu s.det.minMtu = Nat.min s.det.minMtu s.peerMax := by
  simp only [Nat.min_def] at hf ⊢
  split at hf <;> split <;> (try split) <;> omega

/-- "when the path starts dropping large packets the connection falls back": an acknowledgement of a packet of
    `len` bytes clears the suspicion of exactly those loss bursts whose smallest lost packet was no larger than
    `len` — every burst of LARGER packets stays suspicious (so traffic of intermediate size that still gets through
    cannot keep the detector from reaching its threshold), and nothing else is kept.  The comparison is the one
    regenerated from `BlackHoleDetector::on_non_probe_acked` (`Gen.mtudBurstStays`).  No assumptions. -/
theorem larger_bursts_stay_suspicious (d : Detector) (pn len b : Nat) (hb : b ∈ d.bursts) (hl : len < b) :
    b ∈ (d.onNonProbeAcked pn len).bursts := by
  unfold Detector.onNonProbeAcked
  split
  · exact hb
  · exact List.mem_filter.mpr ⟨hb, by simp [Gen.mtudBurstStays, hl]⟩

theorem only_larger_bursts_stay_suspicious (d : Detector) (pn len b : Nat)
    (hn : Gen.mtudAckedNoop len d.ackedMtu = false) (hb : b ∈ (d.onNonProbeAcked pn len).bursts) :
    b ∈ d.bursts ∧ len < b := by
  unfold Detector.onNonProbeAcked at hb
  simp only [hn] at hb
  have h := List.mem_filter.mp hb
  exact ⟨h.1, by simpa [Gen.mtudBurstStays] using h.2⟩

/-- non-vacuity: bursts of 1452-byte packets survive the acknowledgement of a 1220-byte datagram, a burst of
    1210-byte packets does not -/
example : ({ bursts := [1452, 1210, 1452], current := none, largestPostLoss := 0, ackedMtu := 1200, minMtu := 1200 } : Detector).onNonProbeAcked 7 1220
    = { bursts := [1452, 1452], current := none, largestPostLoss := 7, ackedMtu := 1220, minMtu := 1200 } := by decide

/-- the detector never stores more than `BLACK_HOLE_THRESHOLD + 1` suspicious bursts.  No assumptions. -/
theorem burst_table_bounded (s0 : State) (h0 : Start s0) (ops : List Op) :
    (exec s0 ops).det.bursts.length ≤ Gen.mtudBlackHoleThreshold + 1 :=
  (exec_ginv s0 (start_ginv s0 h0) ops).2.1

/-- widths: with `u16` peer limits, every bound and probe size of a running search is below 2^16, so none of the
    `as u16` casts in `next_mtu_to_probe` truncates (the model computes in ℕ) -/
theorem sizes_fit_u16 (s0 : State)
    (h0 : (∃ i m p cfg, Mtud.new i m p cfg = some s0 ∧ ∀ v, p = some v → v < 65536) ∨ (∃ i m, s0 = disabled i m))
    (ops : List Op) (hc : okRun U16Args s0 ops) :
    ∀ e st, (exec s0 ops).state = some e → e.phase = .searching st →
      st.lowerBound < 65536 ∧ st.upperBound < 65536 ∧ st.lastProbedMtu < 65536 := by
  have hs : Start s0 := by
    rcases h0 with ⟨i, m, p, cfg, h, _⟩ | h
    · exact Or.inl ⟨i, m, p, cfg, h⟩
    · exact Or.inr h
  exact exec_u16 s0 (start_ginv s0 hs) (start_pminv s0 h0) ops hc

/-- the deliberate panic ("Transport parameters received after MTU probing started") fires exactly while a search
    is running; `on_non_probe_lost` panics exactly when packet numbers of one burst go backwards; `new` exactly
    when `initial_plpmtu < min_mtu`.  No assumptions. -/
theorem panics_exactly (s : State) :
    (∀ v, (step s (.peerMax v)).2 = .panic ↔ ∃ st, searchOf s = some st)
    ∧ (∀ pn len, (step s (.nonProbeLost pn len)).2 = .panic ↔ ∃ c, s.det.current = some c ∧ pn < c.latest)
    ∧ (∀ i m p cfg, Mtud.new i m p cfg = none ↔ i < m) :=
  ⟨peerMax_panics_iff s, nonProbeLost_panics_iff s, new_panics_iff⟩

/-! ### what is FALSE of the code (proved on the model; each is replayed on the real code by the harness).
The two former findings (reset with discovery disabled forgot the peer limit; a black hole set `current_mtu = min_mtu`
above the peer limit) are fixed in quinn; their counterexamples are gone, `mtu_le_peer_max` is proved instead and their
witnesses are regression examples at the end (and corpus/mtud/fixed-*.ops for the real code). -/

/-- a run from `new(initial, min, peer, config(interval, upper_bound, minimum_change, cooldown))` -/
def runNew (i m : Nat) (p : Option Nat) (cfg : Config) (ops : List Op) : Option State :=
  (Mtud.new i m p cfg).map (fun s => exec s ops)

/-- the probe sizes returned by the polls of such a run -/
def probesNew (i m : Nat) (p : Option Nat) (cfg : Config) (ops : List Op) : Option (List Nat) :=
  (Mtud.new i m p cfg).map (fun s => (trace s ops).filterMap (fun e => match e.2 with | .probe (some p) => some p | _ => none))

/-- four separate loss bursts of 1350-byte packets, then the detector is asked -/
def blackHoleOps : List Op :=
  [.nonProbeLost 0 1350, .nonProbeLost 2 1350, .nonProbeLost 4 1350, .nonProbeLost 6 1350, .blackHole 0]

/-- three losses of the probe in flight, each followed by the next poll -/
def lose3 (pn : Nat) : List Op :=
  [.probeLost, .poll 0 (pn + 1), .probeLost, .poll 0 (pn + 2), .probeLost, .poll 0 (pn + 3)]

/-- FINDING (configuration, companion of F8): `minimum_change = 1`, upper bound 1201: after the probe of 1201 is
    given up the search probes 1200 = current_mtu, after that one is given up it probes 1199 < current_mtu, and the
    ack of that probe lowers current_mtu below min_mtu.  All calls respect the contract. -/
def mc1Ops : List Op := [.poll 0 1] ++ lose3 1 ++ lose3 4 ++ [.acked true 7 1199]

theorem probe_below_mtu_minimum_change_1 :
    probesNew 1200 1200 none (Config.make 0 1201 1 0) mc1Ops = some [1201, 1201, 1201, 1200, 1200, 1200, 1199]
    ∧ (runNew 1200 1200 none (Config.make 0 1201 1 0) mc1Ops).map (·.currentMtu) = some 1199 := by decide

theorem mtu_floor_counterexample_minimum_change_1 :
    ∃ s, runNew 1200 1200 none (Config.make 0 1201 1 0) mc1Ops = some s
      ∧ ∃ e, s.state = some e ∧ s.currentMtu < Nat.min s.det.minMtu e.peerMax := by decide

/-- `minimum_change = 2`: the search can still probe exactly `current_mtu` (never below) -/
theorem probe_equals_mtu_minimum_change_2 :
    probesNew 1200 1200 none (Config.make 0 1202 2 0) ([.poll 0 1] ++ lose3 1) = some [1202, 1202, 1202, 1200] := by decide

/-- FINDING F8: `minimum_change = 0`: the search never ends — from the state `stuck` every poll emits a probe of
    the current MTU and its ack leads back to `stuck`, for any number of rounds -/
theorem search_diverges_minimum_change_0 (n : Nat) (d : Detector) :
    (∃ d', rounds n (stuck d) = stuck d')
    ∧ ∀ d' pn, (step (stuck d') (.poll 0 pn)).2 = .probe (some 1200) :=
  ⟨stuck_forever n d, fun d' pn => (stuck_round d' pn).1⟩

/-- `stuck` is reached from `new(1200, 1200, None, minimum_change = 0)` by one poll and the ack of that probe -/
theorem stuck_reachable :
    (runNew 1200 1200 none cfg0 [.poll 0 0, .acked true 0 1200]) = some (stuck ((Detector.new 1200).onProbeAcked 0 1200)) := by
  decide

/-- without the caller contract (an `on_probe_lost` with no probe in flight) even the default configuration
    "retransmits" a probe of exactly `current_mtu` -/
theorem probe_not_above_mtu_without_contract :
    (Mtud.new 1200 1200 none Config.default).map
        (fun s => (trace s [.poll 0 1, .acked true 1 1326, .probeLost, .poll 0 2]).map (·.2))
      = some [.probe (some 1326), .bool true, .unit, .probe (some 1326)] := by decide

/-! ### non-vacuity: a default-configuration search against a 1400-byte link -/

def demo : List Op :=
  [.poll 0 1, .acked true 1 1326, .poll 0 2] ++ lose3 2 ++ [.acked true 5 1357, .poll 0 6, .probeLost, .poll 0 7]

example : ∃ s0, Mtud.new 1200 1200 none Config.default = some s0 ∧ Start s0 ∧ okRun Contract s0 demo
    ∧ (∀ cfg, configOf s0 = some cfg → 3 ≤ cfg.minimumChange) := by
  refine ⟨_, rfl, Or.inl ⟨1200, 1200, none, Config.default, rfl⟩, by decide, ?_⟩
  intro cfg h; cases h; decide
example : probesNew 1200 1200 none Config.default demo = some [1326, 1389, 1389, 1389, 1357, 1388, 1388] := by decide
example : (runNew 1200 1200 none Config.default demo).map (·.currentMtu) = some 1357 := by decide
example : (runNew 1400 1250 none Config.default blackHoleOps).map (fun s => (s.currentMtu, s.det.bursts)) = some (1250, []) := by decide

-- regressions of the two fixed findings: the peer limit survives `reset` with discovery disabled and black holes
example : (exec (disabled 1400 1200) [.peerMax 1300, .reset 1400 1200]).currentMtu = 1300 := by decide
example : (runNew 1400 1300 (some 1250) Config.default blackHoleOps).map (fun s => (s.currentMtu, s.peerMax)) = some (1250, 1250) := by decide
example : (exec (disabled 1400 1300) ([.peerMax 1250] ++ blackHoleOps)).currentMtu = 1250 := by decide

/-- "loss probes never exceed 1200 bytes": whenever a loss-probe credit is pending in the space being sent in — Initial,
    Handshake or Data alike — the datagram started for it is limited to at most INITIAL_MTU = 1200 bytes, whatever the
    MTU estimate; and it consumes exactly one credit -/
theorem loss_probe_datagram_le_1200 (credits segmentSize : Nat) (h : 0 < credits) :
    (Sizing.nextDatagramLimit credits segmentSize).2 ≤ 1200 ∧
    (Sizing.nextDatagramLimit credits segmentSize).1 + 1 = credits := by
  cases credits with
  | zero => omega
  | succ n =>
    have hm : Gen.initialMtu = 1200 := by decide
    show min segmentSize Gen.initialMtu ≤ 1200 ∧ n + 1 = n + 1
    rw [hm]
    exact ⟨Nat.min_le_right _ _, rfl⟩

/-- without a pending credit the limit is the segment size (the MTU estimate) and nothing is consumed -/
theorem ordinary_datagram_limit (segmentSize : Nat) : Sizing.nextDatagramLimit 0 segmentSize = (0, segmentSize) := rfl

example : Sizing.nextDatagramLimit 2 1452 = (1, 1200) := by decide

end QM.Props.C13
