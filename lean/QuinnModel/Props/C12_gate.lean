import QuinnModel.Conn.SendGate
/-
C12 — the congestion gate of `Connection::poll_transmit` over ALL runs of its loop (property theorems only).

Clause: "An endpoint does not send ack-eliciting data while the bytes it has in flight would reach its congestion
controller's window, the only exceptions being at most two probe packets per probe timeout, ... and the closing packet".
`Conn/SendGate.lean` is the skeleton of the loop (guards pinned by T1 shape anchors); a run is any list of
`poll_transmit` calls, each any list of iterations with arbitrary in-flight / window values.
-/
namespace QM.Props.C12_gate
open QM QM.SendGate


/-- "covered": the packet travels in a datagram charged to a loss probe, or a congestion test passed for its datagram -/
def Covered : Out → Prop
  | .pkt _ true probe tested => probe = true ∨ tested = true
  | _ => True

/-- FULL statement: every ack-eliciting packet (by the sender's own estimate; closing packets are never ack-eliciting
    in this sense) of every packet number space is covered -/
def non_exempt_packet_below_window_statement : Prop :=
  ∀ (s : St) (cs : List (List Offer)), ∀ o ∈ (calls s cs).2, Covered o

/-- the datagram-local invariant: `datagram_congestion_checked` implies tested-or-probe -/
def Inv (s : St) : Prop := s.checked = true → (s.tested = true ∨ s.isProbe = true)

theorem inv_newCall (s : St) : Inv (newCall s) := by
  intro h; simp [newCall] at h

theorem step_inv (s : St) (o : Offer) (h : Inv s) : Inv (step s o).1 := by
  unfold step Inv at *
  simp only []
  split
  · split
    · exact h
    · split
      · intro hc; left; exact hc
      · intro _; right; rfl
  · split
    · exact h
    · split
      · intro _; right; rfl
      · rename_i hb hp
        intro hc
        simp only [Bool.or_eq_true, Bool.and_eq_true] at hc ⊢
        by_cases h1 : s.checked = true
        · rcases h h1 with ht | hpz
          · left; left; exact ht
          · right; exact hpz
        · rcases hc with hc | hc
          · exact absurd hc h1
          · by_cases h0 : lp s o.space = 0
            · left; right
              simp [hc.1, hc.2, h1, h0]
            · right
              simp only [bne_iff_ne, ne_eq, Bool.and_eq_true, Bool.not_eq_true', not_and, Bool.not_eq_false] at hp
              exact hp h0

/-- what `tested` means: it is only ever set by a congestion test that was evaluated and not blocked, i.e.
    `in_flight + bytes_to_send < window` at that evaluation (`Gen.congestionBlocked` is the generated test) -/
theorem tested_means_below_window (s : St) (o : Offer) (h0 : s.tested = false ∨ (!o.coalesce || !s.dgram) = true)
    (h1 : (step s o).1.tested = true) (hne : (step s o).2 ≠ .blocked) :
    o.inFlight + o.bytes < o.window := by
  unfold step at h1 hne
  simp only [] at h1 hne
  split at h1
  · rename_i hnew
    split at h1
    · simp_all
    · rename_i hnb
      split at h1
      · rename_i hl
        simp only at h1
        simp only [h1, hl, Bool.true_and, Bool.not_eq_true] at hnb
        simp only [Gen.congestionBlocked, ge_iff_le, decide_eq_false_iff_not, Nat.not_le] at hnb
        exact hnb
      · simp at h1
  · rename_i hco
    have hs : s.tested = false := by
      rcases h0 with h | h
      · exact h
      · exact absurd h hco
    split at h1
    · simp_all
    · rename_i hnb
      have hneeds : (o.ae && o.space == 2 && !s.checked && lp s o.space == 0) = true := by
        have ht : (s.tested || (o.ae && o.space == 2 && !s.checked && lp s o.space == 0)) = true := by
          split at h1 <;> exact h1
        rw [hs, Bool.false_or] at ht
        exact ht
      simp only [hneeds, Bool.true_and, Bool.not_eq_true] at hnb
      simp only [Gen.congestionBlocked, ge_iff_le, decide_eq_false_iff_not, Nat.not_le] at hnb
      exact hnb

/-- PARTIAL (what the code guarantees): every ack-eliciting packet of the APPLICATION DATA space (0-RTT and 1-RTT) is
    covered: it travels in a datagram charged to a loss probe or in one for which a congestion test passed -/
theorem step_data_covered (s : St) (o : Offer) (h : Inv s) (p t : Bool)
    (ho : (step s o).2 = .pkt 2 true p t) : p = true ∨ t = true := by
  unfold step at ho
  simp only [] at ho
  split at ho
  · split at ho
    · simp at ho
    · split at ho
      · simp only [Out.pkt.injEq] at ho
        right; rw [← ho.2.2.2, ho.2.1]
      · simp only [Out.pkt.injEq] at ho
        left; exact ho.2.2.1.symm
  · split at ho
    · simp at ho
    · split at ho
      · simp only [Out.pkt.injEq] at ho
        left; exact ho.2.2.1.symm
      · rename_i hb hp
        simp only [Out.pkt.injEq] at ho
        obtain ⟨hsp, hae, hpp, htt⟩ := ho
        by_cases h1 : s.checked = true
        · rcases h h1 with ht | hpz
          · right; rw [← htt]; simp [ht]
          · left; rw [← hpp]; exact hpz
        · by_cases h0 : lp s o.space = 0
          · right; rw [← htt]; rw [hsp] at h0; simp [hae, hsp, h1, h0]
          · left
            simp only [bne_iff_ne, ne_eq, Bool.and_eq_true, Bool.not_eq_true', not_and, Bool.not_eq_false] at hp
            rw [← hpp]; exact hp h0

theorem call_data_covered (os : List Offer) : ∀ (s : St), Inv s → ∀ p t, Out.pkt 2 true p t ∈ (call s os).2 → p = true ∨ t = true := by
  induction os with
  | nil => intro s _ p t hm; simp [call] at hm
  | cons o os ih =>
    intro s h p t hm
    simp only [call] at hm
    split at hm
    · exact ih s h p t hm
    · simp only [List.mem_cons] at hm
      rcases hm with hm | hm
      · exact step_data_covered s o h p t hm.symm
      · exact ih _ (step_inv s o h) p t hm

theorem non_exempt_packet_below_window (cs : List (List Offer)) :
    ∀ (s : St) p t, Out.pkt 2 true p t ∈ (calls s cs).2 → p = true ∨ t = true := by
  induction cs with
  | nil => intro s p t hm; simp [calls] at hm
  | cons c cs ih =>
    intro s p t hm
    simp only [calls, List.mem_append] at hm
    rcases hm with hm | hm
    · exact call_data_covered c _ (inv_newCall s) p t hm
    · exact ih _ p t hm

/-- the witness against the full statement: an Initial packet that only acknowledges opens the datagram, a Handshake
    packet with CRYPTO data is coalesced behind it while `in_flight + bytes >= window` (finding
    `C12-handshake-packet-coalesced-beyond-window`: deliberate — holding the client's Finished back behind
    unacknowledgeable 0-RTT data stalls the handshake, test `zero_rtt_incoming_buffer_size`) -/
def witness : List (List Offer) :=
  [[{ space := 0, ae := false, coalesce := false, inFlight := 12000, bytes := 1200, window := 12000 },
    { space := 1, ae := true, coalesce := true, inFlight := 12000, bytes := 1200, window := 12000 }]]

theorem non_exempt_packet_below_window_counterexample : ¬ non_exempt_packet_below_window_statement := by
  intro h
  have := h ⟨0, 0, 0, false, false, false, false, 0, 0, 0, 0⟩ witness (.pkt 1 true false false) (by decide)
  simp [Covered] at this

/-- credits outstanding plus probe datagrams already sent -/
def budget (s : St) : Nat := s.probeDatagrams + s.lp0 + s.lp1 + s.lp2

theorem lpDec_budget (s : St) (i : Nat) (h : lp s i ≠ 0) :
    (lpDec s i).lp0 + (lpDec s i).lp1 + (lpDec s i).lp2 + 1 = s.lp0 + s.lp1 + s.lp2 ∧ (lpDec s i).probeDatagrams = s.probeDatagrams := by
  unfold lpDec lp at *
  split <;> simp_all <;> omega

theorem step_budget (s : St) (o : Offer) : budget (step s o).1 = budget s := by
  unfold step
  simp only []
  split
  · split
    · rfl
    · split
      · rfl
      · rename_i hl
        have hl' : lp s o.space ≠ 0 := by simpa using hl
        have := lpDec_budget s o.space hl'
        simp only [budget]; omega
  · split
    · rfl
    · split
      · rename_i hp
        have hl' : lp s o.space ≠ 0 := by
          simp only [bne_iff_ne, ne_eq, Bool.and_eq_true] at hp; exact hp.1
        have := lpDec_budget s o.space hl'
        simp only [budget]; omega
      · rfl

theorem call_budget (os : List Offer) : ∀ s, budget (call s os).1 = budget s := by
  induction os with
  | nil => intro s; rfl
  | cons o os ih =>
    intro s; simp only [call]
    split
    · exact ih s
    · rw [ih, step_budget]

theorem calls_budget (cs : List (List Offer)) : ∀ s, budget (calls s cs).1 = budget s := by
  induction cs with
  | nil => intro s; rfl
  | cons c cs ih => intro s; simp only [calls]; rw [ih, call_budget]; rfl

theorem onPto_budget (s : St) (space : Nat) (n : Bool) (earlier : Option Nat) (he : ∀ e, earlier = some e → e < space ∧ e < 2) :
    budget (onPto s space n earlier) ≤ 2 := by
  have h2 : Gen.sgPtoProbeCount = 2 := rfl
  unfold onPto budget
  simp only [h2]
  cases earlier with
  | none => cases n <;> (rcases space with _ | _ | _ <;> simp)
  | some e =>
    have := he e rfl
    rcases e with _ | _ | e
    · rcases space with _ | _ | _ <;> cases n <;> simp_all
    · rcases space with _ | _ | _ <;> cases n <;> simp_all
    · omega

/-- at most two datagrams are charged to loss probes (i.e. may go beyond the window) between a probe timeout and
    the next one, over every sequence of `poll_transmit` calls and iterations -/
theorem probes_per_pto_le_two (s : St) (space : Nat) (n : Bool) (earlier : Option Nat)
    (he : ∀ e, earlier = some e → e < space ∧ e < 2) (cs : List (List Offer)) :
    (calls (onPto s space n earlier) cs).1.probeDatagrams ≤ 2 := by
  have h := calls_budget cs (onPto s space n earlier)
  have h2 := onPto_budget s space n earlier he
  unfold budget at h
  unfold budget at h2
  omega

/-- non-vacuity: a Data-space timeout with Handshake data pending sends exactly two probe datagrams
    (Handshake probe with the Data packet coalesced, then the Data probe) and then blocks -/
example :
    let s := onPto ⟨0, 0, 0, false, false, false, false, 0, 0, 0, 0⟩ 2 false (some 1)
    let r := calls s [[{ space := 1, ae := true, coalesce := false, inFlight := 12000, bytes := 1200, window := 12000 },
                       { space := 2, ae := true, coalesce := true, inFlight := 12000, bytes := 1200, window := 12000 },
                       { space := 2, ae := true, coalesce := false, inFlight := 13200, bytes := 1200, window := 12000 },
                       { space := 2, ae := true, coalesce := false, inFlight := 14400, bytes := 1200, window := 12000 }]]
    r.2 = [.pkt 1 true true false, .pkt 2 true true false, .pkt 2 true true false, .blocked] ∧ r.1.probeDatagrams = 2 := by
  decide

end QM.Props.C12_gate
