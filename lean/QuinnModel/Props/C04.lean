import QuinnModel.Lemmas.Dedup
import QuinnModel.Lemmas.Receive
/-
C04 — Only authentic packets are acted on, each at most once.   (property theorems only)
Core: the duplicate filter.  `accepted d ps` lists the packet numbers reported "not a duplicate"
(= whose frames the connection goes on to process) over an arbitrary delivery sequence `ps`.
-/
namespace QM.Props.C04
open QM QM.Dedup

/-- at most once: over ANY delivery sequence (any duplication, replay, reordering, jumps) no packet
    number is accepted twice -/
theorem dedup_at_most_once (ps : List Nat) : (accepted init ps).Nodup :=
  (accepted_fresh ps init (fun _ => False) init_inv).1

/-- the filter refines the set of numbers seen so far: one step -/
theorem dedup_refines_set (d : Dedup) (seen : Nat → Prop) (h : Inv d seen) (p : Nat) :
    Inv (insert d p).1 (fun q => seen q ∨ q = p) ∧ ((insert d p).2 = false → ¬ seen p) :=
  ⟨insert_preserves d seen h p, fun hnd => insert_not_dup_fresh d seen h p hnd⟩

/-- receive pipeline (ideal AEAD): over ANY sequence of datagrams — genuine, replayed, reordered, forged,
    truncated, unprotected — the packets whose frames are processed were authentic protected packets, and no
    packet number is processed twice (first packet of a connection included: see the T1 anchor on
    `handle_first_packet`) -/
theorem processed_implies_authentic_fresh (ps : List Receive.Pkt) (c : Receive.C) (hd : c.dedup = Dedup.init) :
    (Receive.processedPns (Receive.run c ps)).Nodup ∧
    ∀ (c' : Receive.C) (p : Receive.Pkt) (n : Nat), (Receive.step c' p).2 = .processed n →
      p.kind = .protectedPkt ∧ p.authentic = true ∧ n = p.pn := by
  refine ⟨(Receive.processed_fresh ps c (fun _ => False) (by rw [hd]; exact init_inv)).1, ?_⟩
  intro c' p n h
  have := Receive.processed_authentic c' p n h
  exact ⟨this.1, this.2.1, this.2.2.1⟩

/-- a forged, corrupted or cross-connection protected packet has no effect beyond the failure counter -/
theorem forged_no_effect (c : Receive.C) (p : Receive.Pkt) (hk : p.kind = .protectedPkt) (ha : p.authentic = false)
    (hh : p.headerOk = true) (hr : Receive.isStatelessReset p = false) :
    Receive.step c p = ({ c with authFailures := c.authFailures + 1 }, .dropped) :=
  Receive.forged_no_effect c p hk ha hh hr

/-- the only unauthenticated input that ends an established connection: a datagram of at least
    RESET_TOKEN_SIZE + 5 bytes whose last 16 bytes are the token the peer issued for the CID in use -/
theorem reset_iff_token (c : Receive.C) (p : Receive.Pkt) :
    (Receive.step c p).2 = .statelessReset ↔
      (p.len ≥ Gen.resetTokenSize + Gen.resetMinLenExtra ∧ p.endsWithResetToken = true) :=
  Receive.reset_iff c p

/-- a Retry is followed iff: client, still handshaking, no other server packet processed, non-empty token,
    integrity tag verifies — and at most once -/
theorem retry_accept_iff (c : Receive.C) (p : Receive.Pkt) (hk : p.kind = .retry) (hh : p.headerOk = true)
    (hr : Receive.isStatelessReset p = false) :
    (Receive.step c p).2 = .retryFollowed ↔
      (c.handshake = true ∧ c.server = false ∧ c.authed = 0 ∧ 16 < p.retryPayloadLen ∧ p.authentic = true) :=
  Receive.retry_followed_iff c p hk hh hr

theorem retry_at_most_once (c : Receive.C) (p q : Receive.Pkt) (hp : (Receive.step c p).2 = .retryFollowed) :
    (Receive.step (Receive.step c p).1 q).2 ≠ .retryFollowed :=
  Receive.retry_at_most_once c p q hp

/-- Version Negotiation ends only an attempt that has not yet processed any server packet -/
theorem vn_accept_iff (c : Receive.C) (p : Receive.Pkt) (hk : p.kind = .versionNegotiation) (hh : p.headerOk = true)
    (hr : Receive.isStatelessReset p = false) :
    (Receive.step c p).2 = .versionMismatch ↔ (c.handshake = true ∧ c.authed = 0 ∧ p.vnListsOurVersion = false) :=
  Receive.vn_abort_iff c p hk hh hr

-- non-vacuity: a run with duplicates and reordering
example : accepted init [3, 1, 3, 2, 1, 200, 3, 199] = [3, 1, 2, 200, 199] := by decide

end QM.Props.C04
