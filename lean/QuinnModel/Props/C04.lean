import QuinnModel.Lemmas.Dedup
/-
C04 — Only authentic packets are acted on, each at most once.   (property theorems only)
Core: the duplicate filter.  `accepted d ps` lists the packet numbers reported "not a duplicate"
(= whose frames the connection goes on to process) over an arbitrary delivery sequence `ps`.
-/
namespace QM.Props.C04
open QM QM.Dedup

/-- at most once: over ANY delivery sequence (any duplication, replay, reordering, jumps) no packet
    number is accepted twice -/
theorem dedup_at_most_once (ps : List Nat) : (accepted init ps).Nodup :=
  (accepted_fresh ps init (fun _ => False) init_inv).1

/-- the filter refines the set of numbers seen so far: one step -/
theorem dedup_refines_set (d : Dedup) (seen : Nat → Prop) (h : Inv d seen) (p : Nat) :
    Inv (insert d p).1 (fun q => seen q ∨ q = p) ∧ ((insert d p).2 = false → ¬ seen p) :=
  ⟨insert_preserves d seen h p, fun hnd => insert_not_dup_fresh d seen h p hnd⟩

-- non-vacuity: a run with duplicates and reordering
example : accepted init [3, 1, 3, 2, 1, 200, 3, 199] = [3, 1, 2, 200, 199] := by decide

end QM.Props.C04
