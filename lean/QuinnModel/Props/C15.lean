import QuinnModel.Lemmas.Path
/-
C15 — Path migration keeps the connection and cannot be hijacked.   (property theorems only)
Model: QuinnModel/Conn/Path.lean (current path, remembered previous path, challenge tokens, PathValidation
timer) over ALL histories of authenticated packets from any address, PATH_RESPONSEs and timeouts.
The anti-amplification limit on the unvalidated new path is C07 (`Props/C07.lean`, event `migrate`).
-/
namespace QM.Props.C15
open QM QM.PathM

/-- clients, and servers with migration disabled, ignore packets from any other address: over every history
    the path never changes -/
theorem ignored_unless_may_migrate (a : Nat) (evs : List Ev) :
    (run (init a false) evs).path.addr = a ∧ (run (init a false) evs).path.validated = true :=
  no_migration_path a evs

/-- the path changes only on a non-probing packet carrying the highest packet number, from another address -/
theorem migrate_only_on_trigger (s : S) (src now ptoNew ptoOld tok tok2 : Nat) :
    (step s (.pkt src false now ptoNew ptoOld tok tok2)).path = s.path :=
  pkt_no_trigger_keeps_path s src now ptoNew ptoOld tok tok2

/-- a freshly migrated-to path is unvalidated, carries a pending challenge, and the validation timer is armed
    THREE probe timeouts ahead, the probe timeout being the larger of the new path's and the old path's
    (`Spec`: the constant 3 and the max are written here; the model takes its factor from the source) -/
theorem new_path_unvalidated (s : S) (src now ptoNew ptoOld tok tok2 : Nat) (hm : s.mayMigrate = true) (hs : src ≠ s.path.addr) :
    let s' := step s (.pkt src true now ptoNew ptoOld tok tok2)
    s'.path.addr = src ∧ s'.path.validated = false ∧ s'.path.challenge = some tok ∧
      s'.timer = some (now + 3 * max ptoNew ptoOld) :=
  migrate_deadline_3pto s src now ptoNew ptoOld tok tok2 hm hs

/-- "returns to the previous path within three probe timeouts": after a migration at `now`, over EVERY
    continuation in which no further migration is triggered (any packets, responses with any tokens, timer
    services at any instants), servicing the timer at or after `now + 3·max(PTO new, PTO old)` finds the connection
    on a validated path: the new one if it was validated in between, otherwise the previous one -/
theorem held_at_most_3pto (s : S) (hi : Inv s) (src now ptoNew ptoOld tok tok2 : Nat) (hm : s.mayMigrate = true)
    (hs : src ≠ s.path.addr) (evs : List Ev) (hn : ∀ e ∈ evs, NotTrigger e) (t : Nat)
    (ht : now + 3 * max ptoNew ptoOld ≤ t) :
    (step (run (step s (.pkt src true now ptoNew ptoOld tok tok2)) evs) (.timeout t)).path.validated = true :=
  PathM.held_at_most_3pto s hi src now ptoNew ptoOld tok tok2 hm hs evs hn t ht

/-- a path becomes validated only by a PATH_RESPONSE echoing its own challenge, arriving from its own address
    (or by returning to the previously validated path) -/
theorem validated_only_by_matching_response (s : S) (e : Ev) (hi : Inv s)
    (hv : (step s e).path.validated = true) (hu : s.path.validated = false) :
    (∃ tok, e = .response s.path.addr tok ∧ s.path.challenge = some tok) ∨
    (∃ now p, e = .timeout now ∧ s.prev = some p ∧ (step s e).path.addr = p.addr) :=
  validated_cause s e hi hv hu

/-- over every history from an established validated path: whenever the current path is unvalidated, the
    previously validated path is still remembered (a second migration before validation does not clobber it)
    and the validation timer is armed -/
theorem prev_path_not_clobbered (a : Nat) (m : Bool) (evs : List Ev) :
    let s := run (init a m) evs
    s.path.validated = false → (∃ p, s.prev = some p ∧ p.validated = true) ∧ s.timer.isSome = true :=
  unvalidated_has_fallback a m evs

/-- if validation does not succeed, servicing the timer at its deadline returns to the previous validated path:
    revert within three probe timeouts of the (last) migration -/
theorem revert_within_3pto (s : S) (hi : Inv s) (hu : s.path.validated = false) (t now : Nat)
    (ht : s.timer = some t) (hn : t ≤ now) :
    ∃ p, s.prev = some p ∧ (step s (.timeout now)).path.addr = p.addr ∧
      (step s (.timeout now)).path.validated = true ∧ (step s (.timeout now)).prev = none :=
  timeout_reverts s hi hu t now ht hn

/-- … and the deadline is exactly 3·PTO after the last migration: later packets that do not migrate, and
    responses that do not match, leave it unchanged -/
theorem deadline_fixed_without_migration (s : S) (e : Ev) (t : Nat) (ht : s.timer = some t)
    (hne : ∀ src now ptoNew ptoOld tok tok2, e = .pkt src true now ptoNew ptoOld tok tok2 → src = s.path.addr ∨ s.mayMigrate = false) :
    (step s e).timer = some t ∨ (step s e).timer = none :=
  timer_kept s e t ht hne

-- non-vacuity: spoofed migration, second spoof before validation, revert; genuine migration validated
example : (run (init 1 true) [.pkt 9 true 100 10 7 7 8, .pkt 5 true 110 10 9 11 12, .response 9 7, .timeout 140]).path
    = ⟨1, true, none, false⟩ := by decide
-- (`pending` stays set: the model clears `pending` only on timeout / on the previous path; sending the
--  PATH_CHALLENGE frame, which clears it in quinn, is not modelled)
example : (run (init 1 true) [.pkt 2 true 100 10 4 7 8, .response 2 7]).path = ⟨2, true, none, true⟩ := by decide
example : (run (init 1 true) [.pkt 2 true 100 10 4 7 8, .response 2 7]).timer = none := by decide

-- the deadline of the first example: 100 + 3 * max 10 7 = 130
example : (step (init 1 true) (.pkt 9 true 100 10 7 7 8)).timer = some 130 := by decide

end QM.Props.C15
