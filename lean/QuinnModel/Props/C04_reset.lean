import QuinnModel.Lemmas.ResetTokens
/-!
C04, stateless-reset clause at connection level: "The only unauthenticated inputs that may end ... a connection are a
stateless reset carrying exactly the token the peer issued for the connection ID in use".

Model: Conn/ResetTokens.lean — where `peer_params.stateless_reset_token` (the only token `unprotect_header` compares
with) comes from: remembered (0-RTT) parameters through `init_0rtt`, the peer's parameters through `handle_peer_params`,
`set_reset_token` after `CidQueue::insert` / `CidQueue::next`. Histories are arbitrary lists of those events, interleaved
with reset-shaped datagrams (`accepts` is a read-only test, so it may be asked after every prefix).
`issued es` is the property's ledger: the tokens the PEER put into its transport parameters and NEW_CONNECTION_ID frames
IN THIS CONNECTION (written from the property text, it does not look at the queue or at the honoured token).
-/
namespace QM.Props.C04_reset
open QM QM.CidQueue QM.ResetTokens

/-- Over ALL histories of (resumption with remembered parameters, peer parameters, NEW_CONNECTION_ID, CID switch): a
reset-shaped datagram ends the connection only if it is at least 21 bytes long and its last 16 bytes are a token the
peer issued for THIS connection (transport parameters of this handshake or a NEW_CONNECTION_ID frame of this
connection). Tokens of earlier connections, remembered parameters, the endpoint's own tokens, random suffixes: never. -/
theorem reset_only_with_token_issued_for_this_connection (server : Bool) (remCid : Bytes) (es : List Ev) (len : Nat) (t : Bytes)
    (h : accepts (run (init server remCid) es) len t = true) :
    len ≥ 21 ∧ t ∈ issued es := by
  have hi := run_inv es (init server remCid) [] rfl (init_inv server remCid [])
  obtain ⟨hl, ht⟩ := (accepts_iff _ _ _).mp h
  exact ⟨hl, by simpa using hi.1 t ht⟩

/-- "in particular remembered (0-RTT) parameters contribute no token": a client that resumes a session with ANY
remembered parameters honours no token at all until the peer has issued one in the new connection — whatever else
happens (CID switches, parameters without token, refused frames). -/
theorem remembered_parameters_contribute_no_token (remCid : Bytes) (remembered : Option Bytes) (es : List Ev)
    (hnone : issued es = []) (len : Nat) (t : Bytes) :
    accepts (run (init false remCid) (.resume remembered :: es)) len t = false := by
  cases h : accepts (run (init false remCid) (.resume remembered :: es)) len t with
  | false => rfl
  | true =>
    have := (reset_only_with_token_issued_for_this_connection false remCid (.resume remembered :: es) len t h).2
    simp [issued, hnone] at this

/-- NEW_CONNECTION_ID retiring the CID in use (client side): the token honoured afterwards is the one the peer issued
with the CID that is in use afterwards (glue `set_reset_token` around `CidQueue::insert`). -/
theorem new_cid_switch_honours_token_of_cid_in_use (s : St) (hs : s.server = false) (seq rpt : Nat) (cid tok : Bytes)
    (q' : CidQueue) (a z : Nat) (t : Bytes) (hr : rpt ≤ seq) (h : CidQueue.insert s.q seq rpt cid tok = (q', .retired a z t)) :
    let s' := onNewCid s seq rpt cid tok
    s'.tok = some t ∧ s'.q = q' ∧ ∃ e, activeEntry s'.q = some e ∧ e.token = some t := by
  have hn : ¬ rpt > seq := by omega
  simp only [onNewCid, hn, if_false, h, setResetToken, hs, Bool.false_and, Bool.false_eq_true]
  exact ⟨trivial, trivial, insert_token s.q seq rpt cid tok q' a z t h⟩

/-- Local switch (`update_rem_cid`: local_address_changed, migration): same. -/
theorem switch_honours_token_of_cid_in_use (s : St) (q' : CidQueue) (t : Bytes) (a z : Nat)
    (h : CidQueue.next s.q = (q', .ok t a z)) :
    let s' := updateRemCid s
    s'.tok = some t ∧ s'.q = q' ∧ ∃ e, activeEntry s'.q = some e ∧ e.token = some t := by
  simp only [updateRemCid, h, setResetToken]
  exact ⟨trivial, trivial, next_token s.q q' t a z h⟩

/-- The converse reading "the token honoured is always the one stored with the CID in use" does NOT hold for every
history: a NEW_CONNECTION_ID frame that repeats the sequence number IN USE with other contents replaces the CID (and
token) stored for the CID in use (cid_queue.rs `self.buffer[index] = Some(..)`), while the token honoured stays what it
was (`insert` reports no retirement, so `set_reset_token` is not called). Only a misbehaving AUTHENTICATED peer can do
that (RFC 9000 19.15 allows PROTOCOL_VIOLATION); the token honoured is still one this peer issued earlier, so
`reset_only_with_token_issued_for_this_connection` is unaffected. Recorded as an observation, not as a C04 violation. -/
def honoured_token_is_stored_token_statement : Prop :=
  ∀ es : List Ev, ∀ e t, activeEntry (run (init false [1]) es).q = some e → e.token = some t →
    (run (init false [1]) es).tok = some t

def repeatedSeqWitness : List Ev := [.newCid 0 0 [9] [7]]

theorem honoured_token_is_stored_token_counterexample : ¬ honoured_token_is_stored_token_statement := by
  intro h
  have := h repeatedSeqWitness ⟨[9], some [7]⟩ [7] (by decide) rfl
  revert this
  decide

/-! ### non-vacuity -/

/-- a resumed client whose ticket remembered token [5]; the server's parameters of the NEW connection carry [6]; then
NEW_CONNECTION_ID seq 1 (token [7]) and seq 2 (token [9]) retiring everything below 2: honoured are exactly
none → [6] → [6] → [9]; the remembered [5] and the skipped [7] never. -/
example :
    let h0 : List Ev := [.resume (some [5])]
    let h1 := h0 ++ [.params (some [6])]
    let h2 := h1 ++ [.newCid 1 0 [2] [7]]
    let h3 := h2 ++ [.newCid 2 2 [3] [9]]
    (run (init false [1]) h0).tok = none ∧ accepts (run (init false [1]) h0) 40 [5] = false
    ∧ (run (init false [1]) h1).tok = some [6] ∧ accepts (run (init false [1]) h1) 40 [5] = false
    ∧ accepts (run (init false [1]) h1) 21 [6] = true ∧ accepts (run (init false [1]) h1) 20 [6] = false
    ∧ (run (init false [1]) h2).tok = some [6]
    ∧ (run (init false [1]) h3).tok = some [9] ∧ accepts (run (init false [1]) h3) 40 [7] = false
    ∧ accepts (run (init false [1]) h3) 40 [6] = false ∧ issued h3 = [[6], [7], [9]] := by decide

/-- a server switches to the client's first NEW_CONNECTION_ID at once and then honours its token -/
example : (run (init true [1]) [.params none, .newCid 1 0 [2] [7]]).tok = some [7] := by decide

/-- local switch with a spare CID: the spare's token becomes the honoured one -/
example : (run (init false [1]) [.params (some [6]), .newCid 1 0 [2] [7], .switch]).tok = some [7] := by decide

end QM.Props.C04_reset
