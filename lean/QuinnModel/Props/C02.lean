import QuinnModel.Lemmas.LossTimer
import QuinnModel.Lemmas.Lifecycle
import QuinnModel.Lemmas.Amplification
import QuinnModel.Lemmas.StreamsProgress
import QuinnModel.Lemmas.StreamsReadable
import QuinnModel.Lemmas.StreamsAnnounce
/-
C02 — Connections make progress: no deadlock under fair loss.   (property theorems only; PARTIAL)
Liveness under probabilistic fairness is not an inductive invariant.  Proved here: the deadlock-freedom facts
of the modelled mechanisms (loss-detection timer arming incl. the anti-deadlock rule, probes and the closing
packet exempt from congestion control and pacing, the anti-amplification gate reopening with every received
datagram).  The credit-return and event theorems of the stream layer are in Props/C06.lean / C11.lean.
Stream layer (Lemmas/StreamsProgress.lean, for EVERY state of the `StreamsState` model, hence after every history): a
queued event reaches an application that polls until nothing is reported; MAX_STREAMS that makes room for a refused
opener yields `Available`; MAX_STREAM_DATA / connection-level credit that makes room for a refused writer yields
`Writable`; a STREAM frame / RESET_STREAM accepted on a half whose reader is waiting yields `Readable` (or `Opened` for a
stream the application does not hold yet); a slot that an application call gives back to the peer (`stop` on a stream
whose final size is known, a read that reaches the end, `received_reset`) is queued for MAX_STREAMS by that very call
(Lemmas/StreamsAnnounce.lean) — not at the end of the next incoming packet, which a peer parked on the limit never sends.
Not proved: that the whole connection eventually completes — that is checked on real endpoints by the simulator
(completion of event-driven workloads under every seeded fair-loss schedule, `unarmed-timer` oracle at every
quiescent point, 0-RTT / Retry / key-update / migration schedules).
-/
namespace QM.Props.C02
open QM

/-- no unarmed timer: open connection, not anti-amplification blocked, ack-eliciting data in flight in a space the
    PTO may cover (Initial, Handshake, or Data once the handshake is complete) ⇒ the loss-detection timer is set -/
theorem timer_armed (s : LossTimer.S) (now : Nat) (old : Option Nat) (hc : s.closed = false) (ha : s.ampBlocked = false)
    (hae : 0 < s.inFlightAckEliciting) (h : LossTimer.covered s) : (LossTimer.setTimer s now old).isSome = true :=
  LossTimer.setTimer_armed s now old hc ha hae h

/-- handshake anti-deadlock: a client whose server may still be blocked by the anti-amplification limit keeps the
    timer armed although nothing is in flight -/
theorem timer_armed_anti_deadlock (s : LossTimer.S) (now : Nat) (old : Option Nat) (hc : s.closed = false)
    (ha : s.ampBlocked = false) (h0 : s.inFlightAckEliciting = 0) (hp : s.peerCompleted = false) :
    (LossTimer.setTimer s now old).isSome = true :=
  LossTimer.setTimer_anti_deadlock s now old hc ha h0 hp

/-- the only way the timer is cleared with ack-eliciting data in flight on an open, unblocked connection: all of
    it is Data-space (0-RTT) data while still handshaking — which is why the timer must be recomputed when the
    connection becomes Established (fixed defect, see known_findings.txt) -/
theorem timer_cleared_only_if_uncovered (s : LossTimer.S) (now : Nat) (old : Option Nat) (hc : s.closed = false)
    (ha : s.ampBlocked = false) (hae : 0 < s.inFlightAckEliciting) (hn : LossTimer.setTimer s now old = none) :
    ¬ LossTimer.covered s :=
  LossTimer.setTimer_none_cause s now old hc ha hae hn

/-- loss probes are never held back by congestion control or pacing (a PTO always gets its packets out) -/
theorem probe_not_cc_blocked (close queued : Bool) (lossProbes : Nat) (hp : 0 < lossProbes) (cc pacing : Bool) :
    Life.sendsDatagram close queued lossProbes false cc pacing = true := by
  have : (lossProbes == 0) = false := by simp; omega
  simp [Life.sendsDatagram, this]

/-- every datagram received from an unvalidated peer re-opens the anti-amplification gate for at least one more
    datagram: after `recv n` with n > 0 the gate for the first datagram of the next call is open whenever it was
    open or exactly exhausted before -/
theorem amp_unblocks_on_receive (p : Amp.Path) (n seg : Nat) (hn : 0 < n) (hv : p.validated = false)
    (hb : p.sent ≤ 3 * p.recvd) :
    Gen.antiAmpBlocked (Amp.step p (.recv n)).validated (Amp.step p (.recv n)).sent (Amp.step p (.recv n)).recvd
      (Gen.antiAmpGateArg seg 0) = false := by
  simp [Amp.step, Gen.antiAmpBlocked, Gen.antiAmpGateArg, hv]
  omega

/-- probes sent into a space whose keys the peer has dropped are never acknowledged; their backoff does not carry over:
    after `discard_space` the PTO backoff factor of the remaining spaces is 1, whatever it had grown to -/
theorem discard_space_restarts_backoff (s : LossTimer.S) (clear : LossTimer.S → LossTimer.S) :
    LossTimer.backoff (LossTimer.discardSpace s clear) = 1 := by
  simp [LossTimer.discardSpace, LossTimer.backoff]


/-! ### stream layer: a refused application is told when the peer makes room -/
open Streams in
/-- no lost application event: whatever else is pending, an application that calls `poll` until it reports nothing
    (`drain`; `fuel` only bounds the number of calls) is handed every event that was queued -/
theorem queued_event_delivered (s : State) (e : Event) (fuel : Nat) (he : e ∈ s.events) (hf : pollMeasure s ≤ fuel)
    (es : List Event) (s' : State) (hd : drain fuel s = some (es, s')) : e ∈ es :=
  Streams.queued_event_delivered fuel s e he hf es s' hd

open Streams in
/-- withheld stream-count update / lost `Available`: an opener that is refused now (`next >= max`) and a MAX_STREAMS
    that makes room: no error, `open` is no longer refused, and the application polling until nothing is reported is
    handed `Available` for that direction -/
theorem available_after_max_streams (s : State) (dir : Dir) (count fuel : Nat)
    (hblocked : Gen.openExhausted (s.next.get dir) (s.max.get dir) = true) (hroom : s.next.get dir < count)
    (hrep : Gen.maxStreamsUnrepresentable count = false)
    (hf : pollMeasure (s.receivedMaxStreams dir count).1 ≤ fuel) :
    (s.receivedMaxStreams dir count).2 = none ∧
    Gen.openExhausted ((s.receivedMaxStreams dir count).1.next.get dir) ((s.receivedMaxStreams dir count).1.max.get dir) = false ∧
    ∀ es s', drain fuel (s.receivedMaxStreams dir count).1 = some (es, s') → Event.available dir ∈ es := by
  obtain ⟨h1, h2, h3⟩ := receivedMaxStreams_available s dir count hblocked hroom hrep
  exact ⟨h1, h3, fun es s' hd => Streams.queued_event_delivered fuel _ _ h2 hf es s' hd⟩

open Streams in
/-- lost `Writable`, stream-level credit: a locally opened stream whose writer is refused for want of stream credit
    (`offset = max_data`, still writable) and a MAX_STREAM_DATA above the limit: with connection-level budget
    (`write_limit > 0`) the polling application is handed `Writable`; without it the stream is put on the blocked
    list with the new limit (`writable_after_connection_credit` then applies as soon as there is budget) -/
theorem writable_after_credit (s : State) (id offset wl fuel : Nat) (x : Send)
    (hx : s.send.find? id = some (some x)) (hready : x.state = .ready) (hblocked : x.pending.offset = x.maxData)
    (hraise : x.maxData < offset) (hlocal : sidInitiator id = s.side) (hwl : s.writeLimit = some wl)
    (hinv : x.connectionBlocked = true → id ∈ s.connectionBlocked) :
    ∃ s', s.receivedMaxStreamData id offset = some (s', none) ∧
      (0 < wl → pollMeasure s' ≤ fuel → ∀ es s'', drain fuel s' = some (es, s'') → Event.writable id ∈ es) ∧
      (wl = 0 → id ∈ s'.connectionBlocked ∧ ∃ x', s'.send.find? id = some (some x') ∧ x'.isWritable = true ∧
        x'.pending.offset < x'.maxData) := by
  obtain ⟨s', h1, h2, h3⟩ := receivedMaxStreamData_unblocks s id offset wl x hx hready hblocked hraise hlocal hwl hinv
  refine ⟨s', h1, fun hp hf es s'' hd => Streams.queued_event_delivered fuel _ _ (h2 hp) hf es s'' hd, fun h0 => ?_⟩
  obtain ⟨hm, x', hx', _, hmd, hoff, hst⟩ := h3 h0
  exact ⟨hm, x', hx', by simp [Send.isWritable, hst, hready], by omega⟩

open Streams in
/-- lost `Writable`, connection-level credit (MAX_DATA, acknowledgements releasing the send window, a larger send
    window): once `write_limit > 0`, the polling application is handed `Writable` for every stream on the blocked list
    that can take data (still writable, stream credit left) -/
theorem writable_after_connection_credit (s : State) (id wl fuel : Nat) (x : Send)
    (hmem : id ∈ s.connectionBlocked) (hx : s.send.find? id = some (some x)) (hw : x.isWritable = true)
    (hc : x.pending.offset < x.maxData) (hwl : s.writeLimit = some wl) (hpos : 0 < wl) (hf : pollMeasure s ≤ fuel)
    (es : List Event) (s' : State) (hd : drain fuel s = some (es, s')) : Event.writable id ∈ es :=
  blocked_stream_reported fuel s id x wl hmem hx hw hc hwl hpos hf es s' hd

open Streams in
/-- lost `Readable`: a reader that was told `Blocked` holds a receiving half that is still receiving and that it has
    not stopped (`hg`, `hrecv`, `hst`; `read` answers `Blocked` in no other state).  EVERY STREAM frame that is accepted
    on such a half — new contiguous data, a FIN, or anything else — tells the application: if it already holds the
    stream (locally initiated, or below `next_remote`, i.e. reported by `Opened` before) `Readable id` is queued and
    the application polling until nothing is reported is handed it; otherwise the `Opened` flag of the direction is
    raised and the stream lies below `next_remote` (the next `poll` reports `Opened`, `accept` hands the stream out) -/
theorem readable_after_data (s s' s1 : State) (id off len fuel : Nat) (fin t : Bool) (rs : Recv)
    (h : s.received id off len fin = some (s', .ok t))
    (hg : s.getOrInsertRecv id = some (rs, s1)) (hrecv : rs.isReceiving = true) (hst : rs.stopped = false) :
    ((sidInitiator id = s.side ∨ sidIndex id < s.nextRemote.get (sidDir id)) →
      Event.readable id ∈ s'.events ∧
      (pollMeasure s' ≤ fuel → ∀ es s'', drain fuel s' = some (es, s'') → Event.readable id ∈ es)) ∧
    (¬ (sidInitiator id = s.side ∨ sidIndex id < s.nextRemote.get (sidDir id)) →
      s'.opened.get (sidDir id) = true ∧ sidIndex id < s'.nextRemote.get (sidDir id)) := by
  have hn := received_notifies h hg hrecv hst
  unfold Notified at hn
  constructor
  · intro hh
    rw [if_pos hh] at hn
    exact ⟨hn, fun hf es s'' hd => Streams.queued_event_delivered fuel _ _ hn hf es s'' hd⟩
  · intro hh
    rw [if_neg hh] at hn
    exact hn

open Streams in
/-- the same for a RESET_STREAM that takes effect (`hr`: not a duplicate, no error) on a half the application has
    not stopped -/
theorem readable_after_reset (s s' s1 : State) (id code fo fuel : Nat) (t : Bool) (rs rs' : Recv)
    (h : s.receivedReset id code fo = some (s', .ok t))
    (hg : s.getOrInsertRecv id = some (rs, s1))
    (hr : rs.reset code fo s1.dataRecvd s1.localMaxData = some (.ok (true, rs'))) (hst : rs.stopped = false) :
    ((sidInitiator id = s.side ∨ sidIndex id < s.nextRemote.get (sidDir id)) →
      Event.readable id ∈ s'.events ∧
      (pollMeasure s' ≤ fuel → ∀ es s'', drain fuel s' = some (es, s'') → Event.readable id ∈ es)) ∧
    (¬ (sidInitiator id = s.side ∨ sidIndex id < s.nextRemote.get (sidDir id)) →
      s'.opened.get (sidDir id) = true ∧ sidIndex id < s'.nextRemote.get (sidDir id)) := by
  have hn := receivedReset_notifies h hg hr hst
  unfold Notified at hn
  constructor
  · intro hh
    rw [if_pos hh] at hn
    exact ⟨hn, fun hf es s'' hd => Streams.queued_event_delivered fuel _ _ hn hf es s'' hd⟩
  · intro hh
    rw [if_neg hh] at hn
    exact hn

/-! ### stream layer: a slot given back by the application is announced by the same call -/
open Streams in
/-- no withheld stream-count update (`RecvStream::stop`, hence also a dropped `RecvStream` handle): in ANY state, a
    `stop` that raises the peer's stream limit in direction `d` (`hfreed`: it freed a stream of the peer whose final
    size was known — RESET_STREAM or FIN received, data unread) leaves MAX_STREAMS queued for `d` whenever the part of
    the limit the peer has not been told about is one the endpoint announces at all (`Gen.maxStreamsSignificant`, the
    threshold of `queue_max_stream_id` read from the source).  Before the repair the frame was queued only at the end
    of the next incoming packet: a peer parked in `open_uni()` / `open_bi()` on the limit stayed parked
    (finding `c18-stream-credit-announced-only-after-next-packet`). -/
theorem stop_announces_freed_slot (s s' : State) (id code : Nat) (b : Bool) (d : Dir)
    (h : s.stop id code = some (s', b)) (hfreed : s.maxRemote.get d < s'.maxRemote.get d)
    (hsig : Gen.maxStreamsSignificant (s'.maxRemote.get d - s'.sentMaxRemote.get d)
      (s'.maxConcurrentRemoteCount.get d) = true) :
    s'.rtx.maxStreamId.get d = true :=
  stop_announces d h hfreed hsig

open Streams in
/-- the same for a read that gives the slot back (it delivered the end of the stream or the reset) -/
theorem read_announces_freed_slot (s s' : State) (id budget : Nat) (r : ReadRes) (d : Dir)
    (h : s.read id budget = some (s', r)) (hfreed : s.maxRemote.get d < s'.maxRemote.get d)
    (hsig : Gen.maxStreamsSignificant (s'.maxRemote.get d - s'.sentMaxRemote.get d)
      (s'.maxConcurrentRemoteCount.get d) = true) :
    s'.rtx.maxStreamId.get d = true :=
  read_announces d h hfreed hsig

open Streams in
/-- the same for `RecvStream::received_reset` that reports the reset code and drops the stream -/
theorem received_reset_announces_freed_slot (s s' : State) (id : Nat) (r : Option (Option Nat)) (d : Dir)
    (h : s.recvReceivedReset id = some (s', r)) (hfreed : s.maxRemote.get d < s'.maxRemote.get d)
    (hsig : Gen.maxStreamsSignificant (s'.maxRemote.get d - s'.sentMaxRemote.get d)
      (s'.maxConcurrentRemoteCount.get d) = true) :
    s'.rtx.maxStreamId.get d = true :=
  recvReceivedReset_announces d h hfreed hsig

-- non-vacuity
example : LossTimer.covered ⟨false, false, false, 3, true, 0, 100, 25, false, ⟨false, none, none⟩, ⟨false, none, none⟩, ⟨true, some 7, none⟩⟩ := by
  simp [LossTimer.covered]
example : LossTimer.setTimer ⟨false, true, false, 3, false, 0, 100, 25, false, ⟨false, none, none⟩, ⟨false, none, none⟩, ⟨true, some 7, none⟩⟩ 50 none = none := by
  decide

-- non-vacuity (stream layer): a refused opener / writer, then the frame that makes room, then polling
open Streams in
example : (drain 3 (State.initial.receivedMaxStreams .bi 2).1).map (·.1) = some [Event.available .bi] := by decide
open Streams in
example : Gen.openExhausted (State.initial.next.get .bi) (State.initial.max.get .bi) = true := by decide
/-- stream 0 of a client, 5 bytes written = its limit 5, connection budget 100 -/
def blockedWriter : Streams.State :=
  { Streams.State.initial with send := [(0, some { maxData := 5, pending := { offset := 5 } })], next := ⟨1, 0⟩, max := ⟨1, 0⟩, maxData := 100, dataSent := 5, sendWindow := 1000, unackedData := 5 }
open Streams in
example : ((blockedWriter.receivedMaxStreamData 0 9).bind fun r => (drain 3 r.1).map (·.1)) = some [Event.writable 0] := by decide
/-- the same stream, listed as blocked on connection-level credit, after MAX_DATA raised the budget -/
def listedWriter : Streams.State :=
  { Streams.State.initial with send := [(0, some { maxData := 50, pending := { offset := 5 }, connectionBlocked := true })], next := ⟨1, 0⟩, max := ⟨1, 0⟩, connectionBlocked := [0], maxData := 5, dataSent := 5, sendWindow := 1000, unackedData := 5 }
open Streams in
example : (drain 3 (listedWriter.receivedMaxData 40)).map (·.1) = some [Event.writable 0] := by decide
open Streams in
example : (drain 3 listedWriter).map (·.1) = some [] := by decide
/-- a server whose reader of the client's stream 0 was told Blocked after 5 bytes (stream accepted, 5 bytes read) -/
def blockedReader : Option Streams.State :=
  Streams.runSteps Streams.State.initial [.new ⟨.server, 2, 2, 1000, 1000, 1000⟩, .params ⟨100, 100, 100, 4, 4, 1000⟩,
    .stream 0 0 5 false, .poll, .accept .bi, .read 0 100, .poll]
open Streams in
example : (blockedReader.bind fun s => (s.read 0 100).map (·.2)) = some (.ok 0 .blocked false) := by decide
open Streams in
example : (blockedReader.bind fun s => (s.received 0 5 3 false).bind fun r => (drain 3 r.1).map (·.1)) =
    some [Event.readable 0] := by decide
open Streams in
example : (blockedReader.bind fun s => (s.receivedReset 0 7 5).bind fun r => (drain 3 r.1).map (·.1)) =
    some [Event.readable 0] := by decide

/-- a server that permits the client 2 unidirectional streams; the client's stream 2 was reset (RESET_STREAM arrived,
    nothing read) and its stream 6 carried 5 bytes and a FIN (unread) -/
def knownFinal : Option Streams.State :=
  Streams.runSteps Streams.State.initial [.new ⟨.server, 2, 1, 1000, 1000, 1000⟩, .params ⟨100, 100, 100, 2, 2, 1000⟩,
    .rst 2 7 0, .stream 6 0 5 true]
-- `stop` after the reset / after the FIN: the limit goes from 2 to 3, the raise is significant, MAX_STREAMS is queued
open Streams in
example : (knownFinal.bind fun s => (s.stop 2 7).map fun r =>
    (s.maxRemote.get .uni, r.1.maxRemote.get .uni, r.1.sentMaxRemote.get .uni,
      Gen.maxStreamsSignificant (r.1.maxRemote.get .uni - r.1.sentMaxRemote.get .uni) (r.1.maxConcurrentRemoteCount.get .uni),
      r.1.rtx.maxStreamId.get .uni, s.rtx.maxStreamId.get .uni)) = some (2, 3, 2, true, true, false) := by decide
open Streams in
example : (knownFinal.bind fun s => (s.stop 6 9).map fun r =>
    (s.maxRemote.get .uni, r.1.maxRemote.get .uni, r.1.rtx.maxStreamId.get .uni, r.1.rtx.stopSending)) =
    some (2, 3, true, [(6, 9)]) := by decide
-- a read to the end / received_reset on the same streams
open Streams in
example : (knownFinal.bind fun s => (s.read 6 100).map fun r => (r.1.maxRemote.get .uni, r.1.rtx.maxStreamId.get .uni)) =
    some (3, true) := by decide
open Streams in
example : (knownFinal.bind fun s => (s.recvReceivedReset 2).map fun r => (r.1.maxRemote.get .uni, r.1.rtx.maxStreamId.get .uni)) =
    some (3, true) := by decide

end QM.Props.C02
