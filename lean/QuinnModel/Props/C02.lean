import QuinnModel.Lemmas.LossTimer
import QuinnModel.Lemmas.Lifecycle
import QuinnModel.Lemmas.Amplification
/-
C02 — Connections make progress: no deadlock under fair loss.   (property theorems only; PARTIAL)
Liveness under probabilistic fairness is not an inductive invariant.  Proved here: the deadlock-freedom facts
of the modelled mechanisms (loss-detection timer arming incl. the anti-deadlock rule, probes and the closing
packet exempt from congestion control and pacing, the anti-amplification gate reopening with every received
datagram).  The credit-return and event theorems of the stream layer are in Props/C06.lean / C11.lean.
Not proved: that the whole connection eventually completes — that is checked on real endpoints by the simulator
(completion of event-driven workloads under every seeded fair-loss schedule, `unarmed-timer` oracle at every
quiescent point, 0-RTT / Retry / key-update / migration schedules).
-/
namespace QM.Props.C02
open QM

/-- no unarmed timer: open connection, not anti-amplification blocked, ack-eliciting data in flight in a space the
    PTO may cover (Initial, Handshake, or Data once the handshake is complete) ⇒ the loss-detection timer is set -/
theorem timer_armed (s : LossTimer.S) (now : Nat) (old : Option Nat) (hc : s.closed = false) (ha : s.ampBlocked = false)
    (hae : 0 < s.inFlightAckEliciting) (h : LossTimer.covered s) : (LossTimer.setTimer s now old).isSome = true :=
  LossTimer.setTimer_armed s now old hc ha hae h

/-- handshake anti-deadlock: a client whose server may still be blocked by the anti-amplification limit keeps the
    timer armed although nothing is in flight -/
theorem timer_armed_anti_deadlock (s : LossTimer.S) (now : Nat) (old : Option Nat) (hc : s.closed = false)
    (ha : s.ampBlocked = false) (h0 : s.inFlightAckEliciting = 0) (hp : s.peerCompleted = false) :
    (LossTimer.setTimer s now old).isSome = true :=
  LossTimer.setTimer_anti_deadlock s now old hc ha h0 hp

/-- the only way the timer is cleared with ack-eliciting data in flight on an open, unblocked connection: all of
    it is Data-space (0-RTT) data while still handshaking — which is why the timer must be recomputed when the
    connection becomes Established (fixed defect, see known_findings.txt) -/
theorem timer_cleared_only_if_uncovered (s : LossTimer.S) (now : Nat) (old : Option Nat) (hc : s.closed = false)
    (ha : s.ampBlocked = false) (hae : 0 < s.inFlightAckEliciting) (hn : LossTimer.setTimer s now old = none) :
    ¬ LossTimer.covered s :=
  LossTimer.setTimer_none_cause s now old hc ha hae hn

/-- loss probes are never held back by congestion control or pacing (a PTO always gets its packets out) -/
theorem probe_not_cc_blocked (close queued : Bool) (lossProbes : Nat) (hp : 0 < lossProbes) (cc pacing : Bool) :
    Life.sendsDatagram close queued lossProbes false cc pacing = true := by
  have : (lossProbes == 0) = false := by simp; omega
  simp [Life.sendsDatagram, this]

/-- every datagram received from an unvalidated peer re-opens the anti-amplification gate for at least one more
    datagram: after `recv n` with n > 0 the gate for the first datagram of the next call is open whenever it was
    open or exactly exhausted before -/
theorem amp_unblocks_on_receive (p : Amp.Path) (n seg : Nat) (hn : 0 < n) (hv : p.validated = false)
    (hb : p.sent ≤ 3 * p.recvd) :
    Gen.antiAmpBlocked (Amp.step p (.recv n)).validated (Amp.step p (.recv n)).sent (Amp.step p (.recv n)).recvd
      (Gen.antiAmpGateArg seg 0) = false := by
  simp [Amp.step, Gen.antiAmpBlocked, Gen.antiAmpGateArg, hv]
  omega

/-- probes sent into a space whose keys the peer has dropped are never acknowledged; their backoff does not carry over:
    after `discard_space` the PTO backoff factor of the remaining spaces is 1, whatever it had grown to -/
theorem discard_space_restarts_backoff (s : LossTimer.S) (clear : LossTimer.S → LossTimer.S) :
    LossTimer.backoff (LossTimer.discardSpace s clear) = 1 := by
  simp [LossTimer.discardSpace, LossTimer.backoff]

-- non-vacuity
example : LossTimer.covered ⟨false, false, false, 3, true, 0, 100, 25, false, ⟨false, none, none⟩, ⟨false, none, none⟩, ⟨true, some 7, none⟩⟩ := by
  simp [LossTimer.covered]
example : LossTimer.setTimer ⟨false, true, false, 3, false, 0, 100, 25, false, ⟨false, none, none⟩, ⟨false, none, none⟩, ⟨true, some 7, none⟩⟩ 50 none = none := by
  decide

end QM.Props.C02
