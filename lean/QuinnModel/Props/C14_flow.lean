import QuinnModel.Lemmas.TokenFlow
/-
C14, last clause, at CONNECTION level: "client-side token stores hand out each stored token at most once",
over "all histories of token issue/use/reuse across connections … and the in-memory token cache with any capacity"
(RFC 9000 8.1.3: a client MUST NOT reuse a token).

Model: Conn/TokenFlow.lean — one application, the model of `TokenMemoryCache` (Endpoint/TokenCache.lean, any
capacity), any number of connection attempts; events `connect` (the store's `take`), `sendInitial`, `retry`,
`newToken` (the store's `insert`), `initialKeysDiscarded`, `ended` (timeout, refusal, version negotiation, close,
reset, drop: NO access to the store).  That the code has no other access is the T1 anchor
`Gen.tokenStoreSitesShape` / `Gen.clientTokenWritersShape` (tools/gen.d/tokflow.py).

Hypothesis of every theorem: the tokens servers hand to this client (NEW_TOKEN frames, Retry packets) are pairwise
distinct (`(issued evs).Nodup`) — every token ends in a fresh 128-bit nonce (`Token::new`).  Without it the
statement is false for reasons outside the client (a server sending one token twice).
-/
namespace QM.Props.C14_flow
open QM.TokenFlow

/-- Over ALL histories and all cache capacities: nothing panics, and every token is in the Initial packets of at
    most one connection attempt — whatever way the attempts end (timeout with no server packet, refusal, version
    negotiation, Retry then silence, local close, …) and however often Initials are retransmitted. -/
theorem presented_at_most_once {α : Type} [DecidableEq α] (maxNames maxTokens : Nat) (evs : List (Ev α))
    (hfresh : (issued evs).Nodup) :
    ∃ s, run (init maxNames maxTokens) evs = some s ∧
      ∀ i j t, (i, t) ∈ s.wire → (j, t) ∈ s.wire → i = j := by
  obtain ⟨s, hs, hi⟩ := run_finv evs (init maxNames maxTokens) [] (init_finv _ _) (by simpa using hfresh)
  exact ⟨s, hs, hi.once⟩

/-- a client presents only what servers gave it: every token in an Initial came in a NEW_TOKEN frame or a Retry -/
theorem presented_was_issued {α : Type} [DecidableEq α] (maxNames maxTokens : Nat) (evs : List (Ev α))
    (hfresh : (issued evs).Nodup) :
    ∃ s, run (init maxNames maxTokens) evs = some s ∧ ∀ i t, (i, t) ∈ s.wire → t ∈ issued evs := by
  obtain ⟨s, hs, hi⟩ := run_finv evs (init maxNames maxTokens) [] (init_finv _ _) (by simpa using hfresh)
  exact ⟨s, hs, fun i t h => by simpa using (hi.wire i t h).1⟩

/-- the store and the attempts never share a token: a token that is still stored is carried by no attempt and was
    never on the wire; a token an attempt carries is carried by that attempt alone; a token that was on the wire can
    only be carried by the attempt that sent it -/
theorem stored_tokens_are_unused {α : Type} [DecidableEq α] (maxNames maxTokens : Nat) (evs : List (Ev α))
    (hfresh : (issued evs).Nodup) :
    ∃ s, run (init maxNames maxTokens) evs = some s ∧
      (∀ j t, holds s.attempts j t → t ∉ TokenCache.allToks s.cache.lru ∧ ∀ k, holds s.attempts k t → k = j) ∧
      (∀ i t, (i, t) ∈ s.wire → t ∉ TokenCache.allToks s.cache.lru ∧ ∀ k, holds s.attempts k t → k = i) := by
  obtain ⟨s, hs, hi⟩ := run_finv evs (init maxNames maxTokens) [] (init_finv _ _) (by simpa using hfresh)
  refine ⟨s, hs, fun j t h => ?_, fun i t h => ?_⟩
  · obtain ⟨_, h2, h3⟩ := hi.held j t h
    exact ⟨List.count_eq_zero.mp h2, h3⟩
  · obtain ⟨_, h2, h3⟩ := hi.wire i t h
    exact ⟨List.count_eq_zero.mp h2, h3⟩

/-- the end of an attempt — any end — leaves the store, the other attempts and the wire as they are -/
theorem attempt_end_leaves_store_alone {α : Type} (s : St α) (i : Nat) (how : End) :
    step s (.ended i how) = some s := rfl

/-! ### The statement is sensitive to exactly the seeded change

`stepReinsert` is `step` with one difference: an attempt that ends by idle timeout puts its token back into the
store (seeded/C14c-token-reinserted-on-timeout).  With it the property is false. -/

def stepReinsert (s : St Nat) : Ev Nat → Option (St Nat)
  | .ended i .idleTimeout =>
    match s.attempts[i]? with
    | some ⟨n, some t⟩ =>
      match TokenCache.store s.cache n t with
      | none => none
      | some c => some { s with cache := c }
    | _ => some s
  | e => step s e

def runReinsert (s : St Nat) : List (Ev Nat) → Option (St Nat)
  | [] => some s
  | e :: es => match stepReinsert s e with
    | none => none
    | some s' => runReinsert s' es

/-- one earlier connection stored token 7; attempt 1 takes it, sends it, times out; attempt 2 gets it again -/
def reinsertWitness : List (Ev Nat) :=
  [.connect "localhost", .newToken 0 7, .connect "localhost", .sendInitial 1, .ended 1 .idleTimeout,
   .connect "localhost", .sendInitial 2]

theorem reinsert_on_timeout_presents_twice :
    (issued reinsertWitness).Nodup ∧
    (runReinsert (init 256 2) reinsertWitness).map (·.wire) = some [(1, 7), (2, 7)] := by decide

-- the same history on the real step function: attempt 2 finds the store empty
example : (run (init 256 2) reinsertWitness).map (·.wire) = some [(1, 7)] := by decide

-- non-vacuity: two names, capacity 1 x 2, Retry in attempt 1, overflow of the per-name queue, eviction of a name,
-- an attempt that dies before sending anything; six Initials, every token with one attempt only
example : (run (init 1 2 : St Nat)
    [.connect "a", .newToken 0 1, .newToken 0 2, .newToken 0 3, .connect "a", .sendInitial 1, .retry 1 10,
     .sendInitial 1, .sendInitial 1, .ended 1 .handshakeTimeout, .connect "a", .ended 2 .dropped, .connect "b",
     .newToken 3 4, .connect "a", .connect "b", .sendInitial 5, .initialKeysDiscarded 5, .sendInitial 5,
     .sendInitial 0]).map (·.wire) = some [(1, 2), (1, 10), (1, 10), (5, 4)] := by decide

end QM.Props.C14_flow
