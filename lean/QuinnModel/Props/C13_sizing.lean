import QuinnModel.Conn.Sizing
import QuinnModel.Conn.SendGate
/-
C13 — datagram sizing in `Connection::poll_transmit` / `PacketBuilder` (property theorems only; shape-anchored skeleton,
see `Conn/Sizing.lean`).  Hypotheses name what the code relies on: `WritersRespect` = every frame writer stops at
`max_size` (true for all writers that take `max_size`; NOT enforced for ACK frames, `populate_acks` has no such argument:
finding `C13-ack-frame-written-without-size-check`), and `tagLen ≤ limit`.
-/
namespace QM.Props.C13_sizing
open QM QM.Sizing

/-- the frame writers stopped at `max_size`, and the header-protection minimum fits as `PacketBuilder::new` asserts -/
def WritersRespect (d : Dgram) : Prop := d.payloadEnd ≤ maxSize d ∧ d.minSize ≤ maxSize d ∧ d.start ≤ d.payloadEnd

/-- FULL statement: a finished datagram never exceeds the room it was given -/
def datagram_le_segment_statement : Prop :=
  ∀ d : Dgram, WritersRespect d → d.tagLen ≤ d.limit → finishedLen d ≤ d.limit

/-- what holds: an unpadded datagram, or a padded one whose room is at least MIN_INITIAL_SIZE, stays within its room
    (so within `segment_size`, and within 1200 for a loss probe: `C13.loss_probe_le_1200`) -/
theorem datagram_le_segment (d : Dgram) (hw : WritersRespect d) (ht : d.tagLen ≤ d.limit)
    (hp : d.pad = true → Gen.sgMinInitialSize ≤ d.limit) : finishedLen d ≤ d.limit := by
  obtain ⟨h1, h2, h3⟩ := hw
  unfold finishedLen paddedMin maxSize at *
  simp only [] at *
  split
  · rename_i hpad
    have := hp hpad
    simp only [Nat.max_def]
    split <;> split <;> omega
  · simp only [Nat.max_def]
    split <;> omega

/-- the full statement is false: `pad_to` ignores `max_size`, so a padded datagram whose room is below 1200 (a later
    datagram of a GSO batch whose first datagram was shorter than 1200 bytes) overruns its segment
    (finding `C13-pad-to-ignores-max-size`, not reached by the simulator: needs > 1100 bytes of Handshake data) -/
theorem datagram_le_segment_counterexample : ¬ datagram_le_segment_statement := by
  intro h
  have := h ⟨1150, 1150, 16, 1190, 1180, true⟩ (by unfold WritersRespect maxSize; decide) (by decide)
  revert this; decide

/-- client Initial datagrams (and every datagram whose packet carries PATH_CHALLENGE / PATH_RESPONSE) are at least
    1200 bytes: `pad_datagram` is set for them and the finished datagram then has at least MIN_INITIAL_SIZE bytes -/
theorem padded_ge_min_initial (d : Dgram) (hp : d.pad = true) (ht : d.tagLen ≤ Gen.sgMinInitialSize) :
    Gen.sgMinInitialSize ≤ finishedLen d := by
  unfold finishedLen paddedMin
  simp only [hp, if_true, Nat.max_def]
  split <;> split <;> omega

theorem initial_client_padded (d : Dgram) (ackEl reqPad : Bool) (ht : d.tagLen ≤ Gen.sgMinInitialSize)
    (hp : d.pad = padDatagram true true ackEl reqPad) : 1200 ≤ finishedLen d := by
  have : d.pad = true := by rw [hp]; simp [padDatagram]
  exact padded_ge_min_initial d this ht

theorem path_frames_padded (d : Dgram) (hasInitial isClient ackEl : Bool) (ht : d.tagLen ≤ Gen.sgMinInitialSize)
    (hp : d.pad = padDatagram hasInitial isClient ackEl true) : 1200 ≤ finishedLen d := by
  have : d.pad = true := by rw [hp]; simp [padDatagram]
  exact padded_ge_min_initial d this ht

/-- non-vacuity: a client Initial ACK of 60 bytes is padded to exactly 1200 -/
example : finishedLen ⟨0, 1200, 16, 60, 40, padDatagram true true false false⟩ = 1200 := by decide

/-! ### "loss probes never exceed 1200 bytes" over ALL runs of the send loop, coalesced probes included

`Conn/SendGate.lean`: a datagram is charged to a loss probe (`isProbe`) when it is started by a space that holds a credit,
or when a packet holding a credit is coalesced into a datagram another space started.  `limit` is the
`next_datagram_size_limit` the datagram was given (`Sizing.nextDatagramLimitAhead`). -/
section LossProbes
open QM.SendGate

/-- no space from `k` on holds a loss-probe credit -/
def NoCreditFrom (s : St) (k : Nat) : Prop := (k ≤ 0 → s.lp0 = 0) ∧ (k ≤ 1 → s.lp1 = 0) ∧ s.lp2 = 0

theorem noCredit_lp (s : St) (k j : Nat) (h : NoCreditFrom s k) (hkj : k ≤ j) : lp s j = 0 := by
  obtain ⟨h0, h1, h2⟩ := h
  unfold lp
  split
  · exact h0 (by omega)
  · exact h1 (by omega)
  · exact h2

/-- invariant of the loop: a probe datagram is clamped; an unclamped datagram that is not a probe was started when no
    space from its opener on held a credit (so no credit can be coalesced into it); the opener is behind the cursor -/
def K (s : St) : Prop :=
  (s.isProbe = true → s.limit ≤ Gen.initialMtu) ∧
  (s.dgram = true → s.isProbe = false → Gen.initialMtu < s.limit → NoCreditFrom s s.opener) ∧
  (s.dgram = true → s.opener ≤ s.cur)

theorem K_newCall (s : St) : K (newCall s) := by
  refine ⟨?_, ?_, ?_⟩ <;> intro h <;> simp [newCall] at h

theorem noCredit_lpDec (s : St) (i k : Nat) (h : NoCreditFrom s k) : NoCreditFrom (lpDec s i) k := by
  obtain ⟨h0, h1, h2⟩ := h
  unfold lpDec NoCreditFrom
  split <;> refine ⟨fun hk => ?_, fun hk => ?_, ?_⟩ <;> simp_all

theorem start_noCredit (s : St) (i : Nat) (h0 : lp s i = 0) (hl : laterCredit s i = false) : NoCreditFrom s i := by
  unfold lp at h0
  unfold laterCredit at hl
  unfold NoCreditFrom
  split at h0
  · simp only [Bool.or_eq_false_iff, bne_eq_false_iff_eq] at hl
    exact ⟨fun _ => h0, fun _ => hl.1, hl.2⟩
  · simp only [bne_eq_false_iff_eq] at hl
    exact ⟨fun h => by omega, fun _ => h0, hl⟩
  · rename_i h1 h2
    refine ⟨fun h => ?_, fun h => ?_, h0⟩
    · exact absurd (Nat.le_zero.mp h) h1
    · have : i = 0 ∨ i = 1 := by omega
      rcases this with h | h
      · exact absurd h h1
      · exact absurd h h2

theorem step_K (s : St) (o : Offer) (h : K s) (hord : s.cur ≤ o.space) : K (step s o).1 := by
  obtain ⟨k1, k2, k3⟩ := h
  unfold step
  simp only []
  split
  · split
    · exact ⟨k1, k2, k3⟩
    · split
      · rename_i hl
        have hl0 : lp s o.space = 0 := by simpa using hl
        refine ⟨fun hp => by simp at hp, fun _ _ hlim => ?_, fun _ => Nat.le_refl _⟩
        simp only [Sizing.nextDatagramLimitAhead] at hlim
        by_cases hlc : laterCredit s o.space = true
        · simp only [hlc, if_true] at hlim
          have := Nat.min_le_right o.segment Gen.initialMtu
          omega
        · have hlc' : laterCredit s o.space = false := by simpa using hlc
          exact start_noCredit s o.space hl0 hlc'
      · rename_i hl
        refine ⟨fun _ => ?_, fun _ hp => by simp at hp, fun _ => Nat.le_refl _⟩
        simp only [Sizing.nextDatagramLimitAhead]
        have hl' : lp s o.space ≠ 0 := by simpa using hl
        obtain ⟨n, hn⟩ := Nat.exists_eq_succ_of_ne_zero hl'
        rw [hn]
        exact Nat.min_le_right _ _
  · rename_i hco
    have hd : s.dgram = true := by
      simp only [Bool.or_eq_true, Bool.not_eq_true', not_or, Bool.not_eq_false] at hco
      exact hco.2
    split
    · exact ⟨k1, k2, k3⟩
    · split
      · rename_i hp
        simp only [bne_iff_ne, ne_eq, Bool.and_eq_true, Bool.not_eq_true'] at hp
        obtain ⟨hlp, hnp⟩ := hp
        refine ⟨fun _ => ?_, fun _ hp2 => by simp at hp2, fun _ => ?_⟩
        · -- the datagram becomes a probe: it must have been clamped
          have hlim : (lpDec s o.space).limit = s.limit := by unfold lpDec; split <;> rfl
          show (lpDec s o.space).limit ≤ Gen.initialMtu
          rw [hlim]
          by_cases hc : s.limit ≤ Gen.initialMtu
          · exact hc
          · have hnc := k2 hd hnp (by omega)
            have := noCredit_lp s s.opener o.space hnc (Nat.le_trans (k3 hd) hord)
            exact absurd this hlp
        · have hop : (lpDec s o.space).opener = s.opener := by unfold lpDec; split <;> rfl
          show (lpDec s o.space).opener ≤ o.space
          rw [hop]; exact Nat.le_trans (k3 hd) hord
      · refine ⟨k1, fun _ hp2 hlim => k2 hd hp2 hlim, fun _ => Nat.le_trans (k3 hd) hord⟩

theorem call_K (os : List Offer) : ∀ s, K s → K (call s os).1 := by
  induction os with
  | nil => intro s h; exact h
  | cons o os ih =>
    intro s h
    simp only [call]
    split
    · exact ih s h
    · rename_i hlt
      exact ih _ (step_K s o h (by omega))

/-- "loss probes never exceed 1200 bytes", all runs: in every state the send loop reaches during a `poll_transmit` —
    from ANY connection state `s`, after ANY iterations — a datagram charged to a loss probe (started with a credit, or
    a credit-holding packet coalesced into it) was given a size limit of at most INITIAL_MTU = 1200 -/
theorem loss_probe_datagram_le_1200_all_runs (s : St) (os : List Offer) :
    (call (newCall s) os).1.isProbe = true → (call (newCall s) os).1.limit ≤ 1200 := by
  have hm : Gen.initialMtu = 1200 := by decide
  have := (call_K os (newCall s) (K_newCall s)).1
  rw [hm] at this
  exact this

/-- non-vacuity (seed-1000608-like shape, with a credit): an ACK-only Initial packet opens the datagram while the Data
    space holds a probe credit; segment size 1400: the datagram is limited to 1200 and the coalesced probe charges it -/
example :
    let s : St := ⟨0, 0, 1, false, false, false, false, 0, 0, 0, 0⟩
    let r := call (newCall s) [{ space := 0, ae := false, coalesce := false, inFlight := 5026, bytes := 1400, window := 6000, segment := 1400 },
                               { space := 2, ae := true, coalesce := true, inFlight := 5026, bytes := 1400, window := 6000, segment := 1400 }]
    r.1.isProbe = true ∧ r.1.limit = 1200 ∧ r.1.lp2 = 0 := by decide

end LossProbes

end QM.Props.C13_sizing
