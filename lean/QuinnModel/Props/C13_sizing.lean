import QuinnModel.Conn.Sizing
/-
C13 — datagram sizing in `Connection::poll_transmit` / `PacketBuilder` (property theorems only; shape-anchored skeleton,
see `Conn/Sizing.lean`).  Hypotheses name what the code relies on: `WritersRespect` = every frame writer stops at
`max_size` (true for all writers that take `max_size`; NOT enforced for ACK frames, `populate_acks` has no such argument:
finding `C13-ack-frame-written-without-size-check`), and `tagLen ≤ limit`.
-/
namespace QM.Props.C13_sizing
open QM QM.Sizing

/-- the frame writers stopped at `max_size`, and the header-protection minimum fits as `PacketBuilder::new` asserts -/
def WritersRespect (d : Dgram) : Prop := d.payloadEnd ≤ maxSize d ∧ d.minSize ≤ maxSize d ∧ d.start ≤ d.payloadEnd

/-- FULL statement: a finished datagram never exceeds the room it was given -/
def datagram_le_segment_statement : Prop :=
  ∀ d : Dgram, WritersRespect d → d.tagLen ≤ d.limit → finishedLen d ≤ d.limit

/-- what holds: an unpadded datagram, or a padded one whose room is at least MIN_INITIAL_SIZE, stays within its room
    (so within `segment_size`, and within 1200 for a loss probe: `C13.loss_probe_le_1200`) -/
theorem datagram_le_segment (d : Dgram) (hw : WritersRespect d) (ht : d.tagLen ≤ d.limit)
    (hp : d.pad = true → Gen.sgMinInitialSize ≤ d.limit) : finishedLen d ≤ d.limit := by
  obtain ⟨h1, h2, h3⟩ := hw
  unfold finishedLen paddedMin maxSize at *
  simp only [] at *
  split
  · rename_i hpad
    have := hp hpad
    simp only [Nat.max_def]
    split <;> split <;> omega
  · simp only [Nat.max_def]
    split <;> omega

/-- the full statement is false: `pad_to` ignores `max_size`, so a padded datagram whose room is below 1200 (a later
    datagram of a GSO batch whose first datagram was shorter than 1200 bytes) overruns its segment
    (finding `C13-pad-to-ignores-max-size`, not reached by the simulator: needs > 1100 bytes of Handshake data) -/
theorem datagram_le_segment_counterexample : ¬ datagram_le_segment_statement := by
  intro h
  have := h ⟨1150, 1150, 16, 1190, 1180, true⟩ (by unfold WritersRespect maxSize; decide) (by decide)
  revert this; decide

/-- client Initial datagrams (and every datagram whose packet carries PATH_CHALLENGE / PATH_RESPONSE) are at least
    1200 bytes: `pad_datagram` is set for them and the finished datagram then has at least MIN_INITIAL_SIZE bytes -/
theorem padded_ge_min_initial (d : Dgram) (hp : d.pad = true) (ht : d.tagLen ≤ Gen.sgMinInitialSize) :
    Gen.sgMinInitialSize ≤ finishedLen d := by
  unfold finishedLen paddedMin
  simp only [hp, if_true, Nat.max_def]
  split <;> split <;> omega

theorem initial_client_padded (d : Dgram) (ackEl reqPad : Bool) (ht : d.tagLen ≤ Gen.sgMinInitialSize)
    (hp : d.pad = padDatagram true true ackEl reqPad) : 1200 ≤ finishedLen d := by
  have : d.pad = true := by rw [hp]; simp [padDatagram]
  exact padded_ge_min_initial d this ht

theorem path_frames_padded (d : Dgram) (hasInitial isClient ackEl : Bool) (ht : d.tagLen ≤ Gen.sgMinInitialSize)
    (hp : d.pad = padDatagram hasInitial isClient ackEl true) : 1200 ≤ finishedLen d := by
  have : d.pad = true := by rw [hp]; simp [padDatagram]
  exact padded_ge_min_initial d this ht

/-- non-vacuity: a client Initial ACK of 60 bytes is padded to exactly 1200 -/
example : finishedLen ⟨0, 1200, 16, 60, 40, padDatagram true true false false⟩ = 1200 := by decide

end QM.Props.C13_sizing
