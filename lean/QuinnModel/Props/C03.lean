import QuinnModel.Lemmas.CidQueue
import QuinnModel.Lemmas.CidState
import QuinnModel.Lemmas.AckFrequency
import QuinnModel.Lemmas.Ack
import QuinnModel.Lemmas.PathResponses
import QuinnModel.Lemmas.PendingAcks
/-
C03 — Peer-controlled input never crashes or hangs an endpoint.   (property theorems only)

State-dependent handlers of peer-controlled values: for every handler one theorem of the shape
"for ALL sequences of syntactically valid inputs the run never reaches `panic` and the state stays inside
its bound", plus the decision theorems for the transport error class.
-/
namespace QM.Props.C03
open QM

/-! ## `cidq` — cid_queue.rs `CidQueue` and the NEW_CONNECTION_ID arm of `process_payload` -/
section cidq
open QM.CidQueue

/-- a fresh queue satisfies the ring invariant -/
theorem cidq_new_inv (cid : Bytes) : Inv (new cid) := new_inv cid

/-- `update_initial_cid` (Retry / first server Initial) while the initial CID is active: no panic, invariant kept -/
theorem cidq_update_initial_cid_ok (q : CidQueue) (hI : Inv q) (cid : Bytes) (h0 : q.offset = 0) :
    ∃ q', updateInitialCid q cid = some q' ∧ Inv q' ∧ q'.offset = 0 :=
  updateInitialCid_inv q hI cid h0

/-- over ALL sequences of syntactically valid NEW_CONNECTION_ID inserts (any sequence numbers < 2^62, any
    `retire_prior_to ≤ sequence`, any order, duplicates) and `next`s: the run never panics (both `expect`s,
    the `unwrap`s and every u64 addition are unreachable), the ring invariant holds afterwards, at most LEN
    slots are occupied, the active CID is present, and the active sequence number never went down -/
theorem cidq_no_panic (q : CidQueue) (hI : Inv q) (ops : List Op) (hv : ∀ op ∈ ops, op.valid) :
    ∃ q', run q ops = some q' ∧ Inv q' ∧ occupied q' ≤ LEN ∧ (∃ c, active q' = some c) ∧ q.offset ≤ q'.offset := by
  obtain ⟨q', h, hI', hm⟩ := run_inv ops q hI hv
  exact ⟨q', h, hI', occupied_le q', active_some q' hI', hm⟩

/-- `next` is strictly monotone: it retires exactly `[old active, new active)`, a non-empty range shorter than LEN -/
theorem cidq_next_monotone (q : CidQueue) (hI : Inv q) (t : Bytes) (a b : Nat) (h : (next q).2 = .ok t a b) :
    a = q.offset ∧ b = (next q).1.offset ∧ a < b ∧ b < a + LEN :=
  (next_inv q hI).2.2.1 t a b h

/-- `next` without a second known CID changes nothing -/
theorem cidq_next_none_unchanged (q : CidQueue) (hI : Inv q) (h : (next q).2 = .none) : (next q).1 = q :=
  (next_inv q hI).2.2.2 h

/-- decision: `InsertError::Retired` exactly for sequence numbers below the active one -/
theorem cidq_insert_retired_iff (q : CidQueue) (seq rpt : Nat) (cid tok : Bytes) :
    (insert q seq rpt cid tok).2 = .errRetired ↔ seq < q.offset :=
  insert_retired_iff q seq rpt cid tok

/-- decision: `InsertError::ExceedsLimit` exactly for sequence numbers `LEN + retired_count` or more past the active one -/
theorem cidq_insert_limit_iff (q : CidQueue) (seq rpt : Nat) (cid tok : Bytes) (hr : rpt < 2^62) :
    (insert q seq rpt cid tok).2 = .errLimit ↔ (q.offset ≤ seq ∧ seq - q.offset ≥ LEN + (rpt - q.offset)) :=
  insert_limit_iff q seq rpt cid tok hr

/-- an exact duplicate of an accepted frame is accepted again and changes nothing -/
theorem cidq_duplicate_idempotent (q : CidQueue) (hI : Inv q) (seq rpt : Nat) (cid tok : Bytes)
    (h1 : rpt ≤ seq) (h2 : seq < 2^62) (hs : q.offset ≤ seq) (hl : seq - q.offset < LEN + (rpt - q.offset)) :
    insert (insert q seq rpt cid tok).1 seq rpt cid tok = ((insert q seq rpt cid tok).1, .none) :=
  insert_idempotent q hI seq rpt cid tok h1 h2 hs hl

/-- `set_peer_params`: inserting the preferred-address CID (sequence 1, retire_prior_to 0) into a queue that
    still has the initial CID active is `Ok(None)` — the `expect` there is unreachable -/
theorem cidq_preferred_address_insert_ok (q : CidQueue) (hI : Inv q) (h0 : q.offset = 0) (cid tok : Bytes) :
    (insert q 1 0 cid tok).2 = .none := by
  rcases insert_ok_shape q hI 1 0 cid tok (by omega) (by decide) (by omega) (by rw [h0]; decide) with ⟨_, h⟩ | ⟨h, _⟩
  · rw [h]
  · omega

/-- the NEW_CONNECTION_ID arm over ALL sequences of decoded frames (any varints, any order, any repetition) and packet
    transmissions: never panics, keeps the ring invariant, and the queue of pending RETIRE_CONNECTION_ID frames never
    exceeds `MAX_PENDING_RETIRED_CIDS + LEN - 1` (`MAX_PENDING_RETIRED_CIDS` while the initial CID is active).
    Both arms that queue retirements consult the limit (the already-retired arm since the fix recorded in
    known_findings.txt; `corpus/cidq/retire-flood.ops` replays the old witness of unbounded growth). -/
theorem retire_cids_bounded (s : Handler) (hI : Inv s.q) (hp : s.pending = []) (ops : List HOp)
    (hv : ∀ op ∈ ops, op.valid) :
    ∃ s', hrun s ops = some s' ∧ Inv s'.q ∧
      s'.pending.length ≤ Gen.maxPendingRetiredCids + (LEN - 1) ∧
      (s'.q.offset = 0 → s'.pending.length ≤ Gen.maxPendingRetiredCids) := by
  obtain ⟨s', h, hI', hJ⟩ := hrun_inv ops s hI ⟨fun _ => by simp [hp], by simp [hp]⟩ hv
  exact ⟨s', h, hI', hJ.2, hJ.1⟩

/-- decision of the error class at the handler: which transport error (PROTOCOL_VIOLATION /
    CONNECTION_ID_LIMIT_ERROR) or acceptance a frame gets, exactly under the code's conditions -/
theorem ncid_decision (s : Handler) (hI : Inv s.q) (seq rpt : Nat) (cid tok : Bytes) (h2 : seq < 2^62)
    (a : Bytes) (ha : active s.q = some a) :
    (onNewConnectionId s seq rpt cid tok).2 = ncidSpec s a seq rpt cid tok :=
  onNewConnectionId_decision s hI seq rpt cid tok h2 a ha

-- non-vacuity
example : run (new [1]) [.insert 2 0 [2] [9], .insert 3 1 [3] [9], .next, .insert 3 1 [3] [9]] ≠ none := by decide
example : (insert (new [1]) 1000000 1000000 [7] [9]).2 = .retired 0 5 [9] := by decide
example : (insert (new [1]) 5 0 [7] [9]).2 = .errLimit := by decide
-- the old flood: 60 repetitions of an already retired sequence number leave exactly MAX_PENDING_RETIRED_CIDS entries
example : (hrun floodInit (retireCidsFlood 60)).map (·.pending.length) = some 50 := by decide

end cidq

/-! ## `cidstate` — connection/cid_state.rs `CidState` (local CIDs, RETIRE_CONNECTION_ID from the peer) -/
section cidstate
open QM.CidState

/-- `CidState::new` never panics (the `debug_assert!` of `track_lifetime` holds for the handshake CIDs) and
    yields a state satisfying the invariant with exactly the handshake CIDs active -/
theorem cid_state_new_ok (cidLen : Nat) (lifetime : Option Nat) (now issued : Nat) :
    ∃ s, CidState.new cidLen lifetime now issued = some s ∧ CidState.Inv s ∧ s.activeSeq.length = issued ∧
      s.issued = issued ∧ s.cidLifetime = lifetime ∧ s.cidLen = cidLen :=
  new_spec cidLen lifetime now issued

/-- the first batch of `n` CIDs (`issue_first_cids`) never panics and adds exactly `n` active CIDs -/
theorem cid_state_first_issue_ok (s : State) (hI : CidState.Inv s) (now n : Nat) (hn : 0 < n)
    (hov : s.issued + n < 2^64) :
    ∃ s', newCids s (List.range' s.issued n) now = some s' ∧ CidState.Inv s' ∧
      s'.activeSeq.length = s.activeSeq.length + n ∧ s'.issued = s.issued + n ∧
      s'.cidLifetime = s.cidLifetime ∧ s'.prevRetireSeq = s.prevRetireSeq ∧ s'.retireSeq = s.retireSeq :=
  newCids_first s hI now n hn hov

/-- decision of the error class: a RETIRE_CONNECTION_ID is rejected, with PROTOCOL_VIOLATION, exactly when CIDs
    are not in use or the sequence number is GREATER than the number issued; everything else is accepted.
    (`sequence == issued` — not yet issued — is accepted and is a no-op on the set: see `_counterexample` below.) -/
theorem cid_state_retirement_decision (s : State) (seq limit : Nat) :
    ((∃ k, (onCidRetirement s seq limit).2 = .err Gen.codeProtocolViolation k) ↔ (s.cidLen = 0 ∨ seq > s.issued)) ∧
    ((∃ b, (onCidRetirement s seq limit).2 = .ok b) ↔ ¬ (s.cidLen = 0 ∨ seq > s.issued)) :=
  onCidRetirement_decision s seq limit

/-- a rejected retirement leaves the state untouched and the code is PROTOCOL_VIOLATION -/
theorem cid_state_retirement_err_class (s : State) (seq limit : Nat) (s' : State) (c k : Nat)
    (h : onCidRetirement s seq limit = (s', .err c k)) : s' = s ∧ c = Gen.codeProtocolViolation :=
  onCidRetirement_err s seq limit s' c k h

/-- FULL statement "unissued sequence numbers are rejected" (RFC 9000 §19.16: greater than any previously sent) -/
def cid_state_rejects_unissued_statement : Prop :=
  ∀ (s : State) (seq limit : Nat), s.cidLen ≠ 0 → seq ≥ s.issued →
    ∃ k, (onCidRetirement s seq limit).2 = .err Gen.codeProtocolViolation k

/-- witness: one CID issued (sequence 0), the peer retires sequence 1 -/
def cid_state_unissued_witness : State × Nat × Nat := (⟨[], 1, [0], 0, 0, 8, none⟩, 1, 2)

/-- the code compares `sequence > self.issued` (a count), so `sequence == issued` passes: harmless (the set is
    unchanged and `Endpoint` issues nothing because the CID does not exist), but not the RFC's rule -/
theorem cid_state_rejects_unissued_counterexample : ¬ cid_state_rejects_unissued_statement := by
  intro h
  obtain ⟨k, hk⟩ := h cid_state_unissued_witness.1 1 2 (by decide) (by decide)
  have e : (onCidRetirement cid_state_unissued_witness.1 1 2).2 = .ok true := by decide
  rw [e] at hk
  cases hk

/-- the part that holds: every sequence number above the issued count is rejected -/
theorem cid_state_rejects_unissued_partial (s : State) (seq limit : Nat) (h0 : s.cidLen ≠ 0) (h : seq > s.issued) :
    ∃ k, (onCidRetirement s seq limit).2 = .err Gen.codeProtocolViolation k :=
  (onCidRetirement_decision s seq limit).1.mpr (Or.inr h)

/-- over ALL sequences of RETIRE_CONNECTION_ID frames (any peer-chosen sequence numbers, any order, duplicates) and
    PushNewCid timer expiries, with `Endpoint` issuing a CID exactly when told: never a panic (the
    `debug_assert!` in `track_lifetime` and the u64 additions are unreachable), and the number of
    issued-and-active CIDs stays ≤ limit + 1, and ≤ limit when no CID lifetime is configured -/
theorem cid_state_retirement_no_panic_bounded (limit : Nat) (s : State) (hI : CidState.Inv s)
    (hK : s.activeSeq.length ≤ limit) (ops : List CidState.Op) (hov : s.issued + ops.length < 2^64) :
    ∃ s', CidState.run limit s ops = some s' ∧ CidState.Inv s' ∧ s'.activeSeq.length ≤ limit + 1 ∧
      (s.cidLifetime = none → s'.activeSeq.length ≤ limit) := by
  obtain ⟨s', h, hI', hK', hl⟩ := run_spec limit ops s hI (Or.inl hK) hov
  have := K_bound limit s' hI' hK'
  exact ⟨s', h, hI', this.1, fun h0 => this.2 (by rw [hl]; exact h0)⟩

/-- the test-only `assign_retire_seq` (`#[cfg(test)]`, unreachable from peers; modelled, not tied): it panics unless a CID
    is active, `v ≤ max + 1` and `v ≥ retire_seq` -/
theorem cid_state_assign_retire_seq_decision (s : State) (v : Nat) :
    (∃ r, assignRetireSeq s v = some r) ↔
      ∃ m, s.activeSeq.max? = some m ∧ m + 1 < 2^64 ∧ v ≤ m + 1 ∧ s.retireSeq ≤ v :=
  assignRetireSeq_some_iff s v

-- non-vacuity: limit 3, lifetime 5 ns; retire active / unknown / future numbers, rotate on timeout
example : (CidState.run 3 ⟨[⟨2, 10⟩], 3, [0, 1, 2], 0, 0, 8, some 5⟩
    [.retire 1 20, .retire 7 21, .timeout 30, .retire 3 31, .retire 0 32, .timeout 40]).map (·.activeSeq) =
    some [2, 4, 5] := by decide

end cidstate

/-! ## `ackfreq` — connection/ack_frequency.rs `AckFrequencyState` -/
section ackfreq
open QM.AckFrequency

/-- `candidate_max_ack_delay` never panics: for EVERY state, rtt, local config and peer `min_ack_delay` (whatever
    `TransportParameters::read` let through) the clamp is well formed, and the requested delay lies in
    `[peer min_ack_delay, max(rtt, MIN_AUTOMATIC_ACK_DELAY, peer min_ack_delay)]`.
    (DESIGN §7 F1 — a peer `min_ack_delay` above `max(rtt, 25 ms)` used to reach `clamp(min, max)` with min > max — is
    fixed in quinn; `corpus/ackfreq/F1.ops` replays the old witness on every run.) -/
theorem candidate_max_ack_delay_no_panic (s : State) (rtt : Nat) (cfg peerMin : Option Nat) :
    ∃ d, candidateMaxAckDelay s rtt cfg peerMin = some d ∧
      minAckDelayNs peerMin ≤ d ∧ d ≤ Gen.candidateUpper rtt (minAckDelayNs peerMin) :=
  candidate_some s rtt cfg peerMin

/-- the requested delay is the configured one (or the peer's current one) moved to the nearer end of that interval -/
theorem candidate_max_ack_delay_value (s : State) (rtt : Nat) (cfg peerMin : Option Nat) :
    candidateMaxAckDelay s rtt cfg peerMin =
      some (min (max (match cfg with | some d => d | none => s.peerMaxAckDelay) (minAckDelayNs peerMin))
        (Gen.candidateUpper rtt (minAckDelayNs peerMin))) :=
  candidate_value s rtt cfg peerMin

/-- `should_send_ack_frequency` never panics, whatever the f32 comparison yields -/
theorem should_send_ack_frequency_no_panic (fdec : Nat → Nat → Bool) (s : State) (rtt : Nat) (cfg peerMin : Option Nat) :
    ∃ b, shouldSendAckFrequency fdec s rtt cfg peerMin = some b :=
  shouldSend_some fdec s rtt cfg peerMin

/-- `ack_frequency_received` is total (no panic outcome exists) and its result is decided exactly: a sequence number
    not above the highest seen is ignored; otherwise a requested delay below TIMER_GRANULARITY is PROTOCOL_VIOLATION;
    otherwise the frame is applied -/
theorem ack_frequency_received_total (s : State) (thr : Nat × Nat) (seq aet req reord : Nat) :
    (ackFrequencyReceived s thr seq aet req reord).2.2 =
      if (∃ h, s.lastFrame = some h ∧ seq ≤ h) then .ok false
      else if req * 1000 < Gen.timerGranularityNs then .err Gen.codeProtocolViolation
      else .ok true :=
  recv_decision s thr seq aet req reord

/-- sequence-number handling: ignored frames change nothing; every other frame records its (strictly larger)
    sequence number; applied frames install exactly the requested values -/
theorem ack_frequency_received_sequence (s : State) (thr : Nat × Nat) (seq aet req reord : Nat) :
    ((ackFrequencyReceived s thr seq aet req reord).2.2 = .ok false →
      (ackFrequencyReceived s thr seq aet req reord).1 = s ∧ (ackFrequencyReceived s thr seq aet req reord).2.1 = thr) ∧
    ((ackFrequencyReceived s thr seq aet req reord).2.2 ≠ .ok false →
      (ackFrequencyReceived s thr seq aet req reord).1.lastFrame = some seq ∧ ∀ h, s.lastFrame = some h → h < seq) ∧
    ((ackFrequencyReceived s thr seq aet req reord).2.2 = .ok true →
      (ackFrequencyReceived s thr seq aet req reord).1.maxAckDelay = req * 1000 ∧
      (ackFrequencyReceived s thr seq aet req reord).2.1 = (aet, reord) ∧ req * 1000 ≥ Gen.timerGranularityNs) :=
  recv_sequence s thr seq aet req reord

/-- over ALL event sequences — any ACK_FREQUENCY frames, any acknowledged packet numbers, PTO queries and
    `poll_transmit`s at ANY rtt, for any peer parameters and local config — no panic (fewer than 2^62 polls:
    the `assert!` of `next_sequence_number`) -/
theorem ackfreq_no_panic (fdec : Nat → Nat → Bool) (s : State) (e : Env) (ops : List AckFrequency.Op)
    (hn : s.nextSeq + ops.length ≤ 2^62) :
    ∃ r, AckFrequency.run fdec s e ops = some r :=
  run_some fdec ops s e (by simp only [varIntMax]; omega)

-- non-vacuity: the old F1 witness (peer min_ack_delay 500 ms, rtt 100 ms) now yields the peer's minimum, and a
-- poll with it sends the frame
example : candidateMaxAckDelay { AckFrequency.new 25000000 with peerMaxAckDelay := 1000000000 } 100000000 none (some 500000)
    = some 500000000 := by decide
example : candidateMaxAckDelay { AckFrequency.new 25000000 with peerMaxAckDelay := 1000000000 } 100000000 none (some 2000)
    = some 100000000 := by decide
example : AckFrequency.poll (fun _ _ => true) { AckFrequency.new 25000000 with peerMaxAckDelay := 1000000000 }
    ⟨none, some 500000, (1, 1)⟩ 100000000 7 =
    some { AckFrequency.new 25000000 with peerMaxAckDelay := 1000000000, nextSeq := 1, inFlight := some (7, 500000000) } := by
  decide

end ackfreq

/-! ## `ackscan` — frame.rs ACK parsing: `scan_ack_blocks`, `AckIter`, the ACK arm of `Iter::try_next` -/
section ackscan
open QM.Ack

/-- `scan_ack_blocks` is a total function of ANY byte string, block count and `largest` (it is a Lean function with
    two error outcomes and no panic outcome); whenever it accepts, the byte count it returns lies within the
    buffer (so `bytes.split_to(n)` cannot panic) and is at least `2n + 1` -/
theorem scan_ack_blocks_bounded (buf : Bytes) (largest n k : Nat) (h : scanAckBlocks buf largest n = .ok k) :
    k ≤ buf.length ∧ 2 * n + 1 ≤ k :=
  ⟨(scanAckBlocks_spec buf largest n k h).1, (scanAckBlocks_spec buf largest n k h).2.1⟩

/-- a peer-chosen block count cannot make the scan run past the input: counts above `(len - 1) / 2` are rejected -/
theorem scan_ack_blocks_count_bounded (buf : Bytes) (largest n : Nat) (hn : buf.length < 2 * n + 1) :
    ∃ e, scanAckBlocks buf largest n = .error e :=
  scanAckBlocks_bounded_iterations buf largest n hn

/-- for ALL byte strings: whenever the scan accepts, iterating the accepted bytes with `AckIter` never panics —
    every step has `largest ≥ block + gap + 2` and `largest ≥ block`, no `unwrap` on a short read — and yields
    exactly `extra_blocks + 1` ranges, descending and disjoint, the first ending at `largest` -/
theorem ack_iter_no_underflow (buf : Bytes) (largest n k : Nat) (h : scanAckBlocks buf largest n = .ok k) :
    ∃ ranges, iterAll (k + 1) largest (buf.take k) = some ranges ∧ ranges.length = n + 1 ∧ Chain ranges ∧
      ranges.head?.map (·.2) = some largest :=
  (scanAckBlocks_spec buf largest n k h).2.2

/-- the ACK / ACK_ECN arm of the frame iterator on ANY payload: if it yields a frame, strictly fewer bytes remain
    (progress), and `Ack::iter` on that frame never panics and yields ≥ 1 descending disjoint ranges -/
theorem ack_frame_decode_safe (ty : Nat) (bs : Bytes) (f : AckFrame) (rest : Bytes)
    (h : decodeAckBody ty bs = .ok (f, rest)) :
    rest.length < bs.length ∧
    ∃ ranges, f.ranges = some ranges ∧ Chain ranges ∧ ranges.head?.map (·.2) = some f.largest ∧ 1 ≤ ranges.length :=
  decodeAckBody_spec ty bs f rest h

-- non-vacuity: largest 10, blocks: first 1, (gap 0, block 2), (gap 1, block 0); bytes 01 00 02 01 00, tail ff
example : scanAckBlocks [1, 0, 2, 1, 0, 0xff] 10 2 = .ok 5 := rfl
example : iterAll 6 10 [1, 0, 2, 1, 0] = some [(9, 10), (5, 7), (2, 2)] := by decide
example : scanAckBlocks [1, 0, 2, 1, 0] 6 2 = .error .malformed := rfl

end ackscan

/-! ## `pathresp` — connection/paths.rs `PathResponses` -/
section pathresp
open QM.PathResponses

/-- over ALL sequences of PATH_CHALLENGE arrivals (any packet numbers, tokens and — possibly spoofed — remote
    addresses) and pops: the model has no panic outcome, the queue never exceeds MAX_PATH_RESPONSES entries and holds
    at most one response per remote address -/
theorem path_responses_bounded (ops : List PathResponses.Op) :
    (PathResponses.run [] ops).length ≤ Gen.maxPathResponses ∧
    ((PathResponses.run [] ops).map (·.remote)).Nodup :=
  ⟨(PathResponses.run_inv ops [] init_inv).bound, (PathResponses.run_inv ops [] init_inv).distinct⟩

-- non-vacuity: an update in place, an ignored older packet, and a pop
example : PathResponses.run [] [.push 5 100 1, .push 6 200 2, .push 7 300 1, .push 4 400 2, .popOn 2] =
    [⟨7, 300, 1⟩] := by decide

end pathresp

/-! ## `pendingacks` — connection/spaces.rs `PendingAcks::{insert_one, subtract_below}` over `ArrayRangeSet` -/
section pendingacks
open QM.PendingAcks

/-- over ALL sequences of received packet numbers (< 2^62, any order, duplicates, gaps) and `subtract_below` calls:
    never a panic (`x + 1`, `max + 1`), the number of pending ACK ranges never exceeds MAX_ACK_BLOCKS, and the set stays
    sorted, disjoint and non-adjacent (the representation invariant `ArrayRangeSet` relies on) -/
theorem pending_acks_bounded (ops : List PendingAcks.Op) (hv : ∀ op ∈ ops, op.valid) :
    ∃ s', PendingAcks.run PendingAcks.init ops = some s' ∧ s'.ranges.length ≤ Gen.maxAckBlocks ∧ WF s'.ranges :=
  run_bound ops PendingAcks.init (by simp [PendingAcks.init]) ⟨by simp [PendingAcks.init], by simp [PendingAcks.init]⟩ hv

/-- `ArrayRangeSet::insert` / `remove` keep the representation invariant for arbitrary ranges (also empty or inverted) -/
theorem array_range_set_invariant (l : RangeSet) (x : Range) (h : WF l) :
    WF (rsInsert l x).1 ∧ WF (rsRemove l x).1 ∧ WF (rsPopMin l).1 :=
  ⟨rsInsert_wf l x h, rsRemove_wf l x h, rsPopMin_wf l h⟩

-- non-vacuity: reordering, a bridging insert, and a subtract that cuts into a range
example : (PendingAcks.run PendingAcks.init [.insert 5 0, .insert 9 1, .insert 7 2, .insert 6 3, .insert 8 4, .insert 1 5, .sub 6]).map (·.ranges)
    = some [(7, 10)] := by decide

end pendingacks

end QM.Props.C03
