import QuinnModel.Lemmas.KeyUpdate
/-
C04 — "... interleaved arbitrarily with genuine traffic and key updates": the key-phase logic of the 1-RTT receive
pipeline (Conn/KeyUpdate.lean: decrypt_packet_body, decrypt_packet, update_keys, force_key_update, the KeyDiscard
timer, the routine update of PacketBuilder::new).  Property theorems only; proofs in Lemmas/KeyUpdate.lean.

Vocabulary.  A key is named by its generation g (0 = handshake keys); a packet carries a number `pn`, a key-phase bit
and `sealGen` = the generation it was sealed with (`none`: forged / corrupted — ideal AEAD).  `par g` = the key-phase
bit of generation g.  `installed s` = generations whose receive keys the connection holds (current, previous while
retained, next).  `Reachable s` = s is reached from the established connection by SOME sequence of requests
(packets of any kind, forced updates, sends, clock steps, timeouts); `run` / `processed` quantify over ALL sequences.
-/
namespace QM.Props.C04_keyupd
open QM QM.KeyUpdate

/-- totality: no request sequence — in particular no input of a peer, with or without keys — reaches one of the
    `unwrap()` / `expect()` of decrypt_packet_body (`zero_rtt_crypto`, `spaces[..].crypto`, `next_crypto`), update_keys
    (`next_1rtt_keys`, `crypto`, `next_crypto`), set_key_discard_timer ("no previous keys", "update not acknowledged
    yet") or of the integrity-limit test on `None` -/
theorem no_panic (ops : List Op) : run init ops ≠ none := by
  obtain ⟨s', h, _⟩ := run_wf ops init_wf
  rw [h]; simp

/-- a packet that authenticates under no installed generation — forged, corrupted, sealed with a discarded or not yet
    derived generation, or carrying the key-phase bit of another generation than its own — is a no-op on everything
    but the failure counter: key phase, installed keys, duplicate filter, largest packet number, authenticated count
    and the clock of the key phase are untouched, nothing is opened and nothing is processed.  Only once the counter
    passes the integrity limit the connection is abandoned (RFC 9001 6.6). -/
theorem forged_changes_only_the_failure_counter {s : State} (hr : Reachable s) (p : Pkt)
    (hforged : ∀ g, p.sealGen = some g → g ∉ installed s ∨ p.bit ≠ par g) :
    handlePacket s p = (countFailure s, .res false false) ∧
    ((countFailure s).phase = s.phase ∧ (countFailure s).cur = s.cur ∧ (countFailure s).prev = s.prev ∧
      (countFailure s).next = s.next ∧ (countFailure s).sess = s.sess ∧ (countFailure s).dedup = s.dedup ∧
      (countFailure s).rxPacket = s.rxPacket ∧ (countFailure s).authed = s.authed ∧ (countFailure s).swk = s.swk ∧
      (countFailure s).phaseSize = s.phaseSize ∧ (countFailure s).now = s.now ∧ (countFailure s).fail = s.fail + 1) ∧
    (s.fail + 1 ≤ s.limit ∨ s.life ≠ .est → countFailure s = { s with fail := s.fail + 1 }) :=
  ⟨unauthentic_only_counts (reachable_wf hr) p hforged, countFailure_keys s,
   fun h => h.elim (countFailure_below_limit s) (countFailure_closed s)⟩

/-- the key phase flips — and then the current generation becomes exactly the former next one — only on an
    authenticated packet of the next generation that passes the RFC 9001 6.2 / 6.4 tests, or on a local update
    (forced, or the routine one when a packet is built) of an established connection that retains no previous keys -/
theorem key_phase_moves_only_by_authenticated_update_or_local_update {s s' : State} (hr : Reachable s) {o : Op}
    (h : step s o = some s') (hne : s'.phase ≠ s.phase) :
    s'.cur = s.next ∧
    ((∃ p, o = .rx p ∧ p.sealGen = s.next ∧ p.bit ≠ s.phase ∧
        Gen.kuUpdateInvalid p.pn s.rxPacket (prevUnacked s) = false) ∨
     ((o = .update ∨ o = .send) ∧ s.life = .est ∧ s.prev = none)) :=
  phase_change (reachable_wf hr) h hne

/-- RFC 9001 6.1 ("An endpoint MUST NOT initiate a subsequent key update unless it has received an acknowledgment for a
    packet that was sent protected with keys from the current key phase"), over ALL request sequences: a LOCAL update
    (`force_key_update`, or the routine one when a packet is built) takes effect only if no key update - ours or the
    peer's - has taken place yet (generation 0), or the largest acknowledged packet is one that was sent with the keys of
    the current generation (`sentLog` is the ghost record of every packet sent with its generation) -/
theorem local_update_only_after_current_phase_acked {s s' : State} (hr : Reachable s) {o : Op}
    (ho : o = .update ∨ o = .send) (h : step s o = some s') (hne : s'.phase ≠ s.phase) :
    s.cur = some 0 ∨ ∃ a g, s.largestAcked = some a ∧ s.cur = some g ∧ (a, g) ∈ s.sentLog :=
  local_update_acked (reachable_wf hr) (reachable_ackinv hr) ho h hne

/-- each packet number is processed at most once over EVERY request sequence: the packet-number space and its
    duplicate filter are shared by all generations, so at-most-once survives any number of key updates (a fortiori
    each (generation, packet number) pair is processed at most once) -/
theorem processed_at_most_once (ops : List Op) : (processed init ops).Nodup :=
  (processed_fresh ops init (fun _ => False) init_wf Dedup.init_inv).1

/-- whatever opens carries the key-phase bit of an installed generation and was sealed with it (errors included:
    KEY_UPDATE_ERROR and the reserved-bit PROTOCOL_VIOLATION arise only after AEAD success) -/
theorem opened_packet_matches_an_installed_generation {s : State} (hr : Reachable s) (p : Pkt) {b : Bool}
    (h : (handlePacket s p).2 = .res true b) : ∃ g, p.sealGen = some g ∧ g ∈ installed s ∧ p.bit = par g :=
  opened_generation (reachable_wf hr) p h

/-- a genuine packet of the current generation that the duplicate filter reports fresh is processed -/
theorem genuine_current_generation_processed {s : State} (hr : Reachable s) (hl : s.life = .est) {p : Pkt}
    (hseal : p.sealGen = s.cur) (hbit : p.bit = s.phase) (hrsv : p.rsv = false)
    (hfresh : (Dedup.insert s.dedup p.pn).2 = false) : (handlePacket s p).2 = .res true true :=
  genuine_current (reachable_wf hr) hl hseal hbit hrsv hfresh

/-- ... and so is one of the previous generation while it is retained, provided it is numbered below the packet that
    ended that generation (true of every packet of a sender that numbers packets in sending order) -/
theorem genuine_previous_generation_processed {s : State} (hr : Reachable s) (hl : s.life = .est) {p : Pkt} {pv : Prev}
    (hp : s.prev = some pv) (hseal : p.sealGen = some pv.gen) (hbit : p.bit ≠ s.phase) (hrsv : p.rsv = false)
    (hbelow : ∀ e te, pv.endPacket = some (e, te) → p.pn < e)
    (hfresh : (Dedup.insert s.dedup p.pn).2 = false) : (handlePacket s p).2 = .res true true :=
  genuine_previous (reachable_wf hr) hl hp hseal hbit hrsv hbelow hfresh

/-- ... and the peer's key update (next generation, numbered above everything received, after we answered its previous
    update, not below the end of a retained generation) is processed and installs the next generation -/
theorem peer_update_accepted {s : State} (hr : Reachable s) (hl : s.life = .est) {p : Pkt} (hseal : p.sealGen = s.next)
    (hbit : p.bit ≠ s.phase) (hrsv : p.rsv = false)
    (hprev : ∀ pv, s.prev = some pv → pv.unacked = false ∧ ∃ e te, pv.endPacket = some (e, te) ∧ e ≤ p.pn)
    (hpn : s.rxPacket < p.pn) (hfresh : (Dedup.insert s.dedup p.pn).2 = false) :
    (handlePacket s p).2 = .res true true ∧ (handlePacket s p).1.cur = s.next ∧
    (handlePacket s p).1.phase = (!s.phase) :=
  genuine_next (reachable_wf hr) hl hseal hbit hrsv hprev hpn hfresh

/-- the previous receive keys are retained until the discard rule says so: they vanish only when timeouts are
    serviced at or after (receipt time of the first packet of the new generation) + keyDiscardPtoFactor * PTO;
    in particular never while our own update is unconfirmed (`endPacket = none`), never by a packet, forged or not -/
theorem previous_keys_kept_until_discard_rule {s s' : State} (hr : Reachable s) {o : Op} (h : step s o = some s')
    {pv : Prev} (hp : s.prev = some pv) (hgone : s'.prev = none) :
    o = .timeout ∧ ∃ e te, pv.endPacket = some (e, te) ∧ te + s.pto * Gen.keyDiscardPtoFactor ≤ s.now :=
  prev_removed (reachable_wf hr) h hp hgone

/-- ... and never longer: servicing timeouts at or after that deadline discards them -/
theorem previous_keys_discarded_on_time {s : State} (hr : Reachable s) (hl : s.life = .est) {pv : Prev} {e te : Nat}
    (hp : s.prev = some pv) (he : pv.endPacket = some (e, te))
    (hdue : te + s.pto * Gen.keyDiscardPtoFactor ≤ s.now) : (timeout s).prev = none :=
  prev_removed_on_time (reachable_wf hr) hl hp he hdue

/-- RFC 9001 6.4: a packet that opens under the next keys but is numbered at or below a packet already received ends
    the connection with KEY_UPDATE_ERROR, touching no key -/
theorem lower_numbered_packet_under_newer_keys_is_key_update_error {s : State} (hr : Reachable s) (hl : s.life = .est)
    {p : Pkt} (hp : s.prev = none) (hseal : p.sealGen = s.next) (hbit : p.bit ≠ s.phase) (hrsv : p.rsv = false)
    (hpn : p.pn ≤ s.rxPacket) :
    (handlePacket s p).1 = { s with err := some .keyUpdateError, life := .closed, kd := none,
                                    closeT := some (s.now + Gen.closeTimerPtoFactor * s.pto) } :=
  (handlePacket_err (lower_numbered_under_next_keys (reachable_wf hr) hp hseal hbit hrsv hpn) hl).1

/-- RFC 9001 6.2: a second update by the peer while we have sent nothing since its first one (`unacked`) ends the
    connection with KEY_UPDATE_ERROR -/
theorem consecutive_peer_update_is_key_update_error {s : State} (hr : Reachable s) (hl : s.life = .est) {p : Pkt}
    {pv : Prev} {e te : Nat} (hp : s.prev = some pv) (hun : pv.unacked = true) (he : pv.endPacket = some (e, te))
    (hle : e ≤ p.pn) (hseal : p.sealGen = s.next) (hbit : p.bit ≠ s.phase) (hrsv : p.rsv = false) :
    (handlePacket s p).1 = { s with err := some .keyUpdateError, life := .closed, kd := none,
                                    closeT := some (s.now + Gen.closeTimerPtoFactor * s.pto) } :=
  (handlePacket_err (consecutive_update (reachable_wf hr) hp hun he hle hseal hbit hrsv) hl).1

-- ---------------------------------------------------------------------------------------------------------
-- non-vacuity: concrete runs (packets ⟨pn, bit, sealGen, rsv⟩)
-- ---------------------------------------------------------------------------------------------------------

/-- genuine 0,1 · our update · old-generation 2 · new-generation 3 (confirms) · replay of 1 and 3 · forged 4 -/
def demo : List Op :=
  [.rx ⟨0, false, some 0, false⟩, .rx ⟨1, false, some 0, false⟩, .update, .rx ⟨2, false, some 0, false⟩,
   .rx ⟨3, true, some 1, false⟩, .rx ⟨1, false, some 0, false⟩, .rx ⟨3, true, some 1, false⟩,
   .rx ⟨4, true, none, false⟩, .rx ⟨4, false, none, false⟩]

example : processed init demo = [0, 1, 2, 3] := by decide
example : (run init demo).map (fun s => s.phase) = some true := by decide
example : (run init demo).map (fun s => s.cur) = some (some 1) := by decide
example : (run init demo).map (fun s => s.prev) = some (some ⟨0, some (3, 0), false⟩) := by decide
example : (run init demo).map (fun s => s.fail) = some 2 := by decide
example : (run init demo).map (fun s => s.kd) = some (some 975000) := by decide

/-- a reachable state with retained previous keys, to which the theorems above apply non-trivially -/
def afterPeerUpdate : State := (handlePacket (handlePacket init ⟨0, false, some 0, false⟩).1 ⟨1, true, some 1, false⟩).1

example : Reachable afterPeerUpdate := ⟨[.rx ⟨0, false, some 0, false⟩, .rx ⟨1, true, some 1, false⟩], by decide⟩
example : afterPeerUpdate.phase = true ∧ afterPeerUpdate.cur = some 1 ∧
    afterPeerUpdate.prev = some ⟨0, some (1, 0), true⟩ ∧ installed afterPeerUpdate = [1, 0, 2] := by decide
-- forged with either bit, a stale tag, the retained generation with the wrong bit: counter only
example : (handlePacket afterPeerUpdate ⟨2, false, none, false⟩).1 = { afterPeerUpdate with fail := 1 } := by decide
example : (handlePacket afterPeerUpdate ⟨2, true, some 0, false⟩).1 = { afterPeerUpdate with fail := 1 } := by decide
example : (handlePacket afterPeerUpdate ⟨2, true, some 3, false⟩).1 = { afterPeerUpdate with fail := 1 } := by decide
-- the retained generation: a late packet 0 < end_packet is a duplicate here, a fresh one is impossible (pn < 1),
-- so retention is shown after a local update instead
example : (handlePacket (handlePacket init ⟨5, false, some 0, false⟩).1 ⟨3, false, some 0, false⟩).2 = .res true true := by
  decide
example : ((forceKeyUpdate init).map fun s => (handlePacket s ⟨3, false, some 0, false⟩).2) = some (.res true true) := by
  decide
-- consecutive update of the peer: KEY_UPDATE_ERROR
example : (handlePacket afterPeerUpdate ⟨2, false, some 2, false⟩).1.err = some .keyUpdateError := by decide
-- after we sent a packet the same update is accepted
example : ((send afterPeerUpdate).map fun r => (handlePacket r.1 ⟨2, false, some 2, false⟩).1.cur) = some (some 2) := by
  decide
-- lower-numbered packet under the next keys
example : (handlePacket (handlePacket init ⟨5, false, some 0, false⟩).1 ⟨3, true, some 1, false⟩).1.err
    = some .keyUpdateError := by decide
-- the discard rule
example : (timeout { afterPeerUpdate with now := 974999 }).prev ≠ none ∧
    (timeout { afterPeerUpdate with now := 975000 }).prev = none := by decide

-- RFC 9001 6.1: after following the peer's update and discarding the old keys a forced update is refused until a
-- packet sent in the current phase is acknowledged (sim progress seed 3000349 / corpus K3)
def followedPeer : List Op :=
  [.rx ⟨0, false, some 0, false⟩, .rx ⟨1, true, some 1, false⟩, .tick 975000, .timeout]
example : (run init (followedPeer ++ [.update])).map (fun s => (s.cur, s.prev)) = some (some 1, none) := by decide
example : (run init (followedPeer ++ [.send, .update])).map (fun s => s.cur) = some (some 1) := by decide
example : (run init (followedPeer ++ [.send, .ackd 0, .update])).map (fun s => (s.cur, s.firstPn)) =
    some (some 2, some 1) := by decide
-- an acknowledgement of a packet sent BEFORE the phase began does not count
example : (run init ([.send] ++ followedPeer ++ [.send, .ackd 0, .update])).map (fun s => s.cur) = some (some 1) := by
  decide
example : (run init ([.send] ++ followedPeer ++ [.send, .ackd 1, .update])).map (fun s => s.cur) = some (some 2) := by
  decide
-- the first update needs no acknowledgement; the routine update obeys the same guard
example : (run init [.update]).map (fun s => s.cur) = some (some 1) := by decide

end QM.Props.C04_keyupd
