import QuinnModel.Lemmas.Header
/-
C10 (connection ids and packet headers) — Wire encodings round-trip, decoders are total, and coalesced packets
split at exactly the encoded boundaries: `ConnectionId::{encode_long, decode_long}` (shared.rs) and, without
header protection, `Header::encode` + the length patch of `PartialEncode::finish` versus
`ProtectedHeader::decode` / `PartialDecode::new` (packet.rs).
(property theorems only; models in Wire/{Cid,Header}.lean, proofs in Lemmas/Header.lean)

`packet h payload` = header bytes followed by `payload`, with the 2-byte length patched in (what goes on the
wire when header and packet protection are the identity); `none` = a panic of the encoder.
-/
namespace QM.Props.C10_header
open QM QM.Wire QM.Wire.Header

/-- long-form connection id: decode ∘ encode = id, consuming exactly the encoding -/
theorem cid_long_roundtrip (cid r : Bytes) (h : cid.length ≤ 20) :
    ∃ enc, Cid.encodeLong cid (some []) = some enc ∧
      Cid.decodeLong (ε := HdrErr) .malformedCid .panic (enc ++ r) = .ok (cid, r) :=
  Cid.roundtrip _ _ cid r h

/-- `decode_long` on ALL byte strings: never the model's `panic` (the unchecked copy is guarded), and a
    success returns a strictly shorter suffix of the input -/
theorem cid_decode_total (bs : Bytes) :
    Cid.decodeLong (ε := HdrErr) .malformedCid .panic bs ≠ .error .panic ∧
    ∀ c r, Cid.decodeLong (ε := HdrErr) .malformedCid .panic bs = .ok (c, r) → r <:+ bs ∧ r.length < bs.length :=
  ⟨(Cid.decodeLong_noPanic (by decide)).nv bs, fun c r h => (Cid.decodeLong_adv _ _).suffix bs c r h⟩

/-- Initial: header round trip and coalesce_split.  Decoding the encoded packet followed by ANY second
    packet `p2` yields the written version and connection ids, the token's position and length, the payload
    length, the cursor in front of the packet number, exactly the packet's bytes, and exactly `p2` -/
theorem coalesce_split_initial (dst src token payload : Bytes) (pl pv version : Nat) (sup : List Nat)
    (hp : validPnLen pl) (hd : dst.length ≤ 20) (hs : src.length ≤ 20) (ht : token.length < 2^62)
    (hv : version < 2^32) (hv0 : version ≠ 0) (hsup : version ∈ sup)
    (h4 : 4 ≤ pl + payload.length) (h14 : pl + payload.length < 2^14) :
    ∃ pkt, packet (.initial dst src token (pl, pv) version) payload = some pkt ∧
      ∀ (p2 : Bytes) (lc : Nat) (g : Bool), partialDecodeNew (pkt ++ p2) lc sup g =
        .ok { header := .initial dst src (7 + dst.length + src.length + (encB token.length).length) token.length
                (pl + payload.length) version,
              pos := 7 + dst.length + src.length + (encB token.length).length + token.length + 2,
              packet := pkt,
              rest := if p2 = [] then none else some p2 } :=
  ⟨_, packet_initial dst src token payload pl pv version ht h4 h14,
   fun p2 lc g => initial_coalesce dst src token payload p2 pl pv version lc sup g hp hd hs ht hv hv0 hsup h14⟩

/-- Handshake / 0-RTT: header round trip and coalesce_split -/
theorem coalesce_split_long (ty : LongType) (dst src payload : Bytes) (pl pv version : Nat) (sup : List Nat)
    (hp : validPnLen pl) (hd : dst.length ≤ 20) (hs : src.length ≤ 20)
    (hv : version < 2^32) (hv0 : version ≠ 0) (hsup : version ∈ sup)
    (h4 : 4 ≤ pl + payload.length) (h14 : pl + payload.length < 2^14) :
    ∃ pkt, packet (.long ty dst src (pl, pv) version) payload = some pkt ∧
      ∀ (p2 : Bytes) (lc : Nat) (g : Bool), partialDecodeNew (pkt ++ p2) lc sup g =
        .ok { header := .long ty dst src (pl + payload.length) version,
              pos := 9 + dst.length + src.length,
              packet := pkt,
              rest := if p2 = [] then none else some p2 } :=
  ⟨_, packet_long ty dst src payload pl pv version h4 h14,
   fun p2 lc g => long_coalesce ty dst src payload p2 pl pv version lc sup g hp hd hs hv hv0 hsup h14⟩

/-- Retry: header round trip (no length field: the packet is the rest of the datagram) -/
theorem header_roundtrip_retry (dst src tail : Bytes) (version lc : Nat) (sup : List Nat) (g : Bool)
    (hd : dst.length ≤ 20) (hs : src.length ≤ 20) (hv : version < 2^32) (hv0 : version ≠ 0) (hsup : version ∈ sup) :
    ∃ pe, encode (.retry dst src version) = some pe ∧
      partialDecodeNew (pe.bytes ++ tail) lc sup g =
        .ok { header := .retry dst src version, pos := pe.bytes.length, packet := pe.bytes ++ tail, rest := none } := by
  refine ⟨_, encode_retry dst src version, ?_⟩
  simp only [longPrefix_length]
  exact retry_roundtrip dst src tail version lc sup g hd hs hv hv0 hsup

/-- Version Negotiation: header round trip (`random` < 128; the fixed bit must be set unless greased) -/
theorem header_roundtrip_vn (random : Nat) (dst src tail : Bytes) (lc : Nat) (sup : List Nat) (g : Bool)
    (hr : random < 128) (hfix : g = true ∨ random &&& 64 ≠ 0) (hd : dst.length ≤ 20) (hs : src.length ≤ 20) :
    ∃ pe, encode (.versionNegotiate random dst src) = some pe ∧
      partialDecodeNew (pe.bytes ++ tail) lc sup g =
        .ok { header := .versionNegotiate random dst src, pos := pe.bytes.length, packet := pe.bytes ++ tail,
              rest := none } := by
  refine ⟨_, encode_vn random dst src, ?_⟩
  simp only [longPrefix_length]
  exact vn_roundtrip random dst src tail lc sup g hr hfix hd hs

/-- Short: header round trip when the parser's connection-id length is the written one: spin bit and
    destination id are recovered, the cursor stops in front of the packet number -/
theorem header_roundtrip_short (spin keyPhase : Bool) (dst payload : Bytes) (pl pv : Nat) (sup : List Nat) (g : Bool)
    (hp : validPnLen pl) :
    ∃ pe, encode (.short spin keyPhase dst (pl, pv)) = some pe ∧
      partialDecodeNew (pe.bytes ++ payload) dst.length sup g =
        .ok { header := .short spin dst, pos := 1 + dst.length, packet := pe.bytes ++ payload, rest := none } := by
  refine ⟨_, encode_short spin keyPhase dst pl pv, ?_⟩
  have := short_roundtrip spin keyPhase dst (beBytes pl pv ++ payload) pl sup g hp
  simpa using this

/-- `PartialDecode::new` on ALL datagrams: never the model's `panic`; on success the packet and the
    remainder partition the datagram exactly (`partial_decode_len_sum`, the fuzz target's assertion), the
    cursor lies inside the packet, and a remainder is reported only when non-empty -/
theorem partial_decode_total (bytes : Bytes) (lc : Nat) (sup : List Nat) (g : Bool) :
    partialDecodeNew bytes lc sup g ≠ .error .panic ∧
    ∀ pd, partialDecodeNew bytes lc sup g = .ok pd →
      pd.packet ++ (match pd.rest with | some r => r | none => []) = bytes ∧
      pd.pos ≤ pd.packet.length ∧ 1 ≤ pd.pos ∧ (∀ r, pd.rest = some r → r ≠ []) :=
  ⟨partialDecode_noPanic bytes lc sup g, fun pd h => partialDecode_split bytes lc sup g pd h⟩

-- non-vacuity
example : validPnLen 2 ∧ (4 : Nat) ≤ 2 + [0, 17, 34, 51].length ∧ 2 + [0, 17, 34, 51].length < 2^14 := by
  refine ⟨Or.inr (Or.inl rfl), by decide, by decide⟩
example : (1 : Nat) ∈ [7, 1, 9] ∧ (1 : Nat) ≠ 0 ∧ (1 : Nat) < 2^32 := by decide
example : (77 : Nat) < 128 ∧ 77 &&& 64 ≠ 0 := by decide

end QM.Props.C10_header
