import QuinnModel.Lemmas.Token
import QuinnModel.Lemmas.BloomLog
import QuinnModel.Lemmas.TokenCache
/-
C14 — Validation tokens and Retry cannot be forged, moved or replayed.   (property theorems only)

Server side (`token.rs`, `bloom_token_log.rs`) and the client-side token store
(`token_memory_cache.rs`).  AEAD is ideal BY HYPOTHESIS (`Token.Ideal A key S`: `open` under the
server key succeeds exactly on the strings `seal` produced under that key for the plaintexts in `S`);
`hS` says sealed plaintexts are byte strings and `hT` that the presented token is one.
`Payload.wire` is what the token keeps of a payload: ip and port of a socket address (flowinfo and
scope id are not encoded).  Times: `SystemTime`/`Duration` in ns; payloads carry whole seconds.
-/
namespace QM.Props.C14
open QM QM.Token

/-! ### token payload coding -/

/-- payload round trip, both kinds: every v4/v6 address and port, connection IDs of 0..20 bytes, every
    issue time representable as a `SystemTime` -/
theorem payload_round_trip (p : Payload) (hv : p.Valid) :
    decodePayload (encodePayload p) = .ok p.wire :=
  decodePayload_encodePayload p hv

/-- the decoder is canonical: a byte string that decodes is exactly the encoding of what it decodes to
    (no second spelling, no trailing bytes), and that payload is well formed -/
theorem payload_decoding_canonical (pt : Bytes) (hw : WF pt) (p : Payload) (h : decodePayload pt = .ok p) :
    pt = encodePayload p ∧ p.Valid ∧ p.wire = p :=
  decodePayload_sound pt hw p h

/-- token round trip under the issuing key: nonce and payload come back -/
theorem token_round_trip (A : Aead) (key : Nat) (S : Nat → Bytes → Prop) (hA : Ideal A key S)
    (n : Nat) (p : Payload) (hn : n < 2 ^ 128) (hv : p.Valid) (hs : S n (encodePayload p)) :
    decode A key (encode A key n p) = .ok (n, p.wire) :=
  decode_encode A key S hA n p hn hv hs

-- non-vacuity: both kinds, v4 and v6, a 20-byte CID
example : (Payload.retry (.v6 (List.replicate 16 7) 443 5 9) (List.replicate 20 255) 1700000000).Valid := by
  simp [Payload.Valid, Addr.Valid, Ip.Valid, Addr.ip, Addr.port, Gen.maxCidSize]
example : decodePayload (encodePayload (.retry (.v6 (List.replicate 16 7) 443 5 9) [1, 2, 3] 1700000000))
    = .ok (.retry (.v6 (List.replicate 16 7) 443 0 0) [1, 2, 3] 1700000000) := by decide
example : decodePayload (encodePayload (.validation (.v4 [192, 168, 0, 1]) 42)) = .ok (.validation (.v4 [192, 168, 0, 1]) 42) := by
  decide

/-- a concrete ideal AEAD (the sealed string spells out key, nonce and plaintext): witnesses that the
    hypotheses `Ideal A key S`, `hS` of the theorems below are satisfiable -/
def toyAead : Aead where
  sealWith k n pt := k :: n :: pt
  openWith k n s := match s with
    | k' :: n' :: pt => if k' = k ∧ n' = n ∧ pt.all (· < 256) then some pt else none
    | _ => none

theorem toyAead_ideal (key : Nat) : Ideal toyAead key (fun _ pt => WF pt) := by
  constructor
  · intro n pt h
    have hall : pt.all (· < 256) = true := List.all_eq_true.mpr (fun x hx => by simpa using h x hx)
    show (if key = key ∧ n = n ∧ pt.all (· < 256) then some pt else none) = some pt
    rw [if_pos ⟨rfl, rfl, hall⟩]
  · intro n s pt h
    cases s with
    | nil => exact absurd h (by simp [toyAead])
    | cons k' t =>
      cases t with
      | nil => exact absurd h (by simp [toyAead])
      | cons n' pt' =>
        have h' : (if k' = key ∧ n' = n ∧ pt'.all (· < 256) then some pt' else none) = some pt := h
        by_cases hc : k' = key ∧ n' = n ∧ pt'.all (· < 256)
        · rw [if_pos hc] at h'
          obtain ⟨rfl, rfl, hall⟩ := hc
          obtain rfl := Option.some.inj h'
          exact ⟨fun x hx => by simpa using List.all_eq_true.mp hall x hx, rfl⟩
        · rw [if_neg hc] at h'; exact absurd h' (by simp)

/-! ### the validation decision (DESIGN 5.14) -/

/-- A token validates the client address IF AND ONLY IF it is, byte for byte, `encode key nonce p` for a
    payload the server sealed, and: Retry — the remote address equals the address in the token (ip AND
    port) and `issued + retry_token_lifetime` is not before now; NEW_TOKEN — the remote ip equals the ip
    in the token, `issued + lifetime` is not before now, and the token log accepted the nonce. -/
theorem token_validates_iff {σ : Type} (A : Aead) (S : Nat → Bytes → Prop) (cfg : Cfg) (hA : Ideal A cfg.key S)
    (hS : ∀ n pt, S n pt → WF pt) (log : σ → Nat → Nat → Nat → Option (σ × Bool)) (ls : σ)
    (token dcid : Bytes) (remote : Addr) (now : Nat) (hT : WF token) :
    (∃ ls' inc, fromHeader A cfg log ls token dcid remote now = (ls', .ok inc) ∧ inc.validated = true) ↔
      ∃ n p, n < 2 ^ 128 ∧ p.Valid ∧ S n (encodePayload p) ∧ token = encode A cfg.key n p ∧
        Accepts cfg log ls remote now n p :=
  Token.token_validates_iff A S cfg hA hS log ls token dcid remote now hT

/-- any string that is not byte for byte a token sealed under the server key (a flipped bit, a
    truncation, an extension, a splice of two tokens, a token of another server) is treated as absent:
    same result as no token, token log untouched -/
theorem altered_token_is_absent {σ : Type} (A : Aead) (S : Nat → Bytes → Prop) (cfg : Cfg) (hA : Ideal A cfg.key S)
    (hS : ∀ n pt, S n pt → WF pt) (log : σ → Nat → Nat → Nat → Option (σ × Bool)) (ls : σ)
    (token dcid : Bytes) (remote : Addr) (now : Nat) (hT : WF token)
    (hf : ∀ n pt, S n pt → token ≠ A.sealWith cfg.key n pt ++ leBytes Gen.tokenNonceBytes n) :
    fromHeader A cfg log ls token dcid remote now = (ls, .ok (unvalidated dcid)) :=
  Token.altered_token_is_absent A S cfg hA hS log ls token dcid remote now hT hf

/-- a genuine token of a server with another key (whose sealed strings do not coincide with ours) is absent -/
theorem foreign_key_token_is_absent {σ : Type} (A : Aead) (S : Nat → Bytes → Prop) (cfg : Cfg) (hA : Ideal A cfg.key S)
    (hS : ∀ n pt, S n pt → WF pt) (log : σ → Nat → Nat → Nat → Option (σ × Bool)) (ls : σ)
    (token dcid : Bytes) (remote : Addr) (now : Nat) (hT : WF token) (k' n : Nat) (p : Payload)
    (hsep : ∀ m pt, A.sealWith cfg.key m pt ≠ A.sealWith k' n (encodePayload p))
    (htok : token = encode A k' n p) :
    fromHeader A cfg log ls token dcid remote now = (ls, .ok (unvalidated dcid)) :=
  Token.foreign_key_token_is_absent A S cfg hA hS log ls token dcid remote now hT k' n p hsep htok

/-- the attempt ends with INVALID_TOKEN exactly for a genuine Retry token that is moved (remote
    address ≠ address in the token) or stale (`issued + retry_token_lifetime < now`) -/
theorem bad_retry_token_is_INVALID_TOKEN {σ : Type} (A : Aead) (S : Nat → Bytes → Prop) (cfg : Cfg)
    (hA : Ideal A cfg.key S) (hS : ∀ n pt, S n pt → WF pt) (log : σ → Nat → Nat → Nat → Option (σ × Bool)) (ls : σ)
    (token dcid : Bytes) (remote : Addr) (now : Nat) (hT : WF token) (hnow : now < SysTime.limit) :
    (∃ ls', fromHeader A cfg log ls token dcid remote now = (ls', .invalidRetry)) ↔
      ∃ n a c i, n < 2 ^ 128 ∧ (Payload.retry a c i).Valid ∧ S n (encodePayload (.retry a c i)) ∧
        token = encode A cfg.key n (.retry a c i) ∧
        (a.wire ≠ remote ∨ i * SysTime.nsPerSec + cfg.retryLifetime < now) :=
  Token.bad_retry_iff A S cfg hA hS log ls token dcid remote now hT hnow

/-- observation O1 (NOTES.md): the comparison is `SocketAddr` equality, which includes flowinfo and
    scope id, but the token carries neither — a remote address with a non-zero scope id / flowinfo
    (IPv6 link-local) satisfies the acceptance condition of no Retry token -/
theorem retry_token_binds_wire_address {σ : Type} (cfg : Cfg) (log : σ → Nat → Nat → Nat → Option (σ × Bool)) (ls : σ)
    (remote : Addr) (now n : Nat) (a : Addr) (c : Bytes) (i : Nat) (hr : remote.wire ≠ remote) :
    ¬ Accepts cfg log ls remote now n (.retry a c i) :=
  retry_never_accepted_from_scoped cfg log ls remote now n a c i hr

-- non-vacuity: a genuine NEW_TOKEN token validates once the log accepts; a moved Retry token is INVALID_TOKEN
example : (fromHeader toyAead ⟨7, 15000000000, 100000000000⟩ (fun (s : Unit) _ _ _ => some (s, true)) ()
    (encode toyAead 7 5 (.validation (.v4 [10, 0, 0, 1]) 1000)) [9] (.v4 [10, 0, 0, 1] 4433) 1050000000000).2
    = .ok ⟨none, [9], true⟩ := by decide
example : (fromHeader toyAead ⟨7, 15000000000, 100000000000⟩ (fun (s : Unit) _ _ _ => some (s, true)) ()
    (encode toyAead 7 5 (.retry (.v4 [10, 0, 0, 1] 4433) [1, 2] 1000)) [9] (.v4 [10, 0, 0, 1] 4434) 1001000000000).2
    = .invalidRetry := by decide

/-! ### `BloomTokenLog`: single use across any number of period turn-overs -/

/-- For ANY history of calls with one lifetime > 0 — any nonces, any issue times in any order (no clock
    assumption is needed), any number of one- or two-filter turn-overs, any hash-set→bloom conversions
    and any bloom false positives (`Choice`) — no (fingerprint, issue time) is accepted twice.
    Side condition the code needs: the lifetime passed to the log never changes (see NOTES.md). -/
theorem bloom_single_use (lifetime : Nat) (hL : 0 < lifetime) (maxBytes : Nat) (calls : List BloomLog.Call) :
    (BloomLog.accepted lifetime (BloomLog.init maxBytes) calls).Nodup :=
  (BloomLog.accepted_fresh lifetime hL calls (BloomLog.init maxBytes) (fun _ => False)
    (BloomLog.init_inv lifetime maxBytes)).1

/-- one call refines "set of tokens accepted so far": the invariant is kept and an accepted token is new -/
theorem bloom_refines_set (L : Nat) (hL : 0 < L) (s s' : BloomLog.State) (seen : Nat × Nat → Prop)
    (h : BloomLog.Inv L s seen) (nonce issued : Nat) (c : BloomLog.Choice) (r : Bool)
    (hc : BloomLog.checkAndInsert s nonce issued L c = some (s', r)) :
    BloomLog.Inv L s' (fun x => seen x ∨ (r = true ∧ x = (BloomLog.fingerprint nonce, issued)))
      ∧ (r = true → ¬ seen (BloomLog.fingerprint nonce, issued)) :=
  BloomLog.step L hL s s' seen h nonce issued c r hc

-- non-vacuity: lifetime 10 s; replays within the period, after a one-filter and after a two-filter turn-over
example : BloomLog.accepted 10000000000 (BloomLog.init 64)
    [⟨1, 100000000000, ⟨true, false, false⟩⟩, ⟨1, 100000000000, ⟨true, false, false⟩⟩,
     ⟨2, 125000000000, ⟨true, false, false⟩⟩, ⟨1, 100000000000, ⟨true, false, false⟩⟩,
     ⟨2, 125000000000, ⟨true, false, false⟩⟩, ⟨3, 190000000000, ⟨true, false, false⟩⟩,
     ⟨2, 125000000000, ⟨true, false, false⟩⟩]
    = [(1, 100000000000), (2, 125000000000), (3, 190000000000)] := by decide

/-- the side condition is needed: if the lifetime handed to the log changes between two presentations of
    the same token, the second one lands in the other filter and is accepted again -/
example : (((BloomLog.checkAndInsert (BloomLog.init 64) 1 100 10 ⟨true, false, false⟩).bind
    (fun r => BloomLog.checkAndInsert r.1 2 112 10 ⟨true, false, false⟩)).bind
    (fun r => if r.2 then BloomLog.checkAndInsert r.1 2 112 2 ⟨true, false, false⟩ else none)).map (·.2)
    = some true := by decide

/-- observation O2 (NOTES.md): a jump of three or more periods — e.g. the first token ever presented —
    sets `period_1_start` to that token's expiry, so an unexpired, never-used token issued earlier
    (here 1 s earlier) is refused -/
example : ((BloomLog.checkAndInsert (BloomLog.init 64) 1 100000000000 10000000000 ⟨true, false, false⟩).bind
    (fun r => BloomLog.checkAndInsert r.1 2 99000000000 10000000000 ⟨true, false, false⟩)).map (·.2) = some false := by
  decide

/-! ### `TokenMemoryCache` -/

/-- Over ANY history of insert/take with ANY capacities: no panic, and for every token value the
    number of times `take` hands it out is at most the number of times it was stored — every stored
    token is handed out at most once. -/
theorem cache_take_once {α : Type} [DecidableEq α] (maxNames maxTokens : Nat) (ops : List (TokenCache.Op α)) :
    ∃ s out, TokenCache.run (TokenCache.init maxNames maxTokens) ops = some (s, out) ∧
      ∀ a, out.count a ≤ (TokenCache.inserted ops).count a := by
  obtain ⟨s, out, h, _, _, _, hc⟩ := TokenCache.run_conserve ops (TokenCache.init maxNames maxTokens)
    (TokenCache.init_inv maxNames maxTokens)
  exact ⟨s, out, h, fun a => by have := hc a; simp [TokenCache.init] at this; omega⟩

/-- bounds: at most `max_server_names` names, all distinct, each with between 1 and
    `max_tokens_per_server` tokens, after any history -/
theorem cache_bounds {α : Type} [DecidableEq α] (maxNames maxTokens : Nat) (ops : List (TokenCache.Op α)) :
    ∃ s out, TokenCache.run (TokenCache.init maxNames maxTokens) ops = some (s, out) ∧
      s.lru.length ≤ maxNames ∧ (s.lru.map (·.name)).Nodup ∧
      ∀ e ∈ s.lru, e.tokens ≠ [] ∧ e.tokens.length ≤ maxTokens := by
  obtain ⟨s, out, h, hi, hN, hT, _⟩ := TokenCache.run_conserve ops (TokenCache.init maxNames maxTokens)
    (TokenCache.init_inv maxNames maxTokens)
  refine ⟨s, out, h, ?_, hi.nodup, fun e he => ⟨hi.nonempty e he, ?_⟩⟩
  · have := hi.names; simp [TokenCache.init] at hN; omega
  · have := hi.bounded e he; simp [TokenCache.init] at hT; omega

/-- eviction order: after any history the entries are ordered by time of last use (a `store` under the
    name or a `take` that found it), most recent first; `store` of a new name at the bound drops the
    last entry (`store_evicts_last`), i.e. the least recently used one -/
theorem cache_evicts_least_recently_used {α : Type} [DecidableEq α] (maxNames maxTokens : Nat)
    (ops : List (TokenCache.Op α)) :
    ∃ s lastUse clock, TokenCache.runG (TokenCache.init maxNames maxTokens) (fun _ => 0) 0 ops = some (s, lastUse, clock) ∧
      TokenCache.Ordered s.lru lastUse clock ∧
      ∀ last, s.lru.getLast? = some last → ∀ e ∈ s.lru, lastUse last.name ≤ lastUse e.name := by
  obtain ⟨s, st, c, h, _, ho⟩ := TokenCache.runG_ordered ops (TokenCache.init maxNames maxTokens) (fun _ => 0) 0
    (TokenCache.init_inv maxNames maxTokens) ⟨by simp [TokenCache.init], by simp [TokenCache.init]⟩
  exact ⟨s, st, c, h, ho, fun last hl => TokenCache.last_is_lru s.lru last ho hl⟩

/-- the entry evicted by a `store` under a new name at the name bound is the last one of that order -/
theorem cache_store_evicts_last {α : Type} (s : TokenCache.State α) (n : String) (t : α) (last : TokenCache.Entry α)
    (hN : s.maxNames ≠ 0) (hT : s.maxTokens ≠ 0) (hnew : TokenCache.extract n s.lru = none)
    (hfull : Gen.tokenCacheNamesFull s.lru.length s.maxNames = true) (hl : s.lru.getLast? = some last) :
    TokenCache.store s n t = some { s with lru := ⟨n, [t]⟩ :: s.lru.dropLast } :=
  TokenCache.store_evicts_last s n t last hN hT hnew hfull hl

-- non-vacuity: 2 names x 2 tokens; queue overflow drops token 1, name "b" is evicted, each token at most once
example : (TokenCache.run (TokenCache.init 2 2 : TokenCache.State Nat)
    [.insert "a" 1, .insert "b" 2, .insert "a" 3, .insert "a" 4, .insert "c" 5, .take "b", .take "a", .take "a",
     .take "a", .take "c", .take "c"]).map (·.2) = some [3, 4, 5] := by decide

end QM.Props.C14
