import QuinnModel.Lemmas.Amplification
import QuinnModel.Lemmas.Reset
/-
C07 — Unvalidated addresses are never sent more than 3x what they sent.   (property theorems only)
The gate predicate `Gen.antiAmpBlocked` and its argument `Gen.antiAmpGateArg` are regenerated from
paths.rs / connection/mod.rs on every run; the reset constants from endpoint.rs / lib.rs.
-/
namespace QM.Props.C07
open QM

/-- Over EVERY interleaving of received datagrams, validation, migrations and `poll_transmit` calls (each
    building any number of datagrams of any sizes ≤ the segment size ≤ M), an unvalidated path has been sent
    at most three times what was received from it plus the documented allowance of completing one
    datagram: `sent ≤ 3·recvd + M − 1`. -/
theorem amp_bound (M : Nat) (hM : 0 < M) (evs : List Amp.Ev) (hw : ∀ e ∈ evs, e.wf M) (r0 : Nat) :
    let p := Amp.run ⟨false, 0, r0⟩ evs
    p.validated = false → p.sent + 1 ≤ 3 * p.recvd + M :=
  Amp.run_inv M hM evs ⟨false, 0, r0⟩ hw (by intro _; simp only; omega)

/-- Per datagram: whenever the datagram loop starts datagram k of a call on an unvalidated path, strictly
    less than 3× the bytes received had been sent (earlier datagrams of the same call included) — "one
    datagram may be completed once any budget remains". -/
theorem amp_gate (p : Amp.Path) (seg : Nat) (hv : p.validated = false) (sizes : List Nat)
    (hs : ∀ s ∈ sizes, s ≤ seg) (k : Nat) (hk : k < (Amp.emit p seg 0 sizes).length) :
    p.sent + ((Amp.emit p seg 0 sizes).take k).sum < 3 * p.recvd := by
  have := Amp.emit_gate p seg hv sizes 0 0 (by omega) hs k hk
  omega

/-- A stateless reset is strictly smaller than the datagram that provoked it (every rng draw in range). -/
theorem reset_smaller (inciting draw n : Nat)
    (hdraw : Gen.resetIdealMinPaddingLen ≤ draw ∧ draw < inciting - Gen.resetTokenSize - 1)
    (h : Reset.resetSize inciting draw = some n) : n < inciting :=
  Reset.resetSize_lt inciting draw n hdraw h

/-- … and when the draw is not used (small inciting datagrams) whatever the draw. -/
theorem reset_smaller_small (inciting draw n : Nat)
    (hsmall : inciting - Gen.resetTokenSize - 1 ≤ Gen.resetIdealMinPaddingLen)
    (h : Reset.resetSize inciting draw = some n) : n < inciting :=
  Reset.resetSize_lt_small inciting draw n hsmall h

/-- Rate limit: over any history of unexpected datagrams with a monotone clock, any two stateless resets are
    at least `min_reset_interval` apart. -/
theorem reset_rate (mi : Nat) (h : List (Nat × Nat × Nat)) (t0 : Nat) (hm : Reset.Mono t0 h) :
    List.Pairwise (fun a b => a + mi ≤ b) (Reset.sentTimes mi ⟨none⟩ h) :=
  (Reset.sentTimes_spaced mi h ⟨none⟩ t0 hm (by intro l hl; cases hl)).2

/-- "Until a peer address is validated (by a Handshake packet from it, a valid Retry or validation token, or a
    successful path challenge)": over EVERY history that starts unvalidated, the path counts as validated at the end
    only if the history contains one of exactly these causes — a Handshake packet of the peer processed, a token the
    endpoint issued presented, a PATH_RESPONSE matching a challenge — and no migration came after it. -/
theorem validated_only_by_cause (evs : List Amp.Ev) (s r : Nat)
    (h : (Amp.run ⟨false, s, r⟩ evs).validated = true) :
    ∃ pre c post, evs = pre ++ c :: post ∧ c.isCause = true ∧ ∀ e ∈ post, ∀ n, e ≠ .migrate n :=
  Amp.run_validated_cause evs ⟨false, s, r⟩ rfl h

/-- … and conversely a history without any of the causes (received datagrams of any size from any address, polls,
    migrations) never validates: the 3x bound of `amp_bound` stays in force throughout. -/
theorem no_cause_never_validated (evs : List Amp.Ev) (s r : Nat) (hc : ∀ e ∈ evs, e.isCause = false) :
    (Amp.run ⟨false, s, r⟩ evs).validated = false :=
  Amp.run_no_cause evs ⟨false, s, r⟩ rfl hc

/-- The verdict the trace validation applies to every datagram a real connection handles (`amp rx` / `amp foreign`,
    cause bits derived by the harness from the PEER's transmit record): "must stay unvalidated" is issued exactly when
    the datagram stands for no cause, "must be validated" only for a path that already was; with a cause the outcome is
    left open (the property permits validation, it does not demand it). -/
theorem rx_verdict_sound (p : Amp.Path) (hs pr b : Bool) (h : Amp.rxVerdict p.validated hs pr = some b) :
    (b = false → hs = false ∧ pr = false ∧ (Amp.run p (Amp.rxEvents hs pr)).validated = false) ∧
    (b = true → p.validated = true) :=
  Amp.rxVerdict_sound p hs pr b h

theorem rx_verdict_open (p : Amp.Path) (hs pr : Bool) (hv : p.validated = false) (hc : (hs || pr) = true) :
    Amp.rxVerdict p.validated hs pr = none ∧ (Amp.run p (Amp.rxEvents hs pr)).validated = true :=
  Amp.rxVerdict_open p hs pr hv hc

-- non-vacuity
example : (Amp.run ⟨false, 0, 1200⟩ [.recv 1200, .poll 1200 [1200], .handshakePacketProcessed, .poll 1200 [1200, 1200, 1200, 1200, 1200, 1200, 1200]]).validated = true := by decide
example : (Amp.run ⟨false, 0, 1200⟩ [.tokenValidated, .migrate 40, .recv 40, .foreign 1200]).validated = false := by decide
example : Amp.rxVerdict false false false = some false ∧ Amp.rxVerdict false true false = none
    ∧ Amp.rxVerdict false false true = none ∧ Amp.rxVerdict true false false = some true := by decide
example : (Amp.run ⟨false, 0, 1200⟩ [.poll 1200 [1200, 1200, 1200, 1200], .recv 50, .poll 1200 [1200, 1200]]).sent = 4800 := by decide
example : Reset.resetSize 100 40 = some 56 ∧ Reset.resetSize 21 0 = none ∧ Reset.resetSize 30 0 = some 29 := by decide
example : Reset.sentTimes 20 ⟨none⟩ [(0, 100, 40), (5, 100, 40), (20, 100, 40), (30, 100, 40), (41, 50, 30)] = [0, 20, 41] := by decide

end QM.Props.C07
