import QuinnModel.Lemmas.Ack
/-
C10 — Wire encodings round-trip and decoders are total: the ACK frame.   (property theorems only; to be merged
into Props/C10.lean)
-/
namespace QM.Props.C10_ack
open QM QM.Ack

/-- ACK frames round-trip: for every non-empty list `ds` of inclusive packet-number ranges that is descending and
    disjoint with at least one missing number between neighbours (`Chain`; exactly what an `ArrayRangeSet` can
    hold and what `AckIter` yields), largest < 2^62, any delay and ECN counts < 2^62 and ANY trailing bytes:
    `Ack::encode` does not panic, and decoding its output returns the same largest, delay, ECN counts and — via
    `AckIter` — exactly `ds`, leaving the trailing bytes unread -/
theorem ack_roundtrip (lo hi : Nat) (t : List (Nat × Nat)) (hch : Chain ((lo, hi) :: t)) (hmax : hi < 2^62)
    (delay : Nat) (hd : delay < 2^62) (ecn : Option (Nat × Nat × Nat))
    (hecn : ∀ a b c, ecn = some (a, b, c) → a < 2^62 ∧ b < 2^62 ∧ c < 2^62) (tail : Bytes) :
    ∃ bytes f, Ack.encode delay (toRangeSet ((lo, hi) :: t)) ecn = some bytes ∧
      decodeAck (bytes ++ tail) = some (.ok (f, tail)) ∧
      f.largest = hi ∧ f.delay = delay ∧ f.ecn = ecn ∧ f.ranges = some ((lo, hi) :: t) :=
  roundtrip_desc _ lo hi t rfl hch hmax delay hd ecn hecn tail

/-- the same in the encoder's own terms: `ranges.iter().rev()` = `(s, e) :: rest`, half-open and canonical -/
theorem ack_roundtrip_rangeset (delay : Nat) (asc : List (Nat × Nat)) (ecn : Option (Nat × Nat × Nat)) (tail : Bytes)
    (s e : Nat) (rest : List (Nat × Nat)) (hrev : asc.reverse = (s, e) :: rest) (hse : s < e) (he : e ≤ 2^62)
    (hc : CanonDesc s rest) (hd : delay < 2^62)
    (hecn : ∀ a b c, ecn = some (a, b, c) → a < 2^62 ∧ b < 2^62 ∧ c < 2^62) :
    ∃ bytes f, Ack.encode delay asc ecn = some bytes ∧ decodeAck (bytes ++ tail) = some (.ok (f, tail)) ∧
      f.largest = e - 1 ∧ f.delay = delay ∧ f.ecn = ecn ∧
      f.ranges = some ((s, e - 1) :: rest.map (fun r => (r.1, r.2 - 1))) :=
  encode_decode delay asc ecn tail s e rest hrev hse he hc hd hecn

/-- the ACK scan never reads past its buffer and needs at least `2n + 1` bytes for `n` additional ranges -/
theorem ack_scan_within_buffer (buf : Bytes) (largest n k : Nat) (h : scanAckBlocks buf largest n = .ok k) :
    k ≤ buf.length ∧ 2 * n + 1 ≤ k :=
  ⟨(scanAckBlocks_spec buf largest n k h).1, (scanAckBlocks_spec buf largest n k h).2.1⟩

-- non-vacuity: packets {1,2,3,5,10,11,14} as in the crate's `ack_coding` test
example : Chain [(14, 14), (10, 11), (5, 5), (1, 3)] := by simp [Chain]
example : Ack.encode 42 (toRangeSet [(14, 14), (10, 11), (5, 5), (1, 3)]) none =
    some [2, 14, 42, 3, 0, 1, 1, 3, 0, 0, 2] := by decide
example : (decodeAck ([2, 14, 42, 3, 0, 1, 1, 3, 0, 0, 2] ++ [0xaa])).map (fun r => r.map (fun p => (p.1.ranges, p.2))) =
    some (.ok (some [(14, 14), (10, 11), (5, 5), (1, 3)], [0xaa])) := rfl

end QM.Props.C10_ack
