import QuinnModel.Lemmas.RxPn
import QuinnModel.Lemmas.PendingAcks
import QuinnModel.Lemmas.Datagrams
import QuinnModel.Lemmas.CidQueue
import QuinnModel.Lemmas.StreamsC06
/-
C03 — "No sequence of bytes received from the network ... makes an endpoint or connection panic".
                                                                              (property theorems only)
The micro-differential models print `panic` where the code panics, so a predicted panic passes the
correspondence check; the harness now classifies every op as PEER / LOCAL-API / CONTRACT-VIOLATION
(harness/src/opclass*.rs) and reports a panic on a PEER op whatever the model says.  These theorems are the proof
side of that oracle: over EVERY history of PEER ops with arguments in their WIRE ranges (varints below 2^62,
truncated packet numbers of 1..4 bytes, ...) the model never reaches its panic outcome.  Hypotheses are wire
ranges only - never "the value is small because the code checked it" unless that check is itself modelled.
-/
namespace QM.Props.C03_total
open QM

/-! ## packet numbers of received packets (`packet_crypto.rs::decrypt_packet_body`), audit SD-10

RFC 9000 12.3: packet numbers are integers in 0..2^62-1.  The receiver reconstructs the full number from 1..4
bytes and its largest processed number; a peer that holds the keys chooses those bytes freely. -/
section rxpn
open QM.RxPn

/-- the code bounds the numbers it processes by 2^62-1 (T1: `Gen.rxPnBound` is read off the source) -/
theorem rx_bound_is_varint_max : Gen.rxPnBound = some (2 ^ 62 - 1) := rfl

/-- over EVERY history of received packets (any 1..4-byte truncated numbers), starting from any legal largest
    processed number: the receive path never panics (`rx_packet + 1`, the additions inside `expand`), the largest
    processed number stays a legal packet number, and so does every number a packet is processed under -/
theorem received_packet_numbers_stay_legal (rx : Nat) (hrx : rx < 2 ^ 62) (ps : List (Nat × Nat)) (hw : ∀ p ∈ ps, wire p) :
    (∃ rx', run rx ps = some rx' ∧ rx' < 2 ^ 62) ∧ ∀ n ∈ accepted rx ps, n < 2 ^ 62 := by
  constructor
  · obtain ⟨rx', h, hb⟩ := run_bounded (2 ^ 62 - 1) rx_bound_is_varint_max (by omega) ps rx (by omega) hw
    exact ⟨rx', h, by omega⟩
  · intro n hn
    have := accepted_bounded (2 ^ 62 - 1) rx_bound_is_varint_max (by omega) ps rx (by omega) hw n hn
    omega

/-- `expand` alone does NOT keep the result legal: the receiver state 2^62-1 (a legal number) and the one-byte
    truncated number 05 give 2^62+5.  Without the bound test in `decrypt_packet_body` that number is processed,
    enters `PendingAcks`, and the next ACK frame panics in `Ack::encode` (`VarInt::from_u64(..).unwrap()`) -/
def expand_exceeds_varint_witness : (Nat × Nat) × Nat := ((1, 5), 2 ^ 62 - 1)

theorem expand_alone_exceeds_varint :
    wire expand_exceeds_varint_witness.1 ∧ expand_exceeds_varint_witness.2 < 2 ^ 62 ∧
    PacketNumber.expand expand_exceeds_varint_witness.1 (expand_exceeds_varint_witness.2 + 1) = some (2 ^ 62 + 5) := by
  refine ⟨⟨by decide, by decide, by decide⟩, by decide, by decide⟩

/-- a single packet can move the largest processed number forward by 2^31 (4-byte truncated number): reaching
    2^62 from 0 costs a hostile peer about 2^31 packets, not 2^62 -/
theorem one_packet_advances_by_2_31 (rx : Nat) (hrx : rx + 1 + 2 ^ 31 < 2 ^ 62) :
    PacketNumber.expandW 4294967296 ((rx + 1 + 2 ^ 31) % 4294967296) (rx + 1) = some (rx + 1 + 2 ^ 31) := by
  unfold PacketNumber.expandW
  simp only []
  split
  · exfalso; omega
  · split
    · split
      · exfalso; omega
      · simp only [Option.some.injEq]; omega
    · split
      · simp only [Option.some.injEq]; omega
      · simp only [Option.some.injEq]; omega

-- non-vacuity: a history that runs into the bound: accepted, accepted, dropped (2^62+5), accepted
example : run (2 ^ 62 - 300) [(1, 0xff), (4, 0xffffffff), (1, 5), (2, 0xfff0)] = some (2 ^ 62 - 1) := by decide
example : accepted (2 ^ 62 - 300) [(1, 0xff), (4, 0xffffffff), (1, 5)] = [2 ^ 62 - 257, 2 ^ 62 - 1] := by decide

end rxpn

/-! ## `PendingAcks` fed by the receive path: the `pn < 2^62` hypothesis of `C03.pending_acks_bounded` discharged -/
section pendingacks
open QM.PendingAcks

/-- every packet the receive path accepts (any history of truncated numbers from a legal state), inserted into
    `PendingAcks` at any times, interleaved with `subtract_below` of numbers that were accepted earlier: never a
    panic (`x + 1`, `max + 1`), at most MAX_ACK_BLOCKS ranges.  No bound on packet numbers is ASSUMED: it is the
    theorem above. -/
theorem pending_acks_total_on_received_packets (rx : Nat) (hrx : rx < 2 ^ 62) (ps : List (Nat × Nat))
    (hw : ∀ p ∈ ps, RxPn.wire p) (ops : List PendingAcks.Op)
    (hfrom : ∀ op ∈ ops, (∃ n t, op = .insert n t ∧ n ∈ RxPn.accepted rx ps) ∨ (∃ m, op = .sub m ∧ m ∈ RxPn.accepted rx ps)) :
    ∃ s', PendingAcks.run PendingAcks.init ops = some s' ∧ s'.ranges.length ≤ Gen.maxAckBlocks ∧ WF s'.ranges := by
  have hacc := (received_packet_numbers_stay_legal rx hrx ps hw).2
  refine run_bound ops PendingAcks.init (by simp [PendingAcks.init]) ⟨by simp [PendingAcks.init], by simp [PendingAcks.init]⟩ ?_
  intro op hop
  rcases hfrom op hop with ⟨n, t, rfl, hn⟩ | ⟨m, rfl, hm⟩
  · exact hacc n hn
  · exact hacc m hm

end pendingacks

/-! ## `Recv::credit_consumed_by` (STREAM / RESET_STREAM), audit SD-25 -/
section credit
open QM.Streams

/-- for EVERY stream half, frame end offset and connection accounting (all u64): the flow-control test answers - it
    never overflows `received + new_bytes`, whatever windows were configured (also VarInt::MAX) -/
theorem credit_consumed_by_total (r : Recv) (offset received maxData : Nat) (hm : maxData < 2 ^ 64) :
    (r.creditConsumedBy offset received maxData).isSome = true := by
  unfold Recv.creditConsumedBy
  simp only [Gen.creditOverflowIsError, addU]
  split
  · rfl
  · split
    · rename_i h; split at h
      · cases h
      · simp [hm]
    · split <;> rfl

-- non-vacuity: the state of the corpus case `credit-overflow-peer` (data_recvd = 2^64-8, a stopped stream, a frame
-- ending at 2^62-2): an error, not a panic
example : ({ (Recv.new (2 ^ 62 - 1)) with stopped := true } : Recv).creditConsumedBy (2 ^ 62 - 2) (2 ^ 64 - 8) (2 ^ 64 - 1)
    = some (.error (.flowControl "")) := by
  simp [Recv.creditConsumedBy, Recv.new, Gen.creditOverStream, Gen.creditNewBytes, Gen.creditOverflowIsError, addU]

end credit

/-! ## DATAGRAM frames (`DatagramState::received`) -/
section dgram
open QM.Datagrams

/-- over EVERY history of received DATAGRAM frames (any payloads, any configured window, also `None`) interleaved
    with the application's `recv`: never a panic, never a non-terminating eviction loop -/
theorem datagram_frames_total (ops : List Datagrams.Op) (hpeer : ∀ op ∈ ops, (∃ d w, op = .received d w) ∨ op = .recv) :
    ∀ e ∈ trace init ops, e.2 ≠ .panic ∧ e.2 ≠ .hang :=
  trace_no_panic ops init init_inv (by
    intro op hop
    rcases hpeer op hop with ⟨d, w, rfl⟩ | rfl <;> trivial)

end dgram

/-! ## NEW_CONNECTION_ID frames (`CidQueue` + the handler arm) -/
section cidq
open QM.CidQueue

/-- over EVERY history of decoded NEW_CONNECTION_ID frames (sequence a varint; ANY retire_prior_to, the handler
    rejects `retire_prior_to > sequence` itself) and transmissions of RETIRE_CONNECTION_ID: never a panic -/
theorem new_connection_id_frames_total (cid : Bytes) (server : Bool) (ops : List HOp) (hv : ∀ op ∈ ops, op.valid) :
    ∃ s', hrun ⟨new cid, [], server⟩ ops = some s' :=
  let ⟨s', h, _⟩ := hrun_inv ops ⟨new cid, [], server⟩ (new_inv cid) (by simp [J, MAXP]) hv
  ⟨s', h⟩

end cidq

end QM.Props.C03_total
