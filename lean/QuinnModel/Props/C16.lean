import QuinnModel.Lemmas.Datagrams
/-
C16 — Unreliable datagrams: intact, at most once, never oversized.   (property theorems only)

Subject: the `DatagramState` model (Data/Datagrams.lean) started from `DatagramState::default()`.
`exec init ops` is the state after ANY sequence `ops` of operations (send / received / recv / write / the
packet loop / drop_oversized / the black-hole glue, with arbitrary arguments per call); `Op.WF` only says
that a send-buffer size is a `usize` and that the maximum passed to `send` came out of `max_size()`
(< 2^62; it is in fact bounded by the u16 MTU).  Every theorem is about the next operation after an arbitrary
such prefix, or about the whole run.
-/
namespace QM.Props.C16
open QM QM.Datagrams

/-- accounting: after any run `outgoing_total` equals the payload bytes queued for sending and `recv_buffered`
    equals what the buffered incoming datagrams are charged (`recv_cost`: the length, an empty datagram one byte) -/
theorem totals_eq_sums (ops : List Op) (hw : ∀ op ∈ ops, op.WF) :
    (exec init ops).outgoingTotal = sumLen (exec init ops).outgoing
    ∧ (exec init ops).recvBuffered = sumCost (exec init ops).incoming :=
  ⟨(exec_inv ops init init_inv hw).out, (exec_inv ops init init_inv hw).inc⟩

/-- the charge of a datagram: its length, but never less than one byte -/
theorem recv_cost_spec (d : Bytes) : recvCost d = (if d.length = 0 then 1 else d.length) ∧ 1 ≤ recvCost d :=
  ⟨recvCost_eq d, recvCost_pos d⟩

/-- no operation of any run panics (checked arithmetic, varint unwrap) or spins (eviction loop) -/
theorem no_panic_no_hang (ops : List Op) (hw : ∀ op ∈ ops, op.WF) :
    ∀ e ∈ trace init ops, e.2 ≠ .panic ∧ e.2 ≠ .hang :=
  trace_no_panic ops init init_inv hw

/-- `send` accepts exactly the datagrams that fit the reported maximum and the send buffer:
    enabled locally, supported by the peer, `len ≤ min(max_size, send_buffer_size)`, and either `drop` or the
    admission predicate `outgoing_total + len ≤ send_buffer_size` -/
theorem send_accepts_iff (ops : List Op) (hw : ∀ op ∈ ops, op.WF) (d : Bytes) (drop en : Bool) (max : Option Nat)
    (b : Nat) (hop : (Op.send d drop en max b).WF) :
    (send (exec init ops) d drop en max b).2 = .sendOk ↔
      en = true ∧ ∃ m, max = some m ∧ d.length ≤ Nat.min m b
        ∧ (drop = true ∨ (exec init ops).outgoingTotal + d.length ≤ b) :=
  send_ok_iff _ (exec_inv ops init init_inv hw) d drop en max b hop.1 hop.2

/-- the complete result table of `send` (error precedence Disabled > UnsupportedByPeer > TooLarge > Blocked, the
    exact successor state in each case; eviction only with `drop`, oldest first, no more than necessary) -/
theorem send_table (ops : List Op) (hw : ∀ op ∈ ops, op.WF) (d : Bytes) (drop en : Bool) (max : Option Nat)
    (b : Nat) (hop : (Op.send d drop en max b).WF) :
    let s := exec init ops
    (en = false ∧ send s d drop en max b = (s, .sendErr .disabled))
    ∨ (en = true ∧ max = none ∧ send s d drop en max b = (s, .sendErr .unsupportedByPeer))
    ∨ (∃ m, en = true ∧ max = some m ∧ Nat.min m b < d.length ∧ send s d drop en max b = (s, .sendErr .tooLarge))
    ∨ (∃ m, en = true ∧ max = some m ∧ d.length ≤ Nat.min m b ∧ drop = false ∧ b < s.outgoingTotal + d.length
          ∧ send s d drop en max b = ({ s with sendBlocked := true }, .sendErr (.blocked d)))
    ∨ (∃ m, en = true ∧ max = some m ∧ d.length ≤ Nat.min m b ∧ drop = false ∧ s.outgoingTotal + d.length ≤ b
          ∧ send s d drop en max b =
              ({ s with outgoing := s.outgoing ++ [d], outgoingTotal := s.outgoingTotal + d.length }, .sendOk))
    ∨ (∃ m k, en = true ∧ max = some m ∧ d.length ≤ Nat.min m b ∧ drop = true
          ∧ sumLen (s.outgoing.drop k) + d.length ≤ b
          ∧ (∀ j, j < k → b < sumLen (s.outgoing.drop j) + d.length)
          ∧ send s d drop en max b =
              ({ s with outgoing := s.outgoing.drop k ++ [d], outgoingTotal := sumLen (s.outgoing.drop k) + d.length }, .sendOk)) :=
  send_char _ (exec_inv ops init init_inv hw) d drop en max b hop.1 hop.2

/-- queued bytes never grow except by an accepted `send`, and an accepted `send` leaves
    `outgoing_total ≤ send_buffer_size` (the size passed to that call) -/
theorem out_total_le_buffer (ops : List Op) (hw : ∀ op ∈ ops, op.WF) (op : Op) (hop : op.WF) :
    (step (exec init ops) op).1.outgoingTotal ≤ (exec init ops).outgoingTotal
    ∨ ∃ d drop en max b, op = .send d drop en max b ∧ (step (exec init ops) op).2 = .sendOk
        ∧ (step (exec init ops) op).1.outgoingTotal ≤ b :=
  step_total _ (exec_inv ops init init_inv hw) op hop

/-- with the connection's single configured `datagram_send_buffer_size` the bound holds in every reachable state -/
theorem out_total_le_fixed_buffer (b : Nat) (ops : List Op)
    (hw : ∀ op ∈ ops, op.WF ∧ ∀ d drop en max b', op = .send d drop en max b' → b' = b) :
    (exec init ops).outgoingTotal ≤ b :=
  total_le_fixed b ops init init_inv (Nat.zero_le _) hw

/-- `received`: unexpected / oversized frames are rejected without effect; a datagram charged more than the whole
    buffer — only an empty one offered to a zero-sized buffer — is dropped (no error, nothing buffered); otherwise
    the datagram is appended intact after evicting a minimal prefix (the OLDEST datagrams) and `recv_buffered` =
    charge of what is buffered ≤ window, WITHOUT any condition on the window -/
theorem received_table (ops : List Op) (hw : ∀ op ∈ ops, op.WF) (d : Bytes) (window : Option Nat) :
    let s := exec init ops
    (window = none ∧ received s d window = (s, .rcvErr .unexpected))
    ∨ (∃ w, window = some w ∧ w < d.length ∧ received s d window = (s, .rcvErr .oversized))
    ∨ (∃ w, window = some w ∧ d.length ≤ w ∧ w < recvCost d ∧ received s d window = (s, .rcvOk false))
    ∨ (∃ w k, window = some w ∧ recvCost d ≤ w
        ∧ received s d window =
            ({ s with incoming := s.incoming.drop k ++ [d], recvBuffered := sumCost (s.incoming.drop k) + recvCost d },
             .rcvOk (decide (s.recvBuffered = 0)))
        ∧ sumCost (s.incoming.drop k) + recvCost d ≤ w
        ∧ ∀ j, j < k → w < sumCost (s.incoming.drop j) + recvCost d) :=
  received_char _ (exec_inv ops init init_inv hw).inc d window

/-- the third case of `received_table` is exactly: empty datagram, zero-sized buffer -/
theorem dropped_unbuffered_iff (d : Bytes) (w : Nat) (h : d.length ≤ w) : w < recvCost d ↔ (w = 0 ∧ d = []) :=
  cost_exceeds_window_iff d w h

/-- `recv_buffered` never exceeds the window of a `received` call, whatever the window (also 0) and whatever
    windows earlier calls used: every call leaves `recv_buffered ≤ window` or leaves it unchanged (rejected /
    dropped datagram) -/
theorem received_keeps_buffered_le_window (ops : List Op) (hw : ∀ op ∈ ops, op.WF) (d : Bytes) (w : Nat) :
    let r := received (exec init ops) d (some w)
    r.1.recvBuffered ≤ w ∨ r.1 = exec init ops := by
  rcases received_char _ (exec_inv ops init init_inv hw).inc d (some w) with
    ⟨hn, _⟩ | ⟨w', _, _, h⟩ | ⟨w', _, _, _, h⟩ | ⟨w', k, hw', _, h, hb, _⟩
  · cases hn
  · right; rw [h]
  · right; rw [h]
  · cases hw'; left; rw [h]; exact hb

/-- the NUMBER of datagrams buffered for the application (and their payload bytes, and `recv_buffered`) is bounded
    by the configured `datagram_receive_buffer_size` in every reachable state: a peer cannot make the queue grow
    without bound by sending empty DATAGRAM frames (audit SD-9).  `received` is called with the connection's one
    window `w`; no side condition on `w`. -/
theorem buffered_datagram_count_le_window (w : Nat) (ops : List Op)
    (hw : ∀ op ∈ ops, op.WF ∧ ∀ d w', op = .received d (some w') → w' = w) :
    (exec init ops).incoming.length ≤ w ∧ sumLen (exec init ops).incoming ≤ w ∧ (exec init ops).recvBuffered ≤ w :=
  ⟨(count_le_fixed w ops init init_inv (Nat.zero_le _) hw).1, (count_le_fixed w ops init init_inv (Nat.zero_le _) hw).2,
   buffered_le_fixed w ops init init_inv (Nat.zero_le _) hw⟩

/-- the same bound per call, whatever windows earlier calls used: after `received` BUFFERED a datagram with window
    `w` at most `w` datagrams are buffered -/
theorem received_leaves_count_le_window (ops : List Op) (hw : ∀ op ∈ ops, op.WF) (d : Bytes) (w : Nat)
    (h : (received (exec init ops) d (some w)).1 ≠ exec init ops) :
    (received (exec init ops) d (some w)).1.incoming.length ≤ w := by
  have hi := exec_inv ops init init_inv hw
  have hs := (step_inv _ hi (.received d (some w)) trivial).1
  rcases received_keeps_buffered_le_window ops hw d w with hb | he
  · have h1 := length_le_sumCost (received (exec init ops) d (some w)).1.incoming
    have h2 : (received (exec init ops) d (some w)).1.recvBuffered
        = sumCost (received (exec init ops) d (some w)).1.incoming := hs.inc
    omega
  · exact absurd he h

/-- `was_empty` (the `DatagramReceived` wake-up) is reported exactly when no datagram was buffered -/
theorem was_empty_iff_queue_empty (ops : List Op) (hw : ∀ op ∈ ops, op.WF) :
    (exec init ops).recvBuffered = 0 ↔ (exec init ops).incoming = [] := by
  rw [(exec_inv ops init init_inv hw).inc]; exact sumCost_eq_zero_iff _

/-- the eviction loop of `received` terminates from ANY state (also one with corrupted accounting): it leaves
    when `recv()` finds the queue empty -/
theorem eviction_loop_terminates (s : State) (cost w : Nat) :
    (evict cost w (s.incoming.length + 1) s).2 ≠ .hang :=
  evict_never_hangs cost w _ s (Nat.lt_succ_self _)

/-- `recv` hands out the oldest buffered datagram, unchanged, and removes it -/
theorem recv_returns_head (ops : List Op) (hw : ∀ op ∈ ops, op.WF) :
    let s := exec init ops
    (s.incoming = [] ∧ recv s = (s, .recvNone))
    ∨ (∃ x rest, s.incoming = x :: rest
        ∧ recv s = ({ s with incoming := rest, recvBuffered := sumCost rest }, .recvSome x)) :=
  recv_char _ (exec_inv ops init init_inv hw).inc

/-- FIFO, intact, at most once: over any run, the datagrams returned by `recv` followed by those still buffered
    form a subsequence of the accepted datagrams — same bytes, same order, none twice, none invented
    (what is missing was evicted oldest-first by `received_table`) -/
theorem recv_fifo (ops : List Op) (hw : ∀ op ∈ ops, op.WF) :
    (delivered (trace init ops) ++ (exec init ops).incoming).Sublist (accepted (trace init ops)) := by
  simpa [init] using fifo_general ops init init_inv hw

/-- `write` encodes the oldest datagram entirely — one frame `fr` of exactly `Datagram::size(true)` bytes that
    fits the budget — or leaves the state and the buffer untouched (and it refuses only if the queue is empty or
    the frame does not fit) -/
theorem write_whole_or_nothing (ops : List Op) (hw : ∀ op ∈ ops, op.WF) (buf : Bytes) (max : Nat) :
    let s := exec init ops
    (write s buf max = (s, .wrote false buf)
      ∧ (s.outgoing = [] ∨ ∃ d rest fs, s.outgoing = d :: rest ∧ frameSize d = some fs ∧ max < buf.length + fs))
    ∨ (∃ d rest fs fr, s.outgoing = d :: rest ∧ frameSize d = some fs ∧ encodeFrame d = some fr ∧ fr.length = fs
        ∧ buf.length + fs ≤ max
        ∧ write s buf max = ({ s with outgoing := rest, outgoingTotal := sumLen rest }, .wrote true (buf ++ fr))) :=
  write_char _ (exec_inv ops init init_inv hw) buf max

/-- a frame produced for a datagram parses back (type 0x31, varint length, payload) to exactly that datagram and
    the untouched remainder; its size is within `len + SIZE_BOUND` -/
theorem frame_roundtrip (d : Bytes) (h : d.length < 2^62) :
    ∃ fs fr, frameSize d = some fs ∧ encodeFrame d = some fr ∧ fr.length = fs ∧ fs ≤ d.length + Gen.dgSizeBound
      ∧ ∀ rest, decodeFrame (fr ++ rest) = some (d, rest) :=
  frame_ok d h

/-- the DATAGRAM loop of `populate_packet` emits whole frames of a prefix of the queue, within the budget, and
    clears `send_blocked` (emitting `DatagramsUnblocked`) exactly when it was set and something was sent -/
theorem packet_loop_whole_frames (ops : List Op) (hw : ∀ op ∈ ops, op.WF) (buf : Bytes) (max : Nat) :
    let s := exec init ops
    ∃ k, k ≤ s.outgoing.length
      ∧ writeLoop s buf max =
        ({ s with outgoing := s.outgoing.drop k, outgoingTotal := sumLen (s.outgoing.drop k),
                  sendBlocked := s.sendBlocked && decide (k = 0) },
         .loop k (buf ++ encAll (s.outgoing.take k)) (s.sendBlocked && decide (0 < k)))
      ∧ (0 < k → (buf ++ encAll (s.outgoing.take k)).length ≤ max) :=
  writeLoop_char _ (exec_inv ops init init_inv hw) buf max

/-- the black-hole glue (`drop_oversized(max_size())` when `max_size()` is `Some`) keeps exactly the strictly
    shorter datagrams and clears `send_blocked` (emitting `DatagramsUnblocked`) exactly when it was set and
    something was dropped -/
theorem black_hole_glue (ops : List Op) (hw : ∀ op ∈ ops, op.WF) (max : Option Nat) :
    let s := exec init ops
    (max = none ∧ blackHoleGlue s max = (s, .glue none))
    ∨ (∃ m, max = some m
        ∧ blackHoleGlue s max =
          ({ s with outgoing := s.outgoing.filter (keep m), outgoingTotal := sumLen (s.outgoing.filter (keep m)),
                    sendBlocked := s.sendBlocked && !(s.outgoing.any (fun d => !keep m d)) },
           .glue (some (s.outgoing.any (fun d => !keep m d), s.outgoing.any (fun d => !keep m d) && s.sendBlocked)))) :=
  blackHoleGlue_char _ (exec_inv ops init init_inv hw).out max

/-- the blocked flag agrees with `has_send_buffer_space` as the code defines it: `send` answers `Blocked` iff the
    size checks pass, `drop` is false and the predicate is false; exactly then the flag is set (nothing else
    changes), otherwise `send` leaves the flag alone -/
theorem blocked_flag_agrees (ops : List Op) (hw : ∀ op ∈ ops, op.WF) (d : Bytes) (drop en : Bool) (max : Option Nat)
    (b : Nat) (hop : (Op.send d drop en max b).WF) :
    let s := exec init ops
    ((send s d drop en max b).2 = .sendErr (.blocked d) ↔
      en = true ∧ (∃ m, max = some m ∧ d.length ≤ Nat.min m b) ∧ drop = false ∧ hasSendBufferSpace s d.length b = false)
    ∧ ((send s d drop en max b).2 = .sendErr (.blocked d) → (send s d drop en max b).1 = { s with sendBlocked := true })
    ∧ ((send s d drop en max b).2 ≠ .sendErr (.blocked d) → (send s d drop en max b).1.sendBlocked = s.sendBlocked) :=
  send_blocked_iff _ (exec_inv ops init init_inv hw) d drop en max b hop.1 hop.2

/-- `send_buffer_space()` agrees with the admission predicate: a datagram of at most that many bytes is admitted
    without eviction, a longer one is not -/
theorem send_buffer_space_agrees (b : Nat) (hb : b < 2^64) (ops : List Op)
    (hw : ∀ op ∈ ops, op.WF ∧ ∀ d drop en max b', op = .send d drop en max b' → b' = b) (len : Nat) :
    len ≤ sendBufferSpace (exec init ops) b ↔ hasSendBufferSpace (exec init ops) len b = true :=
  space_agrees _ len b hb (total_le_fixed b ops init init_inv (Nat.zero_le _) hw)

/-- `drop_oversized(max_payload)` keeps, in order, exactly the datagrams strictly shorter than `max_payload`,
    keeps the accounting, and reports whether anything was dropped -/
theorem drop_oversized_keeps_shorter (ops : List Op) (hw : ∀ op ∈ ops, op.WF) (m : Nat) :
    let s := exec init ops
    dropOversized s m =
      ({ s with outgoing := s.outgoing.filter (fun d => decide (d.length < m)),
                outgoingTotal := sumLen (s.outgoing.filter (fun d => decide (d.length < m))) },
       .dropped (s.outgoing.any (fun d => !decide (d.length < m)))) := by
  have h := dropOversized_char _ (exec_inv ops init init_inv hw).out m
  have hk : keep m = fun d => decide (d.length < m) := by funext d; simp [keep, Gen.dgKeep]
  rw [hk] at h; exact h

/-- `max_size()`: `None` iff the peer did not advertise support; it panics iff the MTU is below overhead +
    SIZE_BOUND; otherwise `max + overhead + SIZE_BOUND ≤ current_mtu` and `max ≤ peer limit − SIZE_BOUND`
    (it is exactly the smaller of the two budgets) -/
theorem max_size_le_packet (mtu oh : Nat) (peer : Option Nat) :
    (maxSize mtu oh peer = none ↔ mtu < oh + Gen.dgSizeBound)
    ∧ ∀ r, maxSize mtu oh peer = some r →
        (r = none ↔ peer = none)
        ∧ ∀ m, r = some m → m + oh + Gen.dgSizeBound ≤ mtu
            ∧ ∃ p, peer = some p ∧ m ≤ p - Gen.dgSizeBound
            ∧ m = Nat.min (p - Gen.dgSizeBound) (mtu - oh - Gen.dgSizeBound) :=
  ⟨maxSize_none_iff mtu oh peer, fun r h => maxSize_some mtu oh peer r h⟩

/-- with a legal path MTU (≥ 1200) and legal CID lengths `max_size()` cannot panic, with 1-RTT keys (`scid = none`)
    or with 0-RTT keys only (`scid = some l`, long header) -/
theorem max_size_no_panic (mtu cid : Nat) (scid : Option Nat) (peer : Option Nat) (hm : Gen.initialMtu ≤ mtu)
    (hc : cid ≤ 20) (hs : ∀ l, scid = some l → l ≤ 20) :
    maxSize mtu (overhead cid scid) peer ≠ none := by
  intro h
  have h1 := (maxSize_none_iff mtu (overhead cid scid) peer).1 h
  have h2 := overhead_le cid scid hc hs
  simp only [Gen.initialMtu, Gen.dgSizeBound] at *
  omega

/-- never oversized: every datagram `send` can accept (`len ≤ max_size()`) fits, as one whole frame, the frame
    budget `current_mtu − overhead` of an otherwise empty 1-RTT packet -/
theorem accepted_datagram_fits_packet (mtu oh : Nat) (peer : Option Nat) (m : Nat)
    (h : maxSize mtu oh peer = some (some m)) (hmtu : mtu < 2^62) (d : Bytes) (hd : d.length ≤ m) :
    ∃ fs, frameSize d = some fs ∧ fs ≤ mtu - oh :=
  fits_packet mtu oh peer m h hmtu d hd

/-- never oversized, on the packet as it is really built (layouts from RFC 9000 §17.2.3 / §17.3.1, not from the
    code): every datagram `send` can accept (`len ≤ max_size()`) fits as one whole frame a packet of at most
    `current_mtu` bytes with the header really in use — the 1-RTT short header with the current remote CID
    (`scid = none`) or, while only 0-RTT keys exist, the 0-RTT long header with the local CID of `l` bytes
    (`scid = some l`) — for every packet-number length (audit SD-13) -/
theorem accepted_datagram_fits_real_packet (mtu dcid : Nat) (scid : Option Nat) (peer : Option Nat) (m : Nat)
    (h : maxSize mtu (overhead dcid scid) peer = some (some m)) (hmtu : mtu < 2^62) (d : Bytes) (hd : d.length ≤ m)
    (pn : Nat) (hpn : pn ≤ 4) :
    ∃ fs, frameSize d = some fs ∧ dataPacketLen dcid scid pn fs Gen.dgTagLenGuess ≤ mtu :=
  fits_real_packet mtu dcid scid peer m h hmtu d hd pn hpn

/-- the purge at the top of every `poll_transmit` (`drop_unsendable_datagrams`): with `max_size() = Some(m)` it
    removes exactly the maximal prefix of queued datagrams longer than `m` — nothing that still fits, nothing
    behind a datagram that fits —, keeps the accounting, and clears `send_blocked` (emitting `DatagramsUnblocked`)
    exactly when it was set and something was dropped -/
theorem purge_glue (ops : List Op) (hw : ∀ op ∈ ops, op.WF) (max : Option Nat) :
    let s := exec init ops
    (max = none ∧ purgeGlue s max = (s, .glue none))
    ∨ (∃ m, max = some m
        ∧ purgeGlue s max =
          ({ s with outgoing := s.outgoing.dropWhile (unfit m), outgoingTotal := sumLen (s.outgoing.dropWhile (unfit m)),
                    sendBlocked := s.sendBlocked && !(headUnfit m s.outgoing) },
           .glue (some (headUnfit m s.outgoing, headUnfit m s.outgoing && s.sendBlocked)))) :=
  purgeGlue_char _ (exec_inv ops init init_inv hw).out max

/-- no unsendable datagram blocks the queue: whatever made the maximum shrink since a datagram was accepted (a
    migration to a fresh path, `path_changed`, a longer remote CID, a black hole, the handshake), after the purge
    that precedes every transmission the datagram `write` takes next is within the CURRENT maximum `m` -/
theorem no_unsendable_datagram_queued (ops : List Op) (hw : ∀ op ∈ ops, op.WF) (m : Nat) (d : Bytes) (rest : List Bytes)
    (h : (purgeGlue (exec init ops) (some m)).1.outgoing = d :: rest) : d.length ≤ m := by
  rcases purgeGlue_char _ (exec_inv ops init init_inv hw).out (some m) with ⟨hn, _⟩ | ⟨m', hm', hp⟩
  · cases hn
  · cases hm'
    rw [hp] at h
    exact head_dropWhile_fits m _ d rest h

/-- ... and is therefore really written: after the purge with `m = max_size()`, `write` into an empty packet with
    the frame budget `current_mtu − overhead` succeeds whenever the queue is not empty (liveness of the queue) -/
theorem purged_head_is_written (ops : List Op) (hw : ∀ op ∈ ops, op.WF) (mtu oh : Nat) (peer : Option Nat) (m : Nat)
    (hm : maxSize mtu oh peer = some (some m)) (hmtu : mtu < 2^62) :
    let s := (purgeGlue (exec init ops) (some m)).1
    s.outgoing = [] ∨ ∃ buf, (write s [] (mtu - oh)).2 = .wrote true buf := by
  intro s
  have hi := exec_inv ops init init_inv hw
  have hs : Inv s := (step_inv _ hi (.purgeGlue (some m)) trivial).1
  rcases write_char s hs [] (mtu - oh) with ⟨_, hq | ⟨d, rest, fs, hq, hfs, hlt⟩⟩ | ⟨d, rest, fs, fr, _, _, _, _, _, hwr⟩
  · exact Or.inl hq
  · have hd := no_unsendable_datagram_queued ops hw m d rest hq
    obtain ⟨fs', hfs', hle⟩ := fits_packet mtu oh peer m hm hmtu d hd
    rw [hfs] at hfs'; cases hfs'
    simp only [List.length_nil, Nat.zero_add] at hlt
    omega
  · exact Or.inr ⟨_, by rw [hwr]⟩

def b (n : Nat) : Bytes := List.replicate n 7

/-! ### RFC 9221 §3: the two `max_datagram_frame_size` limits (audit SD-17, SD-26) — full statements, the
    counterexamples the current code admits, and what does hold -/

/-- RECEIVER (RFC 9221 §3: "An endpoint that receives a DATAGRAM frame that is larger than the value it sent in
    its max_datagram_frame_size transport parameter MUST terminate the connection with an error of type
    PROTOCOL_VIOLATION").  The value sent is `Gen.dgAdvertisedFrameSize window` and covers type, length and
    payload; the smallest frame carrying `d` (no length field) has `1 + d.length` bytes.  Full statement:
    `received` answers "oversized datagram" exactly when even that smallest frame exceeds the advertised value. -/
def received_oversized_iff_frame_gt_advertised_statement : Prop :=
  ∀ (d : Bytes) (w : Nat),
    (received init d (some w)).2 = .rcvErr .oversized ↔ Gen.dgAdvertisedFrameSize w < 1 + d.length

/-- witness: receive buffer (= advertised frame size) 5, payload 5: a frame of at least 6 bytes is accepted -/
def oversizedWitness : Bytes × Nat := (b 5, 5)

/-- FINDING (key `dgram-oversized-vs-advertised`): the code compares the PAYLOAD with the buffer size -/
theorem received_oversized_iff_frame_gt_advertised_counterexample :
    ¬ received_oversized_iff_frame_gt_advertised_statement := by
  intro h
  have := (h oversizedWitness.1 oversizedWitness.2).2 (by decide)
  revert this; decide

/-- what holds: the code rejects exactly the payloads longer than the buffer, and such a rejection is never wrong
    (every frame carrying the payload exceeds the advertised value); the converse fails by at most the frame
    overhead (`w.min 65535 - 1 < len ≤ w`) -/
theorem received_oversized_partial (ops : List Op) (hw : ∀ op ∈ ops, op.WF) (d : Bytes) (w : Nat) :
    ((received (exec init ops) d (some w)).2 = .rcvErr .oversized ↔ w < d.length)
    ∧ (w < d.length → Gen.dgAdvertisedFrameSize w < 1 + d.length) := by
  refine ⟨?_, fun h => by simp only [Gen.dgAdvertisedFrameSize, Nat.min_def]; split <;> omega⟩
  rcases received_char _ (exec_inv ops init init_inv hw).inc d (some w) with
    ⟨hn, _⟩ | ⟨w', hw', hlt, h⟩ | ⟨w', hw', hle, _, h⟩ | ⟨w', k, hw', hc, h, _, _⟩
  · cases hn
  · cases hw'; rw [h]; simp [hlt]
  · cases hw'; rw [h]; simp only [reduceCtorEq, false_iff]; omega
  · cases hw'; rw [h]; simp only [reduceCtorEq, false_iff]; have := len_le_recvCost d; omega

/-- SENDER (RFC 9221 §3: the peer's max_datagram_frame_size bounds the whole frame; 0 = DATAGRAM not supported).
    Full statement: the frame written for any datagram `send` can accept is within the peer's limit. -/
def send_respects_peer_limit_statement : Prop :=
  ∀ (mtu oh p m : Nat) (d : Bytes), maxSize mtu oh (some p) = some (some m) → mtu < 2^62 → d.length ≤ m →
    ∃ fs, frameSize d = some fs ∧ fs ≤ p

/-- FINDING (key `dgram-send-exceeds-peer-limit`): peer limit 0 ("unsupported") or 1 gives `max_size() = Some(0)`
    and an empty datagram is sent as a 2-byte frame -/
theorem send_respects_peer_limit_counterexample : ¬ send_respects_peer_limit_statement := by
  intro h
  obtain ⟨fs, hfs, hle⟩ := h 1200 29 0 0 [] (by decide) (by decide) (by decide)
  have : frameSize [] = some 2 := by decide
  rw [this] at hfs; cases hfs; omega

/-- what holds: for every peer limit of at least 2 bytes the frame is within the limit -/
theorem send_respects_peer_limit_partial (mtu oh p m : Nat) (d : Bytes) (h : maxSize mtu oh (some p) = some (some m))
    (hmtu : mtu < 2^62) (hp : 2 ≤ p) (hd : d.length ≤ m) : ∃ fs, frameSize d = some fs ∧ fs ≤ p := by
  obtain ⟨hfit, p', hp', hmp, _⟩ := (maxSize_some mtu oh (some p) _ h).2 m rfl
  cases hp'
  by_cases h0 : d.length = 0
  · have : d = [] := List.eq_nil_of_length_eq_zero h0
    subst this
    exact ⟨2, by decide, hp⟩
  · obtain ⟨fs, fr, hfs, _, _, hbound, _⟩ := frame_ok d (by omega)
    refine ⟨fs, hfs, ?_⟩
    simp only [Gen.dgSizeBound] at *
    omega

/-! ### non-vacuity (concrete runs meeting the hypotheses) and an observation -/


/-- three sends into a 10-byte buffer: the third blocks, the fourth (drop) evicts only the oldest -/
def demoOps : List Op :=
  [.send (b 4) false true (some 100) 10, .send (b 5) false true (some 100) 10,
   .send (b 3) false true (some 100) 10, .send (b 3) true true (some 100) 10]

example : ∀ op ∈ demoOps, op.WF := by
  intro op h
  simp only [demoOps, List.mem_cons, List.mem_nil_iff, or_false] at h
  rcases h with rfl | rfl | rfl | rfl <;> exact ⟨by decide, fun m hm => by cases hm; decide⟩
example : (exec init demoOps).outgoing = [b 5, b 3] ∧ (exec init demoOps).outgoingTotal = 8
    ∧ (exec init demoOps).sendBlocked = true := by decide
example : (trace init demoOps).map (·.2) = [.sendOk, .sendOk, .sendErr (.blocked (b 3)), .sendOk] := by decide
example : (send (exec init demoOps) (b 11) true true (some 100) 10).2 = .sendErr .tooLarge := by decide

/-- receive window 6: the third datagram evicts the oldest only; recv then returns the survivors in order -/
def demoRecv : List Op :=
  [.received (b 2) (some 6), .received (b 3) (some 6), .received (b 2) (some 6), .recv, .received (b 7) (some 6), .recv, .recv]

example : accepted (trace init demoRecv) = [b 2, b 3, b 2] ∧ delivered (trace init demoRecv) = [b 3, b 2]
    ∧ (exec init demoRecv).incoming = [] := by decide
example : (received (exec init demoRecv) (b 7) (some 6)).2 = .rcvErr .oversized := by decide

/-- a flood of empty DATAGRAM frames into a 2-byte receive buffer (corpus/dgram/zero-length-flood.ops): two stay -/
def demoFlood : List Op := List.replicate 5 (.received [] (some 2))

example : ∀ op ∈ demoFlood, op.WF ∧ ∀ d w', op = .received d (some w') → w' = 2 := by
  intro op h
  simp only [demoFlood, List.mem_replicate] at h
  rcases h with ⟨_, rfl⟩
  exact ⟨trivial, fun d w' h => by cases h; rfl⟩
example : (exec init demoFlood).incoming = [[], []] ∧ (exec init demoFlood).recvBuffered = 2 := by decide
example : (exec init [.received [] (some 0), .received [] (some 0)]).incoming = []
    ∧ (received init [] (some 0)).2 = .rcvOk false := by decide
example : (write (exec init demoOps) [0xee] 8).2 = .wrote true [0xee, 0x31, 5, 7, 7, 7, 7, 7]
    ∧ (write (exec init demoOps) [0xee] 7).2 = .wrote false [0xee] := by decide
example : (writeLoop (exec init demoOps) [] 12).2 = .loop 1 [0x31, 5, 7, 7, 7, 7, 7] true := by decide
example : maxSize 1200 (overhead 8 none) (some 65535) = some (some 1162) ∧ maxSize 37 (overhead 8 none) none = none
    ∧ maxSize 1200 (overhead 8 (some 8)) (some 65535) = some (some 1146) := by decide
/-- a 1162-byte datagram in a 1-RTT packet (8-byte CID, 4-byte packet number): 1194 ≤ 1200; the same datagram in a
    0-RTT packet would need 1210 bytes — `max_size()` is 1146 there, and 1146 bytes make 1194 again -/
example : dataPacketLen 8 none 4 (1 + 2 + 1162) 16 = 1194 ∧ dataPacketLen 8 (some 8) 4 (1 + 2 + 1162) 16 = 1210
    ∧ dataPacketLen 8 (some 8) 4 (1 + 2 + 1146) 16 = 1194 := by decide
/-- the queue of `demoOps` ([5 bytes, 3 bytes], blocked) after the maximum shrank to 4: the purge drops the head,
    reports `DatagramsUnblocked`, and the 3-byte datagram is written -/
example : (purgeGlue (exec init demoOps) (some 4)).1.outgoing = [b 3]
    ∧ (purgeGlue (exec init demoOps) (some 4)).2 = .glue (some (true, true))
    ∧ (purgeGlue (exec init demoOps) (some 5)).2 = .glue (some (false, false)) := by decide
example : decodeFrame ([0x31, 2, 9, 8] ++ [1]) = some ([9, 8], [1]) := by decide

/-- OBSERVATION (not a violation: datagrams may be dropped): after a black hole the glue calls
    `drop_oversized(max_size())`, which also discards a queued datagram of exactly `max_size()` bytes although
    `send` accepts that length and it still fits a packet (`<` where `send` uses `≤`) -/
theorem drop_oversized_drops_exact_max :
    (send init (b 5) false true (some 5) 10).2 = .sendOk
    ∧ (blackHoleGlue (send init (b 5) false true (some 5) 10).1 (some 5)).1.outgoing = [] := by decide

end QM.Props.C16
