import QuinnModel.Conn.NewCidSend
/-
C09 — "This holds across connection-ID issuance, rotation and retirement": rotation must not end the connection.
RFC 9000 19.15: "The value in the Retire Prior To field MUST be less than or equal to the value in the Sequence
Number field. Receiving a value in the Retire Prior To field that is greater than that in the Sequence Number field
MUST be treated as a connection error of type FRAME_ENCODING_ERROR."  A quinn peer does exactly that
(frame.rs `Iter`: `retire_prior_to > sequence` is `Malformed`), so one such frame closes the connection.

`NewCidSend.run` is the transmit side (issuance, lifetime expiry moving `retire_seq`, the NEW_CONNECTION_ID loop of
`populate_packet`, loss and retransmission); the value written into the field is the generated
`Gen.newCidRetirePriorTo` (re-translated from connection/mod.rs on every check).  The theorems quantify over ALL
histories.  Found by the simulator scenario `multi` (`routing-sent-undecodable-frame`, `isolation-lost`).
-/
namespace QM.Props.C09_newcid
open QM QM.NewCidSend

/-- Every NEW_CONNECTION_ID frame ever emitted, first transmission or retransmission, whatever the CID lifetimes
    did in between, has Retire Prior To ≤ Sequence Number. -/
theorem retire_prior_to_le_sequence (issued : Nat) (ops : List Op) :
    ∀ f ∈ (run (init issued) ops).frames, f.2 ≤ f.1 := by
  suffices h : ∀ (ops : List Op) (s : St), (∀ f ∈ s.frames, f.2 ≤ f.1) → ∀ f ∈ (run s ops).frames, f.2 ≤ f.1 from
    h ops (init issued) (by intro f hf; cases hf)
  intro ops
  induction ops with
  | nil => intro s hs; exact hs
  | cons o os ih =>
    intro s hs
    apply ih
    cases o with
    | issue n => exact hs
    | expire r =>
      simp only [step]
      split <;> exact hs
    | send =>
      simp only [step]
      split
      · exact hs
      · intro f hf
        simp only [List.mem_append, List.mem_singleton] at hf
        cases hf with
        | inl h => exact hs f h
        | inr h => subst h; exact Nat.min_le_right _ _
    | lost k =>
      simp only [step]
      split <;> exact hs
    | acked k => exact hs

/-- ... and it never asks for less retirement than the connection decided, unless the CID announced is itself
    due for retirement: the field is `retire_seq` whenever that is legal. -/
theorem retire_prior_to_is_threshold_when_legal (r q : Nat) (h : r ≤ q) : Gen.newCidRetirePriorTo r q = r :=
  Nat.min_eq_left h

/-- The statement for the code as it was (`retire_prior_to: self.local_cid_state.retire_prior_to()`). -/
def old_statement : Prop :=
  ∀ (issued : Nat) (ops : List Op), ∀ f ∈ (runOld (init issued) ops).frames, f.2 ≤ f.1

/-- Two CIDs are issued and sent, their lifetime ends (`retire_seq` = 3), the packet that carried sequence 1 is
    lost and the frame goes out again: (Sequence Number 1, Retire Prior To 3). -/
def old_witness : List Op := [.issue 2, .send, .send, .expire 3, .lost 0, .send]

theorem old_counterexample : ¬ old_statement := by
  intro h
  have := h 1 old_witness (1, 3) (by decide)
  exact absurd this (by decide)

/-- non-vacuity: a history with rotation, loss and retransmission in which four frames were emitted -/
example : (run (init 1) [.issue 2, .send, .send, .expire 3, .lost 0, .send, .issue 1, .send]).frames
    = [(1, 0), (2, 0), (1, 1), (3, 3)] := by decide

end QM.Props.C09_newcid
