import QuinnModel.Lemmas.Frame
/-
C10 (frames) — Wire encodings round-trip and decoders are total: every frame kind of quinn-proto/src/frame.rs.
(property theorems only; model in Wire/Frame.lean, proofs in Lemmas/Frame.lean)

`encode f = none` models a panic of the encoder (a field ≥ 2^62 given to `write_var`); the decoder
`decodeOne` mirrors `frame::Iter::try_next` and is a total function on byte strings.
-/
namespace QM.Props.C10_frames
open QM QM.Wire QM.Wire.Frame

/-- every well-formed frame of every kind (STREAM with all OFF/LEN/FIN combinations, ACK with and without ECN
    counts, both MAX_STREAMS / STREAMS_BLOCKED directions, both close forms, …): decoding its encoding followed
    by arbitrary bytes `r` yields the frame and exactly `r` -/
theorem frame_roundtrip (f : Frame) (h : wellFormed f) (r : Bytes) :
    ∃ e, encode f = some e ∧ decodeOne (e ++ r) = .ok (f, r) :=
  roundtrip f h r

/-- the same for the length-less STREAM / DATAGRAM form used for the last frame of a packet (r = []) -/
theorem frame_roundtrip_last (f : Frame) (h : wellFormed f) :
    ∃ e, encodeLast f = some e ∧ decodeOne e = .ok (f, []) :=
  roundtrip_last f h

/-- for ALL byte strings the decoder returns an error, or a frame together with a strictly shorter
    remainder that is a suffix of the input (it never reads past the buffer and always makes progress) -/
theorem decode_total (bs : Bytes) :
    (∃ e, decodeOne bs = .error e) ∨
    (∃ f r, decodeOne bs = .ok (f, r) ∧ r.length < bs.length ∧ r <:+ bs) :=
  Frame.decode_total bs

/-- … and the error is never the model's `panic` outcome: the one unchecked `copy_to_slice` of
    `try_next` (the reset token of NEW_CONNECTION_ID) is covered by the length guard in front of it -/
theorem decode_no_panic (bs : Bytes) : decodeOne bs ≠ .error .panic :=
  Frame.decode_no_panic bs

/-- iterating a whole payload terminates within `payload.length` steps (the fuel of the executable
    iteration is never exhausted) -/
theorem iter_terminates (payload : Bytes) (res : IterResult) (h : iter payload = some res) :
    res.outOfFuel = false :=
  iter_never_out_of_fuel payload res h

/-- CONNECTION_CLOSE whose reason is truncated to fit `max_len` still decodes to the same error code and
    frame type and to exactly the announced prefix of the reason (`connFixed` = the bytes the budget reserves) -/
theorem close_truncation (withLen : Bool) (maxLen code : Nat) (ft : Option Nat) (reason : Bytes)
    (hc : code < 2^62) (hl : reason.length < 2^62) (hft : ∀ x, ft = some x → x < 2^62 ∧ x ≠ 0)
    (hm : connFixed (ftRaw ft) reason ≤ maxLen) (r : Bytes) :
    ∃ e, encodeWith withLen maxLen (.closeConn code ft reason) = some e ∧
      decodeOne (e ++ r) = .ok (.closeConn code ft (reason.take (connKeep maxLen (ftRaw ft) reason)), r) :=
  closeConn_trunc withLen maxLen code ft reason hc hl hft hm r

/-- the same for APPLICATION_CLOSE -/
theorem close_truncation_app (withLen : Bool) (maxLen code : Nat) (reason : Bytes)
    (hc : code < 2^62) (hl : reason.length < 2^62) (hm : appFixed code reason ≤ maxLen) (r : Bytes) :
    ∃ e, encodeWith withLen maxLen (.closeApp code reason) = some e ∧
      decodeOne (e ++ r) = .ok (.closeApp code (reason.take (appKeep maxLen code reason)), r) :=
  closeApp_trunc withLen maxLen code reason hc hl hm r

/-- for every frame kind with a `SIZE_BOUND` constant (generated from the source): the encoding is at most
    the bound plus the variable-length payload (stream / crypto / datagram data, close reason) -/
theorem encoded_size_le_bound (f : Frame) (withLen : Bool) (maxLen : Nat) (e : Bytes) (b : Nat)
    (hw : wellFormed f) (he : encodeWith withLen maxLen f = some e) (hb : sizeBound f = some b) :
    e.length ≤ b + payloadLen f :=
  Frame.encoded_size_le_bound f withLen maxLen e b hw he hb

/-- APPLICATION_CLOSE written under `max_len` occupies at most `max_len` bytes, for EVERY error code and
    reason, whenever `max_len` is at least the SIZE_BOUND the caller checks (then the budget arithmetic cannot
    underflow either: the encoder does not panic).  [Holds since `ApplicationClose::encode` budgets
    `self.error_code.size()`; with the former constant `3` it failed for codes ≥ 2^14.] -/
theorem close_fits_max_len (withLen : Bool) (maxLen code : Nat) (reason : Bytes)
    (hc : code < 2^62) (hl : reason.length < 2^62) (hm : Gen.sizeBoundApplicationClose ≤ maxLen) :
    ∃ e, encodeWith withLen maxLen (.closeApp code reason) = some e ∧ e.length ≤ maxLen := by
  have hfix := closeApp_no_underflow maxLen code reason hc hl hm
  have he := closeApp_enc withLen maxLen code reason hc hl hfix
  exact ⟨_, he, closeApp_fits withLen maxLen code reason _ hc hl he⟩

/-- CONNECTION_CLOSE likewise, for every transport error code the crate can construct (`errors!` table and
    `Code::crypto`, maximum generated from the source; `Code` itself is a `u64` newtype, so this is an
    invariant of construction, not of the type) -/
theorem close_fits_max_len_conn (withLen : Bool) (maxLen code : Nat) (ft : Option Nat) (reason : Bytes)
    (hc : code ≤ Gen.transportErrorCodeMax) (hl : reason.length < 2^62)
    (hft : ∀ x, ft = some x → x < 2^62 ∧ x ≠ 0) (hm : Gen.sizeBoundConnectionClose ≤ maxLen) :
    ∃ e, encodeWith withLen maxLen (.closeConn code ft reason) = some e ∧ e.length ≤ maxLen := by
  have hc14 : code < 2^14 := by simp only [Gen.transportErrorCodeMax] at hc; omega
  have hty := ftRaw_lt ft hft
  have hfix := closeConn_no_underflow maxLen (ftRaw ft) reason hty hl hm
  have he := closeConn_enc withLen maxLen code ft reason (by omega) hl hty hfix
  exact ⟨_, he, closeConn_fits withLen maxLen code ft reason _ hc14 hl hft he⟩

-- non-vacuity: concrete well-formed frames of the interesting kinds
example : wellFormed (.stream 4 70000 true [1, 2, 3]) := by simp [wellFormed, V]
example : wellFormed (.ack 100 5 3 [(1, 2), (0, 0)] (some (1, 2, 3))) := by
  simp [wellFormed, V, ackChain]
example : wellFormed (.newConnectionId 5 2 [1, 2, 3, 4, 5] (List.replicate 16 7)) := by simp [wellFormed, V]
example : wellFormed (.closeConn 10 (some 6) [104, 105]) := by simp [wellFormed, V]
example : sizeBound (.stream 4 70000 true [1, 2, 3]) = some 25 := rfl
example : connFixed (ftRaw (some 6)) [104, 105] ≤ 8 := by
  have h1 : (encB (ftRaw (some 6))).length = 1 := encB_len_one (by decide)
  have h2 : (encB ([104, 105] : Bytes).length).length = 1 := encB_len_one (by decide)
  unfold connFixed; omega
-- the former overrun witness (code 2^30, 80-byte reason, max_len 30) now fits: 30 ≥ SIZE_BOUND = 17
example : (2^30 : Nat) < 2^62 ∧ (List.replicate 80 (0 : Nat)).length < 2^62 ∧ Gen.sizeBoundApplicationClose ≤ 30 := by
  refine ⟨by decide, by simp, by decide⟩
example : (0x1ff : Nat) ≤ Gen.transportErrorCodeMax ∧ Gen.sizeBoundConnectionClose ≤ 26 := by decide

end QM.Props.C10_frames
