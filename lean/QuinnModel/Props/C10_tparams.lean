import QuinnModel.Lemmas.TransportParams
/-
C10 (transport parameters) — Wire encodings round-trip and decoders are total:
`TransportParameters::{write, read}` of quinn-proto/src/transport_parameters.rs.
(property theorems only; model in Wire/TransportParams.lean, proofs in Lemmas/TransportParams.lean)

`write p grease order`: `order` is the `write_order` array the code shuffles with its RNG, `grease` the reserved
parameter it draws; `none` would be a panic of the writer.  `read isServer bs` is a total function on byte
strings; `isServer` is the side of the reader.
-/
namespace QM.Props.C10_tparams
open QM QM.Wire QM.Wire.TP

/-- canonical order (`write_order = None`): reading what was written yields the same parameters, for every
    combination of optional and server-only fields and with or without a reserved (grease) parameter -/
theorem tp_roundtrip_canonical (isServer : Bool) (p : TP) (grease : Option (Nat × Bytes))
    (hw : wellFormed isServer p) (hg : greaseOk grease) :
    ∃ e, write p grease canonicalOrder = some e ∧ read isServer e = .ok p :=
  roundtrip_perm isServer p grease hw hg canonicalOrder (List.Perm.refl _)

/-- the same for EVERY permutation of the write order -/
theorem tp_roundtrip (isServer : Bool) (p : TP) (grease : Option (Nat × Bytes)) (order : List Nat)
    (hw : wellFormed isServer p) (hg : greaseOk grease) (hperm : order.Perm canonicalOrder) :
    ∃ e, write p grease order = some e ∧ read isServer e = .ok p :=
  roundtrip_perm isServer p grease hw hg order hperm

/-- `read` on ALL byte strings returns a parameter set, `Malformed` or `IllegalValue`: the `while` loop
    terminates within its fuel and no unchecked `copy_to_slice` / `advance` can run past the buffer
    (the model's `outOfFuel` and `panic` outcomes are never produced) -/
theorem tp_read_total (isServer : Bool) (bs : Bytes) :
    (∃ p, read isServer bs = .ok p) ∨ read isServer bs = .error .malformed ∨
      read isServer bs = .error .illegalValue :=
  read_total isServer bs

/-- every step of the reader consumes at least one byte and returns a suffix of its input -/
theorem tp_read_step_advances (st : RdState) (bs : Bytes) (st' : RdState) (r : Bytes)
    (h : readOne st bs = .ok (st', r)) : r <:+ bs ∧ r.length < bs.length :=
  (readOne_adv st).suffix bs st' r h

/-- every accepted parameter set satisfies the validation inequalities; a server never accepts the
    server-only parameters from a client -/
theorem tp_semantic_validation (isServer : Bool) (bs : Bytes) (p : TP) (h : read isServer bs = .ok p) :
    p.ackDelayExponent ≤ 20 ∧ p.maxAckDelay < 2^14 ∧ 2 ≤ p.activeConnectionIdLimit ∧
    1200 ≤ p.maxUdpPayloadSize ∧ p.initialMaxStreamsBidi ≤ 2^60 ∧ p.initialMaxStreamsUni ≤ 2^60 ∧
    (∀ m, p.minAckDelay = some m → m ≤ p.maxAckDelay * 1000) ∧
    (isServer = true → p.originalDstCid = none ∧ p.preferredAddress = none ∧ p.retrySrcCid = none ∧
      p.statelessResetToken = none) ∧
    (∀ x, p.preferredAddress = some x → x.cid ≠ []) :=
  read_inequalities isServer bs p h

-- non-vacuity: a client-side reader, every optional and server-only field present
def sample : TP := { TP.default with
  maxIdleTimeout := 30000, maxUdpPayloadSize := 1200, initialMaxStreamsBidi := 16, ackDelayExponent := 2,
  disableActiveMigration := true, maxDatagramFrameSize := some 1200, initialSrcCid := some [],
  greaseQuicBit := true, minAckDelay := some 2000, originalDstCid := some [1, 2], retrySrcCid := some [3],
  statelessResetToken := some (List.replicate 16 171),
  preferredAddress := some { v4 := some ([127, 0, 0, 1], 42), v6 := none, cid := [66], token := List.replicate 16 171 } }

example : wellFormed false sample := by
  constructor <;> simp [sample, TP.default, paOk, addrOk, isUnspecified, semanticallyInvalid,
    Gen.tpDefaultInitialMaxData, Gen.tpDefaultInitialMaxStreamDataBidiLocal, Gen.tpDefaultInitialMaxStreamDataBidiRemote,
    Gen.tpDefaultInitialMaxStreamDataUni, Gen.tpDefaultInitialMaxStreamsUni, Gen.tpDefaultMaxAckDelay,
    Gen.tpDefaultActiveConnectionIdLimit, Gen.tpMaxAckDelayExponent, Gen.tpMaxAckDelayBoundLog,
    Gen.tpMinActiveCidLimit, Gen.tpMinUdpPayload, Gen.tpMaxStreams, Gen.tpMinAckDelayScale]
example : greaseOk (some (31 * 5 + 27, [1, 2, 3])) := by
  intro x hx; cases hx; simp
example : [20, 19, 18, 17, 16, 15, 14, 13, 12, 11, 10, 9, 8, 7, 6, 5, 4, 3, 2, 1, 0].Perm canonicalOrder := by decide

end QM.Props.C10_tparams
