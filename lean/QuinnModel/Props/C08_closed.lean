import QuinnModel.Lemmas.ReceiveClosed
/-
C08 — a connection that has ended reports its reason once: packets that arrive afterwards cannot set another
one, and a draining connection stays silent.   (property theorems only)
Model: `Receive.Closed.step` (Conn/Receive.lean); `Gen.closedIgnoresLateErrors`, `Gen.closedDiscardsUnprotected`
are regenerated from `handle_packet` on every run. The stateless reset is the recorded exception (known findings
`lost-after-local-close:reset`, `lost-reported-twice:*+Reset`: tests::client_stateless_reset requires the report).
-/
namespace QM.Props.C08_closed
open QM QM.Receive QM.Receive.Closed

/-- Whatever reaches a closed, draining or drained connection — authentic packets with illegal reserved bits, a
    key-update error or an empty payload, unprotected packets, forgeries, duplicates — the reason `poll()` reports is
    not set again: only a stateless reset does that. (After a local close `error = false`: nothing is ever reported.) -/
theorem closed_reports_nothing_more (c : CC) (p : CPkt) (hr : p.reset = false) : (step c p).error = c.error :=
  error_only_by_reset c p hr

/-- Over any sequence of such packets -/
theorem closed_reports_nothing_more_run (ps : List CPkt) (hr : ∀ p ∈ ps, p.reset = false) (c : CC) :
    (ps.foldl step c).error = c.error := by
  induction ps generalizing c with
  | nil => rfl
  | cons p ps ih =>
    simp only [List.foldl_cons]
    rw [ih (fun q hq => hr q (by simp [hq])) (step c p), error_only_by_reset c p (hr p (by simp))]

/-- A draining connection stays draining and never owes a CONNECTION_CLOSE (RFC 9000 10.2.2), whatever arrives. -/
theorem draining_stays_silent (c : CC) (p : CPkt) (hs : c.st = .draining) (hr : p.reset = false) :
    (step c p).st = .draining ∧ (step c p).close = c.close :=
  draining_stays c p hs hr

-- non-vacuity: the inputs of SD-15 (authentic, reserved bits set) after a local close and while draining
example : step ⟨.closed, false, false, Dedup.init, 0, 0⟩ ⟨.protectedPkt, 9, true, false, false, false, true, false⟩
    = ⟨.closed, false, true, Dedup.init, 0, 0⟩ := by decide
example : step ⟨.draining, false, false, Dedup.init, 0, 0⟩ ⟨.protectedPkt, 9, true, false, false, false, true, false⟩
    = ⟨.draining, false, false, Dedup.init, 0, 0⟩ := by decide

end QM.Props.C08_closed
