import QuinnModel.Lemmas.StreamsHistMain
import QuinnModel.Lemmas.StreamsUsedMain
/-
C11 — whole-history event theorems.   (property theorems only)

"Application events agree with these states: Finished is emitted at most once and only after a finish()
was fully acknowledged, Stopped once per stopped stream, ... and a remotely initiated stream stops
counting against the concurrency limit exactly when both of its halves are terminal, not before."

A history is `new c` followed by ANY list of operations of the streams component other than `new` /
`rejected` (every transport parameter, both sides, both directions; `params`, frames, acknowledgements,
losses, API calls, `poll`, transmissions in any order).  `trace s0 ops` is the list of its steps (state
before, operation, result, state after; it ends where the implementation would panic) and
`delivered (trace s0 ops)` the list of events `poll` handed to the application.
Restarts: `new` discards the state (`new_resets_history`), so every `new` starts a fresh history;
`rejected` (0-RTT rejection) forgets all locally opened streams and re-issues their ids, so per-id
statements do NOT extend across it (`stopped_twice_across_rejection`: the isolated component allows
it; a connection calls `zero_rtt_rejected` before any 1-RTT frame of the peer can have arrived; with an
acknowledged-and-finished 0-RTT stream `zero_rtt_rejected` panics: `rejected_after_finished_panics`).
-/
namespace QM.Props.C11_hist
open QM QM.Streams

/-- the history contains no restart -/
def NoRestart (ops : List Op) : Prop := ∀ o ∈ ops, o.isRestart = false

/-- the events `poll` handed to the application while `ops` ran from `s0` -/
def run (s0 : State) (ops : List Op) : List Event := delivered (trace s0 ops)

/-- per stream id, the application is handed at most one `Finished` -/
theorem finished_at_most_once {c : Config} {s0 : State} (h0 : State.new c = some s0) (ops : List Op)
    (hn : NoRestart ops) (id : Nat) : (run s0 ops).count (.finished id) ≤ 1 := by
  obtain ⟨s, r⟩ := trace_run ops s0 hn
  exact Nat.le_trans (count_delivered_le _ s _ rfl) ((run_hinv h0 r).finOnce id)

/-- every `Finished id` handed to the application was queued by a step `st` of the history that is the
    acknowledgement completing the stream (`Completes`: the half exists and after this acknowledgement
    it is finished, its FIN acknowledged, no byte unacknowledged — `ack_completes_meaning`), and BEFORE
    that step the application had called `finish(id)` successfully -/
theorem finished_only_after_full_ack {c : Config} {s0 : State} (h0 : State.new c = some s0) (ops : List Op)
    (hn : NoRestart ops) (id : Nat) (hd : Event.finished id ∈ run s0 ops) :
    ∃ l1 st l2, trace s0 ops = l1 ++ st :: l2 ∧ Completes st id ∧ ∃ st0 ∈ l1, FinishOk st0 id := by
  obtain ⟨s, r⟩ := trace_run ops s0 hn
  refine (run_hinv h0 r).finWit id ?_
  unfold Q
  exact List.mem_append_left _ (List.mem_filter.mpr ⟨hd, rfl⟩)

/-- what `Completes` means for the half: the application had finished it (`DataSent`), its FIN is
    acknowledged by this or an earlier acknowledgement, and no byte is left unacknowledged -/
theorem ack_completes_meaning {st : Step} {id : Nat} (h : Completes st id) :
    ∃ (a e : Nat) (fin : Bool) (x x' : Send), st.op = .ack id a e fin ∧ st.pre.send.find? id = some (some x) ∧
      (∃ fa, x.state = .dataSent fa ∧ (fa || fin) = true) ∧ x'.state = .dataSent true ∧
      x'.pending.unackedLen = 0 := by
  obtain ⟨a, e, fin, x, x', ho, hx, hack⟩ := h
  obtain ⟨h1, h2, h3⟩ := Send.ack_done hack
  exact ⟨a, e, fin, x, x', ho, hx, h1, h2, h3⟩

/-- per stream id, the application is handed at most one `Stopped` (whatever the codes) -/
theorem stopped_at_most_once {c : Config} {s0 : State} (h0 : State.new c = some s0) (ops : List Op)
    (hn : NoRestart ops) (id : Nat) : ((run s0 ops).filter (isStoppedOf id)).length ≤ 1 := by
  obtain ⟨s, r⟩ := trace_run ops s0 hn
  refine Nat.le_trans ?_ ((run_hinv h0 r).stpOnce id)
  unfold Q run
  rw [List.filter_append, List.length_append, List.filter_filter]
  have : (fun e => isStoppedOf id e && isFinStop e) = isStoppedOf id := by
    funext e; cases e <;> simp [isStoppedOf, isFinStop]
  rw [this]; omega

/-- every `Stopped id code` handed to the application stems from a STOP_SENDING frame of the peer for
    that stream with that code earlier in the history -/
theorem stopped_only_if_peer_stopped {c : Config} {s0 : State} (h0 : State.new c = some s0) (ops : List Op)
    (hn : NoRestart ops) (id code : Nat) (hd : Event.stopped id code ∈ run s0 ops) :
    ∃ st ∈ trace s0 ops, st.op = .stopSending id code := by
  obtain ⟨s, r⟩ := trace_run ops s0 hn
  refine (run_hinv h0 r).stpWit id code ?_
  unfold Q
  exact List.mem_append_left _ (List.mem_filter.mpr ⟨hd, rfl⟩)

/-- Opened / Readable only for streams the peer actually used: every `Readable id` handed to the application
    stems from a STREAM or RESET_STREAM frame of the peer for stream `id` earlier in the history (`Step.data`); every
    `Opened dir` from a frame of the peer (STREAM, RESET_STREAM, STOP_SENDING, MAX_STREAM_DATA: `Step.names`) for a
    stream of that direction earlier in the history -/
theorem opened_readable_only_used {c : Config} {s0 : State} (h0 : State.new c = some s0) (ops : List Op)
    (hn : NoRestart ops) :
    (∀ id, Event.readable id ∈ run s0 ops → ∃ st ∈ trace s0 ops, st.data id) ∧
    (∀ d, Event.opened d ∈ run s0 ops → ∃ st ∈ trace s0 ops, ∃ id, st.names id ∧ sidDir id = d) := by
  obtain ⟨s, r⟩ := trace_run ops s0 hn
  have i := run_uinv h0 r
  constructor
  · intro id hd
    exact i.rd id (List.mem_append_left _ (List.mem_filter.mpr ⟨hd, rfl⟩))
  · intro d hd
    exact i.op d (List.mem_append_left _ (List.mem_filter.mpr ⟨hd, rfl⟩))

/-- the concurrency slot (see `SlotStep`): at EVERY step of every history the number of released slots
    `max_remote - allocated_remote_count` of a direction grows iff that step takes the last half of a
    remotely initiated stream of that direction out of the maps (the stream had a half before the step
    and has none after it), then by exactly one; no other step changes it and no other remotely
    initiated stream changes between alive and dead -/
theorem slot_released_iff_both_terminal {c : Config} {s0 : State} (h0 : State.new c = some s0) (ops : List Op)
    (hn : NoRestart ops) : ∀ st ∈ trace s0 ops, SlotStep st.pre st.post := by
  obtain ⟨s, r⟩ := trace_run ops s0 hn
  exact run_slot h0 r

/-- exactly once per stream: a stream both of whose halves are terminal stays so in every continuation
    of the history (its id is never re-issued), so no later step releases a slot for it again -/
theorem slot_released_once {c : Config} {s0 s1 s2 : State} (h0 : State.new c = some s0) {tr1 tr2 : List Step}
    (r1 : Run s0 tr1 s1) (r2 : Run s1 tr2 s2) (id : Nat) (ha : s1.hv.allocd id) (hd : dead s1.hv id) :
    dead s2.hv id :=
  (dead_forever r2 (run_hinv h0 r1).ka ha hd).2

/-- (every `trace` is such a history) -/
theorem trace_is_run (s0 : State) (ops : List Op) (hn : NoRestart ops) : ∃ s, Run s0 (trace s0 ops) s :=
  trace_run ops s0 hn

/-- a reader observes one terminal outcome: after the step that showed it end-of-stream or the
    sender's reset code (`read` ending in Fin / Reset, or `received_reset` reporting the code) every
    later `read`, `stop` and `received_reset` on that stream reports a closed stream — in particular
    no second terminal outcome -/
theorem terminal_outcome_unique {c : Config} {s0 : State} (h0 : State.new c = some s0) (ops : List Op)
    (hn : NoRestart ops) (l1 l2 : List Step) (st : Step) (id : Nat) (htr : trace s0 ops = l1 ++ st :: l2)
    (ht : TerminalOutcome st id) : ∀ st' ∈ l2, ReaderOp st' id → st'.out = .errClosed := by
  obtain ⟨s, r⟩ := trace_run ops s0 hn
  exact (run_terminal h0 r htr ht).1

/-- `new` starts a fresh history: nothing of the previous state survives -/
theorem new_resets_history (s s' : State) (c : Config) : step s (.new c) = step s' (.new c) := rfl

/-- the history across a 0-RTT rejection in which stream 0 reports `Stopped` twice: its id is issued
    again after `rejected` -/
def rejectionWitness : List Op :=
  [.params ⟨100, 100, 100, 4, 4, 1000⟩, .open_ .bi, .stopSending 0 7,
   .rejected, .params ⟨100, 100, 100, 4, 4, 1000⟩, .open_ .bi, .stopSending 0 7, .poll, .poll]

def freshClient : Option State := State.new ⟨.client, 2, 2, 1000, 1000, 1000⟩

/-- per-id statements do not extend across `rejected` (which is why it counts as a restart) -/
theorem stopped_twice_across_rejection :
    (freshClient.map fun s0 => run s0 rejectionWitness) = some [.stopped 0 7, .stopped 0 7] := by decide

/-- a 0-RTT stream that was finished and fully acknowledged before the rejection: `zero_rtt_rejected`
    panics (`self.send.remove(&id).unwrap()`: the entry is gone) -/
theorem rejected_after_finished_panics :
    (freshClient.bind fun s0 => (trace s0 [.params ⟨100, 100, 100, 4, 4, 1000⟩, .open_ .bi, .finish 0,
      .transmit 1200 true, .ack 0 0 0 true]).getLast?.map fun st => step st.post .rejected) = some none := by
  decide

/-! ### non-vacuity: concrete histories -/

/-- a client opens stream 0, writes, finishes, the data is sent and acknowledged in two pieces, the
    peer's STOP_SENDING for stream 4 (second bidirectional stream) arrives twice; the application polls -/
def lifeOps : List Op :=
  [.params ⟨100, 100, 100, 4, 4, 1000⟩, .open_ .bi, .open_ .bi, .write 0 10, .finish 0,
   .transmit 1200 true, .ack 0 0 5 false, .poll, .ack 0 5 10 true, .ack 0 5 10 true,
   .stopSending 4 7, .stopSending 4 9, .poll, .poll, .poll]

example : NoRestart lifeOps := by unfold NoRestart lifeOps; decide
example : (freshClient.map fun s0 => run s0 lifeOps) = some [.finished 0, .stopped 4 7] := by decide

/-- a server: the client's bidirectional stream 0 is used (STREAM with FIN), read to the end (receiving
    half terminal, slot still held), then the server finishes its sending half and it is acknowledged:
    only that step releases the slot and issues a new stream (`max_remote` 2 -> 3); a later read reports a
    closed stream -/
def slotOps : List Op :=
  [.params ⟨100, 100, 100, 4, 4, 1000⟩, .stream 0 0 5 true, .poll, .accept .bi, .read 0 100, .finish 0,
   .transmit 1200 true, .ack 0 0 0 true, .read 0 1]

def freshServer : Option State := State.new ⟨.server, 2, 2, 1000, 1000, 1000⟩

example : (freshServer.map fun s0 => run s0 slotOps) = some [.opened .bi] := by decide
example : (freshServer.map fun s0 => run s0 [.params ⟨100, 100, 100, 4, 4, 1000⟩, .stream 0 0 5 false, .poll,
    .stream 0 5 3 false, .poll, .poll]) = some [.opened .bi, .readable 0] := by decide

example : (freshServer.map fun s0 => (trace s0 slotOps).map fun st =>
    (st.post.maxRemote.bi, st.post.allocatedRemoteCount.bi, st.out)) =
    some [(2, 2, .ok), (2, 2, .okFlag false), (2, 2, .event (.opened .bi)), (2, 2, .okNat 0),
      (2, 2, .read 5 .fin false), (2, 2, .ok), (2, 2, .xmit 3 [⟨0, 0, 0, true⟩]), (3, 2, .ok),
      (3, 2, .errClosed)] := by decide

end QM.Props.C11_hist
