import QuinnModel.Lemmas.StreamsC06Facts
import QuinnModel.Lemmas.StreamsC06Sum
import QuinnModel.Lemmas.StreamsRemoteLimit
/-
C06 — A receiver enforces its own limits and buffers a bounded amount (stream layer).
(property theorems only)

Decision: which transport error a STREAM / RESET_STREAM frame produces, and that a refused frame
delivers nothing.  Accounting: invariants over ALL operation sequences from `StreamsState::new`
(`ReachR c s C W U`: state `s` after any interleaving of peer frames, reads, stops, resets, window
changes and every sender-side operation; `C` = stream bytes the application consumed or discarded so
far (`discarded`: bytes read; unread bytes of a stream when it is stopped — none if it was reset before; bytes arriving on a stopped
stream; what a reset discards beyond the read offset — beyond the high-water mark if the stream was
stopped before), `W` = largest connection receive window configured so far, `U` = no saturating addition took
effect).
-/
namespace QM.Props.C06
open QM QM.Streams

/-! ### decision table -/

/-- data beyond the advertised stream limit -> FLOW_CONTROL_ERROR -/
theorem rcv_over_stream_limit {r : Recv} {offset len received maxData : Nat} {fin : Bool}
    {res : Except TErr (Nat × Bool × Recv)} (h : r.ingest offset len fin received maxData = some res)
    (hb : offset + len < 2 ^ 62) (hc : ¬ r.finalSizeConflict (offset + len) fin)
    (hover : offset + len > r.sentMaxStreamData) : res = .error (.flowControl "") := by
  rcases ingest_cases h with ⟨h1, _⟩ | ⟨_, h2, _⟩ | ⟨_, _, _, he⟩ | ⟨_, _, h3, _⟩
  · omega
  · exact absurd h2 hc
  · exact he
  · omega

/-- data beyond the advertised connection limit -> FLOW_CONTROL_ERROR -/
theorem rcv_over_conn_limit {r : Recv} {offset len received maxData : Nat} {fin : Bool}
    {res : Except TErr (Nat × Bool × Recv)} (h : r.ingest offset len fin received maxData = some res)
    (hb : offset + len < 2 ^ 62) (hc : ¬ r.finalSizeConflict (offset + len) fin)
    (hover : received + (offset + len - r.end_) > maxData) : res = .error (.flowControl "") := by
  rcases ingest_cases h with ⟨h1, _⟩ | ⟨_, h2, _⟩ | ⟨_, _, _, he⟩ | ⟨_, _, _, h4, _⟩
  · omega
  · exact absurd h2 hc
  · exact he
  · omega

/-- data past the known final size, or a FIN at a different size -> FINAL_SIZE_ERROR -/
theorem rcv_final_size_stream {r : Recv} {offset len received maxData fo : Nat} {fin : Bool}
    {res : Except TErr (Nat × Bool × Recv)} (h : r.ingest offset len fin received maxData = some res)
    (hb : offset + len < 2 ^ 62) (hfo : r.finalOffset = some fo)
    (hbad : offset + len > fo ∨ (fin = true ∧ offset + len ≠ fo)) : res = .error (.finalSize "") := by
  have hc : r.finalSizeConflict (offset + len) fin := Or.inl ⟨fo, hfo, hbad⟩
  rcases ingest_cases h with ⟨h1, _⟩ | ⟨_, _, he⟩ | ⟨_, h2, _⟩ | ⟨_, h2, _⟩
  · omega
  · exact he
  · exact absurd hc h2
  · exact absurd hc h2

/-- a FIN whose final size lies below data already received on the stream -> FINAL_SIZE_ERROR
    (RFC 9000 4.5), whether or not a final size was known before -/
theorem rcv_final_size_below_received {r : Recv} {offset len received maxData : Nat}
    {res : Except TErr (Nat × Bool × Recv)} (h : r.ingest offset len true received maxData = some res)
    (hb : offset + len < 2 ^ 62) (hlow : offset + len < r.end_) : res = .error (.finalSize "") := by
  have hc : r.finalSizeConflict (offset + len) true := Or.inr ⟨rfl, hlow⟩
  rcases ingest_cases h with ⟨h1, _⟩ | ⟨_, _, he⟩ | ⟨_, h2, _⟩ | ⟨_, h2, _⟩
  · omega
  · exact he
  · exact absurd hc h2
  · exact absurd hc h2

/-- RESET_STREAM with a final size different from the known one -> FINAL_SIZE_ERROR -/
theorem rcv_final_size_reset_mismatch {r : Recv} {code finalOffset received maxData fo : Nat}
    {res : Except TErr (Bool × Recv)} (h : r.reset code finalOffset received maxData = some res)
    (hfo : r.finalOffset = some fo) (hne : fo ≠ finalOffset) :
    res = .error (.finalSize "inconsistent value") := by
  rcases reset_cases h with ⟨fo', h1, _, he⟩ | ⟨h1, _⟩ | ⟨h1, _⟩ | ⟨h1, _⟩
  · exact he
  · rw [hfo] at h1; contradiction
  · simp [Recv.resetSizeErr, hfo, hne] at h1
  · simp [Recv.resetSizeErr, hfo, hne] at h1

/-- RESET_STREAM with a final size below the high-water mark -> FINAL_SIZE_ERROR -/
theorem rcv_final_size_reset_below {r : Recv} {code finalOffset received maxData : Nat}
    {res : Except TErr (Bool × Recv)} (h : r.reset code finalOffset received maxData = some res)
    (hfo : r.finalOffset = none) (hlow : r.end_ > finalOffset) :
    res = .error (.finalSize "lower than high water mark") := by
  rcases reset_cases h with ⟨fo', h1, _⟩ | ⟨_, _, he⟩ | ⟨h1, _⟩ | ⟨h1, _⟩
  · rw [hfo] at h1; contradiction
  · exact he
  · simp [Recv.resetSizeErr, hfo, hlow] at h1
  · simp [Recv.resetSizeErr, hfo, hlow] at h1

/-- a peer stream beyond the advertised stream count -> STREAM_LIMIT_ERROR (STREAM and RESET_STREAM) -/
theorem rcv_stream_id_over_limit {s : State} {id : Nat} (hr : sidInitiator id ≠ s.side)
    (hi : s.maxRemote.get (sidDir id) ≤ sidIndex id) :
    (∀ off len fin, s.received id off len fin = some (s, .error .streamLimit)) ∧
    (∀ code fo, s.receivedReset id code fo = some (s, .error .streamLimit)) :=
  ⟨fun _ _ _ => received_over_limit hr hi, fun _ _ => receivedReset_over_limit hr hi⟩

/-- MAX_STREAM_DATA naming a peer-initiated bidirectional stream at or beyond the advertised stream
    count -> STREAM_LIMIT_ERROR, nothing changes (in particular no stream is opened implicitly) -/
theorem rcv_max_stream_data_over_limit {s : State} {id n : Nat} (hr : sidInitiator id ≠ s.side)
    (hd : sidDir id = .bi) (hi : s.maxRemote.get (sidDir id) ≤ sidIndex id) :
    s.receivedMaxStreamData id n = some (s, some .streamLimit) :=
  receivedMaxStreamData_over_limit hr hd hi

/-- a STREAM frame beyond the advertised stream limit is FLOW_CONTROL_ERROR and changes nothing in EVERY
    state of a receiving half — open or STOPPED by the application (no hypothesis on `stopped`), with or
    without a known final size (as long as the frame does not also break the final size) -/
theorem rcv_stream_beyond_limit_any_half {s : State} {id off len : Nat} {fin : Bool} {rs : Recv}
    (hv : s.validateReceiveId id = none) (hf : s.recv.find? id = some (some rs)) (hrcv : rs.isReceiving = true)
    (hb : off + len < 2 ^ 62) (hc : ¬ rs.finalSizeConflict (off + len) fin)
    (hover : off + len > rs.sentMaxStreamData) :
    s.received id off len fin = some (s, .error (.flowControl "")) := by
  have hing : rs.ingest off len fin s.dataRecvd s.localMaxData = some (.error (.flowControl "")) := by
    have hfe : rs.finalSizeErr (off + len) fin = false := by
      cases h : rs.finalSizeErr (off + len) fin
      · rfl
      · exact absurd ((finalSizeErr_iff _ _ _).mp h) hc
    unfold Recv.ingest Recv.ingestTail Recv.creditConsumedBy
    simp only [Gen.ingestEndBound, Gen.creditOverStream, hfe]
    have h1 : ¬ (off + len ≥ 2 ^ 62) := by omega
    simp [h1, hover]
  exact (received_follows_ingest hv hf hrcv).mpr ⟨rfl, hing⟩

/-- the connection-level entry point reports exactly the verdict of the stream's `ingest` -/
theorem rcv_received_follows_ingest {s s' : State} {id off len : Nat} {fin : Bool} {rs : Recv} {e : TErr}
    (hv : s.validateReceiveId id = none) (hf : s.recv.find? id = some (some rs)) (hrcv : rs.isReceiving = true) :
    s.received id off len fin = some (s', .error e) ↔
      (s' = s ∧ rs.ingest off len fin s.dataRecvd s.localMaxData = some (.error e)) :=
  received_follows_ingest hv hf hrcv

/-- a refused frame delivers nothing: accounting and every receiving half are unchanged
    (the addressed half may have been instantiated, empty) -/
theorem no_delivery_after_error {s s' : State} {id off len : Nat} {fin : Bool} {e : TErr}
    (h : s.received id off len fin = some (s', .error e)) :
    s'.rcore = s.rcore ∧ ∀ k r, s'.rv k = some r → s.rv k = some r ∨ r = Recv.new s.streamReceiveWindow :=
  received_error_no_delivery h

theorem no_delivery_after_reset_error {s s' : State} {id code fo : Nat} {e : TErr}
    (h : s.receivedReset id code fo = some (s', .error e)) :
    s'.rcore = s.rcore ∧ ∀ k r, s'.rv k = some r → s.rv k = some r ∨ r = Recv.new s.streamReceiveWindow :=
  receivedReset_error_no_delivery h

/-! ### accounting invariants -/

/-- `data_recvd` never exceeds the advertised connection limit -/
theorem rcv_data_recvd_le {c : Config} {s : State} {C W : Nat} {U : Prop} (r : ReachR c s C W U)
    (hc : c.receiveWindow < 2 ^ 62) : s.dataRecvd ≤ s.localMaxData :=
  (reachR_inv r hc).1.recvd_le

/-- per stream: high-water mark ≤ advertised stream limit ≤ bytes read + stream window; so at most
    `stream_receive_window` received-but-unread bytes per stream -/
theorem rcv_stream_bound {c : Config} {s : State} {C W : Nat} {U : Prop} (r : ReachR c s C W U)
    (hc : c.receiveWindow < 2 ^ 62) (id : Nat) (rs : Recv) (hf : s.recv.find? id = some (some rs)) :
    rs.end_ ≤ rs.sentMaxStreamData ∧ rs.sentMaxStreamData ≤ rs.assembler.bytesRead + s.streamReceiveWindow ∧
    rs.assembler.bytesRead ≤ rs.end_ ∧ rs.end_ - rs.assembler.bytesRead ≤ s.streamReceiveWindow := by
  have ok := (reachR_inv r hc).1.streams id rs (rv_eq_some.mpr hf)
  have h1 := ok.end_le
  have h2 : rs.sentMaxStreamData ≤ rs.assembler.bytesRead + s.streamReceiveWindow := ok.sent_le
  exact ⟨h1, h2, ok.read_le, by omega⟩

/-- once the final size of a stream is known (FIN or RESET_STREAM), nothing was received beyond it,
    nothing beyond it is buffered, and the application was handed no byte beyond it: in every
    reachable state `bytes_read ≤ end ≤ final size` and every buffered range ends at or below it -/
theorem rcv_final_size_bounds_stream {c : Config} {s : State} {C W : Nat} {U : Prop} (r : ReachR c s C W U)
    (hc : c.receiveWindow < 2 ^ 62) (id : Nat) (rs : Recv) (hf : s.recv.find? id = some (some rs))
    (fo : Nat) (hfo : rs.finalOffset = some fo) :
    rs.end_ ≤ fo ∧ rs.assembler.bytesRead ≤ fo ∧ ∀ a b, (a, b) ∈ rs.assembler.buf → b ≤ fo := by
  have ok := (reachR_inv r hc).1.streams id rs (rv_eq_some.mpr hf)
  have h1 := ok.fin_le fo hfo
  have h2 := ok.read_le
  exact ⟨h1, by omega, fun a b hab => Nat.le_trans (ok.buf_le a b hab) h1⟩

/-- credit is issued only for consumed or discarded data: what is advertised beyond the configured
    window (plus shrinks that are still to be applied) equals the bytes consumed or discarded -/
theorem credit_only_for_consumed {c : Config} {s : State} {C W : Nat} {U : Prop} (r : ReachR c s C W U)
    (hc : c.receiveWindow < 2 ^ 62) (u : U) :
    s.localMaxData = s.receiveWindow + s.receiveWindowShrinkDebt + C :=
  (reachR_inv r hc).2 u

/-- the amount of received-but-unconsumed data (`data_recvd` counts gaps, so this bounds what is
    buffered) never exceeds the largest connection receive window that was ever configured -/
theorem rcv_buffered_bound {c : Config} {s : State} {C W : Nat} {U : Prop} (r : ReachR c s C W U)
    (hc : c.receiveWindow < 2 ^ 62) (u : U) : s.dataRecvd ≤ W + C := by
  have h1 := rcv_data_recvd_le r hc
  have h2 := credit_only_for_consumed r hc u
  have h3 := reachR_window r
  omega

/-- the same bound without the ghost: over any set of distinct streams, the bytes received and not
    yet read on the halves the application can still read from (neither stopped nor reset) never
    exceed the largest connection receive window that was ever configured.  (`unread` and `unreadOn`
    are plain functions of the state; the per-operation definition of "consumed or discarded" behind
    `C` is tied to them by `reachR_kinv`: `C + unread ≤ data_recvd`.) -/
theorem rcv_unread_bound {c : Config} {s : State} {C W : Nat} {U : Prop} (r : ReachR c s C W U)
    (hc : c.receiveWindow < 2 ^ 62) (u : U) (ids : List Nat) (hn : ids.Nodup) :
    s.unreadOn ids ≤ W := by
  have h1 := rcv_buffered_bound r hc u
  have h2 := (reachR_kinv r hc).2 ids hn
  omega

/-- a reset half holds no buffered data any more (`Recv::reset` clears the assembler), in every
    reachable state -/
theorem rcv_reset_clears_buffer {c : Config} {s : State} {C W : Nat} {U : Prop} (r : ReachR c s C W U)
    (hc : c.receiveWindow < 2 ^ 62) (id : Nat) (rs : Recv) (hf : s.recv.find? id = some (some rs))
    (hr : rs.isReceiving = false) : rs.assembler.buf = [] :=
  (reachR_kinv r hc).1 id rs (rv_eq_some.mpr hf) hr

/-- the former F12 history (shrink to 0, expand to 2522): the expansion cancels the unpaid debt, so
    the 2555-byte frame is refused -/
theorem rcv_window_regression_F12 :
    ((State.new F12_config).bind fun s0 => runR s0 0 F12_config.receiveWindow F12_ops).map
      (fun r => (r.1.dataRecvd, r.1.localMaxData, r.1.receiveWindow, r.1.receiveWindowShrinkDebt, r.2.2)) =
      some (0, 2522, 2522, 0, 2522) := by decide

/-- the former F14 history (reset of a stream that was stopped before): the bytes credited by `stop`
    are not credited again, so the 39-byte frame on the other stream is refused -/
theorem rcv_window_regression_F14 :
    ((State.new F14_config).bind fun s0 => runR s0 0 F14_config.receiveWindow F14_ops).map
      (fun r => (r.1.dataRecvd, r.1.localMaxData, r.2.1, r.2.2)) = some (14, 39, 14, 25) := by decide

/-- the former F15 history (stop of a stream that was reset before): the bytes credited on arrival
    of the reset are not credited again by `stop`, so the 118-byte frame on the other stream is
    refused -/
theorem rcv_window_regression_F15 :
    ((State.new F15_config).bind fun s0 => runR s0 0 F15_config.receiveWindow F15_ops).map
      (fun r => (r.1.dataRecvd, r.1.localMaxData, r.2.1, r.2.2)) = some (59, 118, 59, 59) := by decide

/-- the maxsd-beyond-limit history (corpus/streams/maxsd-beyond-limit.ops): a client that advertised
    no peer-initiated streams receives MAX_STREAM_DATA for the server's bidirectional stream 1000:
    STREAM_LIMIT_ERROR, no stream is opened (`next_remote` stays 0), `accept` hands out nothing -/
theorem rcv_regression_maxsd_beyond_limit :
    ((State.new ⟨.client, 0, 0, 100, 100, 100⟩).bind fun s0 =>
      runR s0 0 100 [.params ⟨100, 100, 100, 2, 2, 100⟩, .maxStreamData 4001 5, .poll, .accept .bi]).map
      (fun r => (r.1.nextRemote, r.1.maxRemote, r.1.opened, (r.1.accept .bi).2)) =
      some (⟨0, 0⟩, ⟨0, 0⟩, ⟨false, false⟩, none) ∧
    ((State.new ⟨.client, 0, 0, 100, 100, 100⟩).bind fun s0 => step s0 (.maxStreamData 4001 5)).map (·.2) =
      some (.errT .streamLimit) := by decide

/-- the fin-below-received history (corpus/streams/fin-below-received.ops): 100 bytes received, then a
    FIN announcing final size 50: FINAL_SIZE_ERROR, the stream keeps no final size and its 100 bytes -/
theorem rcv_regression_fin_below_received :
    ((State.new ⟨.server, 2, 2, 1000, 1000, 1000⟩).bind fun s0 =>
      (step s0 (.stream 0 0 100 false)).bind fun r1 => step r1.1 (.stream 0 0 50 true)).map
      (fun r => (r.2, (r.1.rv 0).map fun x => (x.finalOffset, x.end_))) =
      some (.errT (.finalSize ""), some (none, 100)) := by decide

/-- a duplicate RESET_STREAM (retransmission: same stream, same final size, the stream is already
    reset) is a no-op: `Ok`, no state change, in every state and whatever the connection-level credit
    is — in particular never FLOW_CONTROL_ERROR. (`validateReceiveId = none`: the id is one the peer may
    use; it was when the first RESET_STREAM was accepted, and limits only grow.) -/
theorem rcv_duplicate_reset_is_noop {s : State} {id code fo c : Nat} {rs : Recv}
    (hv : s.validateReceiveId id = none) (hf : s.recv.find? id = some (some rs))
    (hst : rs.state = .resetRecvd fo c) : s.receivedReset id code fo = some (s, .ok false) :=
  receivedReset_duplicate hv hf hst

/-- the duplicate-reset history (corpus/streams/dup-reset.ops): window 16 shrunk to 0 (16 of debt), a
    RESET_STREAM with final size 9 (its credit pays debt), the same RESET_STREAM again: accepted, nothing
    changes -/
theorem rcv_regression_duplicate_reset :
    ((State.new ⟨.server, 2, 2, 1000, 16, 16384⟩).bind fun s0 =>
      (runR s0 0 16 [.params ⟨100, 100, 100, 2, 2, 1000⟩, .recvWindow 0, .rst 0 1 9]).bind fun r1 =>
        (step r1.1 (.rst 0 1 9)).map fun r2 => (r2.2, decide (r2.1 = r1.1), r1.1.dataRecvd, r1.1.localMaxData)) =
      some (.okFlag false, true, 9, 16) := by decide

/-- MAX_STREAMS announcement threshold (`queue_max_stream_id`): a raise of the peer-stream limit is
    announced once it reaches an eighth of the concurrency limit, and every raise when the limit is
    below 16 (audit SD-24: with `>` a raise by one was never announced for limits 8 to 15, nor two
    freed streams out of 16, and the peer could not open the streams it was entitled to) -/
theorem max_streams_raise_announced {diff count : Nat} (h1 : 0 < diff) (h2 : count / 8 ≤ diff) :
    Gen.maxStreamsSignificant diff count = true :=
  maxStreamsSignificant_of h1 h2

theorem max_streams_small_limits_always_announced {diff count : Nat} (h1 : 0 < diff) (hc : count < 16) :
    Gen.maxStreamsSignificant diff count = true :=
  maxStreamsSignificant_of h1 (by omega)

example : Gen.maxStreamsSignificant 1 9 = true ∧ Gen.maxStreamsSignificant 2 16 = true ∧
    Gen.maxStreamsSignificant 0 4 = false ∧ Gen.maxStreamsSignificant 3 32 = false := by decide

/-! ### peer-initiated streams stay within the advertised count -/

/-- no frame of any type (STREAM, RESET_STREAM, STOP_SENDING, MAX_STREAM_DATA, ...) and no other
    operation makes the number of peer-initiated streams opened so far exceed what was advertised:
    `next_remote[dir] ≤ max_remote[dir]` in every reachable state, for both directions -/
theorem rcv_remote_streams_within_limit {c : Config} {s : State} {C W : Nat} {U : Prop}
    (r : ReachR c s C W U) (d : Dir) : s.nextRemote.get d ≤ s.maxRemote.get d :=
  (reachR_rl r).1 d

/-- every peer-initiated entry of the `send` map lies below the advertised count (entries are created
    together with the limit), which is why a frame that finds such an entry cannot open too much -/
theorem rcv_remote_entries_within_limit {c : Config} {s : State} {C W : Nat} {U : Prop}
    (r : ReachR c s C W U) (id : Nat) (v : Option Send) (hf : s.send.find? id = some v)
    (hr : sidInitiator id ≠ s.side) : sidIndex id < s.maxRemote.get (sidDir id) :=
  (reachR_rl r).2.1 id (Map.find_mem _ _ _ hf) hr

/-- `accept` hands out the peer's streams in index order, one new index per call, and every index it
    hands out is below the advertised count: at most `max_remote[dir]` ids in total -/
theorem rcv_accept_within_limit {c : Config} {s s' : State} {C W : Nat} {U : Prop}
    (r : ReachR c s C W U) {d : Dir} {id : Nat} (h : s.accept d = (s', some id)) :
    id = sidNew s.side.not d (s.nextReportedRemote.get d) ∧
    s'.nextReportedRemote.get d = s.nextReportedRemote.get d + 1 ∧
    sidIndex id < s.maxRemote.get d ∧ s'.nextReportedRemote.get d ≤ s.maxRemote.get d := by
  obtain ⟨h1, h2, h3⟩ := accept_some h
  have i := reachR_rl r
  have a := i.1 d
  have b := i.2.2 d
  refine ⟨h1, h3, ?_, ?_⟩
  · rw [h1, sidIndex_sidNew]; omega
  · omega

/-- new stream-count credit is issued by `stream_freed` only once both halves of a peer stream are
    gone (a unidirectional stream has one) -/
theorem max_streams_only_after_close {s s' : State} {id : Nat} {half : Half}
    (h : s.freeRemote id half = some s') (hne : s'.maxRemote ≠ s.maxRemote) :
    sidInitiator id ≠ s.side ∧ s.fullyFree id half = true :=
  freeRemote_credit h hne

-- non-vacuity: a reachable state in which data was received, partly read, and credit was issued
example : ∃ s C W U, ReachR ⟨.server, 2, 2, 1000, 100, 50⟩ s C W U ∧ U ∧ s.dataRecvd = 30 ∧ C = 10 ∧
    s.localMaxData = 110 ∧ s.unreadOn [0] = 20 := by
  have h0 : State.new ⟨.server, 2, 2, 1000, 100, 50⟩ = some ((State.new ⟨.server, 2, 2, 1000, 100, 50⟩).get (by decide)) :=
    (Option.some_get _).symm
  have hrun : runR ((State.new ⟨.server, 2, 2, 1000, 100, 50⟩).get (by decide)) 0 100
      [.stream 0 0 10 false, .stream 0 20 10 true, .read 0 100] =
      some ((runR ((State.new ⟨.server, 2, 2, 1000, 100, 50⟩).get (by decide)) 0 100
        [.stream 0 0 10 false, .stream 0 20 10 true, .read 0 100]).get (by decide)) := (Option.some_get _).symm
  obtain ⟨U', r', hU⟩ := reachR_runR _ (ReachR.init h0) (by decide) hrun (by decide)
  exact ⟨_, _, _, U', r', hU trivial, by decide, by decide, by decide, by decide⟩

-- non-vacuity: the bound is reached (a server that advertised 2 bidirectional streams receives data
-- on the second one: both count as opened), and one more is refused
example : ((State.new ⟨.server, 2, 2, 1000, 100, 50⟩).bind fun s0 =>
      runR s0 0 100 [.stream 4 0 1 false, .stream 8 0 1 false]).map
      (fun r => (r.1.nextRemote.get .bi, r.1.maxRemote.get .bi)) = some (2, 2) := by decide

end QM.Props.C06
